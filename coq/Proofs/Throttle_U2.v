(* C03 / Throttle, exact accounting of the running count (part 2: the remaining events, reachability). *)
From Coq Require Import ZArith List Bool Arith Lia.
From RecordUpdate Require Import RecordSet.
From ME Require Import Base.Machine Base.Fut Base.GenPrelude Gen.ThrottleGen Model.Throttle
  Proofs.Throttle_Spec Proofs.Throttle_Inv Proofs.Throttle_Fifo Proofs.Throttle_Tok Proofs.Throttle_TokA Proofs.Throttle_TokB
  Proofs.Throttle_TokC Proofs.Throttle_U1.
Import ListNotations RecordSetNotations.
Local Open Scope Z_scope.

Lemma do_new_invE N s b dy v s' : InvE N s -> (H < N)%nat -> do_new s b dy v = Some s' -> InvE N s'.
Proof.
  intros I Ht Hx. unfold do_new in Hx. brk Hx. inv_some Hx.
  match goal with E : _ || _ = false |- _ => apply orb_false_elim in E; destruct E as [_ E]; apply negb_false_iff in E end.
  destruct (thr s H) eqn:Et; [|discriminate].
  apply (invE_step N s _ H [IHStart] I Ht).
  - intros u. reflexivity.
  - reflexivity.
  - match goal with |- Qx ?x - _ = _ => rewrite (Qx_upd s x H [IHStart]) end; try reflexivity; [simpl; lia|rewrite Et; reflexivity|rewrite Et; reflexivity].
  - intros d. rewrite Et. reflexivity.
Qed.

Lemma do_env_run_invE N s t d p s' : InvE N s -> (t < N)%nat -> do_env_run s t d p = Some s' -> InvE N s'.
Proof.
  intros I Ht Hx. unfold do_env_run in Hx. brk Hx; inv_some Hx; auto.
  apply (invE_step N s _ t (thr s t) I Ht).
  - intros u. simpl. apply upd_eta.
  - reflexivity.
  - match goal with |- Qx ?x - _ = _ => rewrite (Qx_upd s x t (thr s t)) end; try reflexivity; [simpl; lia|intros u; simpl; apply upd_eta].
  - intros d0. reflexivity.
Qed.

Lemma do_env_finish_invE N s t d p o s' : InvE N s -> (t < N)%nat -> do_env_finish s t d p o = Some s' -> InvE N s'.
Proof.
  intros I Ht Hx. unfold do_env_finish in Hx. brk Hx; inv_some Hx; auto.
  split_and. match goal with E : idle s t = true |- _ => pose proof (idle_nil s t E) as Et end.
  apply invE_log.
  match goal with |- InvE N (set_prog ?s1 t ?p') => set (s1' := s1); set (pp := p') end.
  apply (invE_step N s _ t (norm s1' pp) I Ht).
  - intros u. reflexivity.
  - reflexivity.
  - rewrite (Qx_upd s (set_prog s1' t pp) t (norm s1' pp)); try reflexivity.
    + simpl. lia.
    + rewrite q1_norm, Et. unfold pp, q1. rewrite (msum_cb_prog wS d _ good_wS). reflexivity.
    + rewrite q2_norm, Et. unfold pp, q2. rewrite (msum_cb_prog wQ d _ good_wQ). reflexivity.
  - intros d0. rewrite cT_norm, Et. change (dcbs (set_prog s1' t pp) d0) with (upd (dcbs s) d [] d0).
    unfold pp. unfold cT at 1. rewrite (msum_cb_prog (wT d0) d _ (good_wT d0)), wT_decr. unfold upd. rewrite (Nat.eqb_sym d0 d).
    destruct (Nat.eqb d d0) eqn:Ed; [apply Nat.eqb_eq in Ed; subst d0|]; rewrite ?Z.mul_1_l, ?Z.mul_0_l; unfold cT; cbn [msum cb]; lia.
Qed.

Lemma do_fd_invE N s t op d p s' : InvE N s -> (t < N)%nat -> do_fd s t op d p = Some s' -> InvE N s'.
Proof.
  intros I Ht Hx. unfold do_fd in Hx.
  destruct (negb (fstate_eqb p (ds s d))) eqn:Ep; [discriminate|]. apply negb_false_iff, fstate_eqb_eq in Ep.
  destruct (thr s t) as [|i rest] eqn:Et; [discriminate|].
  destruct i; try discriminate.
  - brk Hx; inv_some Hx;
      match goal with E : negb (Nat.eqb d _) = false |- _ => apply negb_false_iff, Nat.eqb_eq in E; subst d0 end.
    + apply (invE_set_g N s); auto; rewrite Et.
      * intros d0. unfold cT. cbn [msum]. rewrite wT_decr. unfold wT. cbn [wA wP]. lia.
      * reflexivity.
      * reflexivity.
    + apply (invE_set_g N s); auto; rewrite Et.
      * intros d0. simpl dcbs. rewrite cb_upd_snoc. unfold cT. cbn [msum cbw]. unfold wT. cbn [wA wP]. lia.
      * reflexivity.
      * reflexivity.
  - brk Hx; inv_some Hx.
    + efin I N s.
    + apply (invE_set N s); try kside I.
      intros d1. simpl dcbs. rewrite cb_upd_snoc. cbn [cbw]. destruct (Nat.eqb d d1); lia.
  - brk Hx; inv_some Hx; efin I N s.
  - destruct op as [|[|[|op]]]; try discriminate.
    destruct (negb (Nat.eqb d d0)) eqn:Ed; [discriminate|]. apply negb_false_iff, Nat.eqb_eq in Ed. subst d0.
    assert (Ef : f_cancel p = (fst (f_cancel p), snd (f_cancel p))) by (destruct (f_cancel p); reflexivity).
    rewrite Ef in Hx. destruct (snd (f_cancel p)) eqn:Eb; [destruct (f_cancel_fires p) eqn:Ec|]; inv_some Hx.
    + apply invE_log.
      match goal with |- InvE N (set_prog (clear_del ?x ?l) _ _) => destruct (clear_del_frameK l x) as [A [B [C [D [E [F G]]]]]] end.
      apply (invE_set_g N s _ t _ I Ht); rewrite ?A, ?B, ?C, ?D, ?E, ?F, ?G; try reflexivity; try rewrite Et.
      * intros d0. simpl dcbs. unfold cT. rewrite msum_app, (msum_cb_prog_held (wT d0) d _ (good_wT d0)), wT_decr.
        cbn [msum]. unfold wT. cbn [wA wP]. unfold upd. rewrite (Nat.eqb_sym d0 d).
        destruct (Nat.eqb d d0) eqn:Ed; [apply Nat.eqb_eq in Ed; subst d0|]; cbn [cb]; lia.
      * unfold q1. rewrite msum_app, (msum_cb_prog_held wS d _ good_wS). cbn [msum wS]. lia.
      * unfold q2. rewrite msum_app, (msum_cb_prog_held wQ d _ good_wQ). cbn [msum wQ]. lia.
    + apply (invE_set N s); kside I.
    + apply (invE_set N s); kside I.
Qed.

Lemma do_xacq_invE N s t s' : InvE N s -> (t < N)%nat -> do_xacq s t = Some s' -> InvE N s'.
Proof.
  intros I Ht Hx. unfold do_xacq in Hx. brk Hx. inv_some Hx. t_is_H.
  match goal with E : thr s H = _ |- _ => rename E into Et end.
  match goal with E : free (xown s) = true |- _ => unfold free in E; destruct (xown s) eqn:Ex; [discriminate|] end.
  match goal with |- InvE N (set_prog ?s1 H ?p') => apply (invE_step N s _ H (norm s1 p') I Ht) end.
  - intros u. reflexivity.
  - reflexivity.
  - rewrite Qx_set_prog_H, Qx_unfold, Et, Ex. simpl. lia.
  - intros d. rewrite cT_norm, Et. reflexivity.
Qed.

Lemma do_relx_invE N s t s' : InvE N s -> (t < N)%nat -> do_relx s t = Some s' -> InvE N s'.
Proof.
  intros I Ht Hx. unfold do_relx in Hx. brk Hx. inv_some Hx. t_is_H.
  match goal with E : thr s H = _ |- _ => rename E into Et end.
  match goal with E : owned (xown s) H = true |- _ => rename E into Eo end.
  match goal with |- InvE N (set_prog ?s1 H ?p') => apply (invE_step N s _ H (norm s1 p') I Ht) end.
  - intros u. reflexivity.
  - reflexivity.
  - rewrite Qx_set_prog_H, Qx_unfold, Et, Eo. simpl (xown _). simpl (hadm _). simpl (running _). cbn [owned].
    unfold q1, q2 in *. rewrite !msum_app. fold (q1 (map IDSubmit (hadm s))). fold (q2 (map IDSubmit (hadm s))).
    rewrite q1_map_dsubmit, q2_map_dsubmit. cbn [msum wS wQ]. lia.
  - intros d. rewrite cT_norm, Et. unfold cT. rewrite msum_app. fold (cT d (map IDSubmit (hadm s))).
    rewrite msum_map_dsubmit_T. reflexivity.
Qed.

Lemma do_rcread_invE N s t x s' : InvE N s -> (t < N)%nat -> do_rcread s t x = Some s' -> InvE N s'.
Proof.
  intros I Ht Hx. unfold do_rcread in Hx. brk Hx; inv_some Hx; try solve [efin I N s].
  match goal with E : thr s t = _ |- _ => rename E into Et end.
  apply (invE_set_g N s); try kside I; intros; rewrite Et; unfold cT, q1, q2; cbn [msum wS wQ]; unfold wT; cbn [wA wP]; lia.
Qed.

Lemma do_pop_invE N s t s' : InvE N s -> (t < N)%nat -> do_pop s t = Some s' -> InvE N s'.
Proof.
  intros I Ht Hx. unfold do_pop in Hx. brk Hx. inv_some Hx. t_is_H.
  match goal with E : thr s H = _ |- _ => rename E into Et end.
  match goal with E : owned (xown s) H = true |- _ => rename E into Eo end.
  apply invE_log.
  match goal with |- InvE N (set_prog ?s1 H ?p') => apply (invE_step N s _ H (norm s1 p') I Ht) end.
  - intros u. reflexivity.
  - reflexivity.
  - rewrite Qx_set_prog_H, Qx_unfold, Et. simpl (xown _). simpl (hadm _). simpl (running _). rewrite Eo.
    rewrite app_length, Nat2Z.inj_add. cbn [length]. unfold q1, q2. cbn [msum wS wQ]. lia.
  - intros d. rewrite cT_norm, Et. reflexivity.
Qed.

Lemma invE_decr N s s' t d tail :
  InvN N s -> InvE N s -> (t < N)%nat -> thr s t = IAcqA (ADecr d) :: tail ->
  (forall u, thr s' u = upd (thr s) t tail u) ->
  ndel s' = ndel s -> running s' = running s - 1 -> xown s' = xown s -> hadm s' = hadm s ->
  dcbs s' = dcbs s -> InvE N s'.
Proof.
  intros [_ _ _ _ F1] [S1 R1 O1] Ht Et Hthr En Er Ex Eh Ecb.
  assert (HcT : forall d0, cT d0 (thr s t) = (if Nat.eqb d d0 then 1 else 0) + cT d0 tail).
  { intros d0. rewrite Et. unfold cT. cbn [msum]. rewrite wT_decr. reflexivity. }
  assert (Hdlt : (d < ndel s)%nat).
  { destruct (le_lt_dec (ndel s) d) as [Hge|Hlt]; [|exact Hlt]. exfalso.
    destruct (F1 d Hge) as [_ Fb]. specialize (Fb t). rewrite HcT, Nat.eqb_refl in Fb.
    pose proof (cT_nonneg d tail) as P1. lia. }
  assert (Etok : forall d0, tokN N s' d0 = tokN N s d0 - (if Nat.eqb d d0 then 1 else 0)).
  { intros d0. rewrite (tokN_change N s s' t tail d0 Ht Hthr), Ecb, HcT. lia. }
  constructor.
  - intros u Hu. rewrite Hthr, upd_other by lia. apply S1; exact Hu.
  - rewrite (Qx_upd s s' t tail Hthr Ex Eh).
    + rewrite En, Er. rewrite (sumT_change (ndel s) (tokN N s) (tokN N s') d Hdlt).
      * rewrite (Etok d), Nat.eqb_refl. lia.
      * intros k Hk. rewrite Etok. apply Nat.eqb_neq in Hk. rewrite (Nat.eqb_sym d k), Hk. lia.
    + rewrite Et. reflexivity.
    + rewrite Et. reflexivity.
  - intros d0. rewrite Etok. specialize (O1 d0). destruct (Nat.eqb d d0); lia.
Qed.

Lemma do_acq_a_invE N s t s' : InvN N s -> InvE N s -> (t < N)%nat -> do_acq_a s t = Some s' -> InvE N s'.
Proof.
  intros IN I Ht Hx. unfold do_acq_a in Hx.
  destruct (negb (free (aown s))); [discriminate|].
  destruct (thr s t) as [|i rest] eqn:Et; [discriminate|]. destruct i; try discriminate. destruct k.
  - destruct (negb (Nat.eqb t H)) eqn:Eh; [discriminate|]. apply negb_false_iff, Nat.eqb_eq in Eh. subst t. inv_some Hx.
    apply invE_log.
    match goal with |- InvE N (set_prog ?s1 H ?p') => apply (invE_step N s _ H (norm s1 p') I Ht) end.
    + intros u. reflexivity.
    + reflexivity.
    + rewrite Qx_set_prog_H, Qx_unfold, Et. simpl (xown _). simpl (hadm _). simpl (running _).
      unfold q1, q2. cbn [msum wS wQ]. destruct (owned (xown s) H); lia.
    + intros d. rewrite cT_norm, Et. reflexivity.
  - destruct rest as [|i2 r2]; [discriminate|]. destruct i2; try discriminate.
    destruct r2 as [|i3 r3]; [discriminate|]. destruct i3; try discriminate. inv_some Hx.
    apply invE_log. apply (invE_decr N s _ t d (IRelA :: IEvSet :: r3) IN I Ht Et); try reflexivity.
Qed.

Lemma invE_dsubmit N s s' j rest :
  InvN N s -> InvE N s -> (H < N)%nat -> thr s H = IDSubmit j :: rest ->
  (forall u, thr s' u =
     upd (thr s) H (IAddCb1 (ndel s) :: IAcqMSet j (Some (ndel s)) :: IRelM j :: IAddCb2 (ndel s) j :: rest) u) ->
  ndel s' = S (ndel s) -> running s' = running s -> xown s' = xown s -> hadm s' = hadm s ->
  dcbs s' = upd (dcbs s) (ndel s) [] -> InvE N s'.
Proof.
  intros [_ _ _ _ F1] [S1 R1 O1] Ht Et Hthr En Er Ex Eh Ecb.
  set (d := ndel s) in *.
  set (p' := IAddCb1 d :: IAcqMSet j (Some d) :: IRelM j :: IAddCb2 d j :: rest) in *.
  assert (HcT : forall d0, cT d0 p' = (if Nat.eqb d d0 then 1 else 0) + cT d0 (thr s H)).
  { intros d0. rewrite Et. unfold p', cT. cbn [msum]. unfold wT. cbn [wA wP]. lia. }
  destruct (F1 d (le_n _)) as [Fa Fb].
  assert (Etok : forall d0, tokN N s' d0 = if Nat.eqb d d0 then 1 else tokN N s d0).
  { intros d0. rewrite (tokN_change N s s' H p' d0 Ht Hthr), Ecb, HcT. unfold upd. rewrite (Nat.eqb_sym d0 d).
    destruct (Nat.eqb d d0) eqn:E; [apply Nat.eqb_eq in E; subst d0|lia].
    unfold tokN. rewrite Fa. rewrite (sumT_ext N _ (fun _ => 0)) by (intros; apply Fb).
    assert (Z0 : forall n, sumT n (fun _ => 0) = 0) by (induction n as [|n IH]; simpl; lia).
    rewrite Z0. cbn [cb]. lia. }
  constructor.
  - intros u Hu. rewrite Hthr, upd_other by lia. apply S1; exact Hu.
  - assert (EQ : Qx s' = Qx s - 1).
    { unfold Qx. rewrite Ex, Eh, (Hthr H), upd_same, Et. unfold p', q1, q2. cbn [msum wS wQ]. lia. }
    rewrite EQ, En, Er. rewrite sumT_S. rewrite (Etok d), Nat.eqb_refl.
    rewrite (sumT_ext d (tokN N s') (tokN N s)); [lia|].
    intros k Hk. rewrite Etok. assert (Hne : Nat.eqb d k = false) by (apply Nat.eqb_neq; lia). rewrite Hne. reflexivity.
  - intros d0. rewrite Etok. specialize (O1 d0). destruct (Nat.eqb d d0); lia.
Qed.

Lemma do_dsubmit_invE N s t d i s' : InvN N s -> InvE N s -> (t < N)%nat -> do_dsubmit s t d i = Some s' -> InvE N s'.
Proof.
  intros IN I Ht Hx. unfold do_dsubmit in Hx.
  destruct (thr s t) as [|i0 rest] eqn:Et; [discriminate|]. destruct i0; try discriminate.
  destruct (negb (Nat.eqb d (ndel s)) || negb (Nat.eqb t H) || owned (xown s) t) eqn:Eg; [discriminate|].
  apply orb_false_elim in Eg. destruct Eg as [Eg Eo]. apply orb_false_elim in Eg. destruct Eg as [Ed Eh].
  apply negb_false_iff, Nat.eqb_eq in Ed. apply negb_false_iff, Nat.eqb_eq in Eh. subst t d.
  inv_some Hx.
  destruct (issome i); eapply (invE_dsubmit N s _ j rest IN I Ht Et); try reflexivity.
Qed.

(* ---- reachability ------------------------------------------------------------------------------------- *)
Lemma step0_invE N s e s' : InvN N s -> InvE N s -> (ev_thr e < N)%nat -> step0 s e = Some s' -> InvE N s'.
Proof.
  intros IN I Ht Hx. destruct e; cbn [step0] in Hx; cbn [ev_thr] in Ht;
  [ eapply do_new_invE | eapply do_hstart_invE | eapply do_exit_invE | eapply do_call_submit_invE
  | eapply do_call_cancel_invE | eapply do_call_shutdown_invE | eapply do_ret_invE | eapply do_acq_g_invE
  | eapply do_rel_g_invE | eapply do_count_invE | eapply do_xsec_invE | eapply do_xacq_invE
  | eapply do_relx_invE | eapply do_rcread_invE | eapply do_pop_invE | eapply (do_acq_a_invE N s t s' IN)
  | eapply do_rel_a_invE | eapply do_evset_invE | eapply do_wait_invE | eapply do_woke_invE | eapply do_clear_invE
  | eapply (do_dsubmit_invE N s t d inline s' IN) | eapply do_dshutdown_invE | eapply do_acq_m_invE | eapply do_rel_m_invE
  | eapply do_fm_invE | eapply do_fd_invE | eapply do_env_run_invE | eapply do_env_finish_invE ]; eassumption.
Qed.

Definition InvKE (s : st) : Prop := exists N, InvN N s /\ InvE N s.

Lemma invE_init : InvE 0 init.
Proof. constructor; simpl; auto. intros d. unfold tokN. simpl. lia. Qed.

Theorem invKE_reachable s : reachable_from step init s -> InvKE s.
Proof.
  apply invariant_rule_r; [exists 0%nat; split; [exact invN_init|exact invE_init]|].
  intros s0 [ts e] s' Hr [N0 [IN IE]] Hx. unfold step in Hx. simpl in Hx.
  destruct (tick s0 ts) as [s1|] eqn:Et; [|discriminate].
  pose proof (invA_reachable s0 Hr) as IA. pose proof (tick_invA _ _ _ IA Et) as IA1.
  set (N := Nat.max N0 (S (ev_thr e))).
  assert (IN1 : InvN N s1) by (eapply tick_invN; [|exact Et]; eapply invN_mono; [exact IN|unfold N; lia]).
  assert (IE1 : InvE N s1).
  { unfold tick in Et. destruct (Z.leb (clock s0) ts); inv_some Et.
    destruct (invE_mono N0 N s0 IE ltac:(unfold N; lia)) as [S1 R1 O1]. constructor; auto. }
  exists N. split.
  - apply (step0_invN N s1 e s' IA1 IN1); [unfold N; lia|exact Hx].
  - apply (step0_invE N s1 e s' IN1 IE1); [unfold N; lia|exact Hx].
Qed.
