(* C03 for the Retry machine, part 14: G1 is for ever.  Once the record of a pending retry future j is in flight on a
   cancelled delegate future and no thread is working on j (in particular: in every quiescent state of that kind),
   every continuation that contains no call of cancel() on j itself keeps j pending and its record in _jobs. *)
From Coq Require Import List ZArith Bool Arith Lia.
From RecordUpdate Require Import RecordSet.
From ME Require Import Base.Machine Base.Fut Base.GenPrelude Gen.RetryGen Model.Retry Proofs.Retry_Spec.
From ME Require Import Proofs.Retry_C0 Proofs.Retry_C1 Proofs.Retry_C2 Proofs.Retry_C3 Proofs.Retry_C4 Proofs.Retry_C5 Proofs.Retry_C6
  Proofs.Retry_C7 Proofs.Retry_C8 Proofs.Retry_C9 Proofs.Retry_C10 Proofs.Retry_C11 Proofs.Retry_C12 Proofs.Retry_C13
  Proofs.Retry_N0 Proofs.Retry_N1 Proofs.Retry_N5.
Import ListNotations RecordSetNotations.
#[local] Arguments norm : simpl nomatch.

(* instruction i does not work on retry future j: no step of RetryFuture.cancel() on j, no set_result / set_exception
   on j, nothing that handles (pops, retries, submits, finalises) a record of j; a _delegate_callback that has found
   a record of j is one for a cancelled delegate future (it will return silently) *)
Definition okj (s : st) (j : nat) (i : instr) : Prop :=
  match i with
  | ICancelled j' | IDoneC j' | IXCancelScan j' | IDCancel j' _ _ | IFCancel j' | IFSet j' _ => j' <> j
  | IXPop r | IXRetry r _ | IPolSR r | IPolST r | IXAcqPop r | IDoneW r | IDSubmit r => jf (recs s r) <> j
  | IDCbCancelled d r => jf (recs s r) = j -> fcancelled (ds s d) = true
  | _ => True
  end.

Record lost (s : st) (j r d : nat) : Prop := {
  l_rec : In r (jobs s) /\ jf (recs s r) = j /\ jdel (recs s r) = Some d /\ fcancelled (ds s d) = true;
  l_nd : fdone (rs s j) = false;
  l_thr : forall t, Forall (okj s j) (thr s t)
}.

Lemma okj_mono s s' j i : MONO s s' -> ipr s i -> okj s j i -> okj s' j i.
Proof.
  intros M. destruct i; simpl; auto.
  - intros (A & B & C & D & E) F G. rewrite (mo_jf _ _ M) in G by exact A. apply (mo_dcan _ _ M); auto.
  - intros (A & _). rewrite (mo_jf _ _ M) by exact A. auto.
  - intros (A & _). rewrite (mo_jf _ _ M) by exact A. auto.
  - intros (A & _). rewrite (mo_jf _ _ M) by exact A. auto.
  - intros (A & _). rewrite (mo_jf _ _ M) by exact A. auto.
  - intros (A & _). rewrite (mo_jf _ _ M) by exact A. auto.
  - intros (A & _). rewrite (mo_jf _ _ M) by exact A. auto.
  - intros (A & _). rewrite (mo_jf _ _ M) by exact A. auto.
Qed.

Lemma okj_upd s s' j : MONO s s' -> PI s -> (forall u, Forall (okj s j) (thr s u)) ->
  forall t p, (forall u, thr s' u = upd (thr s) t p u) -> Forall (okj s' j) p ->
  forall u, Forall (okj s' j) (thr s' u).
Proof.
  intros M HP H t p E Hp u. rewrite E. unfold upd. destruct (Nat.eqb u t); [exact Hp|].
  pose proof (pi_thr s HP u) as Q. pose proof (H u) as K. rewrite Forall_forall in *.
  intros i Hi. apply (okj_mono s s' j i M); auto.
Qed.

(* who can make j done *)
Lemma done_change s e s' j : step0 s e = Some s' -> j < nfut s -> fdone (rs s j) = false -> fdone (rs s' j) = true ->
  exists t l, thr s t = IFCancel j :: l \/ exists o, thr s t = IFSet j o :: l.
Proof.
  intros H Hj Hn. s0inv H; try congruence.
  all: try (match goal with inl : option outcome |- _ => destruct inl end).
  all: bsplit; subst.
  all: unfold log, set_prog; simpl; try congruence.
  all: try (rewrite upd_lt by exact Hj; congruence).
  all: intros Hd; unfold upd in Hd; match type of Hd with context[Nat.eqb ?a ?b] => destruct (Nat.eqb a b) eqn:E end;
    [apply eqb_t in E; subst|congruence].
  - eauto.
  - exfalso. match type of Heqo with f_srnc ?x = _ => destruct x; simpl in *; try discriminate; inversion Heqo; subst; discriminate end.
  - eauto.
Qed.

Ltac head_okj HT :=
  match goal with Hq : thr _ ?t = _ :: _ |- _ =>
    let Tt := fresh "Tt" in let Th := fresh "Th" in
    pose proof (HT t) as Tt; rewrite Hq in Tt; inversion Tt as [|? ? Th _]; subst; simpl in Th; clear Tt end.

(* the record stays in _jobs *)
Lemma lost_jobs s e s' j r d : (forall t, Forall (okj s j) (thr s t)) -> PI s ->
  In r (jobs s) -> jf (recs s r) = j -> jdel (recs s r) = Some d ->
  step0 s e = Some s' -> In r (jobs s').
Proof.
  intros HT HP Hin Hjf Hjd H. s0inv H; try exact Hin.
  all: try (match goal with inl : option outcome |- _ => destruct inl end).
  all: bsplit; subst.
  all: unfold log, set_prog; simpl.
  all: try solve [exact Hin | apply in_app_iff; left; exact Hin].
  all: try (match goal with Hq : thr _ ?t = ?i :: _ |- _ => pose proof (head_ipr _ t i _ HP Hq) as Hi; simpl in Hi end).
  all: try head_okj HT.
  all: try (apply in_app_iff; left).
  all: apply in_remove_id; (split; [exact Hin|]); intros ->; try congruence.
Qed.

Lemma okj_cbs s j j' l : Forall (okj s j) (cbs_prog j' l).
Proof. apply Forall_cbs; intros; exact I. Qed.

(* no thread starts working on j *)
Lemma lost_thr s e s' j r d : (forall t, Forall (okj s j) (thr s t)) -> PI s -> RI s -> uniq s ->
  In r (jobs s) -> jf (recs s r) = j -> jdel (recs s r) = Some d -> fcancelled (ds s d) = true ->
  fdone (rs s j) = false ->
  step0 s e = Some s' -> (forall t, e <> ECallCancel t j) -> forall t, Forall (okj s' j) (thr s' t).
Proof.
  intros HT HP HR HU Hin Hjf Hjd Hcan Hnd H Hne. pose proof (MONO_step0 _ _ _ H) as HM.
  assert (Only : forall r', In r' (jobs s) -> jf (recs s r') = j -> r' = r).
  { intros r' Hr' E. destruct (HU r' r Hr' Hin) as [A|A]; [congruence|exact A|congruence]. }
  s0inv H; try exact HT.
  all: try (match goal with inl : option outcome |- _ => destruct inl end).
  all: bsplit; subst.
  all: match goal with Hq : thr _ ?t = _ |- _ => pose proof (HT t) as Tt; rewrite Hq in Tt; pose proof Tt as Tt0;
         pose proof (pi_thr s HP t) as Pt; rewrite Hq in Pt end.
  all: first [eapply (okj_upd s _ _ HM HP HT); [intros u; reflexivity|]
             | intros u; pose proof (pi_thr s HP u) as Q; pose proof (HT u) as K; rewrite Forall_forall in *;
               intros i Hi; apply (okj_mono s _ _ i HM); auto].
  all: try (apply Forall_norm; [exact I|]).
  all: match type of Tt with Forall _ ?p =>
         match goal with |- Forall (okj ?B _) _ =>
           let Tm := fresh "Tm" in
           assert (Tm : Forall (okj B (jf (recs s r))) p)
             by (rewrite Forall_forall in *; intros x Hx; apply (okj_mono s _ _ x HM); auto) end end.
  all: repeat (match goal with H : Forall _ (_ :: _) |- _ => inversion H; subst; clear H end).
  all: try assumption.
  all: repeat (match goal with |- Forall _ (_ :: _) => apply Forall_cons end); try assumption; try exact I; try apply Forall_nil.
  all: clear HM; unfold log, set_prog in *; simpl in *.
  all: try assumption.
  all: try (match goal with |- context[if dcb ?s ?d then _ else _] => destruct (dcb s d); repeat constructor end).
  all: try (apply Forall_app; split; [apply okj_cbs|assumption]).
  all: try (apply Forall_tl; assumption).
  all: try (intros E; subst; apply (Hne t); reflexivity).
  (* the worker's scan returns an idle record: not the record of j *)
  all: try (match goal with Hs : get_next_job _ _ = Some ?v |- _ =>
         apply next_job_in in Hs; destruct Hs as [A B]; intros E; apply Only in E; [|exact A]; congruence end).
  all: repeat match goal with H : _ /\ _ |- _ => destruct H | H : exists _, _ |- _ => destruct H end.
  all: try congruence.
  - apply find_del_some in Heqo. destruct Heqo as [A B]. intros E. apply Only in E; [|exact A]. subst n0. congruence.
  - intros E; match goal with K : _ = _ -> fcancelled _ = true |- _ => apply K in E; congruence end.
  - intros E; match goal with K : _ = _ -> fcancelled _ = true |- _ => apply K in E; congruence end.
  - intros E; match goal with K : _ = _ -> fcancelled _ = true |- _ => apply K in E; congruence end.
Qed.

Lemma lost_step0 s e s' j r d : PI s -> RI s -> uniq s -> j < nfut s -> lost s j r d -> step0 s e = Some s' ->
  (forall t, e <> ECallCancel t j) -> lost s' j r d.
Proof.
  intros HP HR HU Hj [(Hin & Hjf & Hjd & Hcan) Hnd HT] H Hne.
  pose proof (MONO_step0 _ _ _ H) as HM.
  assert (Hr : r < nrec s) by (apply (ri_jobs s HR); exact Hin).
  assert (Hd : d < ndel s) by (apply (pi_del s HP r d Hr Hjd)).
  constructor.
  - split; [eapply lost_jobs; eassumption|].
    split; [rewrite (mo_jf _ _ HM) by exact Hr; exact Hjf|].
    split; [rewrite (mo_jdel _ _ HM) by exact Hr; exact Hjd|apply (mo_dcan _ _ HM); assumption].
  - destruct (fdone (rs s' j)) eqn:E; [exfalso|reflexivity].
    destruct (done_change s e s' j H Hj Hnd E) as (t & l & [A|[o A]]); pose proof (HT t) as Tt; rewrite A in Tt;
      inversion Tt as [|? ? Th _]; subst; simpl in Th; apply Th; reflexivity.
  - eapply lost_thr; eassumption.
Qed.

Lemma lost_tick s ts j r d : lost s j r d -> lost (s <| clock := ts |>) j r d.
Proof.
  intros [A B C]. constructor; [exact A|exact B|].
  intros t. eapply Forall_impl; [|apply C]. intros i. destruct i; simpl; auto.
Qed.

Definition no_cancel_of (j : nat) (es : list (Z * ev)) : Prop :=
  forall e, In e es -> forall t, snd e <> ECallCancel t j.

Lemma lost_run : forall es s s' j r d, reachable_from step init s -> j < nfut s -> lost s j r d ->
  run step s es = Some s' -> no_cancel_of j es -> lost s' j r d.
Proof.
  induction es as [|e es IH]; simpl; intros s s' j r d R Hj L H Hn.
  - inversion H; subst. exact L.
  - destruct (step s e) as [s1|] eqn:E; [|discriminate].
    assert (R1 : reachable_from step init s1) by (eapply reachable_step; eassumption).
    pose proof (mo_nfut _ _ (MONO_step _ _ _ E)) as Hn1.
    apply (IH s1 s' j r d R1); [lia| |exact H|intros e' He'; apply Hn; right; exact He'].
    pose proof E as E0. apply step_split in E. destruct E as (s0 & Ht & E). apply tick_eq in Ht. subst s0.
    apply (lost_step0 (s <| clock := fst e |>) (snd e) s1 j r d).
    + apply PI_tick, PI_reach, R.
    + apply RI_tick, RI_reach, R.
    + exact (proj1 (JU_reach s R)).
    + exact Hj.
    + apply lost_tick. exact L.
    + exact E.
    + apply Hn. left. reflexivity.
Qed.

(* every quiescent state with a pending retry future whose record is in flight on a cancelled delegate future is lost *)
Lemma quiescent_lost s tau since j r d : reachable_from step init s -> quiescent s tau since ->
  fdone (rs s j) = false -> In r (jobs s) -> jf (recs s r) = j -> jdel (recs s r) = Some d ->
  fcancelled (ds s d) = true -> lost s j r d.
Proof.
  intros R Q Hnd Hin Hjf Hjd Hcan. constructor; [auto|exact Hnd|].
  intros t. destruct (quiescent_prog s tau since R Q t) as [-> | ->]; repeat constructor.
Qed.

(* G1 for ever: from a reachable quiescent state in which the record of a pending retry future j is in flight on a
   cancelled delegate future, along EVERY continuation without a call of cancel() on j itself, j stays pending and
   its record stays in _jobs, in flight on that cancelled delegate future *)
Lemma retry_lost_for_ever s tau since j r d es s' : reachable_from step init s -> quiescent s tau since ->
  j < nfut s -> fdone (rs s j) = false -> In r (jobs s) -> jf (recs s r) = j -> jdel (recs s r) = Some d ->
  fcancelled (ds s d) = true ->
  run step s es = Some s' -> no_cancel_of j es ->
  fdone (rs s' j) = false /\
  In r (jobs s') /\ jf (recs s' r) = j /\ jdel (recs s' r) = Some d /\ fcancelled (ds s' d) = true.
Proof.
  intros R Q Hj Hnd Hin Hjf Hjd Hcan H Hno.
  pose proof (lost_run es s s' j r d R Hj (quiescent_lost s tau since j r d R Q Hnd Hin Hjf Hjd Hcan) H Hno) as [A B _].
  split; [exact B|exact A].
Qed.

(* one-step form, for any state in which no thread works on j *)
Lemma retry_lost_stable s te s' j r d : reachable_from step init s -> j < nfut s -> lost s j r d ->
  step s te = Some s' -> (forall t, snd te <> ECallCancel t j) -> lost s' j r d /\ fdone (rs s' j) = false.
Proof.
  intros R Hj L H Hn.
  assert (L' : lost s' j r d).
  { apply (lost_run [te] s s' j r d R Hj L); [simpl; rewrite H; reflexivity|].
    intros e [<-|[]]. exact Hn. }
  split; [exact L'|exact (l_nd _ _ _ _ L')].
Qed.
