(* Specification lemmas for the kernels regenerated from throttle.py (Gen/ThrottleGen.v). *)
From Coq Require Import List ZArith Bool Lia.
From ME Require Import Base.GenPrelude Gen.ThrottleGen.
Import ListNotations.
Local Open Scope Z_scope.

Lemma throttled_spec lim r : throttled lim r = true <-> exists t, lim = Some t /\ t <= r.
Proof.
  unfold throttled. destruct lim as [t|].
  - rewrite Z.geb_le. split; [intros Hx; exists t; auto|intros [t' [E Hx]]; inversion E; subst; exact Hx].
  - split; [discriminate|intros [t [E _]]; discriminate].
Qed.

Lemma throttled_false lim r : throttled lim r = false <-> match lim with Some t => r < t | None => True end.
Proof.
  unfold throttled. destruct lim as [t|]; [|tauto].
  destruct (Z.geb r t) eqn:E; [apply Z.geb_le in E|rewrite Z.geb_leb in E; apply Z.leb_gt in E]; split; intros; try lia; try congruence.
Qed.

Lemma throttled_none r : throttled None r = false.
Proof. reflexivity. Qed.

Lemma throttled_mono lim r r' : r <= r' -> throttled lim r = true -> throttled lim r' = true.
Proof. intros Hle Ht. apply throttled_spec in Ht. destruct Ht as [t [E Ht]]. apply throttled_spec. exists t. split; [exact E|lia]. Qed.

(* the whole admission loop (no concurrent decrement): splits the queue, counts every admitted job,
   stays within the limit, and stops only when throttled or when the queue is exhausted *)
Lemma admission_spec lim : forall q r adm rest r',
  admission lim r q = (adm, rest, r') ->
  adm ++ rest = q /\ r' = r + Z.of_nat (length adm) /\
  (forall t, lim = Some t -> r <= t -> r' <= t) /\
  (rest <> [] -> throttled lim r' = true) /\
  (adm <> [] -> throttled lim r = false).
Proof.
  induction q as [|j q IH]; intros r adm rest r' Hx; simpl in Hx.
  - inversion Hx; subst. simpl. repeat split; try lia; try congruence; try (intros; lia).
  - destruct (throttled lim r) eqn:Et.
    + inversion Hx; subst. simpl. repeat split; try lia; try congruence; try (intros; lia).
    + destruct (admission lim (r + 1) q) as [[a1 re1] r1] eqn:Ea. inversion Hx; subst.
      destruct (IH _ _ _ _ Ea) as [H1 [H2 [H3 [H4 H5]]]].
      simpl. split; [|split; [|split; [|split]]].
      * f_equal. exact H1.
      * rewrite H2. lia.
      * intros t El Hle. apply (H3 t El). apply throttled_false in Et. rewrite El in Et. lia.
      * exact H4.
      * intros _. reflexivity || exact Et.
Qed.

(* unlimited: everything is admitted *)
Lemma admission_none q r : admission None r q = (q, [], r + Z.of_nat (length q)).
Proof.
  revert r. induction q as [|j q IH]; intros r; simpl; [f_equal; lia|].
  rewrite IH. f_equal. rewrite Zpos_P_of_succ_nat. lia.
Qed.

(* FIFO: the admitted jobs are a prefix of the queue, in order (part of admission_spec), and a limit of
   zero or less admits nothing *)
Lemma admission_zero t q r : t <= r -> admission (Some t) r q = ([], q, r).
Proof. intros Hle. destruct q as [|j q]; simpl; [reflexivity|]. destruct (Z.geb r t) eqn:E; [reflexivity|]. rewrite Z.geb_leb in E. apply Z.leb_gt in E. lia. Qed.

Lemma loop_wait_spec r : loop_wait r = if Z.eqb r 0 then 2 else 30.
Proof. unfold loop_wait. destruct (Z.eqb r 0); reflexivity. Qed.
Lemma loop_wait_le r : 2 <= loop_wait r <= 30.
Proof. rewrite loop_wait_spec. destruct (Z.eqb r 0); lia. Qed.

Lemma eval_throttle_raise last : eval_throttle last Raises = last.
Proof. reflexivity. Qed.
Lemma eval_throttle_answer last v : eval_throttle last (Answer v) = v.
Proof. reflexivity. Qed.

(* _block_until_ready's test: never raises; None (unlimited) never blocks *)
Lemma block_ready_some q t : block_ready q (Some t) = Some (Z.ltb q t).
Proof. reflexivity. Qed.
Lemma block_ready_none q : block_ready q None = Some true.
Proof. reflexivity. Qed.
Lemma block_ready_total q lim : block_ready q lim <> None.
Proof. destruct lim; discriminate. Qed.
Lemma block_ready_true q lim : block_ready q lim = Some true <-> lim = None \/ exists t, lim = Some t /\ q < t.
Proof.
  destruct lim as [t|]; simpl.
  - split; [intros Hx; inversion Hx as [Hl]; apply Z.ltb_lt in Hl; eauto|].
    intros [E|[t' [E Hl]]]; [discriminate|]. inversion E; subst. f_equal. apply Z.ltb_lt. exact Hl.
  - split; auto.
Qed.
