(* C06 / Throttle: cancel() of a queued submission (history level, from the FIFO invariant) and the local
   decisions of ThrottleFuture._me_cancel (step level). *)
From Coq Require Import ZArith List Bool Arith Lia.
From RecordUpdate Require Import RecordSet.
From ME Require Import Base.Machine Base.Fut Base.GenPrelude Gen.ThrottleGen Model.Throttle
  Proofs.Throttle_Spec Proofs.Throttle_Inv Proofs.Throttle_Fifo Proofs.Throttle_Tok Proofs.Throttle_TokA Proofs.Throttle_TokB.
Import ListNotations RecordSetNotations.

Lemma in_hpop_pops h j ts : In (HPop j ts) h -> In j (pops h).
Proof.
  induction h as [|e r IH]; [intros []|]. intros [->|Hin]; simpl.
  - apply in_or_app. right. left. reflexivity.
  - destruct e; auto. apply in_or_app. left. auto.
Qed.
Lemma in_hdsub_dsubs h j d ts : In (HDSub j d ts) h -> In j (dsubs h).
Proof.
  induction h as [|e r IH]; [intros []|]. intros [->|Hin]; simpl.
  - apply in_or_app. right. left. reflexivity.
  - destruct e; auto. apply in_or_app. left. auto.
Qed.
Lemma in_hcancelq_cancq h j ts : In (HCancelQ j ts) h -> In j (cancq h).
Proof.
  induction h as [|e r IH]; [intros []|]. intros [->|Hin]; simpl.
  - apply in_or_app. right. left. reflexivity.
  - destruct e; auto. apply in_or_app. left. auto.
Qed.
Lemma in_cancq_hcancelq h j : In j (cancq h) -> exists ts, In (HCancelQ j ts) h.
Proof.
  induction h as [|e r IH]; [intros []|]. simpl. destruct e; try (intros Hin; destruct (IH Hin) as [tq Hx]; exists tq; right; exact Hx).
  intros Hin. apply in_app_or in Hin. destruct Hin as [Hin|[<-|[]]].
  - destruct (IH Hin) as [ts0 Hx]. exists ts0. right. exact Hx.
  - exists ts. left. reflexivity.
Qed.

(* a submission cancelled while queued is never taken off the queue by the hand-over thread, neither before nor
   after the cancel: it is not queued any more, was never popped, is not pending hand-over, was never given to
   the delegate *)
Theorem cancel_queued_never_handed_over_lemma s : reachable_from step init s ->
  forall j, In j (cancq (hist s)) ->
    In j (enqs (hist s)) /\ ~ In j (qu s) /\ ~ In j (pops (hist s)) /\ ~ In j (pend s) /\ ~ In j (dsubs (hist s)).
Proof.
  intros Hr j Hc. destruct (invF_reachable s Hr) as [F1 F2 F3 F4 F5 F6].
  assert (Hnl : ~ In j (live (cancq (hist s)) (enqs (hist s)))).
  { unfold live. intros Hin. apply filter_In in Hin. destruct Hin as [_ Hm]. apply negb_true_iff in Hm.
    apply mem_in in Hc. congruence. }
  rewrite F1 in Hnl.
  assert (Hnp : ~ In j (pops (hist s))) by (intros Hx; apply Hnl; apply in_or_app; left; exact Hx).
  split; [apply F6; exact Hc|]. split; [intros Hx; apply Hnl; apply in_or_app; right; exact Hx|].
  split; [exact Hnp|]. rewrite F2 in Hnp.
  split; intros Hx; apply Hnp; apply in_or_app; [right|left]; exact Hx.
Qed.

(* the same in terms of the raw history events *)
Theorem cancel_queued_no_handover_events_lemma s : reachable_from step init s ->
  forall j tc, In (HCancelQ j tc) (hist s) ->
    (forall ts, ~ In (HPop j ts) (hist s)) /\ (forall d ts, ~ In (HDSub j d ts) (hist s)) /\ ~ In j (qu s).
Proof.
  intros Hr j tc Hin. apply in_hcancelq_cancq in Hin.
  destruct (cancel_queued_never_handed_over_lemma s Hr j Hin) as [_ [Hq [Hp [_ Hd]]]].
  split; [intros ts Hx; apply Hp; eapply in_hpop_pops; eauto|].
  split; [intros d ts Hx; apply Hd; eapply in_hdsub_dsubs; eauto|exact Hq].
Qed.

Lemma nodup_app_r (a b : list nat) : NoDup (a ++ b) -> NoDup b.
Proof. induction a as [|x a IH]; simpl; [auto|]. intros Hn. inversion Hn. auto. Qed.

(* the queue never holds a submission twice *)
Lemma queue_nodup_lemma s : reachable_from step init s -> NoDup (qu s).
Proof.
  intros Hr. destruct (invF_reachable s Hr) as [F1 _ _ F4 _ _].
  assert (Hn : NoDup (pops (hist s) ++ qu s)) by (rewrite <- F1; apply live_nodup; exact F4).
  exact (nodup_app_r _ _ Hn).
Qed.

Lemma remove_id_split j a b : ~ In j a -> ~ In j b -> remove_id j (a ++ j :: b) = a ++ b.
Proof.
  intros Ha Hb. rewrite remove_id_app. simpl. rewrite Nat.eqb_refl. simpl.
  rewrite (remove_id_notin j a Ha), (remove_id_notin j b Hb). reflexivity.
Qed.

(* _me_cancel under the executor lock: a queued submission is removed -- exactly that entry, the others keep
   their order -- and cancel() goes on to return True; one that the hand-over thread has already popped is
   left alone and cancel() goes on to return False *)
Theorem cancel_removes_exactly_one_lemma s ts t j rest s' : reachable_from step init s ->
  step s (ts, EXSec t) = Some s' -> thr s t = IXCancel j :: rest ->
  (In j (qu s) ->
     exists a b, qu s = a ++ j :: b /\ qu s' = a ++ b /\ ~ In j a /\ ~ In j b /\
                 hist s' = HCancelQ j ts :: hist s /\
                 thr s' t = IFCancel j :: IFSrnc j :: IRelMCbs j :: IRetB true :: rest) /\
  (~ In j (qu s) -> qu s' = qu s /\ hist s' = hist s /\ thr s' t = IRelM j :: IRetB false :: rest).
Proof.
  intros Hr Hx Et. pose proof (queue_nodup_lemma s Hr) as Hn.
  unfold step in Hx. simpl in Hx. unfold tick in Hx. destruct (Z.leb (clock s) ts); [|discriminate].
  unfold do_xsec in Hx. simpl in Hx. destruct (negb (free (xown s))); [discriminate|]. rewrite Et in Hx.
  split.
  - intros Hin. apply mem_in in Hin. rewrite Hin in Hx. inv_some Hx. apply mem_in in Hin.
    destruct (in_split _ _ Hin) as [a [b Eq]]. exists a, b.
    assert (Hd : ~ In j a /\ ~ In j b).
    { rewrite Eq in Hn. apply NoDup_remove_2 in Hn. split; intros Hy; apply Hn; apply in_or_app; auto. }
    destruct Hd as [Ha Hb]. simpl. rewrite upd_same. rewrite Eq at 2. rewrite (remove_id_split j a b Ha Hb). auto 7.
  - intros Hnin. destruct (mem j (qu s)) eqn:Em; [apply mem_in in Em; contradiction|]. inv_some Hx.
    simpl. rewrite upd_same. auto.
Qed.

(* a submission already handed over: cancel() is forwarded to the delegate future and answers what the
   delegate future answers *)
Theorem cancel_forwarded_lemma s ts t j rest s' :
  step s (ts, EFM t 1 j (ms s j)) = Some s' -> thr s t = IDoneC j :: rest -> fdone (ms s j) = false ->
  forall d, mdel s j = Some d -> thr s' t = IDCancel j d :: rest.
Proof.
  intros Hx Et Hnd d Hm. unfold step in Hx. simpl in Hx. unfold tick in Hx. destruct (Z.leb (clock s) ts); [|discriminate].
  unfold do_fm in Hx. simpl in Hx.
  assert (Ee : fstate_eqb (ms s j) (ms s j) = true) by (apply fstate_eqb_eq; reflexivity).
  rewrite Ee, Et, Nat.eqb_refl, Hnd, Hm in Hx. simpl in Hx. inv_some Hx. simpl. apply upd_same.
Qed.
Theorem cancel_delegate_answer_lemma s ts t j d rest s' :
  step s (ts, EFD t 2 d (ds s d)) = Some s' -> thr s t = IDCancel j d :: rest ->
  ds s' d = fst (f_cancel (ds s d)) /\
  (snd (f_cancel (ds s d)) = true ->
     fcancelled (ds s' d) = true /\ exists pre, thr s' t = pre ++ IFCancel j :: IFSrnc j :: IRelMCbs j :: IRetB true :: rest) /\
  (snd (f_cancel (ds s d)) = false -> ds s' d = ds s d /\ thr s' t = IRelM j :: IRetB false :: rest).
Proof.
  intros Hx Et. unfold step in Hx. simpl in Hx. unfold tick in Hx. destruct (Z.leb (clock s) ts); [|discriminate].
  unfold do_fd in Hx. simpl in Hx.
  assert (Ee : fstate_eqb (ds s d) (ds s d) = true) by (apply fstate_eqb_eq; reflexivity).
  rewrite Ee, Et, Nat.eqb_refl in Hx. simpl in Hx.
  destruct (ds s d) eqn:Ed; simpl in Hx; inv_some Hx.
  - (* Pending -> Cancelled, the callbacks run in the canceller *)
    match goal with |- context [clear_del ?x ?l] => destruct (clear_del_frameK l x) as [A [_ [_ [_ [_ [F _]]]]]] end.
    unfold set_prog. simpl. rewrite F, A. simpl. rewrite !upd_same.
    split; [reflexivity|]. split; intros Hb; [|discriminate Hb]. split; [reflexivity|].
    exists (flat_map (cb_prog_held d) (dcbs s d)).
    destruct (dcbs s d) as [|c l]; [reflexivity|destruct c; reflexivity].
  - unfold set_prog. simpl. rewrite !upd_same. split; [reflexivity|]. split; intros Hb; [discriminate Hb|]. split; reflexivity.
  - unfold set_prog. simpl. rewrite !upd_same. split; [reflexivity|]. split; intros Hb; [|discriminate Hb].
    split; [reflexivity|exists []; reflexivity].
  - unfold set_prog. simpl. rewrite !upd_same. split; [reflexivity|]. split; intros Hb; [|discriminate Hb].
    split; [reflexivity|exists []; reflexivity].
  - unfold set_prog. simpl. rewrite !upd_same. split; [reflexivity|]. split; intros Hb; [discriminate Hb|]. split; reflexivity.
Qed.
