(* I5: before the decision every evaluated input was "quiet"; removed inputs have been seen. *)
From Coq Require Import List Arith Bool Lia PeanoNat ZArith.
From ME Require Import Base.Machine Base.Fut Base.GenPrelude Gen.BoolGen Gen.ZipGen Model.Comb Proofs.Comb_Spec.
From ME Require Import Proofs.Comb_I0 Proofs.Comb_I2 Proofs.Comb_I4.
Import ListNotations.

Definition quiet (k : ckind) (v : fview) : Prop :=
  match k with
  | KOr => truthy_view v = false
  | KAnd => falsy_view v = false
  | KZip => v_cancelled v = false /\ v_failed v = false
  end.
Definition isenv (h : hev) : bool := match h with HEnvDone _ _ | HEnvCancel _ => true | _ => false end.
Definition evaluating (thrs : nat -> list instr) (x : nat) : Prop := exists t i r, thrs t = ICancelledQ i x :: r.

Record I5 (s : st) : Prop := {
  i5_unb : built s = false -> forall h, In h (hist s) -> isenv h = true;
  i5_quiet : cdone s = false -> forall d v, In (HSeen d v) (hist s) -> quiet (ck s) v;
  i5_seen : forall x, In x (inputs s) -> ~ In x (fsd s) -> seen_in (hist s) x \/ evaluating (thr s) x
}.

Lemma I5_init : I5 init.
Proof. constructor; simpl; intros; contradiction. Qed.

Lemma I5_unb s e s' : I4 s -> I5 s -> step s e = Some s' -> built s' = false -> forall h, In h (hist s') -> isenv h = true.
Proof.
  intros J I H Hb'. destruct (built s) eqn:Hb.
  { destruct (step_built _ _ _ H Hb) as [Hx _]. congruence. }
  destruct (i4_unb _ J Hb) as (Ht & He & Hr). pose proof (i5_unb _ I Hb) as Hh.
  destruct e; pose proof (Ht t) as Htt; step_inv H; simpl in *; try congruence; auto.
  all: intros h [<-|Hin]; auto.
Qed.

Lemma I5_quiet s e s' : I2 s -> I4 s -> I5 s -> step s e = Some s' ->
  cdone s' = false -> forall d v, In (HSeen d v) (hist s') -> quiet (ck s') v.
Proof.
  intros K J I H.
  destruct e; pose proof (i2_thr _ K t) as (_ & _ & Kc); step_inv H; pose proof (i5_quiet _ I) as Hq; simpl in *; auto;
  try match goal with Hq : thr _ _ = _ |- _ => rewrite Hq in Kc; simpl in Kc end;
  try discriminate.
  all: try (intros Hc x v [Hin|Hin]; [discriminate|]; auto).
  all: try (intros Hc x v [Hin|[Hin|Hin]]; [discriminate|discriminate|]; auto).
  all: try solve [eapply Hq; eauto].
  - clean. intros Hc x v Hin. apply (i5_unb _ I H) in Hin. discriminate.
  - intros _ x v [Hin|Hin]; [|rewrite Heqc in *; eapply Hq; eauto].
    inversion Hin; subst. rewrite Heqc. simpl. clean. assumption.
  - intros _ x v [Hin|Hin]; [|rewrite Heqc in *; eapply Hq; eauto].
    inversion Hin; subst. rewrite Heqc. simpl. clean. assumption.
  - destruct Hin as [Hin|Hin]; [|eapply Hq; eauto].
    inversion Hin; subst. rewrite Heqc. simpl. auto.
Qed.

Lemma eval_keep s e s' x : step s e = Some s' -> evaluating (thr s) x ->
  evaluating (thr s') x \/ seen_in (hist s') x.
Proof.
  intros H (t' & i & r & Ht). destruct (Nat.eq_dec t' (actor e)) as [->|Hne].
  2:{ left. exists t', i, r. rewrite (step_other_thr _ _ _ _ H Hne). exact Ht. }
  right. destruct e; simpl in Ht; step_inv H; try congruence; clean; simpl.
  all: inversion Ht; subst.
  all: repeat match goal with |- context [if ?c then _ else _] => destruct c end; simpl.
  all: eexists; simpl; first [left; reflexivity | right; left; reflexivity | right; right; left; reflexivity].
Qed.

Lemma I5_seen s e s' : I5 s -> step s e = Some s' ->
  forall x, In x (inputs s') -> ~ In x (fsd s') -> seen_in (hist s') x \/ evaluating (thr s') x.
Proof.
  intros I H x Hin Hn.
  assert (Hold : In x (inputs s) -> ~ In x (fsd s) -> seen_in (hist s') x \/ evaluating (thr s') x).
  { intros A B. destruct (i5_seen _ I x A B) as [S|E].
    - left. eapply step_seen; eauto.
    - destruct (eval_keep _ _ _ _ H E); auto. }
  destruct e; step_inv H; simpl in *; auto.
  - exfalso. apply Hn. apply dedup_in. exact Hin.
  - rewrite remove_id_in in Hn. destruct (Nat.eq_dec x d) as [->|Hx]; [|apply Hold; tauto].
    right. eexists t, _, _. apply upd_same.
  - rewrite remove_id_in in Hn. destruct (Nat.eq_dec x d) as [->|Hx]; [|apply Hold; tauto].
    right. eexists t, _, _. apply upd_same.
Qed.

Lemma I5_step s e s' : I2 s -> I4 s -> I5 s -> step s e = Some s' -> I5 s'.
Proof.
  intros K J I H. constructor.
  - eapply I5_unb; eauto.
  - eapply I5_quiet; eauto.
  - eapply I5_seen; eauto.
Qed.

Lemma I5_reach s : reachable s -> I5 s.
Proof.
  apply invariant_rule_r; [exact I5_init|]. intros s0 e s' R I H.
  eapply I5_step; eauto using I2_reach, I4_reach.
Qed.
