(* poll_raise_fails_shown: when the poll thread has finished handling an exception of the poll function,
   every future of the snapshot it had passed to that call is done. *)
From Coq Require Import ZArith List Bool Arith Lia.
From RecordUpdate Require Import RecordSet.
From ME Require Import Base.Machine Base.Fut Base.GenPrelude Model.Poll Proofs.Poll_Inv.
Import ListNotations RecordSetNotations.

(* how the latest call of the poll function ended: Some (e, l) = it raised e after being shown l *)
Fixpoint last_end (h : list hev) : option (nat * list (nat * nat)) :=
  match h with
  | [] => None
  | HPollRet _ :: _ => None
  | HPollRaise e l _ :: _ => Some (e, l)
  | _ :: r => last_end r
  end.

Definition exc_pending (p : list instr) (j e : nat) : Prop := In (IDoneX j e) p \/ In (IFSetExc j e) p.

Definition Inv6 (s : st) : Prop :=
  forall tau e l, pmode s = PRest tau -> last_end (hist s) = Some (e, l) ->
  forall j, In j (map fst l) -> fdone (ps s j) = true \/ exc_pending (thr s poller) j e.

Lemma inv6_init : Inv6 init.
Proof. unfold Inv6; simpl; intros; discriminate. Qed.

Lemma raise_pending e (sn : list (nat * nat)) j :
  In j (map fst sn) -> In (IDoneX j e) (flat_map (fun p => exc_prog (fst p) e) sn).
Proof.
  induction sn as [|p r IH]; simpl; [tauto|]. intros [<-|H]; [right; left; reflexivity|].
  right. right. apply IH, H.
Qed.

Lemma fcancel_done_keeps s n b : f_cancel s = (n, b) -> fdone s = true -> fdone n = true.
Proof. destruct s; simpl; intros H; inversion H; auto. Qed.
Lemma fsrnc_done_keeps s n b : f_srnc s = Some (n, b) -> fdone s = true -> fdone n = true.
Proof. destruct s; simpl; intros H; inversion H; auto. Qed.
Lemma fset_done s n : f_set s = Some n -> fdone n = true.
Proof. destruct s; simpl; intros H; inversion H; auto. Qed.
Lemma fset_none_done s : f_set s = None -> fdone s = true.
Proof. destruct s; simpl; congruence. Qed.

Lemma exc_pending_norm s p j e : exc_pending p j e -> exc_pending (norm s p) j e.
Proof.
  destruct p as [|i r]; [auto|]. destruct i; auto. simpl. unfold exc_pending. simpl.
  intros [[H|H]|[H|H]]; try discriminate H; [left|right]; apply in_or_app; right; exact H.
Qed.

(* a done future stays done across the stdlib transitions of the step *)
Ltac done_goal :=
  left; usplit_all; auto;
  first [ eapply fcancel_done_keeps; eassumption | eapply fsrnc_done_keeps; eassumption
        | eapply fset_done; eassumption ].

Ltac pend_tail :=
  (* the pending instruction is in the unchanged tail of the program *)
  right; try apply exc_pending_norm; unfold exc_pending; simpl;
  first [ left; solve [auto 10 using in_or_app, in_cons, in_eq]
        | right; solve [auto 10 using in_or_app, in_cons, in_eq] ].

Ltac head_done :=
  (* the pending instruction was the head and has just been executed *)
  first [ left; rewrite ?upd_same; usplit_all; solve [ assumption | eapply fset_done; eassumption | eapply fset_none_done; eassumption | congruence ]
        | pend_tail ].

Ltac pend_cases Hd :=
  unfold exc_pending in Hd; simpl in Hd;
  destruct Hd as [[Hd|Hd]|[Hd|Hd]];
  [ try discriminate Hd; inversion Hd; subst; head_done
  | pend_tail
  | try discriminate Hd; inversion Hd; subst; head_done
  | pend_tail ].

Ltac inv6_fin I6 :=
  unfold Inv6; simpl; intros tau6 e6 l6 Hm Hl j6 Hj; simpl in *; try discriminate;
  try solve
   [ (* the call has just raised *)
     inversion Hl; subst; eqb_facts; rewrite upd_same; right; apply exc_pending_norm; left; apply raise_pending; assumption
   | destruct (I6 _ _ _ Hm Hl j6 Hj) as [Hd|Hd]; [done_goal|];
     first [ right; exact Hd
           | match goal with |- context [upd _ ?t _ poller] =>
               destruct (Nat.eq_dec poller t) as [Ept|Ept];
               [ subst t; try congruence; rewrite (upd_same _ poller);
                 match goal with E : thr _ poller = _ |- _ => rewrite E in Hd end;
                 pend_cases Hd
               | rewrite (upd_other _ t _ poller) by assumption; right; exact Hd ]
             end ] ].

Lemma inv6_step s e s' : Inv6 s -> step s e = Some s' -> Inv6 s'.
Proof.
  destruct e as [ts e]. intros I H. apply step_inv in H. destruct H as [s1 [Ht H]].
  apply tick_fields in Ht. destruct Ht as [Eh [Ep [Et [_ [_ [_ [_ [_ [Eps _]]]]]]]]].
  assert (I6 : Inv6 s1) by (unfold Inv6; rewrite Eh, Ep, Et, Eps; exact I).
  clear I Eh Ep Et Eps s.
  apply step0_inv in H. destruct H as [[c [d [-> [_ ->]]]]|[_ [H|[H|H]]]].
  - exact I6.
  - open1 H; norm_eqs; inv6_fin I6.
  - open2 H; norm_eqs; inv6_fin I6.
  - open3 H; norm_eqs; inv6_fin I6.
Qed.
