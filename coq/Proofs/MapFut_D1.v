(* Layer 1: no raising instructions; all mentioned futures are created; done-ness/history facts. *)
From Coq Require Import ZArith List Bool Arith Lia.
From RecordUpdate Require Import RecordSet.
From ME Require Import Base.Machine Base.Fut Base.GenPrelude Model.MapFut Proofs.MapFut_D0.
Import ListNotations RecordSetNotations.

(* ---- generic helpers for per-instruction invariants ---------------------------------------- *)
Lemma Forall_upd {A} (P : A -> Prop) (f : nat -> list A) t p :
  (forall t', Forall P (f t')) -> Forall P p -> forall t', Forall P (upd f t p t').
Proof.
  intros I Hp t'. destruct (Nat.eq_dec t' t) as [->|N]; [rewrite upd_same; exact Hp|rewrite upd_other by exact N; apply I].
Qed.
Lemma Forall_upd2 {A} (P Q : A -> Prop) (f : nat -> list A) t p :
  (forall t', Forall P (f t')) -> (forall x, P x -> Q x) -> Forall Q p -> forall t', Forall Q (upd f t p t').
Proof.
  intros I PQ Hp. apply Forall_upd; [|exact Hp]. intros t'. eapply Forall_impl; [exact PQ|apply I].
Qed.
Lemma Forall_tl {A} (P : A -> Prop) l : Forall P l -> Forall P (tl l).
Proof. destruct l; simpl; auto. intros H; inversion H; auto. Qed.

(* what a silent step does to thread programs *)
Lemma sil_thr t s s' : sil t s s' ->
  exists i r, thr s t = i :: r /\ (forall t', t' <> t -> thr s' t' = thr s t') /\
    ((thr s' t = r) \/ (exists j, i = IRelMCbs j /\ thr s' t = map (fun c => IUserCb j c false) (mcbs s j) ++ r)).
Proof.
  intros H; inversion H; subst; simpl;
    (eexists _, _; split; [apply (upd_eq_same _ _ _ _ H0)|]; split;
     [intros t' N; rewrite upd_other by exact N; apply (upd_eq_other _ _ _ _ _ H0 N)|]);
    rewrite upd_same; eauto.
Qed.

(* ---- no raising instruction ---------------------------------------------------------------- *)
Definition quiet (i : instr) : Prop := i <> IRetRaise /\ i <> IDead.
Definition noraise (s : st) : Prop := forall t, Forall quiet (thr s t).

Lemma quiet_fires s d r : Forall quiet r -> Forall quiet (fires s d r).
Proof.
  intros H; unfold fires. induction (ecbs s d); simpl; auto.
  repeat (constructor; [split; discriminate|]). exact IHl.
Qed.
Lemma quiet_on_mapped s j x r : Forall quiet r -> Forall quiet (on_mapped s j x ++ r).
Proof.
  intros H; unfold on_mapped. destruct (mkind s j), (mflat s j), x; simpl;
    repeat (constructor; [split; discriminate|]); exact H.
Qed.
Lemma quiet_map_cb j l r : Forall quiet r -> Forall quiet (map (fun c => IUserCb j c false) l ++ r).
Proof. intros H; induction l; simpl; auto. constructor; [split; discriminate|exact IHl]. Qed.

Lemma lstep_noraise s e s0 : lstep s e = Some s0 -> noraise s -> noraise s0.
Proof.
  intros H I. step_cases H; try exact I.
  all: intros t'; simpl; apply Forall_upd; [exact I|].
  all: match goal with E : thr _ ?t = _ |- _ => pose proof (I t) as It; rewrite E in It end.
  all: try (inversion It; subst).
  all: try (apply quiet_on_mapped); try (apply quiet_fires); try (apply quiet_map_cb).
  all: repeat (constructor; [split; discriminate|]); try assumption; try (constructor; fail).
  all: try (apply quiet_on_mapped); try (apply Forall_tl); try assumption.
Qed.

Lemma sil_noraise t s s' : sil t s s' -> noraise s -> noraise s'.
Proof.
  intros H I t'. destruct (sil_thr _ _ _ H) as (i & r & Et & Ho & Hr).
  pose proof (I t) as It. rewrite Et in It. inversion It; subst.
  destruct (Nat.eq_dec t' t) as [->|N]; [|rewrite Ho by exact N; apply I].
  destruct Hr as [->|(j & -> & ->)]; [assumption|apply quiet_map_cb; assumption].
Qed.

Definition Inv1 (s : st) : Prop := shape_all s /\ noraise s.
Lemma linv1 : linv Inv1.
Proof.
  apply linv_and; [apply linv_shape|intros t; constructor| |].
  - intros; eapply lstep_noraise; eauto.
  - intros; eapply sil_noraise; eauto.
Qed.

Lemma mapfut_no_raise : forall s, reachable s -> forall t, ~ In IRetRaise (thr s t) /\ ~ In IDead (thr s t).
Proof.
  intros s R t. pose proof (linv_reach _ linv1 (fun s H => proj1 H) s R) as [_ N].
  specialize (N t). rewrite Forall_forall in N.
  split; intros X; apply N in X; destruct X as [X1 X2]; congruence.
Qed.

(* ---- bounded: every mentioned library future has been created ------------------------------- *)
Definition ifut (i : instr) : option nat :=
  match i with
  | IAcqM j | IAcqMSet j _ _ | IRelM j | IRelMCbs j | IAddCbE _ j | ICancelled j | IDoneC j | IDCancel j _
  | IFCancel j | IFSrnc j | IDoneA j _ | IUserCb j _ _ | IDCancelledQ j _ | IUserFn j _ | IUserEfn j _
  | IDoneQ j _ | IFSetRes j _ | IFSetExc j _ => Some j
  | _ => None
  end.
Definition hfut (h : hev) : option nat :=
  match h with
  | HNew j _ | HFn j _ _ | HEfn j _ _ | HSet j _ | HSetLost j | HCancelled j | HCb j _ | HCancelCall j
  | HCancelRet j _ | HDCancel j _ _ => Some j
  | _ => None
  end.
Definition okI (n : nat) (i : instr) : Prop := match ifut i with Some j => j < n | None => True end.
Definition okH (n : nat) (h : hev) : Prop := match hfut h with Some j => j < n | None => True end.

Record Bnd (s : st) : Prop := {
  b_thr : forall t, Forall (okI (nfut s)) (thr s t);
  b_ecbs : forall d, Forall (fun j => j < nfut s) (ecbs s d);
  b_hist : Forall (okH (nfut s)) (hist s);
  b_canc : forall t j, cancelling s t = Some j -> j < nfut s
}.

Lemma okI_mono n m i : n <= m -> okI n i -> okI m i.
Proof. unfold okI; destruct (ifut i); auto; lia. Qed.
Lemma okH_mono n m h : n <= m -> okH n h -> okH m h.
Proof. unfold okH; destruct (hfut h); auto; lia. Qed.
Lemma okI_fires n s d r : Forall (fun j => j < n) (ecbs s d) -> Forall (okI n) r -> Forall (okI n) (fires s d r).
Proof.
  intros H Hr; unfold fires. induction H; simpl; auto.
  repeat (constructor; [exact H || exact I|]). exact IHForall.
Qed.
Lemma okI_on_mapped n s j x r : j < n -> Forall (okI n) r -> Forall (okI n) (on_mapped s j x ++ r).
Proof.
  intros Hj H; unfold on_mapped. destruct (mkind s j), (mflat s j), x; simpl;
    repeat (constructor; [exact Hj || exact I|]); exact H.
Qed.
Lemma okI_map_cb n j l r : j < n -> Forall (okI n) r -> Forall (okI n) (map (fun c => IUserCb j c false) l ++ r).
Proof. intros Hj H; induction l; simpl; auto. Qed.

Ltac head_fact I t :=
  match goal with E : thr _ t = _ |- _ =>
    let It := fresh "It" in pose proof (I t) as It; rewrite E in It; try (inversion It; subst) end.

Lemma lstep_bnd s e s0 : lstep s e = Some s0 -> Bnd s -> Bnd s0.
Proof.
  intros H [B1 B2 B3 B4]. step_cases H; try (constructor; assumption).
  all: match goal with E : thr _ ?t = _ |- _ => pose proof (B1 t) as It; rewrite E in It; try (inversion It; subst) end.
  all: constructor; simpl.
  all: try assumption.
  all: try (apply Forall_upd2 with (P := okI (nfut s)); [exact B1|intros ? ?; eapply okI_mono; [|eassumption]; lia|]).
  all: unfold okI in *; simpl in *.
  all: try (apply okI_on_mapped; [assumption|]); try (apply okI_fires; [apply B2|]); try (apply okI_map_cb; [assumption|]).
  all: repeat (constructor; [first [exact I | assumption | simpl; lia]|]); try assumption; try (constructor; fail).
  all: try (apply okI_on_mapped; [assumption|]); try (apply Forall_tl); try assumption.
  all: repeat match goal with H : _ || _ = false |- _ => apply orb_false_iff in H; destruct H end; norm_hyps.
  all: repeat match goal with H : (_ <? _) = true |- _ => apply Nat.ltb_lt in H end.
  all: try (intros d'; eapply Forall_impl; [|apply B2]; simpl; intros; lia).
  all: try (constructor; [unfold okH; simpl; first [lia | eapply B4; eassumption]
                         | first [assumption | eapply Forall_impl; [|exact B3]; intros ? ?; eapply okH_mono; [|eassumption]; lia]]).
  all: try (repeat (constructor; [first [exact I | assumption | simpl; lia]|]); constructor; fail).
  all: try (intros t0 j0; unfold upd; destruct (Nat.eqb t0 t); [intros X; inversion X; subst; try assumption|apply B4]).
  all: try (intros; eapply Nat.lt_le_trans; [eapply B4; eassumption|lia]).
  all: try (apply Forall_upd; [exact B2|]; try apply Forall_app; try split; try apply B2; repeat constructor; assumption).
Qed.
Lemma sil_nfut t s s' : sil t s s' -> nfut s' = nfut s.
Proof. intros H; inversion H; reflexivity. Qed.
Lemma sil_ms t s s' : sil t s s' -> ms s' = ms s.
Proof. intros H; inversion H; reflexivity. Qed.
Lemma sil_mout t s s' : sil t s s' -> mout s' = mout s.
Proof. intros H; inversion H; reflexivity. Qed.
Lemma sil_mreg t s s' : sil t s s' -> mreg s' = mreg s.
Proof. intros H; inversion H; reflexivity. Qed.
Lemma sil_mkind t s s' : sil t s s' -> mkind s' = mkind s.
Proof. intros H; inversion H; reflexivity. Qed.
Lemma sil_mfn t s s' : sil t s s' -> mfn s' = mfn s.
Proof. intros H; inversion H; reflexivity. Qed.
Lemma sil_mefn t s s' : sil t s s' -> mefn s' = mefn s.
Proof. intros H; inversion H; reflexivity. Qed.
Lemma sil_es t s s' : sil t s s' -> es s' = es s.
Proof. intros H; inversion H; reflexivity. Qed.
Lemma sil_eout t s s' : sil t s s' -> eout s' = eout s.
Proof. intros H; inversion H; reflexivity. Qed.
Lemma sil_ecbs t s s' : sil t s s' -> ecbs s' = ecbs s.
Proof. intros H; inversion H; reflexivity. Qed.
Lemma sil_cancelling t s s' : sil t s s' -> cancelling s' = cancelling s.
Proof. intros H; inversion H; reflexivity. Qed.
Lemma sil_hist t s s' : sil t s s' -> hist s' = hist s.
Proof. intros H; inversion H; reflexivity. Qed.

Ltac sil_frame H :=
  rewrite ?(sil_nfut _ _ _ H), ?(sil_ms _ _ _ H), ?(sil_mout _ _ _ H), ?(sil_mreg _ _ _ H), ?(sil_mkind _ _ _ H),
    ?(sil_mfn _ _ _ H), ?(sil_mefn _ _ _ H), ?(sil_es _ _ _ H), ?(sil_eout _ _ _ H), ?(sil_ecbs _ _ _ H),
    ?(sil_cancelling _ _ _ H), ?(sil_hist _ _ _ H).

Lemma sil_bnd t s s' : sil t s s' -> Bnd s -> Bnd s'.
Proof.
  intros H [B1 B2 B3 B4]. constructor; sil_frame H; try assumption.
  intros t'. destruct (sil_thr _ _ _ H) as (i & r & Et & Ho & Hr).
  pose proof (B1 t) as It. rewrite Et in It. inversion It; subst.
  destruct (Nat.eq_dec t' t) as [->|N]; [|rewrite Ho by exact N; apply B1].
  destruct Hr as [->|(j & -> & ->)]; [assumption|apply okI_map_cb; assumption].
Qed.
