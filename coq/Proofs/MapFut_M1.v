(* Layer M1 (C20): the futures-in-progress gauge of track_future as a ghost over the MapFut machine.
   c is the id of the tracking done-callback (record_done): registered once per tracked future at
   creation time (inprogress.inc()), it decrements the gauge when it runs (HCb j c). *)
From Coq Require Import ZArith List Bool Arith Lia.
From RecordUpdate Require Import RecordSet.
From ME Require Import Base.Machine Base.Fut Base.GenPrelude Model.MapFut Model.MapLaw Proofs.MapFut_InvD Proofs.MapFut_E1.
Import ListNotations RecordSetNotations.

Definition is_tracked (s : st) (c j : nat) : bool := existsb (Nat.eqb c) (mreg s j).
Definition tracked (s : st) (c : nat) : list nat := filter (is_tracked s c) (seq 0 (nfut s)).
Definition is_cb (c : nat) (h : hev) : bool := match h with HCb _ c' => Nat.eqb c c' | _ => false end.
Definition ncb (s : st) (c : nat) : nat := length (filter (is_cb c) (hist s)).
Definition inprogress (s : st) (c : nat) : Z := (Z.of_nat (length (tracked s c)) - Z.of_nat (ncb s c))%Z.

(* the futures whose tracking callback ran, in history order *)
Fixpoint cbjs (c : nat) (l : list hev) : list nat :=
  match l with
  | [] => []
  | HCb j c' :: r => if Nat.eqb c c' then j :: cbjs c r else cbjs c r
  | _ :: r => cbjs c r
  end.
(* number of tracking-callback runs whose future satisfies P *)
Definition ncb_if (P : nat -> bool) (c : nat) (l : list hev) : nat :=
  length (filter (fun h => match h with HCb j c' => Nat.eqb c c' && P j | _ => false end) l).

Lemma cbjs_length c l : length (cbjs c l) = length (filter (is_cb c) l).
Proof. induction l as [|h l IH]; simpl; auto. destruct h; simpl; auto. destruct (Nat.eqb c c0); simpl; auto. Qed.
Lemma cbjs_filter_length P c l : length (filter P (cbjs c l)) = ncb_if P c l.
Proof.
  unfold ncb_if. induction l as [|h l IH]; simpl; auto. destruct h; simpl; auto.
  destruct (Nat.eqb c c0); simpl; auto. destruct (P j); simpl; auto.
Qed.
Lemma cbjs_in c l j : In j (cbjs c l) <-> In (HCb j c) l.
Proof.
  induction l as [|h l IH]; simpl; [tauto|].
  assert (G : forall h', (forall j' c', h' <> HCb j' c') -> (In j (cbjs c l) <-> (h' = HCb j c \/ In (HCb j c) l))).
  { intros h' N. rewrite IH. split; [auto|]. intros [X|X]; [exfalso; eapply N; exact X|exact X]. }
  destruct h; try (apply G; intros; discriminate).
  destruct (Nat.eqb c c0) eqn:E.
  - apply Nat.eqb_eq in E. subst c0. simpl. rewrite IH. split.
    + intros [X|X]; [left; congruence|right; exact X].
    + intros [X|X]; [left; inversion X; reflexivity|right; exact X].
  - rewrite IH. split; [auto|]. intros [X|X]; [|exact X]. inversion X; subst. rewrite Nat.eqb_refl in E. discriminate E.
Qed.
Lemma cbjs_nodup c l : (forall l1 j l2, l = l1 ++ HCb j c :: l2 -> ~ In (HCb j c) l2) -> NoDup (cbjs c l).
Proof.
  induction l as [|h l IH]; intros U; simpl; [constructor|].
  assert (U' : forall l1 j l2, l = l1 ++ HCb j c :: l2 -> ~ In (HCb j c) l2).
  { intros l1 j l2 E. apply (U (h :: l1)). rewrite E. reflexivity. }
  destruct h; try (apply IH; exact U').
  destruct (Nat.eqb c c0) eqn:E; [|apply IH; exact U']. apply Nat.eqb_eq in E. subst c0.
  constructor; [|apply IH; exact U']. rewrite cbjs_in. apply (U [] j l). reflexivity.
Qed.

Lemma filter_split_length {A} (P : A -> bool) l :
  length l = length (filter P l) + length (filter (fun x => negb (P x)) l).
Proof. induction l as [|a l IH]; simpl; auto. destruct (P a); simpl; lia. Qed.
Lemma nodup_same_length {A} (l1 l2 : list A) : NoDup l1 -> NoDup l2 -> (forall x, In x l1 <-> In x l2) -> length l1 = length l2.
Proof.
  intros N1 N2 E. apply Nat.le_antisymm; apply NoDup_incl_length; auto; intros x X; apply E; exact X.
Qed.
Lemma nodup_filter {A} (P : A -> bool) l : NoDup l -> NoDup (filter P l).
Proof. apply NoDup_filter. Qed.

Definition isdone (s : st) (j : nat) : bool := fdone (ms s j).
Definition pending_tracked (s : st) (c : nat) : list nat := filter (fun j => negb (isdone s j)) (tracked s c).
Definition done_tracked (s : st) (c : nat) : list nat := filter (isdone s) (tracked s c).

Lemma tracked_in s c j : In j (tracked s c) <-> j < nfut s /\ In c (mreg s j).
Proof.
  unfold tracked. rewrite filter_In, in_seq. unfold is_tracked. rewrite existsb_eqb_in. split; intros [X Y]; split; auto; lia.
Qed.
Lemma tracked_nodup s c : NoDup (tracked s c).
Proof. apply NoDup_filter. apply seq_NoDup. Qed.

(* the facts about a logged callback run *)
Lemma cb_logged_facts s : reachable s -> forall j c, In (HCb j c) (hist s) ->
  j < nfut s /\ In c (mreg s j) /\ fdone (ms s j) = true.
Proof.
  intros R j c X. destruct (inv4_reach s R) as [[[_ HD] _] (Rg & _ & _ & T)].
  assert (M : In c (mreg s j)).
  { apply (cb_H _ Rg). eapply in_cnt_pos; [exact X|]. simpl. rewrite !Nat.eqb_refl. reflexivity. }
  split; [eapply cb_bnd; eauto|]. split; [exact M|].
  destruct (in_split _ _ X) as (l1 & l2 & E). destruct (T _ _ _ _ E) as [_ [[o Y]|Y]].
  - destruct (h_set _ HD j o) as [A _]; [rewrite E; apply in_or_app; right; right; exact Y|]. rewrite A. reflexivity.
  - assert (Z : fcancelled (ms s j) = true) by (apply (h_canc _ HD); rewrite E; apply in_or_app; right; right; exact Y).
    destruct (ms s j); simpl in *; congruence.
Qed.

Lemma cbjs_sub_done s c : reachable s -> NoDup (cbjs c (hist s)) /\ incl (cbjs c (hist s)) (done_tracked s c).
Proof.
  intros R. split.
  - apply cbjs_nodup. intros l1 j l2 E. apply (mapfut_callback_once s R _ _ _ _ E).
  - intros j X. apply cbjs_in in X. destruct (cb_logged_facts s R j c X) as (L & M & D).
    unfold done_tracked. apply filter_In. split; [apply tracked_in; auto|exact D].
Qed.

Lemma inprogress_split s c :
  inprogress s c = (Z.of_nat (length (pending_tracked s c)) + (Z.of_nat (length (done_tracked s c)) - Z.of_nat (ncb s c)))%Z.
Proof.
  unfold inprogress, pending_tracked, done_tracked. rewrite (filter_split_length (isdone s) (tracked s c)). lia.
Qed.

Lemma mapfut_inprogress_lower_bound : forall s c, reachable s ->
  (Z.of_nat (length (pending_tracked s c)) <= inprogress s c)%Z.
Proof.
  intros s c R. rewrite inprogress_split. destruct (cbjs_sub_done s c R) as [N I].
  pose proof (NoDup_incl_length N I) as LE. rewrite cbjs_length in LE. unfold ncb. lia.
Qed.
Lemma mapfut_inprogress_never_negative : forall s c, reachable s -> (0 <= inprogress s c)%Z.
Proof. intros s c R. pose proof (mapfut_inprogress_lower_bound s c R). lia. Qed.

Lemma done_tracked_eq_cbjs s c : reachable s -> (forall t, thr s t = []) ->
  forall j, In j (cbjs c (hist s)) <-> In j (done_tracked s c).
Proof.
  intros R Q j. split; [apply (proj2 (cbjs_sub_done s c R))|].
  intros X. unfold done_tracked in X. apply filter_In in X. destruct X as [X D]. apply tracked_in in X. destruct X as [L M].
  apply cbjs_in. apply (mapfut_callback_all_run s R Q j c M D).
Qed.

Lemma mapfut_inprogress_at_quiescence : forall s c, reachable s -> (forall t, thr s t = []) ->
  inprogress s c = Z.of_nat (length (pending_tracked s c)).
Proof.
  intros s c R Q. rewrite inprogress_split.
  assert (E : length (cbjs c (hist s)) = length (done_tracked s c)).
  { apply nodup_same_length; [apply (cbjs_sub_done s c R)|apply NoDup_filter; apply tracked_nodup|apply done_tracked_eq_cbjs; auto]. }
  rewrite cbjs_length in E. unfold ncb. lia.
Qed.

(* outcome counters: for every classification P of futures, the number of tracking-callback runs on a
   P-future equals the number of done tracked P-futures *)
Lemma mapfut_counter_at_quiescence : forall s c (P : nat -> bool), reachable s -> (forall t, thr s t = []) ->
  ncb_if P c (hist s) = length (filter P (done_tracked s c)).
Proof.
  intros s c P R Q. rewrite <- cbjs_filter_length.
  apply nodup_same_length; try (apply NoDup_filter); [apply (cbjs_sub_done s c R)|apply NoDup_filter; apply tracked_nodup|].
  intros j. rewrite !filter_In. rewrite (done_tracked_eq_cbjs s c R Q j). tauto.
Qed.

(* ---- an outcome is only ever stored together with its HSet event ------------------------------- *)
Definition Mo (s : st) : Prop := forall j o, mout s j = Some o -> In (HSet j o) (hist s).
Lemma lstep_mo s e s0 : lstep s e = Some s0 -> Mo s -> Mo s0.
Proof.
  intros H I. unfold Mo in *. step_cases H; try exact I.
  all: intros j' o' X; simpl in *.
  all: try (right; apply I; exact X).
  all: try (usplit (nfut s); [discriminate X|right; apply I; exact X]).
  all: usplit j0; [inversion X; subst; left; reflexivity|right; apply I; exact X].
Qed.
Lemma sil_mo t s s' : sil t s s' -> Mo s -> Mo s'.
Proof. intros H. unfold Mo. sil_frame H. auto. Qed.
Lemma linv_mo : linv (fun s => Inv1 s /\ Mo s).
Proof.
  apply linv_and; [apply linv1|intros j o X; discriminate X| |].
  - intros; eapply lstep_mo; eauto.
  - intros; eapply sil_mo; eauto.
Qed.
Lemma mo_reach s : reachable s -> Mo s.
Proof. intros R. apply (linv_reach _ linv_mo (fun s0 H => proj1 (proj1 H)) s R). Qed.

Definition is_cancelled (s : st) (j : nat) : bool := fcancelled (ms s j).
Definition is_failed (s : st) (j : nat) : bool := match mout s j with Some (Err _) => true | _ => false end.

Lemma failed_done s j : reachable s -> is_failed s j = true -> fdone (ms s j) = true.
Proof.
  intros R X. unfold is_failed in X. destruct (mout s j) as [[v|e]|] eqn:E; try discriminate X.
  apply (mo_reach s R) in E. destruct (inv2_reach s R) as [_ HD]. destruct (h_set _ HD _ _ E) as [A _]. rewrite A. reflexivity.
Qed.
Lemma cancelled_done s j : is_cancelled s j = true -> fdone (ms s j) = true.
Proof. unfold is_cancelled. destruct (ms s j); simpl; congruence. Qed.

Lemma filter_filter_impl {A} (P Q : A -> bool) l : (forall x, P x = true -> Q x = true) -> filter P (filter Q l) = filter P l.
Proof.
  intros I. induction l as [|a l IH]; simpl; auto. destruct (Q a) eqn:Eq; simpl; [rewrite IH; reflexivity|].
  destruct (P a) eqn:Ep; [rewrite (I a Ep) in Eq; discriminate Eq|exact IH].
Qed.

Lemma mapfut_cancel_counter_at_quiescence : forall s c, reachable s -> (forall t, thr s t = []) ->
  ncb_if (is_cancelled s) c (hist s) = length (filter (is_cancelled s) (tracked s c)).
Proof.
  intros s c R Q. rewrite (mapfut_counter_at_quiescence s c _ R Q). unfold done_tracked.
  rewrite filter_filter_impl; [reflexivity|]. intros j. apply cancelled_done.
Qed.
Lemma mapfut_failed_counter_at_quiescence : forall s c, reachable s -> (forall t, thr s t = []) ->
  ncb_if (is_failed s) c (hist s) = length (filter (is_failed s) (tracked s c)).
Proof.
  intros s c R Q. rewrite (mapfut_counter_at_quiescence s c _ R Q). unfold done_tracked.
  rewrite filter_filter_impl; [reflexivity|]. intros j. apply failed_done; exact R.
Qed.
