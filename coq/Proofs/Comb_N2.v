(* N2: the decision taken under the lock is always published: once cdone holds, the output is done or
   the deciding thread still has its try_set_result / copy_future_exception / out.cancel() pending. *)
From Coq Require Import List Arith Bool Lia PeanoNat ZArith.
From ME Require Import Base.Machine Base.Fut Base.GenPrelude Gen.BoolGen Gen.ZipGen Model.Comb Proofs.Comb_Spec.
From ME Require Import Proofs.Comb_I0 Proofs.Comb_I1 Proofs.Comb_I2 Proofs.Comb_I4 Proofs.Comb_I8 Proofs.Comb_I10a Proofs.Comb_N1.
Import ListNotations.

Definition PB (s : st) : Prop :=
  cdone s = true -> fdone (os s) = true \/ (exists o, pend (thr s) (ISetOut o)) \/ pend (thr s) ICancelOut.

Lemma keep_setout o : keepable (ISetOut o). Proof. split; intros; discriminate. Qed.
Lemma keep_cancelout : keepable ICancelOut. Proof. split; intros; discriminate. Qed.

Lemma cancel_out_in l : In ICancelOut (map cancel_instr (l ++ [out_id])).
Proof. rewrite map_app. apply in_or_app. right. left. reflexivity. Qed.

Lemma PB_step s e s' : I1 s -> I2 s -> OR s -> PB s -> step s e = Some s' -> PB s'.
Proof.
  intros I K O P H Hc'. destruct (cdone s) eqn:Hc.
  - destruct (P Hc) as [Hd|[[o [u Hu]]|[u Hu]]].
    + left. eapply step_os_done; eauto.
    + destruct (step_pending _ _ _ u _ I H (keep_setout o) Hu) as [Hk|[-> [r Hr]]].
      { right. left. exists o, u. exact Hk. }
      left. destruct e; simpl in Hr; step_inv H; try congruence; clean; simpl;
        destruct (os s); simpl in *; try discriminate; inv_pairs; auto.
    + destruct (step_pending _ _ _ u _ I H keep_cancelout Hu) as [Hk|[-> [r Hr]]].
      { right. right. exists u. exact Hk. }
      left. pose proof (or_nr _ O) as Nr.
      destruct e; simpl in Hr; step_inv H; try congruence; clean; simpl;
        destruct (os s); simpl in *; try discriminate; inv_pairs; auto; congruence.
  - right.
    destruct e; step_inv H; simpl in *; try congruence.
    3: right; exists t; rewrite upd_same; simpl; auto.
    3,4: left; eexists; exists t; rewrite upd_same; simpl; auto.
    all: destruct (fcancelled (es s d)) eqn:Efc; [right | left; exists (oc_of s d)]; exists t; rewrite upd_same;
      destruct (eout s d) as [[|]|]; destruct (isnil (fsd s)); simpl;
      repeat (first [left; reflexivity | right]);
      apply in_or_app; left; apply cancel_out_in.
Qed.

Lemma PB_reach s : reachable s -> PB s.
Proof.
  apply invariant_rule_r; [intros H; discriminate|]. intros s0 e s' R D H.
  eapply PB_step; eauto using I1_reach, I2_reach, OR_reach.
Qed.

(* at quiescence the decision has been published *)
Lemma decided_published s : reachable s -> quiescent s -> cdone s = true -> fdone (os s) = true.
Proof.
  intros R Q Hc. destruct (PB_reach s R Hc) as [Hd|[[o [u Hu]]|[u Hu]]]; auto; rewrite Q in Hu; contradiction.
Qed.
