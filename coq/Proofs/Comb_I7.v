(* I7: (bool kinds) the output is only ever set with the deciding input's outcome. *)
From Coq Require Import List Arith Bool Lia PeanoNat ZArith.
From ME Require Import Base.Machine Base.Fut Base.GenPrelude Gen.BoolGen Gen.ZipGen Model.Comb Proofs.Comb_Spec.
From ME Require Import Proofs.Comb_I0 Proofs.Comb_I4 Proofs.Comb_I5.
Import ListNotations.

Definition decided (k : ckind) (h : list hev) (o : outcome) : Prop :=
  k <> KZip -> exists d, In (HDecide d (Some o)) h.
Definition Pso (k : ckind) (h : list hev) (i : instr) : Prop :=
  match i with ISetOut o => decided k h o | _ => True end.

Record I7 (s : st) : Prop := {
  i7_thr : forall t, Forall (Pso (ck s) (hist s)) (thr s t);
  i7_hist : forall o, In (HSetOut o) (hist s) -> decided (ck s) (hist s) o
}.

Lemma I7_init : I7 init.
Proof. constructor; simpl; intros; [constructor|contradiction]. Qed.

Lemma Pso_mono k h h' i : (forall x, In x h -> In x h') -> Pso k h i -> Pso k h' i.
Proof. intros M. destruct i; simpl; auto. intros D Hk. destruct (D Hk) as [d Hd]. exists d. auto. Qed.

Lemma I7_thr_other s e s' u : I4 s -> I7 s -> step s e = Some s' -> u <> actor e -> Forall (Pso (ck s') (hist s')) (thr s' u).
Proof.
  intros J I H Hu. rewrite (step_other_thr _ _ _ _ H Hu).
  destruct (built s) eqn:Hb.
  - destruct (step_built _ _ _ H Hb) as (_ & _ & Hk). rewrite Hk.
    eapply Forall_impl; [|apply (i7_thr _ I u)]. intros a. apply Pso_mono.
    intros x. eapply step_hist_in; eauto.
  - destruct (i4_unb _ J Hb) as (Ht & _). rewrite Ht. constructor.
Qed.

Lemma Pso_dead k h : Pso k h IDead.
Proof. exact I. Qed.

Lemma I7_thr_actor s e s' : I4 s -> I7 s -> step s e = Some s' -> Forall (Pso (ck s') (hist s')) (thr s' (actor e)).
Proof.
  intros J I H.
  assert (M : thr s (actor e) <> [] -> forall a, Pso (ck s) (hist s) a -> Pso (ck s') (hist s') a).
  { intros Hne a. destruct (step_built _ _ _ H (nonempty_built _ _ J Hne)) as (_ & _ & Hk). rewrite Hk.
    apply Pso_mono. intros x. eapply step_hist_in; eauto. }
  destruct e; simpl actor in *; pose proof (i7_thr _ I t) as It; step_inv H;
  try match goal with Hq : thr _ _ = _ |- _ => rewrite Hq in It, M end;
  try (specialize (M ltac:(discriminate)); apply (Forall_impl _ M) in It); clear M; simpl in It; fa_hyps;
  simpl; rewrite ?upd_same; fold_retb; try (apply Forall_norm; [apply Pso_dead|]);
  try solve [fa_tac ltac:(simpl; auto)]; try assumption.
  all: try solve [fa_tac ltac:(simpl; auto; unfold decided; intros; clean; subst; try congruence;
         repeat match goal with Hq : fcancelled _ = false |- _ => rewrite Hq end; eexists; left; reflexivity)].
  all: apply (i7_thr _ I).
Qed.

Lemma I7_hist s e s' : I4 s -> I5 s -> I7 s -> step s e = Some s' ->
  forall o, In (HSetOut o) (hist s') -> decided (ck s') (hist s') o.
Proof.
  intros J I5 I H o.
  assert (M : In (HSetOut o) (hist s) -> decided (ck s') (hist s') o).
  { intros Hin. destruct (built s) eqn:Hb.
    - destruct (step_built _ _ _ H Hb) as (_ & _ & Hk). rewrite Hk. intros Hz.
      destruct (i7_hist _ I o Hin Hz) as [d Hd]. exists d. eapply step_hist_in; eauto.
    - apply (i5_unb _ I5 Hb) in Hin. discriminate. }
  destruct e; pose proof (i7_thr _ I t) as It; step_inv H; simpl in *; auto;
  try match goal with Hq : thr _ _ = _ |- _ => rewrite Hq in It end; fa_hyps;
  try solve [intros [Hin|Hin]; [discriminate|auto]];
  try solve [intros [Hin|[Hin|Hin]]; [discriminate|discriminate|auto]];
  try solve [intros [Hin|[Hin|[Hin|Hin]]]; [discriminate|discriminate|discriminate|auto]].
  all: intros [Hin|Hin]; auto; inversion Hin; subst; simpl in Hhd; intros Hz;
       destruct (Hhd Hz) as [x Hx]; exists x; right; exact Hx.
Qed.

Lemma I7_step s e s' : I4 s -> I5 s -> I7 s -> step s e = Some s' -> I7 s'.
Proof.
  intros J I5 I H. constructor.
  - intros u. destruct (Nat.eq_dec u (actor e)) as [->|Hu]; [eapply I7_thr_actor|eapply I7_thr_other]; eauto.
  - eapply I7_hist; eauto.
Qed.

Lemma I7_reach s : reachable s -> I7 s.
Proof.
  apply invariant_rule_r; [exact I7_init|]. intros s0 e s' R I H.
  eapply I7_step; eauto using I4_reach, I5_reach.
Qed.
