(* PATH CONFORMANCE of the regenerated methods (Gen/PollSkel.v) against the programs of Model/Poll.v:
   for every method and EVERY path through the generated term (every resolution of every branch, callbacks and callees
   inlined), the sequence of visible operations and thread-local reads / writes replays, instruction by instruction, on the
   program Poll.v's [step] installs for that API call / callback / yield (Proofs/PollIR_Cont.v: entry_... lemmas), with the
   continuations [step] itself takes (step_cont_alt); and the machine program has no path the term lacks.
   Each lemma is a kernel computation over the finite path sets; j v e stay symbolic. *)
From Coq Require Import List Bool Arith.
From ME Require Import Model.Poll Model.PollIR Gen.PollSkel.
Import ListNotations.

(* PollExecutor.submit (ensure_alive, PollFuture.__init__, _Future.add_done_callback, _clear_executor, _deregister_poll and -
   when the delegate is already done - _delegate_resolved, _register_poll, _clear_delegate, copy_future_exception, copy_exception,
   set_exception_info, set_exception, _me_invoke_callbacks inlined) against ECallSubmit's program *)
Lemma conf_submit j v e : conforms j v e [IGAcq; IDSubmit] (paths_api body MSubmit) = true.
Proof. vm_compute. reflexivity. Qed.

(* _Future.cancel (PollFuture._me_cancel, PollExecutor._run_cancel_fn, _me_invoke_callbacks, _clear_executor inlined;
   _delegate_resolved when the delegate's cancel() fires it) against ECallCancel's program *)
Lemma conf_cancel j v e : conforms j v e [IAcqM j; ICancelled j] (paths_api body MCancel) = true.
Proof. vm_compute. reflexivity. Qed.

Lemma conf_notify j v e : conforms j v e [IEvSet; IRet] (paths_api body MNotify) = true.
Proof. vm_compute. reflexivity. Qed.

(* PollFuture._delegate_resolved as the delegate's done-callback (IAddCbD done / IDCancel fires / EEnvFinish / EEnvCancel) *)
Lemma conf_delegate_resolved j v e : conforms j v e (resolved_prog j) (paths body MDelegateResolved) = true.
Proof. vm_compute. reflexivity. Qed.

(* PollDescriptor.yield_result / yield_exception called by the user's poll function (EYield) *)
Lemma conf_yield_result j v e : conforms j v e (yield_prog j (Ok v)) (paths body MYieldResult) = true.
Proof. vm_compute. reflexivity. Qed.
Lemma conf_yield_exception j v e : conforms j v e (yield_prog j (Err e)) (paths body MYieldException) = true.
Proof. vm_compute. reflexivity. Qed.

(* the methods that are reached through the entries above, on their own where they start at an instruction boundary *)
Lemma conf_clear_executor j v e : conforms j v e [IXDereg j] (paths body MClearExecutor) = true.
Proof. vm_compute. reflexivity. Qed.
Lemma conf_set_result j v e : conforms j v e (res_prog j v) (paths body MSetResult) = true.
Proof. vm_compute. reflexivity. Qed.
Lemma conf_try_set_result j v e : conforms j v e (res_prog j v) (paths body MTrySetResult) = true.
Proof. vm_compute. reflexivity. Qed.
Lemma conf_copy_exception j v e : conforms j v e (exc_prog j e) (paths body MCopyException) = true.
Proof. vm_compute. reflexivity. Qed.
Lemma conf_set_exception j v e : conforms j v e [IAcqM j; IFSetExc j e] (paths body MSetException) = true.
Proof. vm_compute. reflexivity. Qed.
Lemma conf_clear_delegate j v e : conforms j v e [IAcqMClr j; IRelM j] (paths body MClearDelegate) = true.
Proof. vm_compute. reflexivity. Qed.
(* _register_poll: its first statement (the descriptor is built from delegate_future.result()) belongs to the caller's
   IDCancelledQ step; the rest is register_prog *)
Lemma conf_register_poll j v e :
  map (@hd item (OFuel, 0)) (paths body MRegisterPoll) = [(WMkDescriptor, 0)] /\
  conforms j v e (register_prog j v) (map (@tl item) (paths body MRegisterPoll)) = true.
Proof. split; vm_compute; reflexivity. Qed.
(* _deregister_poll: the X-section of IXDereg (its trailing write, future._executor = None, is _clear_executor's) *)
Lemma conf_deregister_poll : paths body MDeregisterPoll = [[(OAcq LX, 0); (WDescFilter, 0); (ORel LX, 0)]].
Proof. vm_compute. reflexivity. Qed.

(* one iteration of _poll_loop with _run_poll_fn inlined: the iterations are exactly the cycles KTop -> KTop of [pm_trans]
   (Proofs/PollIR_Cont.v: poller_cycle), the snapshot is taken in its own X-section BEFORE the poll function is called,
   a raising poll function fails the futures of that snapshot with exc_prog (entry_poll_raise), wait comes before clear;
   the three exits (executor collected, shut down, interpreter exit) are outside Model/Poll.v *)
Lemma conf_poll_loop j v e : loop_conforms j v e (paths body MPollLoop) = true.
Proof. vm_compute. reflexivity. Qed.

(* sizes, for the record *)
Lemma path_counts :
  length (paths_api body MSubmit) = 15 /\ length (paths_api body MCancel) = 99 /\ length (paths body MPollLoop) = 13 /\
  length (mexplore 0 0 0 200 [IGAcq; IDSubmit]) = 15 /\ length (mexplore 0 0 0 200 [IAcqM 0; ICancelled 0]) = 91 /\
  cycles 10 KTop = [[0; 1; 2; 4; 7]; [0; 1; 2; 5; 6; 7]; [0; 1; 3; 4; 7]; [0; 1; 3; 5; 6; 7]].
Proof. vm_compute. repeat split. Qed.

(* the checks are not vacuous: a wrong reference program is refuted *)
Lemma conf_sensitive :
  conforms 0 0 0 [IGAcq] (paths_api body MSubmit) = false /\
  conforms 0 0 0 [IXAcqReg 0 0; IEvSet; IAcqMClr 0; IRelM 0; IXRel] (map (@tl item) (paths body MRegisterPoll)) = false /\
  conforms 0 0 0 [IAcqM 0; IFSetRes 0 0] (paths body MSetResult) = false.
Proof. vm_compute. repeat split. Qed.

(* ---- what [conforms] = true means ------------------------------------------------------------------------------------- *)
Lemma nats_eq_eq a b : nats_eq a b = true -> a = b.
Proof.
  revert b. induction a as [|x a IH]; intros [|y b] H; simpl in H; try discriminate; [reflexivity|].
  apply andb_prop in H. destruct H as [H1 H2]. apply Nat.eqb_eq in H1. apply IH in H2. congruence.
Qed.

Lemma subset_in xs ys : subset xs ys = true -> forall x, In x xs -> In x ys.
Proof.
  unfold subset. intros H x Hx. rewrite forallb_forall in H. specialize (H x Hx).
  apply existsb_exists in H. destruct H as [y [Hy He]]. apply nats_eq_eq in He. subst y. exact Hy.
Qed.

(* every path of the generated term replays on the machine program and is one of its paths; every path of the machine
   program is the replay of a path of the generated term *)
Theorem conforms_spec jj vv ee entry ps :
  conforms jj vv ee entry ps = true ->
  (forall p, In p ps -> exists alts, conform jj vv ee 200 entry (clean p) = Some alts /\ In alts (mexplore jj vv ee 200 entry)) /\
  (forall alts, In alts (mexplore jj vv ee 200 entry) -> exists p, In p ps /\ conform jj vv ee 200 entry (clean p) = Some alts).
Proof.
  unfold conforms. intros H. apply andb_prop in H. destruct H as [Hall H]. apply andb_prop in H. destruct H as [H1 H2].
  rewrite forallb_forall in Hall.
  split.
  - intros p Hp.
    assert (Hin : In (conform jj vv ee 200 entry (clean p)) (map (fun p => conform jj vv ee 200 entry (clean p)) ps))
      by (apply in_map_iff; eauto).
    specialize (Hall _ Hin). destruct (conform jj vv ee 200 entry (clean p)) as [alts|] eqn:E; [|discriminate].
    exists alts. split; [reflexivity|]. apply (subset_in _ _ H1). apply in_flat_map. eexists. split; [exact Hin|]. left. reflexivity.
  - intros alts Ha. apply (subset_in _ _ H2) in Ha. apply in_flat_map in Ha. destruct Ha as [x [Hx Hy]].
    apply in_map_iff in Hx. destruct Hx as [p [Hp Hin]]. subst x. exists p. split; [exact Hin|].
    destruct (conform jj vv ee 200 entry (clean p)); [|contradiction]. destruct Hy as [->|[]]. reflexivity.
Qed.
