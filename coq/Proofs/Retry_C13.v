(* At most one record per (not yet done) future in _jobs; the worker's submit section is exclusive. *)
From Coq Require Import List ZArith Bool Arith Lia.
From RecordUpdate Require Import RecordSet.
From ME Require Import Base.Machine Base.Fut Base.GenPrelude Gen.RetryGen Model.Retry Proofs.Retry_Spec Proofs.Retry_C0 Proofs.Retry_C1 Proofs.Retry_C2 Proofs.Retry_C3 Proofs.Retry_C4 Proofs.Retry_C5 Proofs.Retry_C6 Proofs.Retry_C7 Proofs.Retry_C8 Proofs.Retry_C9 Proofs.Retry_C10 Proofs.Retry_C11 Proofs.Retry_C12.
Import ListNotations RecordSetNotations.

Definition uniq (s : st) : Prop := forall r1 r2, In r1 (jobs s) -> In r2 (jobs s) ->
  jf (recs s r1) = jf (recs s r2) -> r1 = r2 \/ fdone (rs s (jf (recs s r1))) = true.
Definition secx (s : st) : Prop := forall t i l r, thr s t = i :: l -> (i = IDoneW r \/ i = IDSubmit r) ->
  fdone (rs s (jf (recs s r))) = false -> forall r', In r' (jobs s) -> jf (recs s r') <> jf (recs s r).

Lemma uniq_frame s s' : MONO s s' -> RI s -> PI s -> (forall r, In r (jobs s') -> In r (jobs s)) ->
  uniq s -> uniq s'.
Proof.
  intros M R P Hsub U r1 r2 H1 H2 E. apply Hsub in H1. apply Hsub in H2.
  pose proof (ri_jobs s R r1 H1) as L1. pose proof (ri_jobs s R r2 H2) as L2.
  rewrite !(mo_jf _ _ M) in * by assumption.
  destruct (U r1 r2 H1 H2 E) as [A|A]; [left; exact A|right].
  apply (mo_rdone _ _ M); [apply (pi_jf s P); exact L1|exact A].
Qed.

Lemma dn_back s s' j : MONO s s' -> j < nfut s -> fdone (rs s' j) = false -> fdone (rs s j) = false.
Proof.
  intros M Hj H. destruct (fdone (rs s j)) eqn:E; [|reflexivity].
  rewrite (mo_rdone _ _ M j Hj E) in H. discriminate.
Qed.

Lemma uniq_add s s' : MONO s s' -> RI s -> PI s ->
  (forall r, In r (jobs s') -> In r (jobs s) \/ r = nrec s) ->
  (forall r1, In r1 (jobs s) -> In r1 (jobs s') -> jf (recs s r1) = jf (recs s' (nrec s)) ->
     fdone (rs s' (jf (recs s r1))) = true) ->
  uniq s -> uniq s'.
Proof.
  intros M R P Hsub Hnew U r1 r2 H1 H2 E.
  destruct (Hsub _ H1) as [A1| ->]; destruct (Hsub _ H2) as [A2| ->].
  - pose proof (ri_jobs s R r1 A1) as L1. pose proof (ri_jobs s R r2 A2) as L2.
    rewrite !(mo_jf _ _ M) in * by assumption.
    destruct (U r1 r2 A1 A2 E) as [A|A]; [left; exact A|right].
    apply (mo_rdone _ _ M); [apply (pi_jf s P); exact L1|exact A].
  - pose proof (ri_jobs s R r1 A1) as L1. right. rewrite (mo_jf _ _ M) in * by assumption.
    apply Hnew; assumption.
  - pose proof (ri_jobs s R r2 A2) as L2. right. rewrite E. rewrite (mo_jf _ _ M) in * by assumption.
    apply Hnew; [assumption|assumption|].
    rewrite <- (mo_jf _ _ M) by assumption. symmetry. exact E.
  - left. reflexivity.
Qed.

Lemma uniq_step0 s e s' : uniq s -> secx s -> JCH s -> HI s -> PI s -> RI s ->
  step0 s e = Some s' -> uniq s'.
Proof.
  intros HU HX HJ HH HP HR H. pose proof (MONO_step0 _ _ _ H) as HM. s0inv H; try exact HU.
  all: try (match goal with inl : option outcome |- _ => destruct inl end).
  all: bsplit; subst.
  all: try (apply (uniq_frame s _ HM HR HP); [|exact HU]; unfold log, set_prog; simpl; intros rr Hrr;
            first [exact Hrr | apply in_remove_id in Hrr; apply Hrr]).
  all: apply (uniq_add s _ HM HR HP); [| |exact HU]; unfold log, set_prog; simpl.
  all: try (intros rr Hrr; apply in_app_iff in Hrr; destruct Hrr as [Hrr|[<-|[]]]; [left|right; reflexivity];
            first [exact Hrr | apply in_remove_id in Hrr; apply Hrr]).
  all: rewrite upd_same; simpl; intros r1 A1 A1' E.
  - exfalso. pose proof (pi_jf s HP r1 (ri_jobs s HR r1 A1)). lia.
  - destruct (fdone (rs s (jf (recs s r1)))) eqn:Ed; [reflexivity|exfalso].
    apply in_app_iff in A1'. destruct A1' as [A1'|[<-|[]]].
    + apply in_remove_id in A1'. destruct A1' as [_ Nr].
      pose proof (pi_thr s HP t) as Q. rewrite Heql in Q. inversion Q as [|? ? Qi _]; subst. simpl in Qi.
      destruct Qi as (Lr & d & Bd & _ & Fd & _).
      assert (Rin : In r (jobs s)).
      { eapply (HJ t _ _ r Heql); [reflexivity|rewrite <- E; exact Ed|intros d' Hd'; congruence]. }
      destruct (HU r1 r A1 Rin E) as [X|X]; [contradiction|congruence].
    + pose proof (ri_jobs s HR _ A1). lia.
  - exfalso. pose proof (HH _ _ _ Heql) as Hh. simpl in Hh. destruct Hh as [_ Hn].
    apply (HX t _ _ r Heql (or_intror eq_refl) Hn r1 A1). exact E.
  - exfalso. pose proof (HH _ _ _ Heql) as Hh. simpl in Hh. destruct Hh as [_ Hn].
    apply (HX t _ _ r Heql (or_intror eq_refl) Hn r1 A1). exact E.
Qed.

Lemma secx_other s s' u i l r0 r' : secx s -> RI s -> PI s -> MONO s s' -> thr s u = i :: l ->
  (i = IDoneW r0 \/ i = IDSubmit r0) -> fdone (rs s' (jf (recs s' r0))) = false ->
  In r' (jobs s) -> jf (recs s' r') <> jf (recs s' r0).
Proof.
  intros X R P M E Hi Hd Hr.
  assert (L0 : r0 < nrec s).
  { pose proof (pi_thr s P u) as Q. rewrite E in Q. inversion Q as [|? ? Qi _]; subst.
    destruct Hi as [-> | ->]; simpl in Qi; tauto. }
  pose proof (ri_jobs s R r' Hr) as L'.
  rewrite !(mo_jf _ _ M) in * by assumption.
  apply (X u i l r0 E Hi); [|exact Hr].
  eapply dn_back; [exact M|apply (pi_jf s P); exact L0|exact Hd].
Qed.

Lemma secx_step0 s e s' : uniq s -> secx s -> JPOP s -> HI s -> MI s -> PI s -> RI s ->
  (forall t, posok (thr s t) = true) -> step0 s e = Some s' -> secx s'.
Proof.
  intros HU HX HJ HH HMI HP HR HPos H. pose proof (MONO_step0 _ _ _ H) as HM. s0inv H; try exact HX.
  all: try (match goal with inl : option outcome |- _ => destruct inl end).
  all: bsplit; subst.
  all: intros u i' l' r0 E Hi Hd r' Hr'.
  all: try (match goal with Hq : thr _ ?t = _ |- _ =>
      destruct (Nat.eq_dec u t) as [->|Nu];
      [pose proof (HPos t) as Pt; rewrite Hq in Pt; unfold posok in Pt; simpl in Pt
      |assert (Eu : thr s u = i' :: l') by (unfold log, set_prog in E; simpl in E; rewrite upd_other in E by exact Nu; exact E);
       assert (Xu : xown s = Some u) by (pose proof (HH _ _ _ Eu) as Hh; destruct Hi as [-> | ->]; simpl in Hh; tauto);
       apply (secx_other s _ u i' l' r0 r' HX HR HP HM Eu Hi Hd); clear Hd;
       unfold log, set_prog in Hr'; simpl in Hr'] end).
  all: try assumption.
  all: try (apply in_remove_id in Hr'; apply Hr').
  all: try (rewrite Xu in *; discriminate).
  all: unfold log, set_prog in E; simpl in E; rewrite ?upd_same in E.
  all: try (apply norm_head_nh in E; [|assumption]; destruct Hi as [-> | ->]; discriminate E).
  all: try (inversion E; subst; destruct Hi as [X|X]; discriminate X).
  - inversion E; subst. destruct Hi as [Hi|Hi]; inversion Hi; subst. clear Hi E.
    unfold set_prog in *. simpl in *. apply in_remove_id in Hr'. destruct Hr' as [Hr' Nr]. intros Ej.
    assert (Hp : In (IXAcqPop r0) (thr s t)) by (rewrite Heql; left; reflexivity).
    destruct (HJ t r0 Hp) as [A|[A|[c A]]].
    + destruct (HU r' r0 Hr' A Ej) as [X|X]; [contradiction|congruence].
    + congruence.
    + assert (B : mown s (jf (recs s r0)) = Some c).
      { apply opt_eqb_some. eapply fcpre_held; [apply (mi_seq s HMI c)|exact A]. }
      assert (B' : mown s (jf (recs s r0)) = Some t).
      { eapply MI_head; [exact HMI|exact Heql|]. right. simpl. unfold jfs. rewrite Nat.eqb_refl. reflexivity. }
      assert (c = t) by congruence. subst c. rewrite Heql in A. simpl in A. discriminate A.
  - assert (X : forallb nh (cbs_prog j0 (rcbs s j0) ++ l) = true) by (rewrite forallb_app, nh_cbs; exact Pt).
    apply norm_head_nh in E; [|exact X]. destruct Hi as [-> | ->]; discriminate E.
  - inversion E; subst. destruct Hi as [Hi|Hi]; inversion Hi; subst. clear Hi E.
    unfold set_prog in *. simpl in *. eapply (HX t _ _ r0 Heql); [left; reflexivity|exact Hd|exact Hr'].
  - simpl in E. apply (nh_norm l true) in Pt. rewrite E in Pt. simpl in Pt. apply andb_true_iff in Pt.
    destruct Pt as [Pt _]. destruct Hi as [-> | ->]; discriminate Pt.
  - exfalso. pose proof (HH _ _ _ Heql) as Hh. simpl in Hh. destruct Hh as [Xt _]. congruence.
  - exfalso. pose proof (HH _ _ _ Heql) as Hh. simpl in Hh. destruct Hh as [Xt _]. congruence.
  - destruct (dcb s d); simpl in E; inversion E; subst. destruct Hi as [X|X]; discriminate X.
  - destruct (dcb s d); simpl in E; inversion E; subst. destruct Hi as [X|X]; discriminate X.
Qed.

Lemma HI_tick s ts : HI s -> HI (s <| clock := ts |>).
Proof. intros IH t i l E. specialize (IH t i l E). destruct i; exact IH. Qed.

Lemma JU_reach s : reachable_from step init s -> uniq s /\ secx s.
Proof.
  apply (invariant_rule_r step (fun s => uniq s /\ secx s)).
  - split; [intros r1 r2 H; destruct H|intros t i l r E; discriminate E].
  - intros s0 e s' R [IU IX] H. apply step_split in H. destruct H as (s1 & Ht & H).
    apply tick_eq in Ht. subst s1.
    assert (U1 : uniq (s0 <| clock := fst e |>)) by exact IU.
    assert (X1 : secx (s0 <| clock := fst e |>)) by exact IX.
    assert (J1 : JCH (s0 <| clock := fst e |>)) by exact (JCH_reach s0 R).
    assert (H1 : HI (s0 <| clock := fst e |>)) by (apply HI_tick, HI_reach, R).
    assert (P1 : PI (s0 <| clock := fst e |>)) by (apply PI_tick, PI_reach, R).
    assert (R1 : RI (s0 <| clock := fst e |>)) by (apply RI_tick, RI_reach, R).
    assert (M1 : MI (s0 <| clock := fst e |>)) by (apply MI_tick, MI_reach, R).
    assert (JP1 : JPOP (s0 <| clock := fst e |>)).
    { intros t r Hin. destruct (JPOP_reach s0 R t r Hin) as [A|[A|[c A]]]; [left; exact A|right; left; exact A|].
      right. right. exists c. simpl. rewrite fcpre_tick. exact A. }
    split.
    + eapply uniq_step0; eauto.
    + eapply secx_step0; eauto. apply (POS_reach s0 R).
Qed.
