(* C02 / Timeout, part P2: InvP is preserved by the steps of the job thread's loop and of the locks / events
   (step_sync) and by the API calls, the delegate executor and the environment (step_call). *)
From Coq Require Import ZArith List Bool Arith Lia.
From RecordUpdate Require Import RecordSet.
From ME Require Import Base.Machine Base.Fut Base.GenPrelude Gen.TimeoutGen Proofs.Timeout_Spec Model.Timeout
  Proofs.Timeout_Inv Proofs.Proto_Timeout_P Proofs.Proto_Timeout_P1.
Import ListNotations RecordSetNotations.

Lemma ltb_of a b : a < b -> (a <? b) = true. Proof. intros. apply Nat.ltb_lt. assumption. Qed.

(* programs built from state lists *)
Lemma pok_map_tc n l : (forall job, In job l -> tj_id job < n) -> forallb (pok n) (map ITCancel l) = true.
Proof.
  induction l as [|a l IH]; [reflexivity|]. intros H. simpl. rewrite (ltb_of _ _ (H a (or_introl eq_refl))). simpl.
  apply IH. intros job Hin. apply H. right. exact Hin.
Qed.
Lemma noretb_map_tc l : forallb noretb (map ITCancel l) = true.
Proof. induction l; simpl; auto. Qed.
Lemma fpairs_map_tc l q : fpairs (map ITCancel l ++ q) = fpairs q.
Proof. induction l; simpl; auto. Qed.
Lemma pok_map_pd n (l : list tjob) : forallb (pok n) (map (fun job => IPDone (tj_id job)) l) = true.
Proof. induction l; simpl; auto. Qed.
Lemma nonc_map_pd (l : list tjob) : forallb nonc (map (fun job => IPDone (tj_id job)) l) = true.
Proof. induction l; simpl; auto. Qed.
Lemma pok_cbs_prog n j l : forallb (pok n) (cbs_prog j l) = true.
Proof. induction l as [|c l IH]; [reflexivity|]. unfold cbs_prog in *. simpl. rewrite forallb_app, IH. destruct c; reflexivity. Qed.
Lemma neut_cbs_prog j l : forallb neut (cbs_prog j l) = true.
Proof. induction l as [|c l IH]; [reflexivity|]. unfold cbs_prog in *. simpl. rewrite forallb_app, IH. destruct c; reflexivity. Qed.

Lemma partition_ovd_in s l0 l1 job : partition s = (l0, l1) -> In job l1 -> In job (jobs s).
Proof.
  unfold partition. intros E Hin. apply (f_equal snd) in E. simpl in E. subst l1.
  apply partition_overdue in Hin. tauto.
Qed.

Ltac wv :=
  match goal with E : wait_view _ = _ |- _ => apply wait_view_inv in E; destruct E as [E|[E _]] end.

Lemma sync_invP s e s' : (forall job, In job (jobs s) -> tj_id job < nfut s) ->
  InvP s -> step_sync s e = Some s' -> InvP s'.
Proof.
  intros Hjobs IP Hx. destruct e; cbn [step_sync] in Hx; try discriminate.
  - (* EXSec *) brk Hx; inv_some Hx; eqs; logs; nc_step IP s.
  - (* EXAcq *) brk Hx; inv_some Hx; eqs. apply (invP_idle s); auto.
  - (* EXRel *) brk Hx; inv_some Hx; eqs; logs.
    match goal with Et : thr s jt = IXRelP :: ?rest, Ept : partition s = (?l0, ?l1) |- InvP (set_prog ?s1 _ _) =>
      replace (map ITCancel l1 ++ IWaitCalc None :: rest) with ((map ITCancel l1 ++ [IWaitCalc None]) ++ rest)
        by (rewrite <- app_assoc; reflexivity);
      apply (invP_jt s s1 IXRelP rest _ IP); [reflexivity|reflexivity|exact Et|reflexivity| | |];
      [ intros _; rewrite forallb_app, pok_map_tc; [reflexivity|];
        intros job Hin; apply Hjobs; eapply partition_ovd_in; eauto
      | rewrite forallb_app, noretb_map_tc; reflexivity
      | rewrite <- app_assoc, fpairs_map_tc; reflexivity ]
    end.
  - (* EEvSet *) brk Hx; inv_some Hx; eqs; both_step IP s.
  - (* EAcqM *) brk Hx; inv_some Hx; eqs; logs; try solve [both_step IP s].
    match goal with Et : thr s jt = ITCancel ?job :: ?rest |- InvP (set_prog ?s1 _ _) =>
      change (InvP (set_prog s1 jt ([ICancelled (tj_id job)] ++ rest)));
      apply (invP_jt s s1 (ITCancel job) rest _ IP); [reflexivity|reflexivity|exact Et|reflexivity|pok_side|reflexivity|reflexivity]
    end.
  - (* ERelM *) brk Hx; inv_some Hx; eqs; try solve [both_step IP s].
    match goal with Et : thr s ?t = IRelMCbs ?j :: ?rest |- InvP (set_prog ?s1 _ _) =>
      apply (invP_both s s1 t [IRelMCbs j] rest (cbs_prog j (rcbs s j)) IP);
        [reflexivity|reflexivity|exact Et|reflexivity|intros _; apply pok_cbs_prog|apply neut_cbs_prog]
    end.
  - (* EAcqG *) brk Hx; inv_some Hx; eqs; nc_step IP s.
  - (* ERelG *) brk Hx; inv_some Hx; eqs; nc_step IP s.
  - (* EClock *) brk Hx; inv_some Hx; eqs; try solve [nc_step IP s].
    match goal with Et : thr s ?t = IClockP :: ?rest |- InvP (set_prog ?s1 _ _) =>
      replace (map (fun job => IPDone (tj_id job)) (jobs s) ++ IXRelP :: rest)
        with ((map (fun job => IPDone (tj_id job)) (jobs s) ++ [IXRelP]) ++ rest) by (rewrite <- app_assoc; reflexivity);
      apply (invP_nc s s1 t IClockP rest _ IP); [reflexivity|reflexivity|exact Et|reflexivity|reflexivity| |];
      [ intros _; rewrite forallb_app, pok_map_pd; reflexivity | rewrite forallb_app, nonc_map_pd; reflexivity ]
    end.
  - (* EWWait *) brk Hx; inv_some Hx; wv; logs; nc_step IP s.
  - (* EWWoke *) brk Hx; inv_some Hx; eqs; nc_step IP s.
  - (* EWClear *) brk Hx; inv_some Hx; eqs; nc_step IP s.
Qed.

Lemma call_cancel_invP s t j s' : InvP s -> step_call s (ECallCancel t j) = Some s' -> InvP s'.
Proof.
  intros IP Hx. cbn [step_call] in Hx. brk Hx. inv_some Hx.
  match goal with E : _ || _ = false |- _ => apply orb_false_elim in E; destruct E as [Ei Ej] end.
  apply negb_false_iff in Ej.
  match goal with Et : thr s t = [] |- _ => rename Et into Ep end.
  apply invP_log.
  apply (invP_step s _ t [IAcqM j; ICancelled j] IP); unfold set_prog; simpl; auto.
  - intros u Hne. rewrite upd_other by exact Hne. reflexivity.
  - exact (p_fresh _ IP).
  - rewrite upd_same. unfold wfp. simpl. rewrite Ej, Ei, Nat.eqb_refl. reflexivity.
  - intros j0. rewrite upd_same. intros Hj. inversion Hj; subst. split; [apply Nat.ltb_lt; exact Ej|left; reflexivity].
  - intros k Hk. right. split; [exact Hk|]. rewrite Ep. discriminate.
Qed.

Lemma ret_invP s t c s' : InvP s -> step_call s (ERet t c) = Some s' -> InvP s'.
Proof.
  intros IP Hx. cbn [step_call] in Hx. brk Hx; inv_some Hx; eqs; logs; try solve [nc_step IP s].
  (* cancel() returns *)
  match goal with Et : thr s t = IRetB ?b :: ?rest |- _ =>
    destruct (head_closer _ _ _ _ IP Et eq_refl eq_refl) as [[jc [Ec [Hjc [Er _]]]]|[Ec _]]; [subst rest; rename Et into Ep|congruence] end.
  apply (invP_step s _ t [] IP); unfold set_prog; simpl; auto.
  - intros u Hne. rewrite upd_other by exact Hne. reflexivity.
  - exact (p_fresh _ IP).
  - rewrite upd_same. unfold wfp, okn. simpl. destruct (Nat.eqb t jt); reflexivity.
  - intros j0. rewrite upd_same. discriminate.
  - intros k Hk. right. split; [exact Hk|]. rewrite Ep. discriminate.
Qed.

(* a new returned future: the id nfut s is allocated, nothing is written (fresh ids have the initial values) *)
Lemma dsubmit_aux s s1 t tmo rest0 d :
  InvP s -> thr s t = IDSubmit tmo :: rest0 -> thr s1 = thr s -> nfut s1 = S (nfut s) -> rs s1 = rs s -> rout s1 = rout s ->
  cancelling s1 = cancelling s -> InvP (set_prog s1 t (submit_prog (nfut s) d tmo ++ rest0)).
Proof.
  intros IP Ep Et En1 Er Eo Ec.
  pose proof (head_nc_none _ _ _ _ IP Ep eq_refl eq_refl) as En.
  pose proof (p_wf _ IP t) as Hw. rewrite Ep, En in Hw. destruct (wfp_split _ _ _ _ Hw) as [A1 [A2 A3]].
  simpl in A1, A2. apply okn_tl in A3.
  assert (Hwf : wfp (S (nfut s)) t None (submit_prog (nfut s) d tmo ++ rest0) = true).
  { apply wfp_join.
    + simpl. rewrite (ltb_of _ _ (Nat.lt_succ_diag_r (nfut s))). simpl. eapply pok_mono; [|exact A1]. lia.
    + simpl. exact A2.
    + rewrite okn_app, A3, okn_nonc; reflexivity. }
  assert (Hsr : forall j, has_srnc j rest0 = true -> has_srnc j (submit_prog (nfut s) d tmo ++ rest0) = true).
  { intros j Hs. rewrite srnc_app, Hs. apply orb_true_r. }
  set (p := submit_prog (nfut s) d tmo ++ rest0) in *.
  apply (invP_step s _ t (stamp s1 p) IP); unfold set_prog; simpl;
    rewrite ?Et, ?En1, ?Er, ?Eo, ?Ec; auto.
  - intros j Hj. apply (p_fresh _ IP). lia.
  - rewrite wfp_stamp, En. exact Hwf.
  - intros j Hj. rewrite En in Hj. discriminate.
  - intros j Hj. right. split; [exact Hj|]. rewrite ?srnc_stamp, Ep. simpl. auto.
Qed.
Lemma dsubmit_invP s t d i s' : InvP s -> step_call s (EDSubmit t d i) = Some s' -> InvP s'.
Proof.
  intros IP Hx. cbn [step_call] in Hx. brk Hx; inv_some Hx; eqs; apply invP_log;
    (eapply (dsubmit_aux s); [exact IP|eassumption|reflexivity..]).
Qed.

Lemma call_invP s e s' : (forall d j, dcb s d = Some j -> j < nfut s) ->
  InvP s -> step_call s e = Some s' -> InvP s'.
Proof.
  intros Hdcb IP Hx. destruct e; try discriminate;
    try solve [eapply call_cancel_invP; eauto | eapply ret_invP; eauto | eapply dsubmit_invP; eauto];
    cbn [step_call] in Hx.
  - (* ECallSubmit *) brk Hx; inv_some Hx. apply (invP_idle s); auto.
  - (* ECallAddCb *) brk Hx; inv_some Hx. apply (invP_idle s); auto.
  - (* EUserCb *) brk Hx; inv_some Hx; eqs; logs; both_step IP s.
  - (* EEnvRun *) brk Hx; inv_some Hx. apply (invP_view s); auto.
  - (* EEnvFinish *) brk Hx; inv_some Hx; logs; apply (invP_idle s); auto.
    simpl. match goal with E : dcb s _ = Some ?j |- _ => rewrite (ltb_of _ _ (Hdcb _ _ E)) end. reflexivity.
Qed.
