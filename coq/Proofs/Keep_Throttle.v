(* C12 / Throttle: the theorems.  A done ThrottleFuture (resolved or cancelled) is not in the queue, not in the
   hand-over thread's local list, not in the callback list of any delegate future; it still points at its delegate
   only while the registration / the clearing of the link is pending in some program (exact window), hence not at rest. *)
From Coq Require Import ZArith List Bool Arith Lia.
From RecordUpdate Require Import RecordSet.
From ME Require Import Base.Machine Base.Fut Base.GenPrelude Gen.ThrottleGen Model.Throttle
  Proofs.Throttle_Spec Proofs.Throttle_Inv Proofs.Throttle_Fifo Proofs.Throttle_Tok Proofs.Throttle_TokA Proofs.Throttle_TokB
  Proofs.Throttle_U3 Proofs.Throttle_U4
  Proofs.Keep_Throttle_A Proofs.Keep_Throttle_E.
Import ListNotations RecordSetNotations.

Lemma nodup_app_disj {A} (a b : list A) x : NoDup (a ++ b) -> In x a -> ~ In x b.
Proof.
  induction a as [|y a IH]; [intros _ []|]. simpl. intros Hn [->|Hin] Hb.
  - inversion Hn as [|? ? Hni _]; subst. apply Hni. apply in_or_app. right. exact Hb.
  - inversion Hn; subst. exact (IH H2 Hin Hb).
Qed.
Lemma nodup_app_l {A} (a b : list A) : NoDup (a ++ b) -> NoDup a.
Proof.
  induction a as [|y a IH]; [constructor|]. simpl. intros Hn. inversion Hn as [|? ? Hni Hr]; subst.
  constructor; [intros Hx; apply Hni; apply in_or_app; left; exact Hx|auto].
Qed.
Lemma nodup_map_seq_inj (f : nat -> nat) n a b :
  NoDup (map f (seq 0 n)) -> (a < n)%nat -> (b < n)%nat -> f a = f b -> a = b.
Proof.
  induction n as [|n IH]; [lia|]. rewrite seq_S, map_app. simpl. intros Hn Ha Hb Hf.
  pose proof (nodup_app_l _ _ Hn) as Hn1.
  assert (Hx : forall c, (c < n)%nat -> f c <> f n).
  { intros c Hc He. apply (nodup_app_disj _ _ (f c) Hn); [apply in_map, in_seq; lia|left; auto]. }
  destruct (Nat.eq_dec a n) as [->|Hna]; destruct (Nat.eq_dec b n) as [->|Hnb]; auto.
  - exfalso. apply (Hx b); [lia|auto].
  - exfalso. apply (Hx a); [lia|auto].
  - apply IH; auto; lia.
Qed.

Section Facts.
  Variable s : st.
  Hypothesis Hr : reachable_from step init s.

  Lemma live_nodup : NoDup (dsubs (hist s) ++ pend s ++ qu s).
  Proof.
    rewrite <- (fifo_handover_lemma s Hr). unfold live. apply NoDup_filter. apply (f_nodup _ (invF_reachable s Hr)).
  Qed.
  Lemma hand_dsubs d j : hand s d j -> In j (dsubs (hist s)).
  Proof.
    intros [Hlt <-]. rewrite (k_ds _ (invK_reachable s Hr)). apply in_map, in_seq. lia.
  Qed.
  Lemma hand_inj d d' j : hand s d j -> hand s d' j -> d = d'.
  Proof.
    intros [H1 H2] [H3 H4]. apply (nodup_map_seq_inj (dfor s) (ndel s)); try assumption; [|congruence].
    rewrite <- (k_ds _ (invK_reachable s Hr)). exact (nodup_app_l _ _ live_nodup).
  Qed.

  (* 1. the queue (and the hand-over thread's local list): in EVERY reachable state *)
  Theorem throttle_done_not_queued_lemma j : fdone (ms s j) = true -> ~ In j (qu s) /\ ~ In j (pend s).
  Proof.
    intros Hd. destruct (k_jd _ (invK_reachable s Hr) j Hd) as [Hc|[d [Hh _]]].
    - destruct (cancel_queued_never_handed_over_lemma s Hr j Hc) as [_ [A [_ [B _]]]]. auto.
    - pose proof (hand_dsubs d j Hh) as Hin. pose proof (nodup_app_disj _ _ j live_nodup Hin) as Hn.
      split; intros Hx; apply Hn; apply in_or_app; [right|left]; exact Hx.
  Qed.

  (* 2. the callback lists of the delegate futures: in EVERY reachable state *)
  Theorem throttle_done_not_in_callbacks_lemma j d : In (CbRes j) (dcbs s d) -> fdone (ms s j) = false.
  Proof.
    intros Hin. destruct (fdone (ms s j)) eqn:Hd; [exfalso|reflexivity].
    pose proof (invK_reachable s Hr) as IK. pose proof (k_cb _ IK d j Hin) as Hh.
    assert (Hnd : fdone (ds s d) = false).
    { destruct (fdone (ds s d)) eqn:E; [|reflexivity]. rewrite (invC_reachable s Hr d E) in Hin. destruct Hin. }
    destruct (k_jd _ IK j Hd) as [Hc|[d' [Hh' Hd']]].
    - destruct (cancel_queued_never_handed_over_lemma s Hr j Hc) as [_ [_ [_ [_ B]]]]. apply B. eapply hand_dsubs; eauto.
    - rewrite (hand_inj d d' j Hh Hh') in Hnd. congruence.
  Qed.

  (* 3. the link future -> delegate: exact window, in EVERY reachable state *)
  Theorem throttle_done_link_window_lemma j d : fdone (ms s j) = true -> mdel s j = Some d -> clr s j d.
  Proof.
    intros Hd Hm. destruct (k_link _ (invK_reachable s Hr) j d Hm) as [Hin|Hc]; [|exact Hc].
    rewrite (throttle_done_not_in_callbacks_lemma j d Hin) in Hd. discriminate.
  Qed.
  (* ... hence cleared whenever no registration / clearing is pending *)
  Theorem throttle_done_link_cleared_lemma j :
    (forall t x, In x (thr s t) -> rel x = false) -> fdone (ms s j) = true -> mdel s j = None.
  Proof.
    intros Hno Hd. destruct (mdel s j) as [d|] eqn:Hm; [exfalso|reflexivity].
    destruct (throttle_done_link_window_lemma j d Hd Hm) as [t [Hx|Hx]]; apply Hno in Hx; discriminate.
  Qed.
  Theorem throttle_done_link_cleared_at_rest_lemma j : all_idle_parked s -> fdone (ms s j) = true -> mdel s j = None.
  Proof.
    intros [Hidle Et]. apply throttle_done_link_cleared_lemma. intros t x Hin.
    destruct (Nat.eq_dec t H) as [->|Hne]; [rewrite Et in Hin|rewrite (Hidle t Hne) in Hin; destruct Hin].
    destruct Hin as [<-|[]]. reflexivity.
  Qed.
  (* a pending link is always accounted for (whatever the state of the future) *)
  Theorem throttle_link_accounted_lemma j d : mdel s j = Some d -> In (CbRes j) (dcbs s d) \/ clr s j d.
  Proof. apply (k_link _ (invK_reachable s Hr)). Qed.
  (* why a throttle future is done *)
  Theorem throttle_done_justified_lemma j : fdone (ms s j) = true ->
    In j (cancq (hist s)) \/ exists d, (d < ndel s)%nat /\ dfor s d = j /\ fdone (ds s d) = true.
  Proof. intros Hd. destruct (k_jd _ (invK_reachable s Hr) j Hd) as [Hc|[d [[A B] C]]]; [left; exact Hc|right; exists d; auto]. Qed.
End Facts.

(* ---- witnesses (wire format, see Props/C07_more.v) ------------------------------------------------------------ *)
Definition kevs (w : list (list Z)) : list (Z * ev) := match decode_all w with Some es => es | None => [] end.
Local Open Scope Z_scope.

(* limit 1, static, non-blocking; thread 1 submits jobs 0, 1 and 2; the hand-over thread admits job 0, hands it to
   the delegate (future 0, callbacks registered), finds the limit reached, parks; thread 2 cancels the queued job 1 *)
Definition keep_rest_trace : list (list Z) :=
  [[0; 0; 0; 0; 0; 1]; [0; 1];
   [0; 3; 1]; [0; 12; 1]; [0; 23; 1]; [0; 29; 1]; [0; 13; 1]; [0; 7; 1; 0];
   [0; 3; 1]; [0; 12; 1]; [0; 23; 1]; [0; 29; 1]; [0; 13; 1]; [0; 7; 1; 0];
   [0; 3; 1]; [0; 12; 1]; [0; 23; 1]; [0; 29; 1]; [0; 13; 1]; [0; 7; 1; 0];
   [0; 24; 0]; [0; 26; 0; 0]; [0; 31; 0]; [0; 27; 0]; [0; 28; 0]; [0; 26; 0; 1]; [0; 25; 0];
   [0; 15; 0; 0; 0; 0; 0]; [0; 11; 0; 5; 0; 0]; [0; 8; 0; 0]; [0; 9; 0; 0]; [0; 11; 0; 5; 0; 0];
   [0; 26; 0; 1]; [0; 16; 0; 0]; [0; 18; 0];
   [0; 24; 0]; [0; 26; 0; 1]; [0; 25; 0]; [0; 26; 0; 1]; [0; 16; 0; 1];
   [1; 4; 2; 1]; [1; 8; 2; 1]; [1; 10; 2; 0; 1; 0]; [1; 10; 2; 1; 1; 0]; [1; 23; 2];
   [1; 10; 2; 2; 1; 0]; [1; 10; 2; 3; 1; 2]; [1; 9; 2; 1]; [1; 7; 2; 2]].

Lemma keep_rest_example :
  exists s, reachable_from step init s /\ all_idle_parked s /\
            ms s 1 = CancelledNotified /\ mdel s 1 = None /\ qu s = [2%nat] /\ pend s = [] /\
            ms s 0 = Pending /\ mdel s 0 = Some 0%nat /\ dcbs s 0 = [CbDone; CbRes 0] /\ ds s 0 = Pending /\ ms s 2 = Pending.
Proof.
  eexists. split; [exists (kevs keep_rest_trace); vm_compute; reflexivity|].
  split; [split; [intros u Hu; destruct u as [|[|[|u]]]; [contradiction Hu; reflexivity|reflexivity|reflexivity|reflexivity]|reflexivity]|].
  repeat split; reflexivity.
Qed.

(* the window: job 0 is handed over (delegate future 0 created, _delegate set), thread 2 cancels it before the
   hand-over thread has registered _delegate_resolved: the delegate future is cancelled, the throttle future is
   cancelled (done) and still points at its delegate, until the pending add_done_callback runs the callback inline *)
Definition keep_window_trace : list (list Z) :=
  [[0; 0; 0; 0; 0; 1]; [0; 1];
   [0; 3; 1]; [0; 12; 1]; [0; 23; 1]; [0; 29; 1]; [0; 13; 1]; [0; 7; 1; 0];
   [0; 24; 0]; [0; 26; 0; 0]; [0; 31; 0]; [0; 27; 0]; [0; 28; 0]; [0; 25; 0];
   [0; 15; 0; 0; 0; 0; 0]; [0; 11; 0; 5; 0; 0]; [0; 8; 0; 0]; [0; 9; 0; 0];
   [0; 4; 2; 0]; [0; 8; 2; 0]; [0; 10; 2; 0; 0; 0]; [0; 10; 2; 1; 0; 0]; [0; 11; 2; 2; 0; 0];
   [0; 27; 2]; [0; 28; 2]; [0; 29; 2]; [0; 10; 2; 2; 0; 0]].

Lemma keep_window_example :
  exists s, reachable_from step init s /\ ms s 0 = Cancelled /\ mdel s 0 = Some 0%nat /\ ds s 0 = Cancelled /\
            dcbs s 0 = [] /\ qu s = [] /\ In (IAddCb2 0 0) (thr s H).
Proof.
  eexists. split; [exists (kevs keep_window_trace); vm_compute; reflexivity|].
  repeat split; try reflexivity. vm_compute. auto 10.
Qed.
(* ... and closes: the hand-over thread's add_done_callback finds the delegate future done, runs _delegate_resolved
   inline, whose first step clears the link *)
Definition keep_window_closed_trace : list (list Z) :=
  keep_window_trace ++ [[0; 10; 2; 3; 0; 2]; [0; 9; 2; 0]; [0; 7; 2; 2]; [0; 11; 0; 5; 0; 2]; [0; 8; 0; 0]].
Lemma keep_window_closed_example :
  exists s, reachable_from step init s /\ ms s 0 = CancelledNotified /\ mdel s 0 = None /\ dcbs s 0 = [].
Proof.
  eexists. split; [exists (kevs keep_window_closed_trace); vm_compute; reflexivity|].
  repeat split; reflexivity.
Qed.
