(* C03 for the Poll machine, part 3: every pending poll future is waiting for something.
   Inv9: a poll future that is not done has a cancelled delegate, or its _delegate_resolved callback is parked on
   its (not done) delegate, or some thread's program holds its pending _delegate_resolved / _register_poll
   (tok), or its descriptor is in the executor's list, or some thread's program is about to fail it. *)
From Coq Require Import ZArith List Bool Arith Lia.
From RecordUpdate Require Import RecordSet.
From ME Require Import Base.Machine Base.Fut Base.GenPrelude Model.Poll Proofs.Poll_Inv Proofs.Poll_Raise
     Proofs.Poll_NoDup Proofs.Poll_N1 Proofs.Poll_N2.
Import ListNotations RecordSetNotations.

Definition waiting (s : st) (j : nat) : Prop :=
  fcancelled (ds s j) = true \/ dcb s j = true \/ tok s j <> None \/ In j (map fst (descs s)) \/
  exists t e, exc_pending (thr s t) j e.

Definition Inv9 (s : st) : Prop := forall j, j < nfut s -> fdone (ps s j) = false -> waiting s j.

Lemma inv9_init : Inv9 init.
Proof. intros j H. simpl in H. lia. Qed.

Lemma in_fst_remove_other j k l : k <> j -> In k (map fst l) -> In k (map fst (remove_fut j l)).
Proof.
  intros Hn. unfold remove_fut. induction l as [|p r IH]; simpl; [auto|].
  intros [H|H].
  - subst k. destruct (Nat.eqb (fst p) j) eqn:E; [apply Nat.eqb_eq in E; contradiction|]. simpl. left. reflexivity.
  - destruct (negb (Nat.eqb (fst p) j)); simpl; auto.
Qed.
Lemma in_fst_snoc k (l : list (nat * nat)) p : In k (map fst l) \/ k = fst p -> In k (map fst (l ++ [p])).
Proof. rewrite map_app, in_app_iff. simpl. intuition. Qed.

Lemma fcancel_keeps s n b : f_cancel s = (n, b) -> fcancelled s = true -> fcancelled n = true.
Proof. destruct s; simpl; intros H; inversion H; auto. Qed.
Lemma fsrnc_keeps s n b : f_srnc s = Some (n, b) -> fcancelled s = true -> fcancelled n = true.
Proof. destruct s; simpl; intros H; inversion H; auto. Qed.
Lemma fset_not_cancelled s n : f_set s = Some n -> fcancelled s = false.
Proof. destruct s; simpl; congruence. Qed.
Lemma fcancel_true_cancelled s n : f_cancel s = (n, true) -> fcancelled n = true.
Proof. destruct s; simpl; intros H; inversion H; reflexivity. Qed.
Lemma fsrnc_undone s n b : f_srnc s = Some (n, b) -> fdone n = false -> fdone s = false.
Proof. destruct s; simpl; intros H; inversion H; subst; simpl; congruence. Qed.
Lemma fcancel_undone s n b : f_cancel s = (n, b) -> fdone n = false -> fdone s = false.
Proof. destruct s; simpl; intros H; inversion H; subst; simpl; congruence. Qed.

(* a pending failure in the tail of the moving thread's program, or in another thread's program, stays *)
Lemma pend_other s t p t' j e : t' <> t -> exc_pending (thr s t') j e -> exc_pending (upd (thr s) t p t') j e.
Proof. intros Hn H. rewrite upd_other by assumption. exact H. Qed.

Ltac split_j j0 :=
  repeat match goal with
  | H : context [upd _ ?k _ j0] |- _ =>
      destruct (Nat.eq_dec j0 k) as [->|?];
      [ rewrite ?upd_same in * | rewrite ?(upd_other _ k _ j0) in * by assumption ]
  | |- context [upd _ ?k _ j0] =>
      destruct (Nat.eq_dec j0 k) as [->|?];
      [ rewrite ?upd_same in * | rewrite ?(upd_other _ k _ j0) in * by assumption ]
  end.

Ltac pend_goal Hp :=
  (* Hp : exc_pending (thr s t') j e *)
  match goal with
  | |- exc_pending (upd (thr _) ?t _ ?t') _ _ =>
      destruct (Nat.eq_dec t' t) as [Heqt|Hnet];
      [ subst; rewrite upd_same;
        match goal with E : thr _ _ = _ |- _ => rewrite E in Hp end;
        try apply exc_pending_norm;
        try match goal with |- context [yield_prog _ ?o] => destruct o end;
        unfold exc_pending in *; simpl in *; rewrite ?in_app_iff; simpl;
        try tauto;
        intuition (try discriminate; try congruence; eauto)
      | rewrite upd_other by assumption; exact Hp ]
  | _ => exact Hp
  end.

Ltac w_keep Hw :=
  (* Hw : waiting in the old state; show waiting in the new state *)
  destruct Hw as [Hw|[Hw|[Hw|[Hw|[tw [ew Hw]]]]]];
  [ first [ left; solve [ assumption | eapply fcancel_keeps; eassumption | eapply fsrnc_keeps; eassumption
                         | eapply fcancel_true_cancelled; eassumption
                         | exfalso; match goal with E : f_set _ = Some _ |- _ => apply fset_not_cancelled in E; congruence end ] ]
  | first [ right; left; solve [ assumption | congruence ]
          | left; solve [ eapply fcancel_true_cancelled; eassumption ]
          | right; right; left; solve [ congruence | rewrite ?upd_same; congruence ] ]
  | first [ right; right; left; solve [ assumption | congruence | rewrite ?upd_same; congruence ]
          | right; left; solve [ reflexivity | rewrite ?upd_same; reflexivity ]
          | left; solve [ assumption ]
          | right; right; right; left; apply in_fst_snoc; right; reflexivity
          | right; right; right; right; do 2 eexists; rewrite upd_same; try apply exc_pending_norm;
            left; simpl; rewrite ?in_app_iff; simpl; solve [ auto 10 ] ]
  | right; right; right; left;
    first [ assumption | apply in_fst_snoc; left; assumption
          | apply in_fst_remove_other; [congruence|assumption] ]
  | right; right; right; right; exists tw, ew; pend_goal Hw ].

Ltac inv9_fin Ip I9 :=
  let j0 := fresh "j0" in let Hl := fresh "Hl" in let Hnd := fresh "Hnd" in
  fst_eqs; unfold Inv9; simpl; intros j0 Hl Hnd; unfold waiting; simpl;
  try match goal with
  | E : thr ?s ?t = _ :: _ |- _ =>
      let Hc := fresh "Hc" in pose proof (Ip t) as Hc; rewrite E in Hc; simpl in Hc; unfold Dn in Hc
  end;
  try match goal with E : f_set (ps ?s ?j) = None |- _ => pose proof (fset_none_done _ E) end;
  pose proof (I9 j0) as Hw; unfold waiting in Hw;
  split_j j0;
  try match goal with |- context [remove_fut ?j _] =>
        destruct (Nat.eq_dec j0 j) as [->|?];
        [exfalso; match goal with Hq : fdone _ = true /\ _ |- _ => destruct Hq; congruence end|] end;
  try solve [ exfalso; first [ congruence | simpl in *; congruence
                             | match goal with E : f_set _ = Some _ |- _ => apply fset_done in E; congruence end
                             | match goal with E : f_cancel _ = (_, true) |- _ => apply fcancel_true_done in E; congruence end ]
            | right; right; left; congruence
            | match type of Hw with ?A -> ?B -> _ =>
                assert (Hl0 : A) by lia;
                assert (Hnd0 : B)
                  by first [ assumption | eapply fsrnc_undone; eassumption | eapply fcancel_undone; eassumption ];
                specialize (Hw Hl0 Hnd0) end; w_keep Hw ].

Lemma inv9_step s e s' : InvD s -> Inv9 s -> step s e = Some s' -> Inv9 s'.
Proof.
  destruct e as [ts e]. intros ID I H. apply step_inv in H. destruct H as [s1 [Ht H]].
  assert (I1 : InvD s1 /\ Inv9 s1).
  { apply tick_inv in Ht. destruct Ht as [[-> _]|[-> _]]; [split; assumption|].
    split; [destruct ID; constructor; simpl; auto|exact I]. }
  clear I ID Ht s. destruct I1 as [[Ip Ie] I9].
  apply step0_inv in H. destruct H as [[c [d [-> [_ ->]]]]|[_ [H|[H|H]]]].
  - exact I9.
  - open1 H; norm_eqs; try solve [inv9_fin Ip I9].
  - open2 H; norm_eqs; try solve [inv9_fin Ip I9].
  - open3 H; norm_eqs; try solve [inv9_fin Ip I9].
Qed.
