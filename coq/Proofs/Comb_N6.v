(* N6: out.cancel() only answers True on a cancelled output; assembly of the C03 / C06 lemmas behind
   Props/Comb_G.v. *)
From Coq Require Import List Arith Bool Lia PeanoNat ZArith.
From ME Require Import Base.Machine Base.Fut Base.GenPrelude Gen.BoolGen Gen.ZipGen Model.Comb Proofs.Comb_Spec.
From ME Require Import Proofs.Comb_I0 Proofs.Comb_I1 Proofs.Comb_I2 Proofs.Comb_I3 Proofs.Comb_I4 Proofs.Comb_I5 Proofs.Comb_I8
  Proofs.Comb_I10a Proofs.Comb_I10b Proofs.Comb_I10c Proofs.Comb_N1 Proofs.Comb_N2 Proofs.Comb_N3 Proofs.Comb_N4 Proofs.Comb_N5.
Import ListNotations.

Definition Prb (c : bool) (x : instr) : Prop := match x with IRetB true => c = true | _ => True end.
Definition RBt (s : st) (t : nat) : Prop :=
  thr s t = [ICancelOut; IRetB true] \/ Forall (Prb (fcancelled (os s))) (thr s t).
Definition RB (s : st) : Prop := forall t, RBt s t.

Lemma Prb_dead c : Prb c IDead. Proof. exact I. Qed.

Lemma Forall_retb_c pre n b l : f_cancel pre = (n, b) ->
  Forall (Prb (fcancelled n)) l -> Forall (Prb (fcancelled n)) (retb_fix b l).
Proof.
  intros Hf H. destruct l as [|i r]; simpl; auto. destruct i; auto. inversion H; subst. constructor; auto.
  destruct b; simpl; auto. destruct pre; simpl in Hf; inversion Hf; subst; reflexivity.
Qed.

Lemma RB_step s e s' : RB s -> step s e = Some s' -> RB s'.
Proof.
  intros L H u.
  assert (M : forall a, Prb (fcancelled (os s)) a -> Prb (fcancelled (os s')) a).
  { intros a. destruct a; simpl; auto. destruct b; auto. eapply step_os_cancelled; eauto. }
  destruct (Nat.eq_dec u (actor e)) as [->|Hu].
  2:{ unfold RBt. rewrite (step_other_thr _ _ _ _ H Hu). destruct (L u) as [E|F]; [left; exact E|right].
      eapply Forall_impl; [|exact F]. exact M. }
  destruct (L (actor e)) as [E|F].
  - right. clear M. destruct e; simpl actor in *; step_inv H;
    try discriminate E; inversion E; subst.
    all: assert (Pb : Prb (fcancelled f) (IRetB b))
      by (destruct b; simpl; auto; destruct pre; simpl in *; inv_pairs; auto; discriminate).
    all: simpl; rewrite upd_same.
    + apply Forall_norm; [apply Prb_dead|]. apply Forall_out_fires; simpl; auto.
    + repeat constructor; auto.
  - destruct e; simpl actor in *; step_inv H;
    try match goal with Hq : thr _ _ = _ |- _ => rewrite Hq in F end;
    apply (Forall_impl _ M) in F; clear M; simpl in F; fa_hyps; unfold RBt;
    simpl; rewrite ?upd_same; fold_retb;
    try (left; reflexivity);
    right; try (apply Forall_norm; [apply Prb_dead|]);
    try solve [fa_tac ltac:(simpl; auto)]; try assumption.
    1: apply Forall_out_fires; simpl; auto.
    1,2: eapply Forall_retb_c; eauto.
    all: try (rewrite Heql; exact F).
    rewrite Heql. constructor; auto.
Qed.

Lemma RB_reach s : reachable s -> RB s.
Proof.
  apply invariant_rule; [|intros; eapply RB_step; eauto].
  intros t. right. constructor.
Qed.

(* ---- C06 (d): out.cancel() answering True ------------------------------------------------------ *)
Lemma cancel_true_cancelled s t s1 : reachable s -> step s (ERet t 2) = Some s1 ->
  fcancelled (os s) = true /\ os s1 = os s /\ hist s1 = hist s.
Proof.
  intros R H. pose proof (RB_reach s R t) as B.
  step_inv H; simpl; try discriminate; repeat split; auto.
  destruct b; simpl in *; try discriminate.
  destruct B as [E|F]; [congruence|]. rewrite Heql in F. apply Forall_inv in F. exact F.
Qed.

Lemma run_reachable s evs s' : reachable s -> run step s evs = Some s' -> reachable s'.
Proof.
  intros [es0 R0] Hr. exists (es0 ++ evs). rewrite run_app, R0. exact Hr.
Qed.

Lemma run_os_cancelled s evs s' : run step s evs = Some s' -> fcancelled (os s) = true -> fcancelled (os s') = true.
Proof.
  revert s. induction evs as [|e r IH]; simpl; intros s Hr Hc.
  - inversion Hr; subst; exact Hc.
  - destruct (step s e) as [s1|] eqn:E; [|discriminate]. apply (IH s1 Hr). eapply step_os_cancelled; eauto.
Qed.

Lemma cancelled_no_outcome s : reachable s -> fcancelled (os s) = true ->
  In HOutCancelled (hist s) /\ forall o, ~ In (HSetOut o) (hist s).
Proof.
  intros R Hc. assert (Hin : In HOutCancelled (hist s)) by (apply (OC_reach s R); exact Hc).
  split; auto. intros o Ho. destruct (in_split _ _ Hin) as (l1 & l2 & Hh).
  destruct (out_cancel_once s R l1 l2 Hh) as [A B]. rewrite Hh in Ho.
  apply in_app_or in Ho. destruct Ho as [Ho|[Ho|Ho]]; [apply (A (HSetOut o) eq_refl Ho)|discriminate|apply (B (HSetOut o) eq_refl Ho)].
Qed.

Lemma cancel_true_stays s t s1 : reachable s -> step s (ERet t 2) = Some s1 ->
  forall evs s', run step s1 evs = Some s' ->
  fcancelled (os s') = true /\ In HOutCancelled (hist s') /\ forall o, ~ In (HSetOut o) (hist s').
Proof.
  intros R H evs s' Hr. destruct (cancel_true_cancelled s t s1 R H) as (Hc & Eo & _).
  assert (R1 : reachable s1) by (eapply reachable_step; eauto).
  assert (R' : reachable s') by (eapply run_reachable; eauto).
  assert (Hc' : fcancelled (os s') = true) by (eapply run_os_cancelled; eauto; rewrite Eo; exact Hc).
  split; auto. apply cancelled_no_outcome; auto.
Qed.

Lemma out_cancelled_split s : reachable s -> forall l1 l2, hist s = l1 ++ HOutCancelled :: l2 ->
  fcancelled (os s) = true /\ (forall o, ~ In (HSetOut o) l1) /\ (forall o, ~ In (HSetOut o) l2).
Proof.
  intros R l1 l2 Hh. destruct (out_cancel_once s R l1 l2 Hh) as [A B]. split.
  - apply (OC_reach s R). rewrite Hh. apply in_or_app. right. left. reflexivity.
  - split; intros o; [apply A|apply B]; reflexivity.
Qed.

(* ---- C03 (a) ------------------------------------------------------------------------------------ *)
Lemma all_done_decided s : reachable s -> quiescent s -> built s = true -> inputs s <> [] ->
  (forall x, In x (inputs s) -> fdone (es s x) = true) -> cdone s = true.
Proof.
  intros R Q Hb Hne Hall. destruct (ck s) eqn:Hk.
  - apply bool_all_done_decided; auto. congruence.
  - apply bool_all_done_decided; auto. congruence.
  - apply zip_all_done_decided; auto.
Qed.

Lemma done_quiescent_shape s : reachable s -> quiescent s -> fdone (os s) = true ->
  os s = Finished \/ os s = CancelledNotified.
Proof.
  intros R Q Hd. pose proof (I8_reach s R) as [_ N].
  destruct (os s) eqn:E; simpl in Hd; try discriminate; auto.
  exfalso. destruct (N E) as [[t Ht]|[[t Ht]|[t Ht]]]; rewrite Q in Ht; contradiction.
Qed.

Lemma no_lost s : reachable s -> quiescent s -> built s = true -> inputs s <> [] ->
  (forall x, In x (inputs s) -> fdone (es s x) = true) ->
  os s = Finished \/ os s = CancelledNotified.
Proof.
  intros R Q Hb Hne Hall. apply done_quiescent_shape; auto.
  apply decided_published; auto. apply all_done_decided; auto.
Qed.

Lemma all_or_ex (f : nat -> bool) l : (forall x, In x l -> f x = true) \/ (exists x, In x l /\ f x = false).
Proof.
  induction l as [|a r [IH|(x & Hx & Hf)]].
  - left. intros x [].
  - destruct (f a) eqn:E.
    + left. intros x [<-|Hx]; auto.
    + right. exists a. split; [left; reflexivity|exact E].
  - right. exists x. split; [right; exact Hx|exact Hf].
Qed.

Lemma pending_output_pending_input s : reachable s -> quiescent s -> built s = true -> inputs s <> [] ->
  fdone (os s) = false -> exists x, In x (inputs s) /\ fdone (es s x) = false.
Proof.
  intros R Q Hb Hne Hp.
  destruct (all_or_ex (fun x => fdone (es s x)) (inputs s)) as [Hall|Hex]; auto.
  exfalso. destruct (no_lost s R Q Hb Hne Hall) as [E|E]; rewrite E in Hp; discriminate.
Qed.

(* ---- C03 (b) ------------------------------------------------------------------------------------ *)
Lemma decided_output_done s : reachable s -> quiescent s -> forall d o, In (HDecide d o) (hist s) ->
  os s = Finished \/ os s = CancelledNotified.
Proof.
  intros R Q d o Hin. apply done_quiescent_shape; auto. apply decided_published; auto.
  apply (cdone_iff_decided s R). eauto.
Qed.

Lemma pending_iff_undecided s : reachable s -> quiescent s ->
  (fdone (os s) = false <-> (forall d o, ~ In (HDecide d o) (hist s)) /\ ~ In HOutCancelled (hist s)).
Proof.
  intros R Q. split.
  - intros Hp. split.
    + intros d o Hin. destruct (decided_output_done s R Q d o Hin) as [E|E]; rewrite E in Hp; discriminate.
    + intros Hin. apply (OC_reach s R) in Hin. destruct (os s); simpl in *; discriminate.
  - intros [Hn Hc]. destruct (fdone (os s)) eqn:Hd; auto. exfalso.
    destruct (fcancelled (os s)) eqn:Hcc.
    + apply Hc. apply (OC_reach s R). exact Hcc.
    + assert (Hf : os s = Finished) by (destruct (os s); simpl in *; congruence).
      pose proof (lo_fin _ (LO_reach s R) Hf) as Hcd.
      apply (cdone_iff_decided s R) in Hcd. destruct Hcd as (d & o & Hin). apply (Hn d o Hin).
Qed.

(* the half of (b) that needs no quiescence: an output that is done has been decided or cancelled *)
Lemma done_means_decided s : reachable s -> fdone (os s) = true ->
  (exists d o, In (HDecide d o) (hist s)) \/ In HOutCancelled (hist s).
Proof.
  intros R Hd. destruct (fcancelled (os s)) eqn:Hcc.
  - right. apply (OC_reach s R). exact Hcc.
  - left. assert (Hf : os s = Finished) by (destruct (os s); simpl in *; congruence).
    apply (cdone_iff_decided s R). apply (lo_fin _ (LO_reach s R) Hf).
Qed.
