(* Layer B: each delegate's callback program is started at most once. *)
From Coq Require Import List ZArith Bool Arith Lia PeanoNat.
From RecordUpdate Require Import RecordSet.
From ME Require Import Base.Machine Base.Fut Base.GenPrelude Gen.RetryGen Model.Retry Proofs.Retry_InvB0 Proofs.Retry_InvB2.
Import ListNotations RecordSetNotations.

Definition cbk_of (rc : nat -> jrec) (i : instr) : option nat :=
  match i with
  | IDCbDone d | IDCbCancelled d _ => Some d
  | IPolSR r | IPolST r | IXRetry r _ => jdel (rc r)
  | _ => None
  end.
Definition cnt (f : instr -> bool) (p : list instr) : nat := length (filter f p).
Definition cbc (rc : nat -> jrec) (d : nat) (p : list instr) : nat := cnt (fun i => opt_eqb (cbk_of rc i) d) p.
Definition started (s : st) (d : nat) : bool := dcb s d && fdone (ds s d).

Lemma cnt_norm f b p : f IDead = false -> cnt f (norm b p) <= cnt f p.
Proof.
  intros Hf. unfold cnt. revert b; induction p as [|i r IH]; intros b.
  - destruct b; simpl; auto. rewrite Hf. auto.
  - assert (H : forall b', length (filter f (norm b' r)) <= length (filter f (i :: r))).
    { intros b'. etransitivity; [apply IH|]. simpl. destruct (f i); simpl; lia. }
    unfold norm; fold norm. destruct i; try apply H; destruct b; try apply H; lia.
Qed.
Lemma cbc_norm rc d b p : cbc rc d (norm b p) <= cbc rc d p.
Proof. apply cnt_norm. reflexivity. Qed.

Lemma cbc_wf s rc' d p : Forall (wfi s) p ->
  (forall r, r < nrec s -> jdel (rc' r) = jdel (recs s r)) -> cbc rc' d p = cbc (recs s) d p.
Proof.
  intros Hw Hr. unfold cbc, cnt. induction Hw as [|i p Hi Hp IH]; simpl; auto.
  assert (E : cbk_of rc' i = cbk_of (recs s) i).
  { destruct i; simpl in *; auto; apply Hr; tauto. }
  rewrite E. destruct (opt_eqb _ d); simpl; auto.
Qed.

Lemma cbc_cbs rc d j l p : cbc rc d (cbs_prog j l ++ p) = cbc rc d p.
Proof.
  unfold cbc, cnt, cbs_prog. induction l as [|c l IH]; simpl; auto. destruct c; simpl; auto.
Qed.

Record InvB (s : st) : Prop := {
  b_dcb : forall d, dcb s d = true -> d < ndel s;
  b_started : forall t d, 1 <= cbc (recs s) d (thr s t) -> started s d = true;
  b_one : forall t d, cbc (recs s) d (thr s t) <= 1;
  b_uniq : forall t1 t2 d, 1 <= cbc (recs s) d (thr s t1) -> 1 <= cbc (recs s) d (thr s t2) -> t1 = t2
}.

Lemma invB_upd s s' t p :
  InvA s -> InvB s ->
  (forall r, r < nrec s -> jdel (recs s' r) = jdel (recs s r)) ->
  (forall d, started s d = true -> started s' d = true) ->
  (forall d, dcb s' d = true -> d < ndel s') ->
  thr s' = upd (thr s) t (norm false p) ->
  (forall d, cbc (recs s') d p <= cbc (recs s) d (thr s t) \/
             (started s d = false /\ started s' d = true /\ cbc (recs s') d p <= 1)) ->
  InvB s'.
Proof.
  intros IA [B1 B2 B3 B4] Hr Hst Hdcb Ht Hc.
  assert (Ho : forall t' d, t' <> t -> cbc (recs s') d (thr s' t') = cbc (recs s) d (thr s t')).
  { intros t' d Hn. rewrite Ht, upd_other by auto. apply cbc_wf; auto.
    apply Forall_forall. intros i. apply (a_wf _ IA). }
  assert (Hn : forall d, cbc (recs s') d (thr s' t) <= cbc (recs s') d p).
  { intros d. rewrite Ht, upd_same. apply cbc_norm. }
  assert (Hz : forall d, started s d = false -> forall t', cbc (recs s) d (thr s t') = 0).
  { intros d Hd t'. pose proof (B2 t' d). destruct (cbc (recs s) d (thr s t')); auto.
    rewrite H in Hd by lia. discriminate. }
  constructor; auto.
  - intros t' d. destruct (Nat.eq_dec t' t) as [->|Hne].
    + intros H. specialize (Hn d). destruct (Hc d) as [H1|(H1 & H2 & H3)]; auto.
      apply Hst, (B2 t d). lia.
    + rewrite (Ho t' d Hne). intros H. apply Hst, (B2 t' d H).
  - intros t' d. destruct (Nat.eq_dec t' t) as [->|Hne].
    + specialize (Hn d). destruct (Hc d) as [H1|(H1 & H2 & H3)]; [specialize (B3 t d)|]; lia.
    + rewrite (Ho t' d Hne). apply B3.
  - intros t1 t2 d.
    destruct (Nat.eq_dec t1 t) as [->|N1]; destruct (Nat.eq_dec t2 t) as [->|N2]; auto;
      rewrite ?(Ho t1 d N1), ?(Ho t2 d N2); auto; intros H1 H2; specialize (Hn d);
      destruct (Hc d) as [G|(G1 & G2 & G3)].
    + apply (B4 t t2 d); auto; lia.
    + rewrite (Hz d G1 t2) in H2. lia.
    + apply (B4 t1 t d); auto; lia.
    + rewrite (Hz d G1 t1) in H1. lia.
    + eapply B4; eauto.
    + eapply B4; eauto.
Qed.

Lemma invB_same s s' : InvB s ->
  recs s' = recs s -> thr s' = thr s -> ndel s' = ndel s -> dcb s' = dcb s ->
  (forall d, started s d = true -> started s' d = true) -> InvB s'.
Proof.
  intros [B1 B2 B3 B4] E1 E2 E3 E4 Hs. constructor; rewrite ?E1, ?E2, ?E3, ?E4; eauto.
Qed.

Ltac sv_cbc E := simpl; intros d; left; rewrite E; rewrite ?cbc_cbs; unfold cbc, cnt; simpl;
  repeat match goal with |- context [Nat.eqb ?a d] => destruct (Nat.eqb a d); simpl end; lia.

Lemma cbc_cons_none rc d i l : cbk_of rc i = None -> cbc rc d (i :: l) = cbc rc d l.
Proof. intros H. unfold cbc, cnt. simpl. rewrite H. reflexivity. Qed.
Lemma cbc_cons_le rc d i l : cbc rc d l <= cbc rc d (i :: l).
Proof. unfold cbc, cnt. simpl. destruct (opt_eqb _ d); simpl; lia. Qed.
Lemma cbc_tl_le rc d l : cbc rc d (tl l) <= cbc rc d l.
Proof. destruct l; simpl; auto. apply cbc_cons_le. Qed.

Ltac sv_jdel := simpl; intros r0 Hr0; unfold upd;
  destruct (Nat.eqb r0 _) eqn:E0; [apply Nat.eqb_eq in E0; subst; try lia; reflexivity|reflexivity].
(* recs changed, new head instructions are not callback instructions *)
Ltac sv_cbc_rc s P E := simpl; intros d; left; rewrite ?cbc_cons_none by reflexivity;
  rewrite (cbc_wf s); [rewrite E; apply cbc_cons_le|inversion P; assumption|sv_jdel].
(* stage transitions that use the well-formedness of the head *)
Ltac sv_cbc2 P E := simpl; intros d; left; rewrite E;
  let Ph := fresh "Ph" in inversion P as [|? ? Ph ?]; subst; simpl in Ph; destruct Ph as [? Ph];
  try rewrite Ph; unfold cbc, cnt; simpl;
  repeat match goal with
         | |- context [jdel (recs ?s ?r)] => destruct (jdel (recs s r)); simpl
         | |- context [Nat.eqb ?a d] => destruct (Nat.eqb a d); simpl end; lia.

Ltac st_cases d := intros d; unfold started; simpl; unfold upd;
  let Ed := fresh "Ed" in destruct (Nat.eqb d _) eqn:Ed; [apply Nat.eqb_eq in Ed; subst d|solve [auto]];
  rewrite ?andb_true_iff.
Lemma f_cancel_done' x n b : f_cancel x = (n, b) -> fdone x = true -> fdone n = true.
Proof. destruct x; simpl; intros H; inversion H; auto. Qed.
Lemma f_set_done x n : f_set x = Some n -> fdone n = true /\ fdone x = false.
Proof. destruct x; simpl; intros H; inversion H; auto. Qed.
Lemma f_srnc_done x n b : f_srnc x = Some (n, b) -> fdone n = fdone x.
Proof. destruct x; simpl; intros H; inversion H; auto. Qed.
Lemma cbc_zero s t d : InvB s -> started s d = false -> cbc (recs s) d (thr s t) = 0.
Proof.
  intros I Hd. pose proof (b_started _ I t d). destruct (cbc (recs s) d (thr s t)); auto.
  rewrite H in Hd by lia. discriminate.
Qed.
Lemma fires_pending x : f_cancel_fires x = true -> x = Pending.
Proof. destruct x; simpl; congruence. Qed.
(* finishing a start-event case for the started delegate d0 / another delegate *)
Ltac start_same s t d0 I E Hs :=
  let Z := fresh "Z" in pose proof (cbc_zero s t d0 I Hs) as Z; rewrite E in Z; revert Z;
  unfold cbc, cnt; simpl; rewrite ?Nat.eqb_refl; simpl; lia.
Ltac start_other E N := left; rewrite E; unfold cbc, cnt; simpl;
  repeat match goal with |- context [Nat.eqb ?a ?b] =>
    let E' := fresh "E'" in destruct (Nat.eqb a b) eqn:E'; [apply Nat.eqb_eq in E'; congruence|]; simpl end; lia.

(* what one step does to the callback bookkeeping; shared by layers B and C *)
Definition BUpd (s s' : st) : Prop :=
  (forall r, r < nrec s -> jdel (recs s' r) = jdel (recs s r)) /\
  (forall d, started s d = true -> started s' d = true) /\
  (forall d, dcb s' d = true -> d < ndel s') /\
  exists t p, thr s' = upd (thr s) t (norm false p) /\
    (forall d, cbc (recs s') d p <= cbc (recs s) d (thr s t) \/
               (started s d = false /\ started s' d = true /\ cbc (recs s') d p <= 1)).
Definition BSame (s s' : st) : Prop :=
  recs s' = recs s /\ thr s' = thr s /\ ndel s' = ndel s /\ dcb s' = dcb s /\
  (forall d, started s d = true -> started s' d = true).
Definition BFacts (s s' : st) : Prop := BSame s s' \/ BUpd s s'.

Lemma bfacts_same s s' : InvB s ->
  recs s' = recs s -> thr s' = thr s -> ndel s' = ndel s -> dcb s' = dcb s ->
  (forall d, started s d = true -> started s' d = true) -> BFacts s s'.
Proof. intros. left. repeat split; auto. Qed.
Lemma bfacts_refl s : InvB s -> BFacts s s.
Proof. intros. left. repeat split; auto. Qed.
Lemma bfacts_upd s s' t p :
  InvA s -> InvB s ->
  (forall r, r < nrec s -> jdel (recs s' r) = jdel (recs s r)) ->
  (forall d, started s d = true -> started s' d = true) ->
  (forall d, dcb s' d = true -> d < ndel s') ->
  thr s' = upd (thr s) t (norm false p) ->
  (forall d, cbc (recs s') d p <= cbc (recs s) d (thr s t) \/
             (started s d = false /\ started s' d = true /\ cbc (recs s') d p <= 1)) ->
  BFacts s s'.
Proof. intros. right. repeat split; auto. exists t, p. auto. Qed.

Lemma bfacts_step0 s e s' : InvA s -> InvB s -> step0 s e = Some s' -> BFacts s s'.
Proof.
  intros IA I H. unfold step0 in H. destruct e.
  all: step_cases H.
  all: clean.
  all: try (apply bfacts_refl; exact I).
  all: try (eapply bfacts_same; [exact I|reflexivity..|]; auto; fail).
  all: try match goal with E : thr _ ?t = _ |- _ =>
         assert (P := a_wf _ IA t); rewrite E in P; apply Forall_forall in P end.
  all: try (eapply bfacts_upd; [exact IA|exact I| | | |reflexivity|]).
  all: try (simpl; auto; fail).
  all: try (simpl; apply (b_dcb _ I); fail).
  all: try match goal with E : thr _ ?t = _ |- _ => sv_cbc E; fail end.
  all: try (sv_jdel; fail).
  all: try match goal with E : thr _ ?t = _ |- _ => sv_cbc_rc s P E; fail end.
  all: try match goal with E : thr _ ?t = _ |- _ => sv_cbc2 P E; fail end.
  - intros d. left. rewrite Heql. rewrite cbc_cons_none by reflexivity.
    etransitivity; [apply cbc_tl_le|apply cbc_cons_le].
  - st_cases d. intros [A B]. split; auto. eapply f_cancel_done'; eauto.
  - intros d. simpl. destruct (Nat.eq_dec d d0) as [->|N].
    + assert (Hs : started s d0 = false).
      { unfold started. rewrite (fires_pending _ H). simpl. apply andb_false_r. }
      right. split; [exact Hs|]. split.
      * unfold started. simpl. rewrite upd_same, H0. rewrite (fires_pending _ H) in Heqp. inv_some Heqp. reflexivity.
      * start_same s t d0 I Heql Hs.
    + start_other Heql N.
  - st_cases d. intros [A B]. split; auto. eapply f_cancel_done'; eauto.
  - inversion P as [|? ? Ph Pt]; subst. simpl in Ph. destruct Ph as [G1 G2].
    intros d. left. rewrite Heql. unfold cbc, cnt. simpl. rewrite G2. simpl. destruct (Nat.eqb d0 d); simpl; lia.
  - st_cases d. intros [A B]. split; auto.
  - inversion P as [|? ? Ph Pt]; subst. simpl in Ph.
    intros d. simpl. unfold upd. destruct (Nat.eqb d d0) eqn:Ed; [apply Nat.eqb_eq in Ed; subst; auto|apply (b_dcb _ I)].
  - assert (Hs : started s d0 = false).
    { unfold started. rewrite (addcb_any s t d0 IA); auto. rewrite Heql. left; auto. }
    intros d. simpl. destruct (Nat.eq_dec d d0) as [->|N].
    + right. split; [exact Hs|]. split.
      * unfold started. simpl. rewrite upd_same. simpl. auto.
      * start_same s t d0 I Heql Hs.
    + start_other Heql N.
  - st_cases d. intros [A B]. split; auto.
  - inversion P as [|? ? Ph Pt]; subst. simpl in Ph.
    intros d. simpl. unfold upd. destruct (Nat.eqb d d0) eqn:Ed; [apply Nat.eqb_eq in Ed; subst; auto|apply (b_dcb _ I)].
  - st_cases d. intros [A B]. apply (b_dcb _ I) in A. lia.
  - intros d. simpl. unfold upd. destruct (Nat.eqb d (ndel s)); [discriminate|]. intros A. apply (b_dcb _ I) in A. lia.
  - st_cases d. intros [A B]. apply (b_dcb _ I) in A. lia.
  - intros d. simpl. unfold upd. destruct (Nat.eqb d (ndel s)); [discriminate|]. intros A. apply (b_dcb _ I) in A. lia.
  - st_cases d. intros [A B]. apply (b_dcb _ I) in A. lia.
  - intros d. simpl. unfold upd. destruct (Nat.eqb d (ndel s)); [discriminate|]. intros A. apply (b_dcb _ I) in A. lia.
  - st_cases d. intros [A B]. apply (b_dcb _ I) in A. lia.
  - intros d. simpl. unfold upd. destruct (Nat.eqb d (ndel s)); [discriminate|]. intros A. apply (b_dcb _ I) in A. lia.
  - eapply bfacts_same; [exact I|reflexivity..|]. st_cases d0. intros [A B]. split; auto.
    erewrite f_srnc_done; eauto.
  - st_cases d0. intros [A B]. split; auto. eapply f_set_done; eauto.
  - assert (Hs : started s d = false).
    { unfold started. destruct (f_set_done _ _ Heqo0) as [_ ->]. apply andb_false_r. }
    intros d1. simpl. destruct (Nat.eq_dec d1 d) as [->|N].
    + right. split; [exact Hs|]. split.
      * unfold started. simpl. rewrite upd_same, Heqb0. destruct (f_set_done _ _ Heqo0) as [-> _]. auto.
      * unfold cbc, cnt; simpl. rewrite Nat.eqb_refl. simpl. lia.
    + left. rewrite Heql. unfold cbc, cnt. simpl. destruct (Nat.eqb d d1) eqn:E'; [apply Nat.eqb_eq in E'; congruence|simpl; lia].
  - st_cases d0. intros [A B]. split; auto. eapply f_set_done; eauto.
  - intros d1. left. simpl. unfold cbc, cnt. simpl. lia.
  - st_cases d0. intros [A B]. split; auto. rewrite (fires_pending _ Heqb0). reflexivity.
  - assert (Hs : started s d = false).
    { unfold started. rewrite (fires_pending _ Heqb0). apply andb_false_r. }
    intros d1. simpl. destruct (Nat.eq_dec d1 d) as [->|N].
    + right. split; [exact Hs|]. split.
      * unfold started. simpl. rewrite upd_same, Heqb1. rewrite (fires_pending _ Heqb0). reflexivity.
      * unfold cbc, cnt; simpl. rewrite Nat.eqb_refl. simpl. lia.
    + left. rewrite Heql. unfold cbc, cnt. simpl. destruct (Nat.eqb d d1) eqn:E'; [apply Nat.eqb_eq in E'; congruence|simpl; lia].
  - st_cases d0. intros [A B]. split; auto. rewrite (fires_pending _ Heqb0). reflexivity.
  - intros d1. left. simpl. unfold cbc, cnt. simpl. lia.
Qed.


Lemma invB_step0 s e s' : InvA s -> InvB s -> step0 s e = Some s' -> InvB s'.
Proof.
  intros IA I H. destruct (bfacts_step0 s e s' IA I H) as [(E1 & E2 & E3 & E4 & E5)|(F1 & F2 & F3 & t & p & F4 & F5)].
  - eapply invB_same; eauto.
  - eapply invB_upd; eauto.
Qed.

Lemma invB_init : InvB init.
Proof. constructor; simpl; try discriminate; unfold cbc, cnt; simpl; intros; lia. Qed.
Lemma invB_tick s ts : InvB s -> InvB (s <| clock := ts |>).
Proof. intros I. eapply invB_same; [exact I|reflexivity..|auto]. Qed.
