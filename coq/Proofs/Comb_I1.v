(* I1: no thread program ever contains IThrow / IDead / IRetRaise. *)
From Coq Require Import List Arith Bool Lia PeanoNat ZArith.
From ME Require Import Base.Machine Base.Fut Base.GenPrelude Gen.BoolGen Gen.ZipGen Model.Comb Proofs.Comb_Spec Proofs.Comb_I0.
Import ListNotations.

Definition I1 (s : st) : Prop := forall t, Forall nothrow (thr s t).

Lemma I1_init : I1 init.
Proof. intros t. constructor. Qed.

Lemma Forall_tail {A} (P : A -> Prop) x l : Forall P (x :: l) -> Forall P l.
Proof. intros H; inversion H; assumption. Qed.

Lemma I1_step s e s' : I1 s -> step s e = Some s' -> I1 s'.
Proof.
  intros I H u. destruct (Nat.eq_dec u (actor e)) as [->|Hu].
  2:{ rewrite (step_other_thr _ _ _ _ H Hu). apply I. }
  destruct e; simpl actor; pose proof (I t) as It; step_inv H;
    try (rewrite ?thr_log, thr_set_same; apply nothrow_norm);
    try match goal with Hq : thr _ _ = _ |- _ => rewrite Hq in It end;
    repeat match goal with Hq : Forall nothrow (_ :: _) |- _ =>
      let a := fresh in let b := fresh in
      pose proof (Forall_inv Hq) as a; pose proof (Forall_tail _ _ _ Hq) as b; clear Hq end;
    try solve [nothrow_tac]; try solve [simpl; nothrow_tac].
  all: try apply I.
  all: fold_retb; nothrow_tac; apply Forall_retb; [intros; nt|assumption].
Qed.

Lemma I1_reach s : reachable s -> I1 s.
Proof. apply invariant_rule; [exact I1_init|]. intros; eapply I1_step; eauto. Qed.

(* pending instructions of the acting thread survive its step *)
Definition keepable (x : instr) : Prop := x <> ICatch /\ forall b, x <> IRetB b.

Ltac in_tac :=
  repeat first
  [ assumption
  | apply in_cons
  | apply in_or_app; right
  | match goal with Hk : keepable ?x |- In ?x (retb_fix _ _) => apply In_retb; [apply Hk|] end ].

Lemma step_shape s e s' : I1 s -> step s e = Some s' ->
  exists p, thr s' (actor e) = norm false p /\ Forall nothrow p /\
    forall h r, thr s (actor e) = h :: r -> forall x, keepable x -> In x r -> In x p.
Proof.
  intros I H. destruct e; simpl actor; pose proof (I t) as It; step_inv H;
  try match goal with Hq : thr _ _ = _ |- _ => rewrite Hq in It end; fa_hyps;
  try (rewrite ?thr_log, thr_set_same); fold_retb;
  try (eexists; split; [reflexivity|split;
        [nothrow_tac; try (apply Forall_retb; [intros; nt|assumption])
        |intros h0 r0 E0 x Hk Hin; inversion E0; subst; unfold out_fires, in_fires; in_tac]]).
  all: try (exists []; simpl; rewrite ?Heql; repeat split; auto; intros; discriminate).
  exfalso. destruct Hhd as (_ & Hx & _). congruence.
Qed.

Lemma step_keeps s e s' : I1 s -> step s e = Some s' ->
  forall h r, thr s (actor e) = h :: r -> forall x, keepable x -> In x r -> In x (thr s' (actor e)).
Proof.
  intros I H h r E x Hk Hin. destruct (step_shape _ _ _ I H) as (p & Hp & Hn & Hkeep).
  rewrite Hp. apply norm_in; auto. apply Hk. eapply Hkeep; eauto.
Qed.

(* a pending keepable instruction of any thread either survives the step or was the executed head *)
Lemma step_pending s e s' u x : I1 s -> step s e = Some s' -> keepable x -> In x (thr s u) ->
  In x (thr s' u) \/ (u = actor e /\ exists r, thr s u = x :: r).
Proof.
  intros I H Hk Hin. destruct (Nat.eq_dec u (actor e)) as [->|Hu].
  - destruct (thr s (actor e)) as [|h r] eqn:E; [contradiction|].
    destruct Hin as [->|Hin]; [right; split; eauto|]. left. eapply step_keeps; eauto.
  - left. rewrite (step_other_thr _ _ _ _ H Hu). exact Hin.
Qed.
