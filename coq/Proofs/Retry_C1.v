(* Program-shape invariants: no IRaise; exceptions are always caught (no IDead). *)
From Coq Require Import List ZArith Bool Arith Lia.
From RecordUpdate Require Import RecordSet.
From ME Require Import Base.Machine Base.Fut Base.GenPrelude Gen.RetryGen Model.Retry Proofs.Retry_Spec Proofs.Retry_C0.
Import ListNotations RecordSetNotations.

Definition is_catch (i : instr) : bool := match i with ICatch => true | _ => false end.
Definition hascatch (p : list instr) : bool := existsb is_catch p.
Definition plain1 (i : instr) : bool :=
  match i with IDead | IThrow | IDCbDone _ | IRaise => false | _ => true end.

Fixpoint okp (p : list instr) : bool :=
  match p with
  | [] => true
  | i :: r => match i with
              | IDead => false
              | IThrow | IDCbDone _ => hascatch r && okp r
              | _ => okp r
              end
  end.

Lemma okp_tl i r : okp (i :: r) = true -> okp r = true.
Proof. destruct i; simpl; try tauto; try discriminate; rewrite andb_true_iff; tauto. Qed.

Lemma okp_tl' r : okp r = true -> okp (tl r) = true.
Proof. destruct r; simpl; auto. apply okp_tl. Qed.

Lemma okp_norm : forall p, okp p = true ->
  okp (norm false p) = true /\ (hascatch p = true -> okp (norm true p) = true).
Proof.
  induction p as [|i r IH]; intros H.
  - simpl. split; [reflexivity|discriminate].
  - pose proof (okp_tl _ _ H) as Hr. destruct (IH Hr) as [IH1 IH2].
    destruct i; simpl in *; try (split; [exact H|exact IH2]); try discriminate.
    + split; [exact IH1|intros _; exact IH1].
    + apply andb_true_iff in H. destruct H as [H1 H2]. split; auto.
Qed.

Lemma okp_normf p : okp p = true -> okp (norm false p) = true.
Proof. intros H. apply okp_norm; exact H. Qed.

Lemma okp_app a b : forallb plain1 a = true -> okp b = true -> okp (a ++ b) = true.
Proof.
  induction a as [|i r IH]; simpl; intros Ha Hb; [exact Hb|].
  apply andb_true_iff in Ha. destruct Ha as [Hi Hr].
  destruct i; simpl in Hi; try discriminate; auto.
Qed.

Lemma plain_cbs j l : forallb plain1 (cbs_prog j l) = true.
Proof. induction l as [|c l IH]; simpl; [reflexivity|]. destruct c; simpl; exact IH. Qed.

Lemma plain_fin s r d : forallb plain1 (finalize_prog s r d) = true.
Proof. reflexivity. Qed.

Definition stopok (s : st) : Prop :=
  forall r, In r (jobs s) -> jstop (recs s r) = true -> jdel (recs s r) = None -> jold (recs s r) <> None.

Lemma next_job_in s now v : get_next_job now (map (view s) (jobs s)) = Some v ->
  In (rj_id v) (jobs s) /\ jdel (recs s (rj_id v)) = None.
Proof.
  intros H. pose proof (get_next_job_spec now (map (view s) (jobs s))) as G. rewrite H in G.
  destruct G as (A & B & _). apply in_map_iff in A. destruct A as (x & <- & Hx). simpl in *.
  split; [exact Hx|]. destruct (jdel (recs s x)); [discriminate|reflexivity].
Qed.

Ltac thr_norm Hok :=
  try (match goal with inl : option outcome |- _ => destruct inl end); unfold log, set_prog; simpl;
  unfold upd;
  (match goal with |- context[Nat.eqb ?t ?u] => destruct (Nat.eqb t u) eqn:E; [apply eqb_t in E; subst|exact Hok] end);
  match goal with Hq : thr _ _ = _ |- _ => rewrite Hq in Hok end; simpl in Hok.

Lemma okp_step0 s e s' t : step0 s e = Some s' -> okp (thr s t) = true ->
  (t = worker -> stopok s) -> okp (thr s' t) = true.
Proof.
  intros H Hok Hw. s0inv H.
  all: try exact Hok.
  all: thr_norm Hok.
  all: try (apply andb_true_iff in Hok; destruct Hok as [Hc Hok]).
  all: simpl; try (apply okp_normf); try assumption; try reflexivity.
  all: try (apply okp_app; [apply plain_cbs|assumption]).
  - exfalso. apply negb_false_iff, eqb_t in Heqb0. apply next_job_in in Heqo. destruct Heqo as [A B].
    apply (Hw Heqb0 _ A); assumption.
  - apply okp_tl'; assumption.
  - apply okp_norm; assumption.
  - destruct (dcb _ d); reflexivity.
  - destruct (dcb _ d); reflexivity.
Qed.

Lemma okp_step s e s' t : step s e = Some s' -> okp (thr s t) = true ->
  (t = worker -> stopok s) -> okp (thr s' t) = true.
Proof.
  intros H Hok Hw. apply step_split in H. destruct H as (s1 & Ht & H). apply tick_eq in Ht. subst s1.
  eapply okp_step0; [exact H|exact Hok|exact Hw].
Qed.

Lemma okp_nodead p : okp p = true -> ~ In IDead p.
Proof.
  induction p as [|i r IH]; intros H; [intros []|]. intros [E|E].
  - subst i. discriminate.
  - apply IH; [eapply okp_tl; exact H|exact E].
Qed.

(* ---- no IRaise ---------------------------------------------------------------------------- *)
Definition nr1 (i : instr) : bool := match i with IRaise => false | _ => true end.
Definition nor (p : list instr) : bool := forallb nr1 p.

Lemma nor_norm : forall p b, nor p = true -> nor (norm b p) = true.
Proof.
  induction p as [|i r IH]; intros b H.
  - destruct b; reflexivity.
  - simpl in H. apply andb_true_iff in H. destruct H as [Hi Hr].
    destruct i; simpl; try discriminate; try (apply IH; exact Hr);
      (destruct b; [apply IH; exact Hr|simpl; exact Hr]).
Qed.

Lemma nor_app a b : nor a = true -> nor b = true -> nor (a ++ b) = true.
Proof. unfold nor. rewrite forallb_app. intros -> ->. reflexivity. Qed.
Lemma nor_cbs j l : nor (cbs_prog j l) = true.
Proof. induction l as [|c l IH]; simpl; [reflexivity|]. destruct c; simpl; exact IH. Qed.
Lemma nor_tl p : nor p = true -> nor (tl p) = true.
Proof. destruct p; simpl; auto. intros H. apply andb_true_iff in H. tauto. Qed.

Lemma nor_step0 s e s' t : step0 s e = Some s' -> nor (thr s t) = true -> nor (thr s' t) = true.
Proof.
  intros H Hok. s0inv H.
  all: try exact Hok.
  all: thr_norm Hok.
  all: try discriminate Hok.
  all: simpl; try (apply nor_norm); try assumption; try reflexivity.
  all: try (apply nor_app; [apply nor_cbs|assumption]).
  - apply nor_tl; assumption.
  - destruct (dcb _ d); reflexivity.
  - destruct (dcb _ d); reflexivity.
Qed.

Lemma nor_noraise p : nor p = true -> ~ In IRaise p.
Proof.
  unfold nor. rewrite forallb_forall. intros H Hin. apply H in Hin. discriminate.
Qed.

Lemma nor_reach s : reachable_from step init s -> forall t, nor (thr s t) = true.
Proof.
  apply (invariant_rule step (fun s => forall t, nor (thr s t) = true)).
  - intros t. reflexivity.
  - intros s0 e s' IH H t. apply step_split in H. destruct H as (s1 & Ht & H).
    apply tick_eq in Ht. subst s1. eapply nor_step0; [exact H|apply IH].
Qed.

Lemma okp_nw_reach s : reachable_from step init s -> forall t, t <> worker -> okp (thr s t) = true.
Proof.
  apply (invariant_rule step (fun s => forall t, t <> worker -> okp (thr s t) = true)).
  - intros t _. reflexivity.
  - intros s0 e s' IH H t Ht. eapply okp_step; [exact H|apply IH; exact Ht|intros E; contradiction].
Qed.

Lemma retry_cancel_never_raises : forall s, reachable_from step init s -> forall t,
  ~ In IRaise (thr s t) /\ (t <> worker -> ~ In IDead (thr s t)).
Proof.
  intros s R t. split.
  - apply nor_noraise, nor_reach, R.
  - intros Ht. apply okp_nodead, okp_nw_reach; assumption.
Qed.
