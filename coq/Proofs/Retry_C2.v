(* Record invariants: queued stop records carry an old delegate; hence the worker never dies. *)
From Coq Require Import List ZArith Bool Arith Lia.
From RecordUpdate Require Import RecordSet.
From ME Require Import Base.Machine Base.Fut Base.GenPrelude Gen.RetryGen Model.Retry Proofs.Retry_Spec Proofs.Retry_C0 Proofs.Retry_C1.
Import ListNotations RecordSetNotations.

Definition rokb (n : nat) (rc : nat -> jrec) (i : instr) : bool :=
  match i with
  | IXRetry r _ | IPolSR r | IPolST r | IDCbCancelled _ r => (r <? n) && issome (jdel (rc r))
  | _ => true
  end.
Definition roks n rc p := forallb (rokb n rc) p.

Lemma rokb_mono n rc n' rc' i : n <= n' -> (forall r, r < n -> jdel (rc' r) = jdel (rc r)) ->
  rokb n rc i = true -> rokb n' rc' i = true.
Proof.
  intros Hn Hd. destruct i; simpl; auto; rewrite !andb_true_iff, !Nat.ltb_lt;
    intros [A B]; (split; [lia|rewrite Hd; assumption]).
Qed.
Lemma roks_mono n rc n' rc' p : n <= n' -> (forall r, r < n -> jdel (rc' r) = jdel (rc r)) ->
  roks n rc p = true -> roks n' rc' p = true.
Proof.
  intros Hn Hd. unfold roks. rewrite !forallb_forall. intros H x Hx. eapply rokb_mono; eauto.
Qed.

Lemma roks_norm n rc : forall p b, roks n rc p = true -> roks n rc (norm b p) = true.
Proof.
  induction p as [|i r IH]; intros b H.
  - destruct b; reflexivity.
  - simpl in H. apply andb_true_iff in H. destruct H as [Hi Hr].
    destruct i; simpl; try (apply IH; exact Hr);
      (destruct b; [apply IH; exact Hr|simpl in *; try rewrite Hi; exact Hr]).
Qed.
Lemma roks_app n rc a b : roks n rc a = true -> roks n rc b = true -> roks n rc (a ++ b) = true.
Proof. unfold roks. rewrite forallb_app. intros -> ->. reflexivity. Qed.
Lemma roks_cbs n rc j l : roks n rc (cbs_prog j l) = true.
Proof. induction l as [|c l IH]; simpl; [reflexivity|]. destruct c; simpl; exact IH. Qed.
Lemma roks_tl n rc p : roks n rc p = true -> roks n rc (tl p) = true.
Proof. destruct p; simpl; auto. intros H. apply andb_true_iff in H. tauto. Qed.

Lemma in_remove_id x y l : In x (remove_id y l) <-> In x l /\ x <> y.
Proof. unfold remove_id. rewrite filter_In, negb_true_iff, Nat.eqb_neq. tauto. Qed.

Lemma find_del_some s d r : find_del s d = Some r -> In r (jobs s) /\ jdel (recs s r) = Some d.
Proof.
  unfold find_del. intros H. apply find_some in H. destruct H as [A B]. split; [exact A|].
  unfold opt_eqb in B. destruct (jdel (recs s r)); [apply eqb_t in B; congruence|discriminate].
Qed.

Record RI (s : st) : Prop := {
  ri_jobs : forall r, In r (jobs s) -> r < nrec s;
  ri_stop : forall r, r < nrec s -> jstop (recs s r) = true -> jdel (recs s r) = None -> jold (recs s r) <> None;
  ri_thr : forall t, roks (nrec s) (recs s) (thr s t) = true
}.

Lemma RI_init : RI init.
Proof. constructor; simpl; intros; try lia; try reflexivity; try tauto. Qed.


Lemma T_upd n rc n' rc' (th : nat -> list instr) t p :
  n <= n' -> (forall r, r < n -> jdel (rc' r) = jdel (rc r)) ->
  (forall u, roks n rc (th u) = true) -> roks n' rc' p = true ->
  forall u, roks n' rc' (upd th t p u) = true.
Proof.
  intros Hn Hd HT Hp u. unfold upd. destruct (Nat.eqb u t); [exact Hp|].
  eapply roks_mono; [exact Hn|exact Hd|apply HT].
Qed.

Lemma jdel_stop_upd rc n r : jdel (upd rc n (rc n <| jstop := true |>) r) = jdel (rc r).
Proof. unfold upd. destruct (Nat.eqb r n) eqn:E; [apply eqb_t in E; subst; reflexivity|reflexivity]. Qed.

Lemma J_app (l : list nat) n : (forall r, In r l -> r < n) -> forall r, In r (l ++ [n]) -> r < S n.
Proof. intros H r Hr. apply in_app_iff in Hr. destruct Hr as [Hr|[<-|[]]]; [apply H in Hr|]; lia. Qed.
Lemma J_rem (l : list nat) n x : (forall r, In r l -> r < n) -> forall r, In r (remove_id x l) -> r < n.
Proof. intros H r Hr. apply in_remove_id in Hr. apply H, Hr. Qed.

Lemma S_new n rc x :
  (forall r, r < n -> jstop (rc r) = true -> jdel (rc r) = None -> jold (rc r) <> None) ->
  (jstop x = true -> jdel x = None -> jold x <> None) ->
  forall r, r < S n -> jstop (upd rc n x r) = true -> jdel (upd rc n x r) = None -> jold (upd rc n x r) <> None.
Proof.
  intros H Hx r Hr. unfold upd. destruct (Nat.eqb r n) eqn:E; [exact Hx|].
  apply Nat.eqb_neq in E. apply H. lia.
Qed.

Lemma RI_step0 s e s' : RI s -> step0 s e = Some s' -> RI s'.
Proof.
  intros HI H. s0inv H; try exact HI.
  all: try (match goal with inl : option outcome |- _ => destruct inl end).
  all: destruct HI as [J S T].
  all: match goal with Hq : thr _ ?t = _ |- _ => pose proof (T t) as Tt; rewrite Hq in Tt; simpl in Tt end.
  all: repeat (apply andb_true_iff in Tt; let X := fresh "Tt" in destruct Tt as [X Tt]).
  all: constructor; unfold log, set_prog; simpl.
  all: try assumption.
  all: try (apply J_app; assumption); try (apply J_rem; assumption); try (apply J_app; apply J_rem; assumption).
  all: try (apply S_new; [assumption|simpl; try discriminate]).
  all: try (intros t'; unfold upd; destruct (Nat.eqb t' _) eqn:E; [|apply T];
    simpl; try (apply roks_norm); try assumption; try reflexivity).
  all: try (apply T_upd with (n := nrec s) (rc := recs s);
    [lia|intros; (rewrite upd_lt by assumption; reflexivity) || apply jdel_stop_upd|exact T|simpl; try apply roks_norm;
     eapply roks_mono; [| |exact Tt]; [lia|intros; (rewrite upd_lt by assumption; reflexivity) || apply jdel_stop_upd]]).
  - intros r Hr. unfold upd. destruct (Nat.eqb r n) eqn:E; [|apply S; exact Hr].
    apply eqb_t in E. subst r. simpl. rewrite Heqo0. discriminate.
  - intros _ _. apply andb_true_iff in Tt0. destruct Tt0 as [_ B]. intros E; rewrite E in B; discriminate B.
  - apply roks_app; [apply roks_cbs|assumption].
  - apply roks_tl; assumption.
  - apply find_del_some in Heqo. destruct Heqo as [A B]. apply J in A. apply Nat.ltb_lt in A.
    rewrite A, B. exact Tt.
  - rewrite Tt0. exact Tt.
  - rewrite Tt0. exact Tt.
  - rewrite Tt0. exact Tt.
  - destruct (dcb s d); reflexivity.
  - destruct (dcb s d); reflexivity.
Qed.

Lemma RI_reach s : reachable_from step init s -> RI s.
Proof.
  apply (invariant_rule step RI); [exact RI_init|].
  intros s0 e s' IH H. apply step_split in H. destruct H as (s1 & Ht & H).
  apply tick_eq in Ht. subst s1. eapply RI_step0; [|exact H].
  destruct IH as [J S T]. constructor; simpl; assumption.
Qed.

Lemma RI_stopok s : RI s -> stopok s.
Proof. intros [J S _] r Hr. apply S, J, Hr. Qed.

Lemma okp_reach s : reachable_from step init s -> forall t, okp (thr s t) = true.
Proof.
  apply (invariant_rule_r step (fun s => forall t, okp (thr s t) = true)).
  - intros t. reflexivity.
  - intros s0 e s' R IH H t. eapply okp_step; [exact H|apply IH|intros _; apply RI_stopok, RI_reach, R].
Qed.

Lemma retry_no_thread_dies : forall s, reachable_from step init s -> forall t, ~ In IDead (thr s t).
Proof. intros s R t. apply okp_nodead, okp_reach, R. Qed.
