(* The IR machine running the GENERATED combinator programs (Gen/CombSkel.v) and the hand-written acceptor Comb.v move in
   lockstep.  This file: the relation.  (structural lemmas: CombIR_Sim2.v; per-event lemmas: CombIR_Sim3.v ..; the
   theorem: CombIR_SimT.v; consequences: CombIR_Transfer.v)

   Comb.v keeps ONE flat instruction list per thread, in which a callback occupies a segment closed by ICatch and an
   instruction such as IAcqL i d stands for a whole activation of handle_done.  The IR machine keeps a stack of frames
   with locals.  The relation says, frame by frame, which segment a frame stands for. *)
From Coq Require Import List Arith Bool Lia PeanoNat ZArith.
From RecordUpdate Require Import RecordSet.
From ME Require Import Base.Machine Base.Fut Base.GenPrelude Gen.BoolGen Gen.ZipGen Model.Comb Model.CombIR Gen.CombSkel.
Import ListNotations RecordSetNotations.

(* the machine the theorems are about: the generic IR semantics applied to the generated programs *)
Definition gstep : ist -> ev -> option ist :=
  istep or_wrapper_prog and_wrapper_prog zip_wrapper_prog bool_init_prog zip_init_prog
        bool_handle_prog zip_handle_prog chain_cb_prog notify_cb_prog.
Definition gsstep := sstep bool_init_prog zip_init_prog.
Definition gsrun := srun bool_init_prog zip_init_prog.
Definition gsettle := settle bool_init_prog zip_init_prog.
Definition gframe_of := frame_of bool_handle_prog zip_handle_prog chain_cb_prog notify_cb_prog.

(* static checks, evaluated by the kernel on the generated text *)
Lemma generated_programs_checked :
  forallb srnc_guarded [or_wrapper_prog; and_wrapper_prog; zip_wrapper_prog; bool_init_prog; zip_init_prog;
                        bool_handle_prog; zip_handle_prog; chain_cb_prog; notify_cb_prog] = true /\
  forallb lock_discipline [or_wrapper_prog; and_wrapper_prog; zip_wrapper_prog; bool_init_prog; zip_init_prog;
                           bool_handle_prog; zip_handle_prog; chain_cb_prog; notify_cb_prog] = true.
Proof. split; vm_compute; reflexivity. Qed.

(* ---- the pieces of the generated programs the frames are made of -------------------------------- *)
Definition LB : list stmt := [SOutAddCb CbChain; SInAddCbHandle].
Definition CT : list item := [KEndCall; IS (SReturn EOut); KRet].
Definition BW : stmt := SWith [SIf CDone [SReturn ENone] []; SFsPop; SBoolKernel].
Definition BT : list item :=
  [IS (SIf (CLocal LSetResult) [STrySetResultF] []); IS (SIf (CLocal LSetException) [SCopyExc] []); IS SForCancel].
Definition ZW : stmt := SWith [SIf CDone [SPass] [SZipKernel]].
Definition ZT : list item :=
  [IS (SIf (CLocal LCancel) [SOutCancel] []); IS (SIf (CLocal LSetResult) [STrySetResultTuple] []);
   IS (SIf (CLocal LSetException) [SCopyExc] [])].
Definition NW : stmt := SIfOutCancelled [STryPass [SSrnc]] [].
Definition CW : stmt := SIfOutCancelled [SCancelInner] [].

Definition loop (n j : nat) : list instr := flat_map (fun i => [IAddCbOut i; IAddCbIn i]) (seq j (n - j)).

(* ---- tails: what is left of handle_done once the decision has been taken -------------------------- *)
Definition is_tail_vis (s : stmt) : bool :=
  match s with STrySetResultF | STrySetResultTuple | SCopyExc | SOutCancel => true | _ => false end.
Definition vis_instr (o : outcome) (s : stmt) : list instr :=
  match s with
  | STrySetResultF | SCopyExc => [ISetOut o]
  | STrySetResultTuple => [ISetOut (Ok 0 true)]
  | SOutCancel => [ICancelOut]
  | _ => []
  end.
Definition tail_item (it : item) : bool :=
  match it with
  | KKernel2 | KRel => true
  | IS (SIf (CLocal _) [s] []) => is_tail_vis s
  | IS SForCancel => true
  | IS s => is_tail_vis s
  | _ => false
  end.
Definition tailish (k : list item) : bool := forallb tail_item k.
(* o: the outcome of the frame's input f *)
Fixpoint tail_instrs (o : outcome) (lv : locals) (k : list item) : list instr :=
  match k with
  | [] => []
  | KKernel2 :: r => ICancelledQ2 (l_f lv) :: tail_instrs o lv r
  | KRel :: r => IRelL :: tail_instrs o lv r
  | IS (SIf (CLocal x) [s] []) :: r => (if get_lvar lv x then vis_instr o s else []) ++ tail_instrs o lv r
  | IS SForCancel :: r => map cancel_instr (l_cf lv) ++ tail_instrs o (set_cf lv []) r      (* after the loop: exhausted *)
  | IS s :: r => vis_instr o s ++ tail_instrs o lv r
  | _ :: r => tail_instrs o lv r
  end.

(* ---- frames and the segments they stand for ------------------------------------------------------ *)
(* bottom frames: the API calls *)
Inductive segb (cs : st) : list instr -> frame -> Prop :=
| SB_K0 : segb cs (IAddCbNotify :: loop (length (inputs cs)) 0 ++ [IRet])
                  (IS (SOutAddCb CbNotify) :: IS (SForInputs LB) :: CT, lv0)
| SB_K1 i lv : i < length (inputs cs) -> l_idx lv = i -> l_f lv = input_at cs i ->
    segb cs (IAddCbOut i :: IAddCbIn i :: loop (length (inputs cs)) (S i) ++ [IRet])
            (IS (SOutAddCb CbChain) :: IS SInAddCbHandle :: KFor (S i) LB :: CT, lv)
| SB_K2 i lv : i < length (inputs cs) -> l_idx lv = i -> l_f lv = input_at cs i ->
    segb cs (IAddCbIn i :: loop (length (inputs cs)) (S i) ++ [IRet])
            (IS SInAddCbHandle :: KFor (S i) LB :: CT, lv)
| SB_KS lv : segb cs (loop (length (inputs cs)) 0 ++ [IRet]) (IS (SForInputs LB) :: CT, lv)
| SB_KF j lv : segb cs (loop (length (inputs cs)) j ++ [IRet]) (KFor j LB :: CT, lv)
| SB_K3 lv : l_ret lv = ROut -> segb cs [IRet] ([KRet], lv)
| SB_Q0 : segb cs [ICancelOut; IRetB true] ([IS SClientCancel; KRet], lv0)
| SB_Q1 b lv : l_ret lv = RBool b -> segb cs [IRetB b] ([KRet], lv).

(* callback frames; in Comb.v each is followed by ICatch *)
Inductive segc (cs : st) : list instr -> frame -> Prop :=
| SC_C0 i lv : l_idx lv = i -> segc cs [IOutCancelledQ i] ([IS CW], lv)
| SC_C1 i lv : l_idx lv = i -> segc cs [ICancelIn (input_at cs i)] ([IS SCancelInner], lv)
| SC_N0 lv : segc cs [INotifyQ] ([IS NW], lv)
| SC_N1r lv : segc cs [ISrncOut] ([IS (STryPass [SSrnc])], lv)
| SC_N1 lv : segc cs [ISrncOut] ([IS SSrnc; KCatch], lv)
| SC_catch lv : segc cs [] ([KCatch], lv)                 (* the try-block has ended *)
| SC_end lv : segc cs [] ([], lv)                         (* the callback has ended *)
| SC_HB0r i d : ck cs <> KZip -> fdone (es cs d) = true ->
    segc cs [IAcqL i d]
         (IS (SAssignBool LSetResult false) :: IS (SAssignBool LSetException false) :: IS SAssignCfEmpty :: IS BW :: BT, lv_cb i d)
| SC_HB0 i d : ck cs <> KZip -> fdone (es cs d) = true -> segc cs [IAcqL i d] (IS BW :: BT, lv_cb i d)
| SC_HB1 i d : ck cs <> KZip -> fdone (es cs d) = true -> segc cs [ICancelledQ i d] (IS SBoolKernel :: KRel :: BT, lv_cb i d)
| SC_HZ0r i d : ck cs = KZip -> fdone (es cs d) = true ->
    segc cs [IAcqL i d]
         (IS (SAssignBool LSetResult false) :: IS (SAssignBool LSetException false) :: IS (SAssignBool LCancel false) :: IS ZW :: ZT, lv_cb i d)
| SC_HZ0 i d : ck cs = KZip -> fdone (es cs d) = true -> segc cs [IAcqL i d] (IS ZW :: ZT, lv_cb i d)
| SC_HZ1 i d : ck cs = KZip -> fdone (es cs d) = true -> segc cs [ICancelledQ i d] (IS SZipKernel :: KRel :: ZT, lv_cb i d)
| SC_T d lv k : fdone (es cs d) = true -> l_f lv = d -> tailish k = true -> length k <= 8 ->
    segc cs (tail_instrs (oc_of cs d) lv k) (k, lv).

Inductive R_thr (cs : st) : list instr -> list frame -> Prop :=
| RT_nil : R_thr cs [] []
| RT_bot p fr : segb cs p fr -> R_thr cs p [fr]
| RT_cb p fr rest st : segc cs p fr -> R_thr cs rest st -> R_thr cs (p ++ ICatch :: rest) (fr :: st).

(* the head of the continuation is a visible operation *)
Definition visible_head (fr : frame) : bool :=
  let '(k, lv) := fr in
  match k with
  | IS (SWith _) :: _ | KRel :: _ | IS (SOutAddCb _) :: _ | IS SInAddCbHandle :: _ | IS (SIfOutCancelled _ _) :: _
  | IS SSrnc :: _ | IS SCancelInner :: _ | IS SOutCancel :: _ | IS SClientCancel :: _ | IS STrySetResultF :: _
  | IS SCopyExc :: _ | IS STrySetResultTuple :: _ | IS SBoolKernel :: _ | KKernel2 :: _ | IS SZipKernel :: _
  | KRet :: _ => true
  | IS SForCancel :: _ => negb (isnil (l_cf lv))
  | _ => false
  end.
Definition top_ok (st : list frame) : Prop :=
  match st with [] => True | fr :: _ => visible_head fr = true end.
Definition TR (cs : st) (p : list instr) (st : list frame) : Prop := R_thr cs p st /\ top_ok st.

(* ---- the shared part ------------------------------------------------------------------------------ *)
Record Rcore (h : shared) (cs : st) : Prop := {
  rc_ck : ick h = ck cs;
  rc_inputs : iinputs h = inputs cs;
  rc_slots : islots h = slots cs;
  rc_cdone : icdone h = cdone cs;
  rc_lown : ilown h = lown cs;
  rc_os : ios h = os cs;
  rc_oout : ioout h = oout cs;
  rc_ocbs : iocbs h = ocbs cs;
  rc_es : ies h = es cs;
  rc_eout : ieout h = eout cs;
  rc_ecbs : iecbs h = ecbs cs;
  rc_built : ibuilt h = built cs;
  rc_ready : iready h = ready cs;
  rc_hist : ihist h = hist cs
}.
(* Comb.v's constructor event also fills the fields of the other class (fsd for Zipper, remaining for BoolOperation) *)
Definition fsd_rel (h : shared) (cs : st) : Prop := ick h = KZip \/ ifsd h = fsd cs.
Definition rem_rel (h : shared) (cs : st) : Prop := ick h <> KZip \/ iremaining h = remaining cs.

Definition idle (s : ist) (cs : st) (t : nat) : Prop := ithr s t = [] /\ thr cs t = [].

(* before the constructor call *)
Definition R0 (s : ist) (cs : st) : Prop :=
  built cs = false /\ ready cs = false /\ (forall d, ecbs cs d = []) /\ forall t, idle s cs t.
(* Zipper.__init__ registers notify_cancel BEFORE it sets done / lock / count_remaining; Comb.v sets `remaining` at the
   call.  Between the call and that registration no callback exists, every other thread is idle. *)
Definition ZK0 : frame :=
  (IS (SOutAddCb CbNotify) :: IS SDoneInit :: IS SLockInit :: IS SCountInit :: IS (SForInputs LB) :: CT, lv0).
Definition R1 (s : ist) (cs : st) (t0 : nat) : Prop :=
  ck cs = KZip /\ built cs = true /\ ready cs = false /\ remaining cs = Z.of_nat (length (inputs cs)) /\
  (forall d, ecbs cs d = []) /\
  ithr s t0 = [ZK0] /\ thr cs t0 = IAddCbNotify :: loop (length (inputs cs)) 0 ++ [IRet] /\
  forall t, t <> t0 -> idle s cs t.
Definition R2 (s : ist) (cs : st) : Prop :=
  built cs = true /\ fsd_rel (sh s) cs /\ rem_rel (sh s) cs /\ forall t, TR cs (thr cs t) (ithr s t).

Definition R (s : ist) (cs : st) : Prop :=
  Rcore (sh s) cs /\ (R0 s cs \/ (exists t0, R1 s cs t0) \/ R2 s cs).

(* Both machines accept the event and stay related, or both reject it.  One exception, which is a defect of the
   hand-written model that the regenerated program exposes (recorded in Props/Comb_G.v as
   c03_comb_zip_no_inputs_refuted): Comb.v accepts a constructor call of Zipper over no inputs; f_zip() returns
   f_return(()) without constructing anything, so the generated program has no such call. *)
Definition is_zip0 (e : ev) : Prop := match e with ECallNew _ KZip [] => True | _ => False end.
Definition lock_ok (e : ev) (o1 : option ist) (o2 : option st) : Prop :=
  match o1, o2 with
  | Some s', Some cs' => R s' cs'
  | None, None => True
  | None, Some _ => is_zip0 e
  | Some _, None => False
  end.

Lemma R_init : R iinit init.
Proof.
  split; [constructor; reflexivity|]. left. repeat split; reflexivity.
Qed.
