(* source facts of more_executors/_impl/wrap.py: what the translator finds now is what the models were written against *)
From Coq Require Import List String.
From ME Require Import Gen.Src_wrap Model.SrcExpected.
Lemma src_wrap_ok : Src_wrap.facts = expected_wrap.
Proof. reflexivity. Qed.
