(* C02 / Poll, part P2: InvP is preserved by step2 (stdlib methods on the poll future and on its delegate, the poll
   function, the cancel function); InvP holds in every reachable state. *)
From Coq Require Import ZArith List Bool Arith Lia.
From RecordUpdate Require Import RecordSet.
From ME Require Import Base.Machine Base.Fut Base.GenPrelude Model.Poll Proofs.Poll_Inv Proofs.Proto_Poll_P Proofs.Proto_Poll_P1.
Import ListNotations RecordSetNotations.

Lemma pre_eq pre a : negb (fstate_eqb pre a) = false -> pre = a.
Proof. intros E. apply negb_false_iff in E. apply fstate_eqb_eq in E. exact E. Qed.
Lemma srnc_cancelled a n b : f_srnc a = Some (n, b) -> (fcancelled a = true -> fcancelled n = true) /\ n <> Cancelled.
Proof. destruct a; simpl; intros E; inversion E; subst; split; auto; discriminate. Qed.

Ltac fcancel_case IP s :=
  match goal with Et : thr s ?t = IFCancel ?j :: ?rest, Ef : f_cancel _ = (?n, true) |- InvP (set_prog ?s1 _ _) =>
    let jc := fresh "jc" in let Ec := fresh "Ec" in let Hjc := fresh "Hjc" in let Hcp := fresh "Hcp" in let Hk := fresh "Hk" in
    let Hn := fresh "Hn" in let Hb := fresh "Hb" in let Hcn := fresh "Hcn" in
    destruct (head_conly _ _ _ _ IP Et eq_refl) as [jc [Ec [Hjc [Hcp Hk]]]];
    assert (Hn : n = fst (f_cancel (ps s j))) by (rewrite Ef; reflexivity);
    assert (Hb : snd (f_cancel (ps s j)) = true) by (rewrite Ef; reflexivity);
    pose proof (f_cancel_true_cancelled _ Hb) as Hcn; rewrite <- Hn in Hcn;
    change (InvP (set_prog s1 t ([] ++ rest)));
    apply (invP_ms s _ t (IFCancel j) rest [] j n IP); auto; try bnd IP;
    first
    [ solve [simpl in Hk; apply Nat.ltb_lt; exact Hk]
    | solve [let En := fresh "En" in let Hw := fresh "Hw" in let A2 := fresh "A2" in
      intros En; pose proof (p_wf _ IP t) as Hw; rewrite Et in Hw; destruct (wfp_split _ _ _ Hw) as [_ [A2 _]];
      simpl in A2; apply andb_prop in A2; destruct A2 as [A2 _];
      destruct rest as [|i2 r2]; [discriminate A2|]; destruct i2; try discriminate A2;
      apply Nat.eqb_eq in A2; subst; simpl; rewrite Nat.eqb_refl; reflexivity]
    | solve [let jc0 := fresh "jc0" in let Hg := fresh "Hg" in let E := fresh "E" in
      intros jc0 Hg; simpl in Hg; destruct (Nat.eqb j jc0) eqn:E; [apply Nat.eqb_eq in E; subst; right; auto|left; exact Hg]] ]
  end.
Ltac fsrnc_case IP s :=
  match goal with Et : thr s ?t = IFSrnc ?j :: ?rest, Ef : f_srnc _ = Some (?n, ?b) |- InvP (set_prog ?s1 _ _) =>
    let jc := fresh "jc" in let Ec := fresh "Ec" in let Hjc := fresh "Hjc" in let Hcp := fresh "Hcp" in let Hk := fresh "Hk" in
    let Hm := fresh "Hm" in let Hnc := fresh "Hnc" in
    destruct (head_conly _ _ _ _ IP Et eq_refl) as [jc [Ec [Hjc [Hcp Hk]]]];
    destruct (srnc_cancelled _ _ _ Ef) as [Hm Hnc];
    change (InvP (set_prog s1 t ([] ++ rest)));
    apply (invP_ms s _ t (IFSrnc j) rest [] j n IP); auto; try bnd IP;
    first
    [ solve [simpl in Hk; apply Nat.ltb_lt; exact Hk]
    | solve [intros; contradiction]
    | solve [let k := fresh "k" in let Hne := fresh "Hne" in let Hs := fresh "Hs" in
      intros k Hne Hs; simpl in Hs; apply orb_prop in Hs; destruct Hs as [Hs|Hs]; [apply Nat.eqb_eq in Hs; congruence|exact Hs]] ]
  end.
(* set_result / set_exception that takes effect: the callbacks follow *)
Ltac fset_case IP s :=
  match goal with Et : thr s ?t = ?i :: ?rest, Ef : f_set (ps s ?j) = Some ?n |- InvP (set_prog ?s1 _ (IRelMCbs ?j :: ?rest)) =>
    let Hw := fresh "Hw" in let A1 := fresh "A1" in let Hk := fresh "Hk" in
    pose proof (p_wf _ IP t) as Hw; rewrite Et in Hw; destruct (wfp_split _ _ _ Hw) as [A1 _];
    simpl in A1; apply andb_prop in A1; destruct A1 as [Hk _];
    change (InvP (set_prog s1 t ([IRelMCbs j] ++ rest)));
    apply (invP_ms s _ t i rest [IRelMCbs j] j n IP); auto; try bnd IP;
    first
    [ solve [let k := fresh "k" in let Hne := fresh "Hne" in intros k Hne; simpl; rewrite upd_other by exact Hne; reflexivity]
    | solve [apply Nat.ltb_lt; exact Hk]
    | solve [let Hc := fresh "Hc" in intros Hc; destruct (ps s j); simpl in Ef, Hc; discriminate]
    | solve [let En := fresh "En" in intros En; destruct (ps s j); simpl in Ef; inversion Ef; congruence]
    | solve [simpl; rewrite Hk; reflexivity] ]
  end.

Lemma fp_invP s t op j p s' : InvP s -> step2 s (EFP t op j p) = Some s' -> InvP s'.
Proof.
  intros IP Hx. unfold step2 in Hx.
  destruct (negb (fstate_eqb p (ps s j))) eqn:Epre; [discriminate|]. apply pre_eq in Epre. subst p.
  brk Hx; inv_some Hx; eqs; logs;
    first [ solve [closer_case IP s] | solve [both_step IP s] | solve [nc_step IP s] | solve [fcancel_case IP s]
          | solve [fsrnc_case IP s] | solve [fset_case IP s] ].
Qed.

Lemma fd_invP s t op d p s' : InvP s -> step2 s (EFD t op d p) = Some s' -> InvP s'.
Proof.
  intros IP Hx. unfold step2 in Hx.
  destruct (negb (fstate_eqb p (ds s d))) eqn:Epre; [discriminate|]. apply pre_eq in Epre. subst p.
  brk Hx; inv_some Hx; eqs; logs;
    first [ solve [closer_case IP s] | solve [both_step IP s] | solve [nc_step IP s] ].
Qed.

Lemma pok_fail_all n e l : dbound n l = true -> forallb (pok n) (flat_map (fun p => exc_prog (fst p) e) l) = true.
Proof.
  unfold dbound. induction l as [|p l IH]; simpl; auto. intros Hx. apply andb_prop in Hx. destruct Hx as [A B].
  rewrite A, (IH B). reflexivity.
Qed.
Lemma nonc_fail_all e (l : list (nat * nat)) : forallb nonc (flat_map (fun p => exc_prog (fst p) e) l) = true.
Proof. induction l as [|p l IH]; simpl; auto. Qed.

Lemma step2_invP s e s' : InvP s -> step2 s e = Some s' -> InvP s'.
Proof.
  intros IP Hx. destruct e; try discriminate Hx; try solve [ eapply fp_invP; eauto | eapply fd_invP; eauto ].
  - (* EPoll *) unfold step2 in Hx. brk Hx; inv_some Hx; eqs; logs.
    apply (invP_view s); auto; [exact (p_descs _ IP)|].
    pose proof (p_snap _ IP) as Hs. match goal with E : pmode s = _ |- _ => rewrite E in Hs end. exact Hs.
  - (* EYield *) unfold step2 in Hx. brk Hx; inv_some Hx; eqs; logs.
    pose proof (p_snap _ IP) as Hs. match goal with E : pmode s = _ |- _ => rewrite E in Hs end. simpl in Hs.
    match goal with E : issome (lookup ?j ?l) = true |- _ => pose proof (lookup_bound _ _ _ Hs E) as Hj end.
    apply (invP_idle s); auto; try bnd IP; destruct o; simpl; rewrite ?Hj; reflexivity.
  - (* EPollRet *) unfold step2 in Hx. brk Hx; inv_some Hx; eqs; logs; apply (invP_view s); auto; bnd IP.
  - (* EPollRaise *) unfold step2 in Hx. brk Hx; inv_some Hx; eqs; logs.
    pose proof (p_snap _ IP) as Hs. match goal with E : pmode s = _ |- _ => rewrite E in Hs end. simpl in Hs.
    apply (invP_idle s); auto; try bnd IP; [apply pok_fail_all; exact Hs|apply nonc_fail_all].
  - (* ECancelFn *) unfold step2 in Hx. brk Hx; inv_some Hx; eqs; logs; closer_case IP s.
Qed.

Lemma step0_invP s e s' : InvP s -> step0 s e = Some s' -> InvP s'.
Proof.
  intros IP Hx. destruct (step0_inv _ _ _ Hx) as [[c [d [-> [_ ->]]]]|[_ [H1|[H2|H3]]]].
  - apply (invP_view s); auto; bnd IP.
  - eapply step1_invP; eauto.
  - eapply step2_invP; eauto.
  - eapply step3_invP; eauto.
Qed.

Lemma invP_init : InvP init.
Proof. constructor; simpl; intros; auto; discriminate. Qed.

Theorem invP_reachable s : reachable s -> InvP s.
Proof.
  apply invariant_rule; [exact invP_init|].
  intros s0 [ts e] s' IP Hx. apply step_inv in Hx. destruct Hx as [s1 [Ht Hx]].
  eapply step0_invP; [|exact Hx].
  apply tick_inv in Ht. destruct Ht as [[-> _]|[-> _]]; [exact IP|]. apply (invP_view s0); auto; bnd IP.
Qed.
