(* C04 / Throttle, part 2: lock typing of programs.  `run c h p` executes the lock effects of program p from
   the held-set h; the only held-sets that occur are those of type `held`. *)
From Coq Require Import ZArith List Bool Arith Lia.
From RecordUpdate Require Import RecordSet.
From ME Require Import Base.Machine Base.Fut Base.GenPrelude Gen.ThrottleGen Model.Throttle Proofs.Throttle_Inv Proofs.Throttle_L1.
Import ListNotations RecordSetNotations.

Inductive held := H0 | HG | HM (j : nat) | HX | HXA | HA | HMA (j : nat).

Definition ifb (b : bool) (h : held) : option held := if b then Some h else None.

(* lock effect of one instruction; instructions that stand for a section which ends with a release carry it *)
Definition step1 (c : nat -> fstate) (h : held) (i : instr) : option held :=
  match i, h with
  | IAcqG _, H0 => Some H0                              (* acquires G; what it expands to releases it *)
  | IRelG, HG => Some H0
  | ICount CSub, HG | IWait _ (WSub _), HG | IWoke (WSub _), HG => Some H0     (* inside submit(): carry the release of G *)
  | IXEnq, HG => Some HG                                (* X-section under G *)
  | IXAcqH, H0 => Some H0                               (* acquires X; the admission loop it expands to releases it *)
  | ILoop, HX | IRcRead RLoop, HX | IRelXH, HX => Some H0
  | IPop, HX => Some HX
  | IAcqA AIncr, HX => Some HXA
  | IRelA, HXA => Some HX
  | IAcqA (ADecr _), H0 => Some HA
  | IRelA, HA => Some H0
  | IAcqA (ADecr _), HM j => Some (HMA j)
  | IRelA, HMA j => Some (HM j)
  | IAcqM j, H0 | IAcqMSet j _, H0 => Some (HM j)
  | IRelM j, HM j' | IRelMCbs j, HM j' => ifb (Nat.eqb j j') H0
  | ICancelled j, HM j' | IDoneC j, HM j' | IXCancel j, HM j' | IDCancel j _, HM j' => ifb (Nat.eqb j j') H0   (* inside cancel(): carry the release of M_j *)
  | IFCancel _, HM j' | IFSrnc _, HM j' => Some (HM j')
  | IFSet j _, HM j' => ifb (Nat.eqb j j') (HM j')
  | IDCancelledQ _ _, H0 => Some H0
  | IDCancelledQ _ d, HM j' => ifb (fcancelled (c d)) (HM j')     (* run by a canceller that holds M_j: returns at once *)
  | IDSubmit _, H0 | IAddCb1 _, H0 | IAddCb2 _ _, H0 | IDoneQ _, H0 => Some H0
  | IHStart, H0 | IClear, H0 | ICount CH, H0 | IWait _ WH, H0 | IWoke WH, H0 | IRcRead RWait, H0 | IExit, H0 => Some H0
  | IEvSet, H0 | IRet, H0 | IRetRaise, H0 | IRetB _, H0 | IRetJoin, H0 | IDShutdown, H0 => Some H0
  | IEvSet, HG => Some HG
  | IEvSet, HM j' => Some (HM j')
  | _, _ => None
  end.

Fixpoint run (c : nat -> fstate) (h : held) (p : list instr) : option held :=
  match p with
  | [] => Some h
  | i :: r => match step1 c h i with Some h2 => run c h2 r | None => None end
  end.
Definition wfh (c : nat -> fstate) (h : held) (p : list instr) : bool :=
  match run c h p with Some H0 => true | _ => false end.

Lemma run_app c p q : forall h, run c h (p ++ q) = match run c h p with Some h2 => run c h2 q | None => None end.
Proof. induction p as [|i r IH]; intros h; simpl; [reflexivity|]. destruct (step1 c h i); [apply IH|reflexivity]. Qed.

Lemma run_norm c s p h : run c h (norm s p) = run c h p.
Proof.
  destruct p as [|i r]; [reflexivity|]. destruct i; try reflexivity. simpl.
  destruct (qu s); [destruct h; reflexivity|]. destruct (hlim s); destruct h; reflexivity.
Qed.

Lemma step1_mono c c' h i : (forall d, fcancelled (c d) = true -> fcancelled (c' d) = true) ->
  forall k, step1 c h i = Some k -> step1 c' h i = Some k.
Proof.
  intros Hm k. destruct i, h; simpl; auto.
  destruct (fcancelled (c d)) eqn:E; [rewrite (Hm _ E); auto|discriminate].
Qed.
Lemma run_mono c c' p : (forall d, fcancelled (c d) = true -> fcancelled (c' d) = true) ->
  forall h k, run c h p = Some k -> run c' h p = Some k.
Proof.
  intros Hm. induction p as [|i r IH]; intros h k; simpl; [auto|].
  destruct (step1 c h i) as [h2|] eqn:E; [|discriminate]. rewrite (step1_mono c c' h i Hm _ E). apply IH.
Qed.
(* the typing looks at c only at delegate ids mentioned in the program *)
Lemma run_ext c c' n p : (forall d, d < n -> c' d = c d) -> dbound n p = true -> forall h, run c' h p = run c h p.
Proof.
  intros He. induction p as [|i r IH]; intros Hb h; [reflexivity|]. simpl in Hb. apply andb_prop in Hb. destruct Hb as [Hi Hr].
  simpl. assert (Es : step1 c' h i = step1 c h i).
  { destruct i, h; simpl; auto. simpl in Hi. apply Nat.ltb_lt in Hi. rewrite (He _ Hi). reflexivity. }
  rewrite Es. destruct (step1 c h i); [apply IH; exact Hr|reflexivity].
Qed.

(* ---- ownership ------------------------------------------------------------------------------------- *)
Definition hg (h : held) : bool := match h with HG => true | _ => false end.
Definition hx (h : held) : bool := match h with HX | HXA => true | _ => false end.
Definition ha (h : held) : bool := match h with HXA | HA | HMA _ => true | _ => false end.
Definition hm (h : held) (j : nat) : bool := match h with HM j' | HMA j' => Nat.eqb j' j | _ => false end.

Record owns (s : st) (t : nat) (h : held) : Prop := {
  o_g : owned (gown s) t = hg h;
  o_x : owned (xown s) t = hx h;
  o_a : owned (aown s) t = ha h;
  o_m : forall j, owned (mown s j) t = hm h j
}.

Definition InvL (s : st) : Prop := forall t, exists h, owns s t h /\ wfh (ds s) h (thr s t) = true.

Lemma wfh_run c h p : wfh c h p = true <-> run c h p = Some H0.
Proof. unfold wfh. destruct (run c h p) as [[]|]; split; congruence. Qed.

Lemma owned_acq o t u : free o = true -> u <> t -> owned (Some t) u = owned o u.
Proof. destruct o; [discriminate|]. intros _ Hn. simpl. apply Nat.eqb_neq. exact Hn. Qed.
Lemma owned_rel o t u : owned o t = true -> u <> t -> owned None u = owned o u.
Proof.
  destruct o as [w|]; [|discriminate]. simpl. intros Hw Hn. apply Nat.eqb_eq in Hw. subst w.
  symmetry. apply Nat.eqb_neq. exact Hn.
Qed.

Lemma invL_ext s s' :
  thr s' = thr s -> gown s' = gown s -> xown s' = xown s -> aown s' = aown s -> mown s' = mown s -> ds s' = ds s ->
  InvL s -> InvL s'.
Proof.
  intros E1 E2 E3 E4 E5 E6 IL t. destruct (IL t) as [h [[O1 O2 O3 O4] Hw]]. exists h.
  rewrite E1, E6. split; [constructor; rewrite ?E2, ?E3, ?E4, ?E5; auto|exact Hw].
Qed.
Lemma invL_log s h : InvL s -> InvL (log s h).
Proof. apply invL_ext; reflexivity. Qed.

(* general step: thread t gets program p; the other threads keep theirs, their ownership and their typing *)
Lemma invL_set s s1 t p :
  InvL s -> thr s1 = thr s ->
  (forall u, u <> t -> owned (gown s1) u = owned (gown s) u) ->
  (forall u, u <> t -> owned (xown s1) u = owned (xown s) u) ->
  (forall u, u <> t -> owned (aown s1) u = owned (aown s) u) ->
  (forall u j, u <> t -> owned (mown s1 j) u = owned (mown s j) u) ->
  (forall u h, u <> t -> run (ds s) h (thr s u) = Some H0 -> run (ds s1) h (thr s u) = Some H0) ->
  (exists h', owns s1 t h' /\ run (ds s1) h' p = Some H0) ->
  InvL (set_prog s1 t p).
Proof.
  intros IL Et Fg Fx Fa Fm Fd [h' [Ho Hr]] u. unfold set_prog. simpl. rewrite Et.
  destruct (Nat.eq_dec u t) as [->|Hne].
  - exists h'. rewrite upd_same. split; [destruct Ho; constructor; simpl; auto|].
    apply wfh_run. rewrite run_norm. exact Hr.
  - destruct (IL u) as [h [[O1 O2 O3 O4] Hw]]. exists h. rewrite upd_other by exact Hne. split.
    + constructor; simpl; rewrite ?Fg, ?Fx, ?Fa by exact Hne; auto. intros j. rewrite Fm by exact Hne. apply O4.
    + apply wfh_run. apply Fd; [exact Hne|]. apply wfh_run. exact Hw.
Qed.

(* no lock field and no delegate-future state changes *)
Lemma invL_same s s1 t p :
  InvL s -> thr s1 = thr s -> gown s1 = gown s -> xown s1 = xown s -> aown s1 = aown s -> mown s1 = mown s -> ds s1 = ds s ->
  (forall h, owns s t h -> run (ds s) h (thr s t) = Some H0 -> run (ds s) h p = Some H0) ->
  InvL (set_prog s1 t p).
Proof.
  intros IL Et E2 E3 E4 E5 E6 Hp. apply (invL_set s); auto; try (intros; rewrite ?E2, ?E3, ?E4, ?E5, ?E6; auto; fail).
  destruct (IL t) as [h [Ho Hw]]. exists h. apply wfh_run in Hw. rewrite E6. split; [|apply Hp; auto].
  destruct Ho. constructor; rewrite ?E2, ?E3, ?E4, ?E5; auto.
Qed.

Lemma invL_sub_check_gen s s1 t v rest :
  InvL s -> thr s1 = thr s ->
  (forall u, u <> t -> owned (gown s1) u = owned (gown s) u) ->
  (forall u, u <> t -> owned (xown s1) u = owned (xown s) u) ->
  (forall u, u <> t -> owned (aown s1) u = owned (aown s) u) ->
  (forall u j, u <> t -> owned (mown s1 j) u = owned (mown s j) u) ->
  (forall u h, u <> t -> run (ds s) h (thr s u) = Some H0 -> run (ds s1) h (thr s u) = Some H0) ->
  owns s1 t HG -> run (ds s1) H0 rest = Some H0 ->
  InvL (sub_check s1 t v rest).
Proof.
  intros IL Et Fg Fx Fa Fm Fd Ho Hr. unfold sub_check.
  destruct (blk s1 && negb (shut s1)); [destruct (block_ready (qlen s1) v) as [[|]|]|];
    repeat apply invL_log; apply (invL_set s); auto; exists HG; (split; [exact Ho|simpl; exact Hr]).
Qed.
Lemma invL_sub_check s s1 t v rest :
  InvL s -> thr s1 = thr s -> gown s1 = gown s -> xown s1 = xown s -> aown s1 = aown s -> mown s1 = mown s -> ds s1 = ds s ->
  (forall h, owns s t h -> run (ds s) h (thr s t) = Some H0 -> h = HG /\ run (ds s) H0 rest = Some H0) ->
  InvL (sub_check s1 t v rest).
Proof.
  intros IL Et E2 E3 E4 E5 E6 Hp. destruct (IL t) as [h [Ho Hw]]. apply wfh_run in Hw. destruct (Hp h Ho Hw) as [-> Hr].
  apply (invL_sub_check_gen s); auto; try (intros; rewrite ?E2, ?E3, ?E4, ?E5, ?E6; auto; fail).
  all: try (destruct Ho; constructor; rewrite ?E2, ?E3, ?E4, ?E5; auto; fail).
  all: try (rewrite E6; exact Hr).
Qed.
Lemma invL_after_wait s s1 t k rest :
  InvL s -> thr s1 = thr s -> gown s1 = gown s -> xown s1 = xown s -> aown s1 = aown s -> mown s1 = mown s -> ds s1 = ds s ->
  (forall h, owns s t h -> run (ds s) h (thr s t) = Some H0 ->
     match k with WH => h = H0 | WSub _ => h = HG end /\ run (ds s) H0 rest = Some H0) ->
  InvL (after_wait s1 t k rest).
Proof.
  intros IL Et E2 E3 E4 E5 E6 Hp. destruct k; simpl.
  - apply (invL_same s); auto. intros h Ho Hw. destruct (Hp h Ho Hw) as [-> Hr]. simpl. exact Hr.
  - apply (invL_sub_check s); auto.
Qed.
Lemma invL_start_iter s s1 t :
  InvL s -> thr s1 = thr s -> gown s1 = gown s -> xown s1 = xown s -> aown s1 = aown s -> mown s1 = mown s -> ds s1 = ds s ->
  (forall h, owns s t h -> run (ds s) h (thr s t) = Some H0 -> h = H0) ->
  InvL (start_iter s1 t).
Proof.
  intros IL Et E2 E3 E4 E5 E6 Hp. unfold start_iter.
  destruct (shut s1); [|destruct (dyn s1)]; apply (invL_same s); auto; intros h Ho Hw; rewrite (Hp h Ho Hw); reflexivity.
Qed.
