(* Lockstep of the IR machine (generated combinator programs) and Comb.v: structural lemmas about the relation. *)
From Coq Require Import List Arith Bool Lia PeanoNat ZArith.
From RecordUpdate Require Import RecordSet.
From ME Require Import Base.Machine Base.Fut Base.GenPrelude Gen.BoolGen Gen.ZipGen Model.Comb Model.CombIR Gen.CombSkel
  Proofs.CombIR_Sim.
Import ListNotations RecordSetNotations.

(* ---- the constructor loop -------------------------------------------------------------------------- *)
Lemma loop_step n j : j < n -> loop n j = IAddCbOut j :: IAddCbIn j :: loop n (S j).
Proof.
  intros H. unfold loop. replace (n - j) with (S (n - S j)) by lia. reflexivity.
Qed.
Lemma loop_end n j : n <= j -> loop n j = [].
Proof. intros H. unfold loop. replace (n - j) with 0 by lia. reflexivity. Qed.
Lemma loop_0 n : flat_map (fun i => [IAddCbOut i; IAddCbIn i]) (seq 0 n) = loop n 0.
Proof. unfold loop. rewrite Nat.sub_0_r. reflexivity. Qed.

(* ---- frames at rest --------------------------------------------------------------------------------- *)
Lemma visible_sstep h k lv : visible_head (k, lv) = true -> gsstep h k lv = None.
Proof.
  unfold visible_head, gsstep, sstep. intros H.
  destruct k as [|[s| | |j b| | | ] r]; try discriminate H; try reflexivity.
  destruct s; try discriminate H; try reflexivity.
  destruct (l_cf lv); [discriminate H|reflexivity].
Qed.

Lemma visible_settle h fr st : visible_head fr = true -> gsettle h (fr :: st) = (h, fr :: st).
Proof.
  destruct fr as [k lv]. intros H. unfold gsettle. simpl settle.
  change (srun bool_init_prog zip_init_prog FUEL h k lv) with (gsrun FUEL h k lv).
  unfold gsrun, FUEL. simpl srun. change (sstep bool_init_prog zip_init_prog h k lv) with (gsstep h k lv).
  rewrite (visible_sstep h k lv H).
  destruct k; [discriminate H|reflexivity].
Qed.

(* ---- normal forms of Comb.v's instruction lists ------------------------------------------------------ *)
Definition real (x : instr) : bool := match x with ICatch | IThrow | IDead => false | _ => true end.
Lemma norm_real x p : real x = true -> norm false (x :: p) = x :: p.
Proof. destruct x; simpl; intros H; try reflexivity; discriminate H. Qed.

Lemma tail_visible_real o lv k q : tailish k = true -> visible_head (k, lv) = true ->
  exists x r, tail_instrs o lv k ++ q = x :: r /\ real x = true.
Proof.
  intros Ht Hv. destruct k as [|it k]; [discriminate Hv|].
  simpl in Ht. apply andb_true_iff in Ht. destruct Ht as [Hi _].
  destruct it as [s| | |j b| | | ]; try discriminate Hi; try discriminate Hv.
  - destruct s; simpl in Hv; try discriminate Hi; try discriminate Hv; simpl; try (eexists; eexists; split; [reflexivity|reflexivity]).
    destruct (l_cf lv) as [|x cf]; [discriminate Hv|]. simpl.
      unfold cancel_instr. destruct (Nat.eqb x out_id); eexists; eexists; split; reflexivity.
  - simpl. eexists; eexists; split; reflexivity.
  - simpl. eexists; eexists; split; reflexivity.
Qed.

Lemma segb_real cs p fr : segb cs p fr -> visible_head fr = true -> exists x r, p = x :: r /\ real x = true.
Proof.
  intros H Hv. destruct H; try (eexists; eexists; split; reflexivity); discriminate Hv.
Qed.

Lemma segc_real cs p fr q : segc cs p fr -> visible_head fr = true -> exists x r, p ++ q = x :: r /\ real x = true.
Proof.
  intros H Hv. destruct H; try (eexists; eexists; split; reflexivity); try discriminate Hv.
  apply tail_visible_real; assumption.
Qed.

Lemma R_thr_norm cs p st : R_thr cs p st -> top_ok st -> norm false p = p.
Proof.
  intros H Ht. destruct H as [|p fr Hs|p fr rest st Hs Hr]; [reflexivity| |].
  - destruct (segb_real _ _ _ Hs Ht) as (x & r & -> & Hx). apply norm_real; exact Hx.
  - destruct (segc_real _ _ _ (ICatch :: rest) Hs Ht) as (x & r & E & Hx). rewrite E. apply norm_real; exact Hx.
Qed.

Lemma R_thr_head cs p st : R_thr cs p st -> top_ok st -> st <> [] -> exists x r, p = x :: r /\ real x = true.
Proof.
  intros H Ht Hne. destruct H as [|p fr Hs|p fr rest st Hs Hr]; [contradiction| |].
  - exact (segb_real _ _ _ Hs Ht).
  - exact (segc_real _ _ _ (ICatch :: rest) Hs Ht).
Qed.

Lemma R_thr_idle cs p st : R_thr cs p st -> (p = [] <-> st = []).
Proof.
  intros H. destruct H as [|p fr Hs|p fr rest st Hs Hr].
  - split; reflexivity.
  - split; intros E; [|discriminate E]. destruct Hs; try discriminate E.
    (* SB_KS / SB_KF: loop ++ [IRet] is never empty *) all: destruct (loop _ _); discriminate E.
  - split; intros E; [|discriminate E]. destruct p; discriminate E.
Qed.

(* ---- stability: other threads' steps do not disturb a thread's frames -------------------------------- *)
Definition stable (cs cs' : st) : Prop :=
  ck cs' = ck cs /\ inputs cs' = inputs cs /\
  forall d, fdone (es cs d) = true -> fdone (es cs' d) = true /\ eout cs' d = eout cs d.

Lemma stable_refl cs : stable cs cs.
Proof. repeat split; auto. Qed.

Lemma stable_oc cs cs' d : stable cs cs' -> fdone (es cs d) = true -> oc_of cs' d = oc_of cs d.
Proof. intros (_ & _ & H) Hd. unfold oc_of. destruct (H d Hd) as [_ ->]. reflexivity. Qed.

Lemma segb_stable cs cs' p fr : stable cs cs' -> segb cs p fr -> segb cs' p fr.
Proof.
  intros (Hk & Hi & Hd) H. destruct H; unfold input_at in *; rewrite <- ?Hi in *.
  - apply SB_K0.
  - apply SB_K1; assumption.
  - apply SB_K2; assumption.
  - apply SB_KS.
  - apply SB_KF.
  - apply SB_K3; assumption.
  - apply SB_Q0.
  - eapply SB_Q1; eassumption.
Qed.

Lemma segc_stable cs cs' p fr : stable cs cs' -> segc cs p fr -> segc cs' p fr.
Proof.
  intros St H. pose proof St as (Hk & Hi & Hd). destruct H.
  - apply SC_C0; assumption.
  - unfold input_at. rewrite <- Hi. apply (SC_C1 cs'); assumption.
  - apply SC_N0.
  - apply SC_N1r.
  - apply SC_N1.
  - apply SC_catch.
  - apply SC_end.
  - apply SC_HB0r; [rewrite Hk; assumption|apply Hd; assumption].
  - apply SC_HB0; [rewrite Hk; assumption|apply Hd; assumption].
  - apply SC_HB1; [rewrite Hk; assumption|apply Hd; assumption].
  - apply SC_HZ0r; [rewrite Hk; assumption|apply Hd; assumption].
  - apply SC_HZ0; [rewrite Hk; assumption|apply Hd; assumption].
  - apply SC_HZ1; [rewrite Hk; assumption|apply Hd; assumption].
  - rewrite <- (stable_oc cs cs' d St) by assumption. apply SC_T; try assumption. apply Hd; assumption.
Qed.

Lemma R_thr_stable cs cs' p st : stable cs cs' -> R_thr cs p st -> R_thr cs' p st.
Proof.
  intros St H. induction H as [|p fr Hs|p fr rest st Hs Hr IH].
  - constructor.
  - apply RT_bot. eapply segb_stable; eassumption.
  - apply RT_cb; [eapply segc_stable; eassumption|exact IH].
Qed.

(* ---- tails: silent steps do not change what a tail stands for ----------------------------------------- *)
Lemma gsrun_S n h k lv :
  gsrun (S n) h k lv = match gsstep h k lv with Some (h', k', lv') => gsrun n h' k' lv' | None => (h, k, lv) end.
Proof. reflexivity. Qed.
Lemma gsrun_visible n h k lv : visible_head (k, lv) = true -> gsrun n h k lv = (h, k, lv).
Proof. intros Hv. destruct n; [reflexivity|]. rewrite gsrun_S, (visible_sstep _ _ _ Hv). reflexivity. Qed.
Lemma gsstep_if h c th el r lv :
  gsstep h (IS (SIf c th el) :: r) lv = Some (h, map IS (if eval_cond c h lv then th else el) ++ r, lv).
Proof. reflexivity. Qed.
Lemma gsstep_forcancel_nil h r lv : l_cf lv = [] -> gsstep h (IS SForCancel :: r) lv = Some (h, r, lv).
Proof. intros E. unfold gsstep, sstep. rewrite E. reflexivity. Qed.

(* tail_instrs reads the locals f, set_result, set_exception, cancel, cancel_futures only *)
Lemma tail_instrs_ext o lv1 lv2 k :
  l_f lv1 = l_f lv2 -> (forall x, get_lvar lv1 x = get_lvar lv2 x) -> l_cf lv1 = l_cf lv2 ->
  tail_instrs o lv1 k = tail_instrs o lv2 k.
Proof.
  revert lv1 lv2. induction k as [|it k IH]; intros lv1 lv2 Hf Hg Hc; [reflexivity|].
  destruct it as [s| | |j b| | | ]; simpl; rewrite ?Hf; try (f_equal; apply IH; assumption); try (apply IH; assumption).
  destruct s; simpl; try (f_equal; apply IH; assumption); try (apply IH; assumption).
  - destruct c; try (apply IH; assumption). destruct th as [|s1 [|s2 th]]; try (apply IH; assumption).
    destruct el; try (apply IH; assumption). rewrite Hg. f_equal. apply IH; assumption.
  - rewrite Hc. f_equal. apply IH; [exact Hf| |reflexivity].
    intros x. destruct x; simpl; [apply (Hg LSetResult)|apply (Hg LSetException)|apply (Hg LCancel)].
Qed.
Lemma tail_instrs_cf_nil o lv k : l_cf lv = [] -> tail_instrs o (set_cf lv []) k = tail_instrs o lv k.
Proof.
  intros E. apply tail_instrs_ext; [reflexivity| |simpl; symmetry; exact E]. intros x; destruct x; reflexivity.
Qed.

Lemma tail_srun o h : forall n k lv, tailish k = true -> length k <= n ->
  exists k', gsrun n h k lv = (h, k', lv) /\ tail_instrs o lv k' = tail_instrs o lv k /\ tailish k' = true /\
             length k' <= length k /\ (k' = [] \/ visible_head (k', lv) = true).
Proof.
  induction n as [|n IH]; intros k lv Ht Hl.
  - destruct k; [|simpl in Hl; lia]. exists []. repeat split; auto.
  - destruct k as [|it k].
    + exists []. repeat split; auto.
    + assert (Vis : visible_head (it :: k, lv) = true ->
                    exists k', gsrun (S n) h (it :: k) lv = (h, k', lv) /\ tail_instrs o lv k' = tail_instrs o lv (it :: k) /\
                               tailish k' = true /\ length k' <= length (it :: k) /\ (k' = [] \/ visible_head (k', lv) = true)).
      { intros Hv. exists (it :: k). rewrite (gsrun_visible _ _ _ _ Hv). repeat split; auto. }
      simpl in Ht. apply andb_true_iff in Ht. destruct Ht as [Hi Ht]. simpl in Hl.
      destruct it as [s| | |j b| | | ]; try discriminate Hi; try (apply Vis; reflexivity).
      destruct s as [b|c th el|th el|v| |x b| | | | | | | | | |c|b| | | | | | | | | | |b| | ];
        try discriminate Hi; try (apply Vis; reflexivity).
      * (* SIf (CLocal x) [s] [] *)
        destruct c as [|x| |]; try discriminate Hi.
        destruct th as [|s1 [|s2 th]]; try discriminate Hi. destruct el; try discriminate Hi.
        simpl in Hi. rewrite gsrun_S, gsstep_if. unfold eval_cond.
        destruct (get_lvar lv x) eqn:Ex.
        -- (* then: the statement is visible *)
           simpl app.
           assert (Hv : visible_head (IS s1 :: k, lv) = true) by (destruct s1; try discriminate Hi; reflexivity).
           rewrite (gsrun_visible _ _ _ _ Hv). exists (IS s1 :: k). simpl. rewrite Ex. repeat split; auto.
           ++ destruct s1; try discriminate Hi; simpl; reflexivity.
           ++ rewrite Ht. destruct s1; try discriminate Hi; reflexivity.
        -- simpl app. destruct (IH k lv Ht ltac:(lia)) as (k' & E & Et & Hk' & Hlen & Hv).
           exists k'. rewrite E. split; [reflexivity|]. split; [simpl; rewrite Ex; exact Et|].
           split; [exact Hk'|]. split; [simpl; lia|exact Hv].
      * (* SForCancel *)
        destruct (l_cf lv) as [|x cf] eqn:Ecf.
        -- rewrite gsrun_S, (gsstep_forcancel_nil _ _ _ Ecf).
           destruct (IH k lv Ht ltac:(lia)) as (k' & E & Et & Hk' & Hlen & Hv).
           exists k'. rewrite E. split; [reflexivity|].
           split; [simpl; rewrite Ecf; simpl; rewrite (tail_instrs_cf_nil _ _ _ Ecf); exact Et|].
           split; [exact Hk'|]. split; [simpl; lia|exact Hv].
        -- apply Vis. simpl. rewrite Ecf. reflexivity.
Qed.
