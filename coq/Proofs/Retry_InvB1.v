(* Invariant 1: finished futures have HFinal; callbacks run after resolution. *)
From Coq Require Import List ZArith Bool Arith Lia PeanoNat.
From RecordUpdate Require Import RecordSet.
From ME Require Import Base.Machine Base.Fut Base.GenPrelude Gen.RetryGen Model.Retry Proofs.Retry_InvB0.
Import ListNotations RecordSetNotations.

Record I1 (h : list hev) (rsf : nat -> fstate) (ro : nat -> option outcome) (th : nat -> list instr) : Prop := {
  i1_fin : forall j, rsf j = Finished -> exists o ts, In (HFinal j o ts) h /\ ro j = Some o;
  i1_done : forall j, fdone (rsf j) = true -> R h j;
  i1_okp : forall t, okp (R h) false [] (th t);
  i1_cb : CbOK h
}.
Definition Inv1 (s : st) := I1 (hist s) (rs s) (rout s) (thr s).

Lemma I1_thr h r o th t p : I1 h r o th -> okp (R h) false [] p -> I1 h r o (upd th t (norm false p)).
Proof. intros [A B C D] Hp. constructor; auto. apply okp_upd; auto. Qed.

Lemma I1_log e h r o th : ~ is_cb e -> I1 h r o th -> I1 (e :: h) r o th.
Proof.
  intros He [A B C D]. constructor.
  - intros j Hj. destruct (A j Hj) as (x & ts & H1 & H2). exists x, ts. split; [right|]; auto.
  - intros j Hj. apply R_cons; auto.
  - intros t. eapply okp_weaken; [| |apply C]; intros j; [intros [H|H]; [left; apply R_cons|right]|apply R_cons]; auto.
  - apply CbOK_other; auto.
Qed.

Lemma I1_cb j c ts h r o th : R h j -> I1 h r o th -> I1 (HCb j c ts :: h) r o th.
Proof.
  intros He [A B C D]. constructor.
  - intros j' Hj. destruct (A j' Hj) as (x & ts' & H1 & H2). exists x, ts'. split; [right|]; auto.
  - intros j' Hj. apply R_cons; auto.
  - intros t. eapply okp_weaken; [| |apply C]; intros j'; [intros [H|H]; [left; apply R_cons|right]|apply R_cons]; auto.
  - apply CbOK_cb; auto.
Qed.

Ltac upd_cases j j' := unfold upd; destruct (Nat.eqb j' j) eqn:?E;
  [apply Nat.eqb_eq in E; subst j'|apply Nat.eqb_neq in E].

Lemma I1_fresh j h r o th : I1 h r o th -> I1 h (upd r j Pending) (upd o j None) th.
Proof.
  intros [A B C D]. constructor; auto.
  - intros j'. upd_cases j j'; [discriminate|auto].
  - intros j'. upd_cases j j'; [discriminate|auto].
Qed.

Lemma I1_srnc j n b h r o th : f_srnc (r j) = Some (n, b) -> I1 h r o th -> I1 h (upd r j n) o th.
Proof.
  intros Hf [A B C D]. constructor; auto.
  - intros j'. upd_cases j j'; [|auto]. destruct (r j); inversion Hf; subst; discriminate.
  - intros j'. upd_cases j j'; [|auto]. intros Hn. apply B. destruct (r j); inversion Hf; subst; auto.
Qed.

Lemma I1_cancel j n ts h r o th : f_cancel (r j) = (n, true) -> I1 h r o th ->
  I1 (HCancelled j ts :: h) (upd r j n) o th.
Proof.
  intros Hf H. apply (I1_log (HCancelled j ts)) in H; [|simpl; tauto].
  destruct H as [A B C D]. constructor; auto.
  - intros j'. upd_cases j j'; [|auto]. destruct (r j); inversion Hf; subst; discriminate.
  - intros j'. upd_cases j j'; [|auto]. intros _. right. exists ts. left; auto.
Qed.

Lemma I1_set j n x ts h r o th : f_set (r j) = Some n -> I1 h r o th ->
  I1 (HFinal j x ts :: h) (upd r j n) (upd o j (Some x)) th.
Proof.
  intros Hf H. apply (I1_log (HFinal j x ts)) in H; [|simpl; tauto].
  destruct H as [A B C D]. constructor; auto.
  - intros j'. upd_cases j j'; [|auto]. intros _. exists x, ts. split; [left|]; auto.
  - intros j'. upd_cases j j'; [|auto]. intros _. left. exists x, ts. left; auto.
Qed.

Lemma okp_w0 Q w p : okp Q false [] p -> okp Q false w p.
Proof. apply okp_weaken; auto. simpl; tauto. Qed.
Lemma okp_t0 Q w p : okp Q false [] p -> okp Q true w p.
Proof. apply okp_throw. Qed.
Lemma okp_absorb (Q : nat -> Prop) j p : Q j -> okp Q false [j] p -> okp Q false [] p.
Proof. intros Hj. apply okp_weaken; auto. simpl. intros j' [H|[<-|[]]]; auto. Qed.

Ltac okp_fin := simpl; repeat split; auto using okp_w0, okp_t0.
Ltac i1_log := match goal with |- I1 (?e :: _) _ _ _ =>
  match e with HFinal _ _ _ => fail 1 | HCancelled _ _ => fail 1 | HCb _ _ _ => fail 1
          | _ => apply I1_log; [simpl; tauto|] end end.
Lemma okp_R_cons e h b w p : okp (R h) b w p -> okp (R (e :: h)) b w p.
Proof. apply okp_weaken; intros j; [intros [H|H]; [left; apply R_cons|right]|apply R_cons]; auto. Qed.

Lemma inv1_step0 s e s' : Inv1 s -> step0 s e = Some s' -> Inv1 s'.
Proof.
  intros I H. unfold step0 in H. destruct e.
  all: step_cases H.
  all: clean.
  all: unfold Inv1 in *; simpl.
  all: try match goal with E : thr _ ?t = _ |- _ =>
         assert (P := i1_okp _ _ _ _ I t); rewrite E in P; simpl in P end.
  all: repeat i1_log.
  all: try exact I.
  all: try (apply I1_thr; [exact I|]; okp_fin; fail).
  - apply I1_thr; [apply I1_fresh; exact I|okp_fin].
  - apply I1_thr; [exact I|]. destruct P as [[P1|[]] P2]. apply okp_cbs; auto.
  - apply I1_thr; [eapply I1_cancel; eauto|]. apply (okp_absorb _ j0).
    + right. exists (clock s). left; auto.
    + apply okp_R_cons; auto.
  - destruct (f_srnc (rs s j0)) as [[n0 b0]|] eqn:E; inv_some Heqo.
    apply I1_thr; [eapply I1_srnc; eauto|auto].
  - apply I1_thr; [exact I|]. assert (Hr := i1_done _ _ _ _ I j0 Heqb1). okp_fin.
  - destruct l as [|i l]; [tauto|]. destruct i; try tauto.
    apply I1_thr; [eapply I1_set; eauto|]. apply (okp_absorb _ j0).
    + left. exists o, (clock s). left; auto.
    + apply okp_R_cons; auto.
  - destruct l as [|i l]; [tauto|]. destruct i; try tauto. simpl in *.
    assert (Hr : R (hist s) j0).
    { apply (i1_done _ _ _ _ I). destruct (rs s j0); simpl in *; congruence. }
    apply I1_thr; [exact I|]. simpl. apply (okp_absorb _ j0); tauto.
  - destruct P as [[P1|[]] P2]. apply I1_thr; [apply I1_cb; auto|]. apply okp_R_cons; auto.
Qed.

Lemma inv1_init : Inv1 init.
Proof.
  constructor; simpl; try discriminate; auto.
  intros l1 j c ts l2 E. destruct l1; discriminate.
Qed.

Lemma step_tick s te s' : step s te = Some s' ->
  exists s1, tick s (fst te) = Some s1 /\ step0 s1 (snd te) = Some s'.
Proof. unfold step. destruct (tick s (fst te)) as [s1|]; [eauto|discriminate]. Qed.

Lemma inv1_reach s : reachable_from step init s -> Inv1 s.
Proof.
  apply invariant_rule; [exact inv1_init|].
  intros s0 e s1 I H. apply step_tick in H. destruct H as (s2 & T & H).
  unfold tick in T. destruct (Z.leb (clock s0) (fst e)); inv_some T.
  eapply inv1_step0; [|exact H]. exact I.
Qed.

Lemma retry_finished_has_final s : reachable_from step init s -> forall j,
  rs s j = Finished -> exists o ts, In (HFinal j o ts) (hist s) /\ rout s j = Some o.
Proof. intros H. exact (i1_fin _ _ _ _ (inv1_reach s H)). Qed.

Lemma retry_callbacks_after_final s : reachable_from step init s -> forall l1 j c ts l2,
  hist s = l1 ++ HCb j c ts :: l2 ->
  (exists o t', In (HFinal j o t') l2) \/ (exists t', In (HCancelled j t') l2).
Proof. intros H l1 j c ts l2 E. exact (i1_cb _ _ _ _ (inv1_reach s H) l1 j c ts l2 E). Qed.
