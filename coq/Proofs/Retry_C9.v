(* Consequences of the mutex discipline: who may change rs j; head-only facts N1/C1/X1. *)
From Coq Require Import List ZArith Bool Arith Lia.
From RecordUpdate Require Import RecordSet.
From ME Require Import Base.Machine Base.Fut Base.GenPrelude Gen.RetryGen Model.Retry Proofs.Retry_Spec Proofs.Retry_C0 Proofs.Retry_C1 Proofs.Retry_C2 Proofs.Retry_C3 Proofs.Retry_C4 Proofs.Retry_C5 Proofs.Retry_C6 Proofs.Retry_C7 Proofs.Retry_C8.
Import ListNotations RecordSetNotations.

Lemma MI_head s t i l j : MI s -> thr s t = i :: l ->
  (cls (jfs s) j i = 2 \/ cls (jfs s) j i = 3) -> mown s j = Some t.
Proof.
  intros [_ M] E H. specialize (M t j). rewrite E in M. simpl in M.
  apply opt_eqb_some. unfold own in M.
  destruct H as [H|H]; rewrite H in M; apply andb_true_iff in M; apply M.
Qed.

Definition rs_writer (j : nat) (i : instr) : Prop :=
  i = IFCancel j \/ i = IFSrnc j \/ exists o, i = IFSet j o.

Lemma rs_change s e s' j : step0 s e = Some s' -> j < nfut s -> rs s' j <> rs s j ->
  exists t i l, thr s t = i :: l /\ rs_writer j i /\ thr s' t = norm false l.
Proof.
  intros H Hj Hn. s0inv H; try (exfalso; apply Hn; reflexivity).
  all: try (match goal with inl : option outcome |- _ => destruct inl end).
  all: bsplit; subst.
  all: unfold log, set_prog in *; simpl in *; try (exfalso; apply Hn; reflexivity).
  all: try (rewrite upd_lt in Hn by exact Hj; exfalso; apply Hn; reflexivity).
  all: match goal with Hq : thr _ ?t = ?i :: ?l |- _ => exists t, i, l; split; [exact Hq|]; split;
         [|rewrite upd_same; reflexivity] end.
  all: unfold upd in Hn; match type of Hn with context[Nat.eqb ?a ?b] => destruct (Nat.eqb a b) eqn:E end;
    [apply eqb_t in E; subst|exfalso; apply Hn; reflexivity].
  all: unfold rs_writer; eauto.
Qed.

Lemma xown_change s e s' : step0 s e = Some s' -> xown s' <> xown s ->
  xown s = None \/ exists t l, xown s = Some t /\ thr s t = IXRel :: l.
Proof.
  intros H Hn. s0inv H; try (exfalso; apply Hn; reflexivity).
  all: try (match goal with inl : option outcome |- _ => destruct inl end).
  all: bsplit; subst.
  all: unfold log, set_prog in *; simpl in *; try (exfalso; apply Hn; reflexivity).
  - left. destruct (xown s); [discriminate|reflexivity].
  - right. eauto.
Qed.

Definition hdinv (s : st) (t : nat) (i : instr) : Prop :=
  match i with
  | IDoneW r => xown s = Some t
  | IDSubmit r => xown s = Some t /\ fdone (rs s (jf (recs s r))) = false
  | IXCancelScan j | IDCancel j _ _ => fdone (rs s j) = false
  | _ => True
  end.
Definition HI (s : st) : Prop := forall t i l, thr s t = i :: l -> hdinv s t i.

Lemma rs_frame s e s' u i l j : step0 s e = Some s' -> MI s -> thr s u = i :: l -> j < nfut s ->
  cls (jfs s) j i = 3 -> rs s' j = rs s j.
Proof.
  intros H M E Hj Hc. destruct (fstate_eqb (rs s' j) (rs s j)) eqn:Eq; [apply fstate_eqb_eq; exact Eq|].
  exfalso. assert (Hn : rs s' j <> rs s j) by (intros X; rewrite X in Eq; destruct (rs s j); discriminate).
  destruct (rs_change s e s' j H Hj Hn) as (t & i' & l' & Et & W & _).
  assert (A : mown s j = Some u) by (eapply MI_head; eauto).
  assert (B : mown s j = Some t).
  { eapply MI_head; [exact M|exact Et|]. left. destruct W as [->|[->|[o ->]]]; simpl; rewrite Nat.eqb_refl; reflexivity. }
  assert (t = u) by congruence. subst t. rewrite E in Et. inversion Et; subst i'.
  destruct W as [->|[->|[o ->]]]; simpl in Hc; rewrite Nat.eqb_refl in Hc; discriminate.
Qed.

Lemma xown_frame s e s' u i l : step0 s e = Some s' -> thr s u = i :: l -> i <> IXRel ->
  xown s = Some u -> xown s' = Some u.
Proof.
  intros H E Hi Hx. destruct (xown s') as [x|] eqn:Ex.
  - destruct (Nat.eq_dec x u) as [->|N]; [reflexivity|]. exfalso.
    assert (Hn : xown s' <> xown s) by congruence.
    destruct (xown_change s e s' H Hn) as [A|(t & l' & A & B)]; [congruence|].
    assert (t = u) by congruence. subst t. rewrite E in B. inversion B. contradiction.
  - exfalso. assert (Hn : xown s' <> xown s) by congruence.
    destruct (xown_change s e s' H Hn) as [A|(t & l' & A & B)]; [congruence|].
    assert (t = u) by congruence. subst t. rewrite E in B. inversion B. contradiction.
Qed.

Lemma hdinv_frame s e s' u i l : step0 s e = Some s' -> MI s -> PI s -> thr s u = i :: l ->
  hdinv s u i -> hdinv s' u i.
Proof.
  intros H M P E Hh. pose proof (MONO_step0 _ _ _ H) as Mo.
  pose proof (pi_thr s P u) as Pu. rewrite E in Pu. inversion Pu as [|? ? Pi _]; subst.
  destruct i; simpl in *; auto.
  - (* IXCancelScan *) erewrite rs_frame; eauto. simpl. rewrite Nat.eqb_refl. reflexivity.
  - (* IDCancel *) destruct Pi as (A & B & C & D). erewrite rs_frame; eauto.
    + subst j. apply (pi_jf s P). exact A.
    + simpl. rewrite Nat.eqb_refl. reflexivity.
  - (* IDoneW *) eapply xown_frame; eauto. discriminate.
  - (* IDSubmit *) destruct Hh as [Hx Hd]. destruct Pi as (A & B & C). split.
    + eapply xown_frame; eauto. discriminate.
    + rewrite (mo_jf _ _ Mo) by exact A. erewrite rs_frame; eauto.
      * apply (pi_jf s P). exact A.
      * simpl. unfold jfs. rewrite Nat.eqb_refl. reflexivity.
Qed.

Lemma norm_head_nh l i' l' : forallb nh l = true -> norm false l = i' :: l' -> nh i' = true.
Proof. intros H E. apply (nh_norm l false) in H. rewrite E in H. simpl in H. apply andb_true_iff in H. apply H. Qed.

Lemma HI_step0 s e s' : HI s -> MI s -> PI s -> (forall t, posok (thr s t) = true) ->
  step0 s e = Some s' -> HI s'.
Proof.
  intros HH HM HP HPos H. pose proof H as H0. s0inv H; try exact HH.
  all: try (match goal with inl : option outcome |- _ => destruct inl end).
  all: bsplit; subst.
  all: intros u i' l' E.
  all: try (match goal with Hq : thr _ ?t = _ |- _ =>
      destruct (Nat.eq_dec u t) as [->|Nu];
      [pose proof (HPos t) as Pt; rewrite Hq in Pt; unfold posok in Pt; simpl in Pt;
       try (pose proof (HH _ _ _ Hq) as Hh)
      |eapply hdinv_frame; [exact H0|exact HM|exact HP| |eapply HH];
       unfold log, set_prog in E; simpl in E; rewrite upd_other in E by exact Nu; exact E] end).
  all: unfold log, set_prog in E; simpl in E; rewrite ?upd_same in E.
  all: try (apply norm_head_nh in E; [|assumption]; destruct i'; try discriminate E; exact I).
  all: try (inversion E; subst; exact I).
  - inversion E; subst. simpl. exact Hh.
  - inversion E; subst. simpl. reflexivity.
  - assert (X : forallb nh (cbs_prog j0 (rcbs s j0) ++ l) = true) by (rewrite forallb_app, nh_cbs; exact Pt).
    apply norm_head_nh in E; [|exact X]. destruct i'; try discriminate E; exact I.
  - inversion E; subst. simpl. assumption.
  - inversion E; subst. simpl. simpl in Hh. split; assumption.
  - simpl in E. apply (nh_norm l true) in Pt. rewrite E in Pt. simpl in Pt. apply andb_true_iff in Pt.
    destruct Pt as [Pt _]. destruct i'; try discriminate Pt; exact I.
  - destruct (dcb s d); simpl in E; inversion E; subst. exact I.
  - destruct (dcb s d); simpl in E; inversion E; subst. exact I.
Qed.

Lemma CI_tick s ts : CI s -> CI (s <| clock := ts |>).
Proof. intros [A W L T]. constructor; simpl; assumption. Qed.

Lemma HI_reach s : reachable_from step init s -> HI s.
Proof.
  apply (invariant_rule_r step HI).
  - intros t i l E. discriminate E.
  - intros s0 e s' R IH H. apply step_split in H. destruct H as (s1 & Ht & H).
    apply tick_eq in Ht. subst s1. eapply HI_step0; [ | | | |exact H].
    + intros t i l E. specialize (IH t i l E). destruct i; exact IH.
    + apply MI_tick, MI_reach, R.
    + apply PI_tick, PI_reach, R.
    + apply (POS_reach s0 R).
Qed.
