(* PROGRESS: the converse of step_cont_alt / step_effect.  When the items an instruction stands for are enabled AT THE LEVEL OF THE
   ITEMS (Model/PollIRSem.v: vis_enabled - same thread / object, lock free or held, reported pre-state = actual state, answer =
   what the pre-state gives - and reads_ok - the thread-local reads answer what the shared state holds), Poll.v's [step] accepts
   the event and takes exactly that alternative. *)
From Coq Require Import ZArith List Bool Arith Lia.
From RecordUpdate Require Import RecordSet.
From ME Require Import Base.Machine Base.Fut Base.GenPrelude Model.Poll Model.PollIR Model.PollIRSem Proofs.Poll_Inv Proofs.PollIR_Cont.
Import ListNotations RecordSetNotations.

Definition is_relx (it : item) : bool := match fst it with ORel LX => true | _ => false end.
(* an executor-lock section without inner visible operation is ONE event *)
Definition xsec_ok (sil : list item) (e : ev) : bool :=
  match e with
  | EXSec _ => existsb is_relx sil
  | EXAcq _ => negb (existsb is_relx sil)
  | _ => true
  end.

Ltac bools :=
  repeat match goal with
         | H : andb _ _ = true |- _ => apply andb_prop in H; destruct H
         | H : Nat.eqb _ _ = true |- _ => apply Nat.eqb_eq in H
         | H : fstate_eqb _ _ = true |- _ => apply fstate_eqb_eq in H
         | H : true = true |- _ => clear H
         end.
Ltac opcases Hv :=
  repeat match goal with
         | op : nat |- _ => match type of Hv with context [match op with _ => _ end] => destruct op as [|op]; simpl in Hv; try discriminate Hv end
         end.
Lemma fstate_eqb_refl x : fstate_eqb x x = true.
Proof. apply fstate_eqb_eq. reflexivity. Qed.
Ltac tidy := unfold issome, isnone in *; rewrite ?Nat.eqb_refl, ?fstate_eqb_refl in *; simpl in *.
Ltac dgoal :=
  tidy; try congruence;
  repeat (match goal with
          | |- context [match ?x with _ => _ end] =>
              lazymatch x with
              | context [match _ with _ => _ end] => fail
              | _ => destruct x eqn:?
              end
          end; tidy; try congruence; try lia).

Lemma step_progress s t i rest alt e vis sil :
  cfgd s = true -> thr s t = i :: rest ->
  In (vis :: sil, alt) (table i) -> cont_a (nfut s) 0 0 i alt <> None ->
  vis_enabled (mkCtx t (instr_j (nfut s) i) (instr_v i) (instr_e i) (ev_pre e) (ev_inline e))
              (match i with IRetB _ => true | _ => false end) vis e s = true ->
  xsec_ok sil e = true -> (forall b, i = IRetB b -> cancelling s t <> None) ->
  reads_ok (mkCtx t (instr_j (nfut s) i) (instr_v i) (instr_e i) (ev_pre e) (ev_inline e)) s sil = true ->
  exists s', step s (clock s, e) = Some s' /\ alt_of s e i = alt.
Proof.
  intros Hcfg Hp Hin Hc Hv Hx Hcan Hr.
  unfold step, tick. simpl fst. simpl snd. rewrite Z.eqb_refl. unfold step0.
  destruct i; try (match goal with b : bool |- _ => destruct b end); simpl in Hin; repeat (destruct Hin as [Hin|Hin]; [|try contradiction]); try contradiction;
    inversion Hin; subst; clear Hin; simpl in Hv, Hr, Hc; try congruence;
    destruct e; simpl in Hv; try discriminate Hv; opcases Hv; simpl in Hx; try discriminate Hx; bools; subst;
    rewrite Hcfg; simpl; unfold step1, step2; simpl; rewrite ?Hp; simpl.
  all: try (dgoal; try (exfalso; eapply Hcan; reflexivity); eexists; split; reflexivity).
Qed.

(* the silent instruction: [norm] takes the alternative whose reads are what the shared state holds *)
Lemma norm_progress s j r pat alt :
  In (pat, alt) (table (ICancelFnQ j)) -> reads_ok (mkCtx 0 j 0 0 Pending None) s pat = true ->
  exists v c, cont_a 0 v 0 (ICancelFnQ j) alt = Some c /\ norm s (ICancelFnQ j :: r) = c ++ r.
Proof.
  intros Hin Hr. simpl in Hin.
  repeat (destruct Hin as [Hin|Hin]; [|try contradiction]); try contradiction;
    inversion Hin; subst; clear Hin; simpl in Hr; bools; simpl; unfold cancel_cont;
    destruct (pexec s j); destruct (hascfn s); destruct (lookup j (descs s)) as [v|]; simpl in *; try congruence;
    try (exists v; eexists; split; reflexivity); exists 0; eexists; split; reflexivity.
Qed.
