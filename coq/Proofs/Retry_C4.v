(* Mutex discipline: which thread owns M_j, read off the thread programs. *)
From Coq Require Import List ZArith Bool Arith Lia.
From RecordUpdate Require Import RecordSet.
From ME Require Import Base.Machine Base.Fut Base.GenPrelude Gen.RetryGen Model.Retry Proofs.Retry_Spec Proofs.Retry_C0 Proofs.Retry_C1 Proofs.Retry_C2 Proofs.Retry_C3.
Import ListNotations RecordSetNotations.

(* classification of an instruction w.r.t. lock j: 0 irrelevant, 1 acquire, 2 needs the lock,
   3 needs the lock and (eventually) releases it *)
Definition cls (jfr : nat -> nat) (j : nat) (i : instr) : nat :=
  match i with
  | IAcqM j' => if Nat.eqb j' j then 1 else 0
  | IFCancel j' | IFSrnc j' | IFSet j' _ => if Nat.eqb j' j then 2 else 0
  | IRelM j' | IRelMCbs j' | ICancelled j' | IDoneC j' | IXCancelScan j' | IDCancel j' _ _ | IDoneA j' _ =>
      if Nat.eqb j' j then 3 else 0
  | IXAcqPop r | IDoneW r | IDSubmit r => if Nat.eqb (jfr r) j then 3 else 0
  | _ => 0
  end.

(* ex = 1: next must be ICatch; ex = 2 + j': next must be IRelMCbs j' *)
Definition exof (i : instr) : nat :=
  match i with IThrow | IDCbDone _ => 1 | IFSet j' _ => S (S j') | _ => 0 end.
Definition exok (ex : nat) (i : instr) : bool :=
  match ex with
  | 0 => true
  | 1 => is_catch i
  | S (S j') => match i with IRelMCbs j'' => Nat.eqb j' j'' | _ => false end
  end.

Fixpoint mseq (jfr : nat -> nat) (j : nat) (h : bool) (ex : nat) (p : list instr) : bool :=
  match p with
  | [] => match ex with 0 | 1 => true | _ => false end
  | i :: r =>
    exok ex i &&
    match cls jfr j i with
    | 1 => if h then true else mseq jfr j true (exof i) r
    | 2 => h && mseq jfr j h (exof i) r
    | 3 => h && mseq jfr j false (exof i) r
    | _ => mseq jfr j h (exof i) r
    end
  end.

Lemma mseq_norm jfr j : forall p h,
  (mseq jfr j h 0 p = true -> mseq jfr j h 0 (norm false p) = true) /\
  (mseq jfr j h 1 p = true -> mseq jfr j h 0 (norm true p) = true).
Proof.
  induction p as [|i r IH]; intros h; split; intros H; try reflexivity.
  - destruct i; try exact H; simpl in H |- *; apply IH; exact H.
  - destruct i; simpl in H; try discriminate H. simpl. apply IH. exact H.
Qed.
Lemma mseq_normf jfr j h p : mseq jfr j h 0 p = true -> mseq jfr j h 0 (norm false p) = true.
Proof. apply mseq_norm. Qed.
Lemma mseq_normt jfr j h p : mseq jfr j h 1 p = true -> mseq jfr j h 0 (norm true p) = true.
Proof. apply mseq_norm. Qed.

Lemma mseq_cbs_ne jfr j j' h r : j' <> j -> forall l,
  mseq jfr j h 0 (cbs_prog j' l ++ r) = mseq jfr j h 0 r.
Proof.
  intros Hn. apply Nat.eqb_neq in Hn. induction l as [|x l IH]; simpl; [reflexivity|].
  destruct x; simpl; rewrite ?Hn; simpl; exact IH.
Qed.
Lemma mseq_cbs_eq jfr j r : forall l,
  mseq jfr j false 0 r = true -> mseq jfr j false 0 (cbs_prog j l ++ r) = true.
Proof.
  intros l H. induction l as [|x l IH]; simpl; [exact H|].
  destruct x; simpl; rewrite ?Nat.eqb_refl; simpl; exact IH.
Qed.

Lemma mseq_fset jfr j h j' rest : mseq jfr j h (S (S j')) rest = true ->
  mseq jfr j h 0 (IRelM j' :: tl rest) = true.
Proof.
  destruct rest as [|i r]; [discriminate|]. simpl. destruct i; simpl; try discriminate.
  destruct (Nat.eqb j' j0) eqn:E; [|discriminate]. apply eqb_t in E. subst j0. simpl. auto.
Qed.

Definition rlt1 (n : nat) (i : instr) : bool :=
  match i with IXAcqPop r | IDoneW r | IDSubmit r => r <? n | _ => true end.
Definition rlt n p := forallb (rlt1 n) p.

Lemma mseq_ext jfr jfr' n j : (forall r, r < n -> jfr' r = jfr r) ->
  forall p h ex, rlt n p = true -> mseq jfr' j h ex p = mseq jfr j h ex p.
Proof.
  intros He. induction p as [|i r IH]; intros h ex Hp; [reflexivity|].
  simpl in Hp. apply andb_true_iff in Hp. destruct Hp as [Hi Hr].
  assert (Hc : cls jfr' j i = cls jfr j i).
  { destruct i; simpl in *; try reflexivity; apply Nat.ltb_lt in Hi; rewrite (He _ Hi); reflexivity. }
  simpl. rewrite Hc. rewrite !(IH _ _ Hr). reflexivity.
Qed.

Lemma rlt_norm n : forall p b, rlt n p = true -> rlt n (norm b p) = true.
Proof.
  induction p as [|i r IH]; intros b H.
  - destruct b; reflexivity.
  - simpl in H. apply andb_true_iff in H. destruct H as [Hi Hr].
    destruct i; simpl; try (apply IH; exact Hr);
      (destruct b; [apply IH; exact Hr|simpl in *; try rewrite Hi; exact Hr]).
Qed.
Lemma rlt_app n a b : rlt n a = true -> rlt n b = true -> rlt n (a ++ b) = true.
Proof. unfold rlt. rewrite forallb_app. intros -> ->. reflexivity. Qed.
Lemma rlt_cbs n j l : rlt n (cbs_prog j l) = true.
Proof. induction l as [|c l IH]; simpl; [reflexivity|]. destruct c; simpl; exact IH. Qed.
Lemma rlt_tl n p : rlt n p = true -> rlt n (tl p) = true.
Proof. destruct p; simpl; auto. intros H. apply andb_true_iff in H. tauto. Qed.
Lemma rlt_mono n n' p : n <= n' -> rlt n p = true -> rlt n' p = true.
Proof.
  intros Hn. unfold rlt. rewrite !forallb_forall. intros H x Hx. specialize (H x Hx).
  destruct x; simpl in *; auto; apply Nat.ltb_lt in H; apply Nat.ltb_lt; lia.
Qed.

Definition jfs (s : st) (r : nat) : nat := jf (recs s r).
Definition own (s : st) (j t : nat) : bool := opt_eqb (mown s j) t.

Record MI (s : st) : Prop := {
  mi_rlt : forall t, rlt (nrec s) (thr s t) = true;
  mi_seq : forall t j, mseq (jfs s) j (own s j t) 0 (thr s t) = true
}.

Lemma MI_init : MI init.
Proof. constructor; intros; reflexivity. Qed.

Lemma M_step s jfr' (mown' : nat -> option nat) t p :
  MI s -> (forall r, r < nrec s -> jfr' r = jfs s r) ->
  (forall u j, u <> t -> opt_eqb (mown' j) u = own s j u) ->
  (forall j, mseq jfr' j (opt_eqb (mown' j) t) 0 p = true) ->
  forall u j, mseq jfr' j (opt_eqb (mown' j) u) 0 (upd (thr s) t p u) = true.
Proof.
  intros [R M] He Ho Hp u j. unfold upd. destruct (Nat.eqb u t) eqn:E.
  - apply eqb_t in E. subst u. apply Hp.
  - apply Nat.eqb_neq in E. rewrite (Ho u j E). rewrite (mseq_ext (jfs s) jfr' (nrec s) j He); [apply M|apply R].
Qed.

Lemma R_step s n' t p : MI s -> nrec s <= n' -> rlt n' p = true ->
  forall u, rlt n' (upd (thr s) t p u) = true.
Proof.
  intros [R M] Hn Hp u. unfold upd. destruct (Nat.eqb u t); [exact Hp|].
  eapply rlt_mono; [exact Hn|apply R].
Qed.

Lemma jf_stop_upd rc n r : jf (upd rc n (rc n <| jstop := true |>) r) = jf (rc r).
Proof. unfold upd. destruct (Nat.eqb r n) eqn:E; [apply eqb_t in E; subst; reflexivity|reflexivity]. Qed.

Lemma own_acq (mo : nat -> option nat) j t u j' : mo j = None -> u <> t ->
  opt_eqb (upd mo j (Some t) j') u = opt_eqb (mo j') u.
Proof.
  intros H Hu. unfold upd. destruct (Nat.eqb j' j) eqn:E; [|reflexivity].
  apply eqb_t in E. subst j'. rewrite H. simpl. apply Nat.eqb_neq. intros E. apply Hu. symmetry. exact E.
Qed.
Lemma own_rel (mo : nat -> option nat) j t u j' : mo j = Some t -> u <> t ->
  opt_eqb (upd mo j None j') u = opt_eqb (mo j') u.
Proof.
  intros H Hu. unfold upd. destruct (Nat.eqb j' j) eqn:E; [|reflexivity].
  apply eqb_t in E. subst j'. rewrite H. simpl. symmetry. apply Nat.eqb_neq. intros E. apply Hu. symmetry. exact E.
Qed.

Lemma mseq_ex_0 jfr j h ex p : mseq jfr j h ex p = true -> mseq jfr j h 0 p = true.
Proof.
  destruct p as [|i r]; [reflexivity|]. simpl. intros H. apply andb_true_iff in H. apply H.
Qed.
Lemma mseq_fset_d jfr j h j' l : mseq jfr j h (S (S j')) l = true -> exists r', l = IRelMCbs j' :: r'.
Proof.
  destruct l as [|i r]; [discriminate|]. simpl. destruct i; simpl; try discriminate.
  destruct (Nat.eqb j' j0) eqn:E; [|discriminate]. apply eqb_t in E. subst j0. eauto.
Qed.

Lemma MI_step0 s e s' : MI s -> RI s -> step0 s e = Some s' -> MI s'.
Proof.
  intros HI HR H. s0inv H; try exact HI.
  all: try (match goal with inl : option outcome |- _ => destruct inl end).
  all: bsplit; subst.
  all: pose proof HI as HI'; destruct HI' as [R M].
  all: match goal with Hq : thr _ ?t = _ |- _ => pose proof (R t) as Rt; pose proof (M t) as Mt; rewrite Hq in Rt, Mt; simpl in Rt end.
  all: try (match goal with Hq : thr _ _ = IFSet ?j _ :: ?l |- _ =>
    let X := fresh in pose proof (Mt j) as X; simpl in X; rewrite Nat.eqb_refl in X; apply andb_true_iff in X;
    destruct X as [_ X]; apply mseq_fset_d in X; destruct X as [r' ->]; simpl in Rt end).
  all: constructor; unfold log, set_prog, jfs, own; simpl.
  all: try assumption.
  all: try (apply R_step; [exact HI|lia|simpl; bsplit; try apply rlt_norm; try assumption; try reflexivity]).
  all: try (match goal with |- forall u j, mseq ?jfr j (opt_eqb (@?mo j) u) 0 (upd (thr ?s0) ?t ?p u) = true =>
    apply (M_step s0 jfr mo t p); [exact HI
      |intros rr Hr; unfold jfs; simpl; try reflexivity; try (rewrite upd_lt by exact Hr; reflexivity); try apply jf_stop_upd
      |intros uu jj Hu; unfold own; try reflexivity
      |intros jj; specialize (Mt jj); unfold jfs, own in Mt;
       try (rewrite (mseq_ext (jfs s0) _ (nrec s0));
         [unfold jfs|intros; unfold jfs; (rewrite upd_lt by assumption; reflexivity) || apply jf_stop_upd
         |simpl; bsplit; try apply rlt_norm; assumption])] end).
  all: try (match goal with |- mseq _ _ (opt_eqb (mown _ _) _) _ _ = true =>
     simpl in Mt |- *;
     try (match goal with |- context[opt_eqb ?a ?b] => destruct (opt_eqb a b) eqn:Ho end);
     repeat (match goal with
       | |- context[Nat.eqb ?a ?b] => destruct (Nat.eqb a b) eqn:?
       | |- _ => match type of Mt with context[Nat.eqb ?a ?b] => destruct (Nat.eqb a b) eqn:? end end; simpl in Mt |- * );
     repeat (match goal with H : Nat.eqb _ _ = true |- _ => apply eqb_t in H end); subst;
     rewrite ?Nat.eqb_refl in *; try discriminate;
     try reflexivity; try assumption; try (apply mseq_normf; assumption); try (apply mseq_normt; assumption); try (apply mseq_fset; assumption);
     try (apply mseq_normf; eapply mseq_ex_0; eassumption); try (eapply mseq_ex_0; eassumption);
     try (apply mseq_fset' in Mt; rewrite ?Nat.eqb_refl in Mt; try rewrite Heqb in Mt; apply Mt) end).
  all: try (eapply rlt_mono; [|exact Rt]; lia).
  all: try (apply rlt_tl; assumption).
  all: try (apply rlt_app; [apply rlt_cbs|assumption]).
  all: try (bsplit; repeat match goal with H: _ = true |- _ => rewrite H end; reflexivity).
  all: try (eapply rlt_mono; [|eassumption]; lia).
  - apply next_job_in in Heqo. destruct Heqo as [A _]. apply (ri_jobs s HR) in A. apply Nat.ltb_lt in A.
    rewrite A. reflexivity.
  - apply own_acq; assumption.
  - simpl in Mt. unfold upd.
    destruct (Nat.eqb jj j0) eqn:E.
    + apply eqb_t in E. subst jj. rewrite Nat.eqb_refl in Mt. rewrite Heqo in Mt. simpl in Mt.
      rewrite opt_eqb_refl. apply mseq_normf. exact Mt.
    + rewrite Nat.eqb_sym in E. rewrite E in Mt. apply mseq_normf. exact Mt.
  - apply own_acq; assumption.
  - simpl in Mt. unfold upd. simpl. destruct (Nat.eqb jj (jf (recs s r))) eqn:E.
    + apply eqb_t in E. subst jj. rewrite !Nat.eqb_refl. rewrite Heqo in Mt. simpl in Mt.
      rewrite opt_eqb_refl. simpl. exact Mt.
    + rewrite Nat.eqb_sym in E. rewrite E. simpl. rewrite Nat.eqb_refl. exact Mt.
  - eapply own_rel; eassumption.
  - simpl in Mt. unfold upd. destruct (Nat.eqb jj j0) eqn:E.
    + apply eqb_t in E. subst jj. rewrite Nat.eqb_refl in Mt. apply andb_true_iff in Mt. destruct Mt as [_ Mt].
      simpl. apply mseq_normf. exact Mt.
    + rewrite Nat.eqb_sym in E. rewrite E in Mt. apply mseq_normf. exact Mt.
  - eapply own_rel; eassumption.
  - simpl in Mt. unfold upd. destruct (Nat.eqb jj j0) eqn:E.
    + apply eqb_t in E. subst jj. rewrite Nat.eqb_refl in Mt. apply andb_true_iff in Mt. destruct Mt as [_ Mt].
      simpl. apply mseq_normf. apply mseq_cbs_eq. exact Mt.
    + rewrite Nat.eqb_sym in E. rewrite E in Mt. apply mseq_normf. rewrite mseq_cbs_ne; [exact Mt|].
      apply Nat.eqb_neq. exact E.
  - destruct (dcb s d); reflexivity.
  - destruct (dcb s d); reflexivity.
  - destruct (dcb s d); reflexivity.
  - destruct (dcb s d); reflexivity.
  - destruct (dcb s d); reflexivity.
  - destruct (dcb s d); reflexivity.
Qed.

Lemma RI_tick s ts : RI s -> RI (s <| clock := ts |>).
Proof. intros [J S T]. constructor; simpl; assumption. Qed.
Lemma MI_tick s ts : MI s -> MI (s <| clock := ts |>).
Proof. intros [R M]. constructor; simpl; assumption. Qed.

Lemma MI_reach s : reachable_from step init s -> MI s.
Proof.
  apply (invariant_rule_r step MI); [exact MI_init|].
  intros s0 e s' R IH H. apply step_split in H. destruct H as (s1 & Ht & H).
  apply tick_eq in Ht. subst s1. eapply MI_step0; [apply MI_tick; exact IH| |exact H].
  apply RI_tick, RI_reach, R.
Qed.
