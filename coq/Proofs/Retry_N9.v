(* C03 for the Retry machine, part 9: at most one record per future that is not done; a finished future keeps
   no idle record (partial answers to "nothing is retained"; from the C05 / C06 invariant layers). *)
From Coq Require Import List ZArith Bool Arith Lia.
From ME Require Import Base.Machine Base.Fut Base.GenPrelude Gen.RetryGen Model.Retry.
From ME Require Proofs.Retry_InvB0 Proofs.Retry_InvB1 Proofs.Retry_InvB2 Proofs.Retry_InvB3 Proofs.Retry_InvB4
  Proofs.Retry_InvB7 Proofs.Retry_InvB8 Proofs.Retry_InvB.
From ME Require Proofs.Retry_C13.
Import ListNotations.

Lemma retry_one_record s : reachable_from step init s -> forall r1 r2, In r1 (jobs s) -> In r2 (jobs s) ->
  jf (recs s r1) = jf (recs s r2) -> fdone (rs s (jf (recs s r1))) = false -> r1 = r2.
Proof.
  intros R r1 r2 H1 H2 E Hnd. destruct (Retry_C13.JU_reach s R) as [U _].
  destruct (U r1 r2 H1 H2 E) as [A|A]; [exact A|congruence].
Qed.

Lemma retry_finished_no_idle_job s : reachable_from step init s -> forall j, rs s j = Finished ->
  forall r, In r (jobs s) -> jf (recs s r) = j -> jdel (recs s r) <> None.
Proof.
  intros R j Hf r Hin Hj Hd.
  destruct (Retry_InvB.invAll_reach s R) as (IA & _ & _ & _ & _ & _ & IF).
  destruct (Retry_InvB1.retry_finished_has_final s R j Hf) as (o & ts & Hh & _).
  destruct (Retry_InvB8.f_hist _ IF j o ts Hh) as (d & _ & (Q1 & _)).
  assert (L : Retry_InvB4.liveq s r).
  { split; [apply (Retry_InvB2.a_jobs _ IA); exact Hin|]. split; [exact Hd|left; exact Hin]. }
  specialize (Q1 r L Hj). discriminate Q1.
Qed.
