(* Shape: only harmless instructions precede a pending IFCancel; hence its thread owns M_j. *)
From Coq Require Import List ZArith Bool Arith Lia.
From RecordUpdate Require Import RecordSet.
From ME Require Import Base.Machine Base.Fut Base.GenPrelude Gen.RetryGen Model.Retry Proofs.Retry_Spec Proofs.Retry_C0 Proofs.Retry_C1 Proofs.Retry_C2 Proofs.Retry_C3 Proofs.Retry_C4 Proofs.Retry_C5 Proofs.Retry_C6 Proofs.Retry_C7 Proofs.Retry_C8 Proofs.Retry_C9 Proofs.Retry_C10 Proofs.Retry_C11 Proofs.Retry_C12.
Import ListNotations RecordSetNotations.

Definition isfc (i : instr) : bool := match i with IFCancel _ => true | _ => false end.
Definition hasfc (p : list instr) : bool := existsb isfc p.
Definition pre_ok (s : st) (i : instr) : bool :=
  match i with
  | IDCbDone d | IDCbCancelled d _ => fcancelled (ds s d)
  | ICatch | IThrow | IXPop _ | IFCancel _ => true
  | _ => false
  end.
Fixpoint bfc (s : st) (p : list instr) : bool :=
  match p with [] => true | i :: r => (negb (hasfc r) || pre_ok s i) && bfc s r end.

Lemma bfc_tl s i r : bfc s (i :: r) = true -> bfc s r = true.
Proof. simpl. intros H. apply andb_true_iff in H. apply H. Qed.
Lemma bfc_norm s : forall p b, bfc s p = true -> bfc s (norm b p) = true.
Proof.
  induction p as [|i r IH]; intros b H.
  - destruct b; reflexivity.
  - pose proof (bfc_tl _ _ _ H) as Hr.
    destruct i; simpl norm; try (apply IH; exact Hr); (destruct b; [apply IH; exact Hr|exact H]).
Qed.
Lemma hasfc_app a b : hasfc (a ++ b) = hasfc a || hasfc b.
Proof. unfold hasfc. apply existsb_app. Qed.
Lemma hasfc_cbs j l : hasfc (cbs_prog j l) = false.
Proof. induction l as [|c l IH]; simpl; [reflexivity|]. destruct c; simpl; exact IH. Qed.
Lemma bfc_nofc s p : hasfc p = false -> bfc s p = true.
Proof.
  induction p as [|i r IH]; intros H; [reflexivity|]. simpl in H. apply orb_false_iff in H. destruct H as [_ H].
  simpl. rewrite H. simpl. apply IH. exact H.
Qed.
Lemma bfc_app_nofc s a b : hasfc a = false -> hasfc b = false -> bfc s (a ++ b) = true.
Proof. intros A B. apply bfc_nofc. rewrite hasfc_app, A, B. reflexivity. Qed.
Lemma hasfc_tl p : hasfc p = false -> hasfc (tl p) = false.
Proof. destruct p; simpl; auto. intros H. apply orb_false_iff in H. apply H. Qed.

Lemma pre_ok_mono s s' i : MONO s s' -> ipr s i -> pre_ok s i = true -> pre_ok s' i = true.
Proof.
  intros M. destruct i; simpl; auto.
  - intros (A & _) H. apply (mo_dcan _ _ M); assumption.
  - intros (_ & _ & A & _) H. apply (mo_dcan _ _ M); assumption.
Qed.
Lemma bfc_mono s s' p : MONO s s' -> Forall (ipr s) p -> bfc s p = true -> bfc s' p = true.
Proof.
  intros M. induction p as [|i r IH]; intros HP H; [reflexivity|]. inversion HP; subst.
  simpl in *. apply andb_true_iff in H. destruct H as [A B]. rewrite (IH H3 B), andb_true_r.
  apply orb_true_iff in A. apply orb_true_iff. destruct A as [A|A]; [left; exact A|right].
  eapply pre_ok_mono; eassumption.
Qed.

Lemma thr_log x h u : thr (log x h) u = thr x u.
Proof. reflexivity. Qed.
Lemma BF_step0 s e s' : (forall t, bfc s (thr s t) = true) -> PI s -> step0 s e = Some s' ->
  forall t, bfc s' (thr s' t) = true.
Proof.
  intros HB HP H. pose proof (MONO_step0 _ _ _ H) as HM.
  assert (Old : forall u, bfc s' (thr s u) = true) by (intros u; apply (bfc_mono s s' _ HM (pi_thr s HP u) (HB u))).
  s0inv H; try exact Old.
  all: try (match goal with inl : option outcome |- _ => destruct inl end).
  all: bsplit; subst.
  all: intros u.
  all: try (match goal with Hq : thr _ ?t = _ |- _ =>
      destruct (Nat.eq_dec u t) as [->|Nu];
      [pose proof (Old t) as Ot; rewrite Hq in Ot; pose proof (HB t) as Bt; rewrite Hq in Bt
      |match goal with |- bfc ?B (thr ?B ?uu) = true =>
         let Et := fresh in assert (Et : thr B uu = thr s uu) by (unfold log, set_prog; simpl; apply upd_other; exact Nu);
         rewrite Et; apply Old end] end).
  all: rewrite ?thr_log; try rewrite thr_set_prog_same.
  all: try (apply bfc_norm).
  all: try (simpl in Ot; apply andb_true_iff in Ot; destruct Ot as [Oh Ot]; simpl in Oh; try rewrite orb_false_r in Oh;
            try (apply negb_true_iff in Oh)).
  all: try (simpl; rewrite ?Oh, ?Ot; simpl; reflexivity).
  - apply bfc_app_nofc; [apply hasfc_cbs|exact Oh].
  - apply bfc_nofc. simpl. apply hasfc_tl. exact Oh.
  - simpl. rewrite Oh, Ot, upd_same. rewrite (f_cancel_can _ _ Heqp). reflexivity.
  - simpl. rewrite Ot, orb_true_r. reflexivity.
  - rewrite Heqb1, orb_false_r in Oh. apply negb_true_iff in Oh. simpl. rewrite ?Oh, ?Ot. reflexivity.
  - rewrite Heqb1, orb_false_r in Oh. apply negb_true_iff in Oh. simpl. rewrite ?Oh, ?Ot. reflexivity.
  - apply bfc_nofc. unfold set_prog. simpl. rewrite upd_same. simpl. exact Oh.
  - destruct (dcb s d); reflexivity.
  - destruct (dcb s d); reflexivity.
Qed.

Lemma bfc_tick s ts p : bfc (s <| clock := ts |>) p = bfc s p.
Proof.
  induction p as [|i r IH]; [reflexivity|]. simpl. rewrite IH.
  replace (pre_ok (s <| clock := ts |>) i) with (pre_ok s i); [reflexivity|destruct i; reflexivity].
Qed.

Lemma BF_reach s : reachable_from step init s -> forall t, bfc s (thr s t) = true.
Proof.
  apply (invariant_rule_r step (fun s => forall t, bfc s (thr s t) = true)).
  - intros t. reflexivity.
  - intros s0 e s' R IH H. apply step_split in H. destruct H as (s1 & Ht & H).
    apply tick_eq in Ht. subst s1. eapply BF_step0; [ | |exact H].
    + intros t. simpl. rewrite bfc_tick. apply IH.
    + apply PI_tick, PI_reach, R.
Qed.

Lemma in_hasfc j p : In (IFCancel j) p -> hasfc p = true.
Proof. intros H. unfold hasfc. apply existsb_exists. exists (IFCancel j). split; [exact H|reflexivity]. Qed.

Lemma bfc_held s jfr j h : forall p ex, bfc s p = true -> mseq jfr j h ex p = true ->
  In (IFCancel j) p -> h = true.
Proof.
  induction p as [|i r IH]; intros ex B M Hin; [destruct Hin|].
  simpl in M. apply andb_true_iff in M. destruct M as [_ M].
  destruct Hin as [->|Hin].
  - simpl in M. rewrite Nat.eqb_refl in M. apply andb_true_iff in M. apply M.
  - simpl in B. apply andb_true_iff in B. destruct B as [B1 B2].
    rewrite (in_hasfc _ _ Hin) in B1. simpl in B1.
    destruct i; simpl in B1; try discriminate B1; simpl in M; try (eapply IH; eassumption).
    destruct (Nat.eqb j0 j); [apply andb_true_iff in M; apply M|eapply IH; eassumption].
Qed.

Lemma fc_owner s c j : MI s -> (forall t, bfc s (thr s t) = true) -> In (IFCancel j) (thr s c) -> mown s j = Some c.
Proof.
  intros HM HB Hin. apply opt_eqb_some. eapply bfc_held; [apply HB|apply (mi_seq s HM c j)|exact Hin].
Qed.
