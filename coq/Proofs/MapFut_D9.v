(* Layer 9: the outcome law: preservation of the promises of the acting thread. *)
From Coq Require Import ZArith List Bool Arith Lia.
From RecordUpdate Require Import RecordSet.
From ME Require Import Base.Machine Base.Fut Base.GenPrelude Model.MapFut Model.MapLaw Proofs.MapFut_D0 Proofs.MapFut_D1 Proofs.MapFut_D2 Proofs.MapFut_D3 Proofs.MapFut_D4 Proofs.MapFut_D5 Proofs.MapFut_D6 Proofs.MapFut_D7 Proofs.MapFut_D8.
Import ListNotations RecordSetNotations.

Definition pfree (i : instr) : bool :=
  match i with
  | IAddCbE _ _ | IDCancelledQ _ _ | IAcqMSet _ _ true | IUserFn _ _ | IUserEfn _ _ | IDoneQ _ (Some _)
  | IFSetRes _ _ | IFSetExc _ _ => false
  | _ => true
  end.
Lemma okP_pfree s i : pfree i = true -> okP s i.
Proof. destruct i; simpl; auto; try discriminate. destruct flat; [discriminate|auto]. destruct cont; [discriminate|auto]. Qed.
Lemma okP_cbs s j l r : Forall (okP s) r -> Forall (okP s) (map (fun c => IUserCb j c false) l ++ r).
Proof. intros H. induction l; simpl; auto. constructor; [exact I|exact IHl]. Qed.
Lemma okP_fires s s1 d r : (forall j, In j (ecbs s1 d) -> tokP s j d /\ fdone (es s d) = true) ->
  Forall (okP s) r -> Forall (okP s) (fires s1 d r).
Proof.
  intros H Hr. unfold fires. induction (ecbs s1 d) as [|a l IH]; simpl; auto.
  constructor; [exact I|]. constructor; [exact I|]. constructor; [apply H; left; reflexivity|].
  constructor; [exact I|]. apply IH. intros j X; apply H; right; exact X.
Qed.

Definition onmP (s s1 : st) (j : nat) (x : mapped) : Prop :=
  match mkind s1 j, mflat s1 j, x with
  | KFlat, false, MFut d => flatok s j d
  | KFlat, false, MVal _ => claim s j (Err type_error)
  | _, _, MVal v => claim s j (Ok v)
  | _, _, MFut d => claim s j (Ok (1000 + d))
  end.
Lemma okP_on_mapped s s1 j x r : onmP s s1 j x -> Forall (okP s) r -> Forall (okP s) (on_mapped s1 j x ++ r).
Proof.
  unfold onmP, on_mapped. intros P H. destruct (mkind s1 j), (mflat s1 j), x; simpl;
    repeat (constructor; [first [exact I | exact P | (exists d; split; [reflexivity|exact P]) | (right; fail) | idtac]|]); try exact H.
  all: try exact P. all: try (left; exact P).
Qed.

(* what a token means when its delegate is examined *)
Lemma stage1 s j d : Ol s -> Fn s -> tokP s j d -> Cj s j -> mflat s j = false -> In (HNew j d) (hist s).
Proof.
  intros O F [X|[_ X]] C M; [|exact X]. apply flatok_ncall in X. destruct C as [C|C]; [lia|congruence].
Qed.
Lemma stage2 s j d : Ol s -> tokP s j d -> mflat s j = true -> flatok s j d.
Proof. intros O [X|[X _]] M; [exact X|]. pose proof (o_t3 _ O j M). lia. Qed.
Lemma fin_of s d : fdone (es s d) = true -> fcancelled (es s d) = false -> es s d = Finished.
Proof. destruct (es s d); simpl; congruence. Qed.
Lemma inner_fin s d o : es s d = Finished -> eout s d = Some o -> inner_of s d = Some o.
Proof. unfold inner_of. intros -> E. simpl. exact E. Qed.

Lemma claim_flat s j d o : flatok s j d -> es s d = Finished -> eout s d = Some o -> claim s j o.
Proof.
  intros (K & d0 & din & N & E1 & E2 & X) Fd Ed. exists d0, din. repeat split; auto.
  unfold law. rewrite K. pose proof (inner_fin _ _ _ Fd Ed) as IN.
  destruct din; destruct X as [X1 X2]; rewrite X1; exists (ARetFut d); (split; [exact X2|exact IN]).
Qed.
Lemma claim_pass s j d o : In (HNew j d) (hist s) -> es s d = Finished -> eout s d = Some o ->
  match o with Ok _ => mfn s j = false | Err _ => mefn s j = false end -> claim s j o.
Proof.
  intros N Fd Ed X. exists d, o. repeat split; auto. unfold law. destruct o; rewrite X; reflexivity.
Qed.
Lemma onmP_mono s e s0 s1 j x : lstep s e = Some s0 -> j < nfut s -> onmP s s1 j x -> onmP s0 s1 j x.
Proof.
  intros H L. unfold onmP. destruct (mkind s1 j), (mflat s1 j), x; intros P;
    first [eapply claim_mono; eauto | eapply flatok_mono; eauto].
Qed.
Lemma onmP_cont s j x : Pcont s j x -> onmP s s j x.
Proof.
  intros (M & d & e0 & N & Fd & Ed & ME & HE). unfold onmP. rewrite M.
  assert (C : forall o, apply_ans (mkind s j) (ans_of x) (Err e0) (inner_of s) = Some o -> claim s j o).
  { intros o A. exists d, (Err e0). repeat split; auto. unfold law. rewrite ME. eauto. }
  destruct (mkind s j) eqn:K, x; simpl in *; try (apply C; reflexivity).
  split; [exact K|]. exists d, (Err e0). repeat split; auto.
Qed.

Lemma claim_after_fn s t p j d a o : Pfn s j d ->
  (forall din inner, apply_ans (mkind s j) a din inner = Some o) ->
  claim (set_thr (log s (HFn j d a)) t p) j o.
Proof.
  intros (N & Fd & (v & Ed) & MF) A. exists d, (Ok v). simpl. repeat split; auto.
  unfold law. simpl. rewrite MF. exists a. split; [left; reflexivity|apply A].
Qed.
Lemma flatok_after_fn s t p j d d' : Pfn s j d -> mkind s j = KFlat ->
  flatok (set_thr (log s (HFn j d (ARetFut d'))) t p) j d'.
Proof.
  intros (N & Fd & (v & Ed) & MF) K. split; [exact K|]. exists d, (Ok v). simpl. repeat split; auto.
Qed.
Lemma claim_after_efn s t p j d a o : Pefn s j d ->
  (forall e0 inner, apply_ans (mkind s j) a (Err e0) inner = Some o) ->
  claim (set_thr (log s (HEfn j d a)) t p) j o.
Proof.
  intros (N & Fd & (v & Ed) & MF) A. exists d, (Err v). simpl. repeat split; auto.
  unfold law. simpl. rewrite MF. exists a. split; [left; reflexivity|apply A].
Qed.
Lemma claim_after_efn_same s t p j d e : Pefn s j d -> oc_of s d = Err e ->
  claim (set_thr (log s (HEfn j d ARaiseSame)) t p) j (Err e).
Proof.
  intros (N & Fd & (v & Ed) & MF) OC. unfold oc_of in OC. rewrite Ed in OC. inversion OC; subst.
  exists d, (Err e). simpl. repeat split; auto.
  unfold law. simpl. rewrite MF. exists ARaiseSame. split; [left; reflexivity|reflexivity].
Qed.
Lemma pcont_after_efn s t p j d x : Pefn s j d -> mflat s j = false ->
  Pcont (set_thr (log s (HEfn j d (ans_of x))) t p) j x.
Proof.
  intros (N & Fd & (v & Ed) & MF) M. split; [exact M|]. exists d, v. simpl. repeat split; auto.
Qed.

Lemma dq_facts s j d : Ol s -> Fn s -> En s -> tokP s j d -> fdone (es s d) = true ->
  fcancelled (es s d) = false -> Cj s j ->
  exists o, es s d = Finished /\ eout s d = Some o /\ oc_of s d = o /\
    (mflat s j = false -> In (HNew j d) (hist s)) /\ (mflat s j = true -> claim s j o /\ mkind s j = KFlat).
Proof.
  intros O F EN T Dn NC C. pose proof (fin_of _ _ Dn NC) as Fd. destruct (EN _ Fd) as [o Eo].
  exists o. repeat split; auto.
  - unfold oc_of. rewrite Eo. reflexivity.
  - intros M. eapply stage1; eauto.
  - eapply claim_flat; eauto. eapply stage2; eauto.
  - pose proof (stage2 _ _ _ O T H) as X. apply X.
Qed.
Lemma okP_setexc s j e r : claim s j (Err e) -> Forall (okP s) r -> Forall (okP s) (setexc_prog j e ++ r).
Proof. intros C H. simpl. repeat (constructor; [first [exact I|exact C]|]). exact H. Qed.

Lemma lstep_o_thr s e s0 : lstep s e = Some s0 -> shape_all s -> Bnd s -> Dloc s -> shape2_all s -> En s -> Fn s -> Ol s ->
  forall t, Forall (okP s0) (thr s0 t).
Proof.
  intros H SH B D S2 EN F O t'.
  pose proof (kept_mono _ _ _ H B D S2 (o_thr _ O)) as KM.
  destruct (Nat.eq_dec t' (tid e)) as [->|N].
  2:{ rewrite (lstep_thr_other _ _ _ H _ N). specialize (KM t'). unfold kept in KM.
      apply Nat.eqb_neq in N. rewrite N in KM. exact KM. }
  specialize (KM (tid e)). unfold kept in KM. rewrite Nat.eqb_refl in KM.
  pose proof (o_thr _ O (tid e)) as It. pose proof (b_thr _ B (tid e)) as Ib.
  pose proof (f_thr _ F (tid e)) as Io. pose proof (o_grd _ O (tid e)) as Ig. pose proof (o_t3 _ O) as T3.
  pose proof (SH (tid e)) as Sh.
  assert (NEW : forall i', okI (nfut s) i' -> (forall j, ncall s0 j = ncall s j) -> (forall j, wC j i' = false) ->
                okP s i' -> okP s0 i').
  { intros i' X1 X2 X3 X4. eapply okP_mono; eauto. intros j W. rewrite X3 in W. discriminate W. }
  pose proof (lstep_ncall _ _ _ H) as NCor. pose proof (o_ecbs _ O) as OE.
  assert (CM : forall j o, j < nfut s -> claim s j o -> claim s0 j o) by (intros; eapply claim_mono; eauto).
  assert (FM : forall j d, j < nfut s -> flatok s j d -> flatok s0 j d) by (intros; eapply flatok_mono; eauto).
  assert (OM : forall j x, j < nfut s -> onmP s s j x -> onmP s0 s j x) by (intros; eapply onmP_mono; eauto).
  assert (TM : forall j d, j < nfut s -> ncall s0 j = ncall s j -> tokP s j d -> tokP s0 j d) by (intros; eapply tokP_mono; eauto).
  assert (ED : forall d, fdone (es s d) = true -> fdone (es s0 d) = true) by (intros; eapply lstep_es_done; eauto).
  clear D S2 SH.
  step_cases H; simpl tid in *; try exact It.
  all: rewrite Heql in *; simpl tl in KM; simpl in Sh; try simp_thr.
  all: try (apply okP_cbs).
  all: repeat (constructor; [exact I|]); try assumption; try (constructor; fail).
  all: try (apply Forall_tl; assumption).
  (* no thread program at all *)
  all: try (simpl; rewrite Heql; constructor; fail).
  (* a continuation after error_fn *)
  all: try (match goal with E : thr _ _ = IDoneQ _ (Some _) :: _ |- _ => idtac end;
            inversion It; subst; inversion Ib; subst; apply okP_on_mapped; [apply OM; [assumption|apply onmP_cont; assumption]|assumption]).
  (* IDoneQ None on a pending future: impossible *)
  all: try (match goal with E : thr _ _ = IDoneQ ?j0 None :: _ |- _ =>
            specialize (Ig j0); unfold gQ in Ig; simpl in Ig; rewrite Nat.eqb_refl in Ig; destruct Ig as [Ig _];
            specialize (Ig eq_refl); congruence end).
  (* the delegate has been resolved *)
  all: lazymatch goal with E : thr _ _ = IDCancelledQ ?j ?d0 :: _ |- _ =>
     inversion It as [|? ? PH ?]; subst; simpl in PH; destruct PH as [TK DN]; inversion Ib; subst;
     pose proof (Io j) as Ioj; inversion Ioj as [|? ? PJ ?]; subst; destruct PJ as [_ CJ]; simpl in CJ; rewrite Nat.eqb_refl in CJ; specialize (CJ eq_refl);
     destruct (dq_facts s j d0 O F EN TK DN ltac:(assumption) CJ) as (o & Fd & Eo & OC & S1 & S2) | _ => idtac end.
  all: repeat match goal with X : _ && _ = true |- _ => apply andb_prop in X; destruct X end.
  all: repeat match goal with X : negb _ = true |- _ => apply negb_true_iff in X end.
  all: lazymatch goal with E : thr _ _ = IDCancelledQ ?j ?d0 :: _ |- _ =>
     destruct NCor as [NC|(j1 & (d1 & r1 & [IC|IC]) & _)]; [|rewrite Heql in IC; discriminate IC..];
     match goal with X : oc_of _ _ = _ |- _ => rewrite OC in X; subst o end | _ => idtac end.
  (* -> IUserEfn / IUserFn *)
  all: try (match goal with |- Forall _ (IUserEfn _ _ :: _) => idtac | |- Forall _ (IUserFn _ _ :: _) => idtac end;
     constructor; [|exact KM]; apply NEW; [match goal with X : okI _ (IDCancelledQ _ _) |- _ => exact X end|exact NC|intros; reflexivity|];
     simpl; unfold Pfn, Pefn; repeat split; eauto; fail).
  (* -> set_exception *)
  all: try (match goal with E : thr _ _ = IDCancelledQ ?j ?d0 :: _ |- Forall _ (IFSetExc ?j ?e :: _) =>
     constructor; [|constructor; [exact I|constructor; [exact I|exact KM]]];
     apply CM; [match goal with X : okI _ (IDCancelledQ _ _) |- _ => exact X end|];
     destruct (mflat s j) eqn:M; [apply S2; first [reflexivity|assumption]|];
     try congruence; eapply claim_pass; eauto; simpl in *; rewrite ?andb_true_r in *; assumption end).
  (* -> set_result through on_mapped *)
  all: try (match goal with E : thr _ _ = IDCancelledQ ?j ?d0 :: _ |- Forall _ (on_mapped _ ?j (MVal ?v) ++ _) =>
     apply okP_on_mapped; [|exact KM];
     apply OM; [match goal with X : okI _ (IDCancelledQ _ _) |- _ => exact X end|];
     unfold onmP; destruct (mflat s j) eqn:M;
     [destruct (S2 eq_refl) as [CL K]; rewrite K; exact CL
     |try congruence; match goal with K : mkind _ j = KMap |- _ => rewrite K end; eapply claim_pass; eauto] end).
  (* a user function has just answered: the future is still in its first stage *)
  all: try (match goal with E : thr _ _ = ?i :: _ |- _ =>
       match i with IUserFn ?j ?d => idtac | IUserEfn ?j ?d => idtac end;
       inversion It as [|? ? PH ?]; subst; simpl in PH;
       pose proof (Io j) as Ioj; inversion Ioj as [|? ? PJ ?]; subst; destruct PJ as [NCJ _]; simpl in NCJ;
       rewrite Nat.eqb_refl in NCJ; specialize (NCJ eq_refl);
       assert (M : mflat s j = false) by (destruct (mflat s j) eqn:M'; [specialize (T3 j M'); lia|reflexivity]) end).
  all: try (match goal with E : thr _ _ = IUserFn ?j ?d :: _ |- Forall _ (on_mapped _ _ _ ++ _) =>
       apply okP_on_mapped; [|exact KM]; unfold onmP; rewrite M; destruct (mkind s j) eqn:K;
       first [apply flatok_after_fn; assumption | apply claim_after_fn; [assumption|intros; rewrite K; reflexivity]] end).
  all: try (match goal with E : thr _ _ = IUserFn ?j ?d :: _ |- Forall _ (IFSetExc _ _ :: _) =>
       constructor; [|constructor; [exact I|constructor; [exact I|exact KM]]];
       apply claim_after_fn; [assumption|intros; reflexivity] end).
  all: try (match goal with E : thr _ _ = IUserEfn ?j ?d :: _ |- Forall _ (IDoneQ _ (Some ?x) :: _) =>
       constructor; [|exact KM]; match goal with |- okP ?S (IDoneQ ?jj (Some ?xx)) => change (Pcont S jj xx) end;
       apply (pcont_after_efn s t _ j d x); assumption end).
  all: try (match goal with E : thr _ _ = IUserEfn ?j ?d :: _ |- Forall _ (IFSetExc _ _ :: _) =>
       constructor; [|constructor; [exact I|constructor; [exact I|exact KM]]];
       first [apply claim_after_efn; [assumption|intros; reflexivity] | apply claim_after_efn_same; assumption] end).
  - (* a new future *)
    constructor; [|constructor; [exact I|constructor]]. right. split; [|left; reflexivity].
    unfold ncall. simpl. rewrite cnt_cons. simpl. apply (ncall_unborn s (nfut s) B (le_n _)).
  - (* registration on a delegate that is already done *)
    destruct NCor as [NC|(j1 & (d1 & r1 & [IC|IC]) & _)]; [|rewrite Heql in IC; discriminate IC..].
    inversion It as [|? ? PH ?]; subst. inversion Ib; subst.
    constructor; [|constructor; [exact I|exact KM]]. apply NEW; [assumption|exact NC|intros; reflexivity|].
    simpl. split; assumption.
  - (* cancel forwarded to a pending delegate: its callbacks fire *)
    destruct NCor as [NC|(j1 & (d1 & r1 & [IC|IC]) & _)]; [|rewrite Heql in IC; discriminate IC..].
    apply okP_fires.
    + intros j' X. split.
      * apply TM; [|apply NC|apply OE; exact X]. pose proof (b_ecbs _ B d0) as Y. rewrite Forall_forall in Y. apply Y; exact X.
      * simpl. rewrite upd_same. destruct (es s d0); simpl in *; inv_eqs; try discriminate; reflexivity.
    + repeat (constructor; [exact I|]). exact KM.
  - destruct NCor as [NC|(j1 & (d1 & r1 & [IC|IC]) & _)]; [|rewrite Heql in IC; discriminate IC..].
    apply okP_fires; [|constructor].
    intros j' X. split.
    + apply TM; [|apply NC|apply OE; exact X]. pose proof (b_ecbs _ B d) as Y. rewrite Forall_forall in Y. apply Y; exact X.
    + simpl. rewrite upd_same. destruct (es s d); simpl in *; inv_eqs; try discriminate; reflexivity.
  - destruct NCor as [NC|(j1 & (d1 & r1 & [IC|IC]) & _)]; [|rewrite Heql in IC; discriminate IC..].
    apply okP_fires; [|constructor].
    intros j' X. split.
    + apply TM; [|apply NC|apply OE; exact X]. pose proof (b_ecbs _ B d) as Y. rewrite Forall_forall in Y. apply Y; exact X.
    + simpl. rewrite upd_same. destruct (es s d); simpl in *; inv_eqs; try discriminate; reflexivity.
Qed.
