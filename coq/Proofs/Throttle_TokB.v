(* C07 / Throttle, token invariant (part 3: the events that move a token, create one, consume one, or touch
   the counter / the hand-over thread's local list). *)
From Coq Require Import ZArith List Bool Arith Lia.
From RecordUpdate Require Import RecordSet.
From ME Require Import Base.Machine Base.Fut Base.GenPrelude Gen.ThrottleGen Model.Throttle
  Proofs.Throttle_Spec Proofs.Throttle_Inv Proofs.Throttle_Fifo Proofs.Throttle_Tok Proofs.Throttle_TokA.
Import ListNotations RecordSetNotations.
Local Open Scope Z_scope.

Lemma Q_upd s s' t p' :
  (forall u, thr s' u = upd (thr s) t p' u) -> xown s' = xown s -> hadm s' = hadm s ->
  q1 p' = q1 (thr s t) -> q2 p' = q2 (thr s t) -> Q s' = Q s.
Proof.
  intros Hthr E1 E2 E3 E4. apply Q_eq; auto; rewrite Hthr;
    (destruct (Nat.eq_dec t H) as [->|Hne]; [rewrite upd_same; auto|rewrite upd_other by (intro; apply Hne; auto); reflexivity]).
Qed.

Lemma tokN_change N s s' t p' d : (t < N)%nat -> (forall u, thr s' u = upd (thr s) t p' u) ->
  tokN N s' d = tokN N s d - cT d (thr s t) + cT d p' - cb (dcbs s d) + cb (dcbs s' d).
Proof.
  intros Ht Hthr. unfold tokN.
  rewrite (sumT_change N (fun u => cT d (thr s u)) (fun u => cT d (thr s' u)) t Ht).
  - cbn beta. rewrite Hthr, upd_same. lia.
  - intros k Hk. cbn beta. rewrite Hthr, upd_other by exact Hk. reflexivity.
Qed.

Lemma upd_eta {A} (f : nat -> A) t u : f u = upd f t (f t) u.
Proof. unfold upd. destruct (Nat.eqb u t) eqn:E; [apply Nat.eqb_eq in E; subst|]; reflexivity. Qed.

Ltac split_and :=
  repeat match goal with
         | E : _ && _ = true |- _ => let A := fresh "Ha" in let B := fresh "Hb" in apply andb_prop in E; destruct E as [A B]
         end.
Ltac get_pre Ep :=
  split_and; match goal with E : fstate_eqb _ _ = true |- _ => apply fstate_eqb_eq in E; rename E into Ep end.

Lemma wT_decr d d0 : wT d0 (IAcqA (ADecr d)) = if Nat.eqb d d0 then 1 else 0.
Proof. reflexivity. Qed.
Lemma wP_decr d d0 : wP d0 (IAcqA (ADecr d)) = if Nat.eqb d d0 then 1 else 0.
Proof. reflexivity. Qed.

(* ---- creation of the executor; environment ------------------------------------------------------------ *)
Lemma do_new_invK N s b dy v s' : InvN N s -> (H < N)%nat -> do_new s b dy v = Some s' -> InvN N s'.
Proof.
  intros I Ht Hx. unfold do_new in Hx. brk Hx. inv_some Hx.
  match goal with E : _ || _ = false |- _ => apply orb_false_elim in E; destruct E as [_ E]; apply negb_false_iff in E end.
  destruct (thr s H) eqn:Et; [|discriminate].
  apply (invN_step N s _ H [IHStart] I Ht).
  - intros u. reflexivity.
  - reflexivity.
  - match goal with |- Q ?x - _ <= _ => rewrite (Q_upd s x H [IHStart]) end; try reflexivity; [simpl; lia|rewrite Et; reflexivity|rewrite Et; reflexivity].
  - intros d Hd. exact Hd.
  - intros d. rewrite Et. reflexivity.
  - intros d Hp. unfold cP in Hp. simpl in Hp. lia.
Qed.

Lemma do_env_run_invK N s t d p s' : InvN N s -> (t < N)%nat -> do_env_run s t d p = Some s' -> InvN N s'.
Proof.
  intros I Ht Hx. unfold do_env_run in Hx. brk Hx; inv_some Hx; auto.
  get_pre E.
  apply (invN_step N s _ t (thr s t) I Ht).
  - intros u. simpl. apply upd_eta.
  - reflexivity.
  - match goal with |- Q ?x - _ <= _ => rewrite (Q_upd s x t (thr s t)) end; try reflexivity; [simpl; lia|intros u; simpl; apply upd_eta].
  - intros d0 Hd. simpl. unfold upd. destruct (Nat.eqb d0 d) eqn:Ed; [|exact Hd].
    apply Nat.eqb_eq in Ed. subst d0. rewrite <- E in Hd.
    destruct p; simpl in *; try discriminate; match goal with E2 : Some _ = Some _ |- _ => inversion E2; subst; reflexivity end.
  - intros d0. reflexivity.
  - intros d0 Hp. left. exact Hp.
Qed.

Lemma do_env_finish_invK N s t d p o s' : InvN N s -> (t < N)%nat -> do_env_finish s t d p o = Some s' -> InvN N s'.
Proof.
  intros I Ht Hx. unfold do_env_finish in Hx. brk Hx; inv_some Hx; auto.
  get_pre Ep. match goal with E : idle s t = true |- _ => pose proof (idle_nil s t E) as Et end.
  apply invN_log.
  match goal with |- InvN N (set_prog ?s1 t ?p') => set (s1' := s1); set (pp := p') end.
  apply (invN_step N s _ t (norm s1' pp) I Ht).
  - intros u. reflexivity.
  - reflexivity.
  - rewrite (Q_upd s (set_prog s1' t pp) t (norm s1' pp)); try reflexivity.
    + simpl. lia.
    + rewrite q1_norm, Et. unfold pp, q1. rewrite (msum_cb_prog wS d _ good_wS). reflexivity.
    + rewrite q2_norm, Et. unfold pp, q2. rewrite (msum_cb_prog wQ d _ good_wQ). reflexivity.
  - intros d0 Hd. simpl. unfold upd. destruct (Nat.eqb d0 d) eqn:Ed; [|exact Hd].
    destruct p; simpl in *; try discriminate; match goal with E2 : Some _ = Some _ |- _ => inversion E2; subst; reflexivity end.
  - intros d0. rewrite cT_norm, Et. change (dcbs (set_prog s1' t pp) d0) with (upd (dcbs s) d [] d0).
    unfold pp. unfold cT at 1. rewrite (msum_cb_prog (wT d0) d _ (good_wT d0)), wT_decr. unfold upd. rewrite (Nat.eqb_sym d0 d).
    destruct (Nat.eqb d d0) eqn:Ed; [apply Nat.eqb_eq in Ed; subst d0|]; rewrite ?Z.mul_1_l, ?Z.mul_0_l; unfold cT; cbn [msum cb]; lia.
  - intros d0 Hp. right. rewrite cP_norm in Hp. unfold pp, cP in Hp. rewrite (msum_cb_prog (wP d0) d _ (good_wP d0)), wP_decr in Hp.
    destruct (Nat.eqb d d0) eqn:Ed; [apply Nat.eqb_eq in Ed; subst d0|lia].
    simpl. rewrite upd_same.
    destruct p; simpl in *; try discriminate; match goal with E2 : Some _ = Some _ |- _ => inversion E2; subst; reflexivity end.
Qed.

(* replacing thread t's program while tokens move between the program and the callback list *)
Lemma invN_set_g N s s1 t p :
  InvN N s -> (t < N)%nat ->
  thr s1 = thr s -> ndel s1 = ndel s -> running s1 = running s -> xown s1 = xown s -> hadm s1 = hadm s ->
  (forall d, fdone (ds s d) = true -> fdone (ds s1 d) = true) ->
  (forall d, cT d p + cb (dcbs s1 d) = cT d (thr s t) + cb (dcbs s d)) ->
  (forall d, 0 < cP d p -> 0 < cP d (thr s t) \/ fdone (ds s1 d) = true) ->
  q1 p = q1 (thr s t) -> q2 p = q2 (thr s t) ->
  InvN N (set_prog s1 t p).
Proof.
  intros I Ht E1 E2 E3 E4 E5 Hds HT HP H1 H2.
  apply (invN_step N s _ t (norm s1 p) I Ht).
  - intros u. unfold set_prog. simpl. rewrite E1. reflexivity.
  - exact E2.
  - rewrite (Q_upd s (set_prog s1 t p) t (norm s1 p)); auto.
    + unfold set_prog. simpl. lia.
    + intros u. unfold set_prog. simpl. rewrite E1. reflexivity.
    + rewrite q1_norm. exact H1.
    + rewrite q2_norm. exact H2.
  - exact Hds.
  - intros d. rewrite cT_norm. exact (HT d).
  - intros d Hp. rewrite cP_norm in Hp. exact (HP d Hp).
Qed.

Lemma clear_del_frameK l : forall s,
  thr (clear_del s l) = thr s /\ ndel (clear_del s l) = ndel s /\ running (clear_del s l) = running s /\
  xown (clear_del s l) = xown s /\ hadm (clear_del s l) = hadm s /\ ds (clear_del s l) = ds s /\
  dcbs (clear_del s l) = dcbs s.
Proof.
  unfold clear_del. induction l as [|c l IH]; intros s; simpl; [auto 8|].
  destruct (IH (match c with CbDone => s | CbRes j => s <| mdel := upd (mdel s) j None |> end)) as [A [B [C [D [E [F G]]]]]].
  rewrite A, B, C, D, E, F, G. destruct c; simpl; auto 8.
Qed.

Lemma cb_upd_snoc (f : nat -> list cbk) d c d0 :
  cb (upd f d (f d ++ [c]) d0) = cb (f d0) + (if Nat.eqb d d0 then cbw c else 0).
Proof.
  unfold upd. rewrite (Nat.eqb_sym d0 d). destruct (Nat.eqb d d0) eqn:E; [apply Nat.eqb_eq in E; subst|lia].
  rewrite cb_app. cbn [cb]. lia.
Qed.

Lemma fdone_upd_cancel (c : nat -> fstate) d d0 :
  fdone (c d0) = true -> fdone (upd c d (fst (f_cancel (c d))) d0) = true.
Proof.
  intros Hd. unfold upd. destruct (Nat.eqb d0 d) eqn:E; [apply Nat.eqb_eq in E; subst|exact Hd].
  apply f_cancel_done. exact Hd.
Qed.

(* ---- library operations on a delegate future --------------------------------------------------------- *)
Lemma do_fd_invK N s t op d p s' : InvN N s -> (t < N)%nat -> do_fd s t op d p = Some s' -> InvN N s'.
Proof.
  intros I Ht Hx. unfold do_fd in Hx.
  destruct (negb (fstate_eqb p (ds s d))) eqn:Ep; [discriminate|]. apply negb_false_iff, fstate_eqb_eq in Ep.
  destruct (thr s t) as [|i rest] eqn:Et; [discriminate|].
  destruct i; try discriminate.
  - (* add_done_callback(_delegate_future_done) *)
    brk Hx; inv_some Hx;
      match goal with E : negb (Nat.eqb d _) = false |- _ => apply negb_false_iff, Nat.eqb_eq in E; subst d0 end.
    + (* already done: the callback runs inline, the token becomes a pending decrement *)
      apply (invN_set_g N s); auto; rewrite Et.
      * intros d0. unfold cT. cbn [msum]. rewrite wT_decr. unfold wT. cbn [wA wP]. lia.
      * intros d0 Hp. unfold cP in *. cbn [msum] in *. rewrite wP_decr in Hp.
        destruct (Nat.eqb d d0) eqn:Ed; [apply Nat.eqb_eq in Ed; subst d0; right; assumption|].
        left. cbn [wP] in *. lia.
      * reflexivity.
      * reflexivity.
    + (* registered *)
      apply (invN_set_g N s); auto; rewrite Et.
      * intros d0. simpl dcbs. rewrite cb_upd_snoc. unfold cT. cbn [msum cbw]. unfold wT. cbn [wA wP]. lia.
      * intros d0 Hp. left. unfold cP in *. cbn [msum wP]. lia.
      * reflexivity.
      * reflexivity.
  - (* add_done_callback(_delegate_resolved) *)
    brk Hx; inv_some Hx.
    + kfin I N s.
    + apply (invN_set N s); try kside I.
      intros d1. simpl dcbs. rewrite cb_upd_snoc. cbn [cbw]. destruct (Nat.eqb d d1); lia.
  - (* delegate.cancelled() in _delegate_resolved *)
    brk Hx; inv_some Hx; kfin I N s.
  - (* delegate.cancel() *)
    destruct op as [|[|[|op]]]; try discriminate.
    destruct (negb (Nat.eqb d d0)) eqn:Ed; [discriminate|]. apply negb_false_iff, Nat.eqb_eq in Ed. subst d0.
    assert (Ef : f_cancel p = (fst (f_cancel p), snd (f_cancel p))) by (destruct (f_cancel p); reflexivity).
    rewrite Ef in Hx. destruct (snd (f_cancel p)) eqn:Eb; [destruct (f_cancel_fires p) eqn:Ec|]; inv_some Hx.
    + (* Pending -> Cancelled: the callbacks run in the canceller *)
      apply invN_log.
      match goal with |- InvN N (set_prog (clear_del ?x ?l) _ _) => destruct (clear_del_frameK l x) as [A [B [C [D [E [F G]]]]]] end.
      apply (invN_set_g N s _ t _ I Ht); rewrite ?A, ?B, ?C, ?D, ?E, ?F, ?G; try reflexivity; try rewrite Et.
      * intros d0 Hd. simpl. apply fdone_upd_cancel. exact Hd.
      * intros d0. simpl dcbs. unfold cT. rewrite msum_app, (msum_cb_prog_held (wT d0) d _ (good_wT d0)), wT_decr.
        cbn [msum]. unfold wT. cbn [wA wP]. unfold upd. rewrite (Nat.eqb_sym d0 d).
        destruct (Nat.eqb d d0) eqn:Ed; [apply Nat.eqb_eq in Ed; subst d0|]; cbn [cb]; lia.
      * intros d0 Hp. unfold cP in *. rewrite msum_app, (msum_cb_prog_held (wP d0) d _ (good_wP d0)), wP_decr in Hp.
        cbn [msum wP] in *.
        destruct (Nat.eqb d d0) eqn:Ed; [apply Nat.eqb_eq in Ed; subst d0; right|left; lia].
        simpl. rewrite upd_same. destruct (ds s d); simpl in *; try discriminate; reflexivity.
      * unfold q1. rewrite msum_app, (msum_cb_prog_held wS d _ good_wS). cbn [msum wS]. lia.
      * unfold q2. rewrite msum_app, (msum_cb_prog_held wQ d _ good_wQ). cbn [msum wQ]. lia.
    + apply (invN_set N s); try kside I.
      intros d0 Hd. simpl. apply fdone_upd_cancel. exact Hd.
    + apply (invN_set N s); try kside I.
      intros d0 Hd. simpl. apply fdone_upd_cancel. exact Hd.
Qed.

(* ---- the hand-over thread's admission loop ------------------------------------------------------------ *)
Lemma Q_set_prog_H s1 p :
  Q (set_prog s1 H p) = q1 p + (if owned (xown s1) H then Z.max 0 (Z.of_nat (length (hadm s1)) + q2 p) else 0).
Proof.
  unfold Q, set_prog. simpl (thr _). simpl (xown _). simpl (hadm _). rewrite upd_same, q1_norm, q2_norm. reflexivity.
Qed.
Lemma Q_unfold s : Q s = q1 (thr s H) + (if owned (xown s) H then Z.max 0 (Z.of_nat (length (hadm s)) + q2 (thr s H)) else 0).
Proof. reflexivity. Qed.

Lemma do_xacq_invK N s t s' : InvN N s -> (t < N)%nat -> do_xacq s t = Some s' -> InvN N s'.
Proof.
  intros I Ht Hx. unfold do_xacq in Hx. brk Hx. inv_some Hx. t_is_H.
  match goal with E : thr s H = _ |- _ => rename E into Et end.
  match goal with E : free (xown s) = true |- _ => unfold free in E; destruct (xown s) eqn:Ex; [discriminate|] end.
  match goal with |- InvN N (set_prog ?s1 H ?p') => apply (invN_step N s _ H (norm s1 p') I Ht) end.
  - intros u. reflexivity.
  - reflexivity.
  - rewrite Q_set_prog_H, Q_unfold, Et, Ex. simpl. lia.
  - intros d Hd. exact Hd.
  - intros d. rewrite cT_norm, Et. reflexivity.
  - intros d Hp. rewrite cP_norm in Hp. unfold cP in Hp. simpl in Hp. lia.
Qed.

Lemma do_relx_invK N s t s' : InvA s -> InvN N s -> (t < N)%nat -> do_relx s t = Some s' -> InvN N s'.
Proof.
  intros IA I Ht Hx. unfold do_relx in Hx. brk Hx. inv_some Hx. t_is_H.
  match goal with E : thr s H = _ |- _ => rename E into Et end.
  match goal with E : owned (xown s) H = true |- _ => rename E into Eo end.
  pose proof (a_shape _ IA) as Hs. rewrite Et in Hs. apply shape_tail in Hs; [|reflexivity]. apply clean_q2 in Hs.
  match goal with |- InvN N (set_prog ?s1 H ?p') => apply (invN_step N s _ H (norm s1 p') I Ht) end.
  - intros u. reflexivity.
  - reflexivity.
  - rewrite Q_set_prog_H, Q_unfold, Et, Eo. simpl (xown _). simpl (hadm _). simpl (running _). cbn [owned].
    unfold q1, q2 in *. rewrite !msum_app. fold (q1 (map IDSubmit (hadm s))). rewrite q1_map_dsubmit.
    cbn [msum wS wQ]. rewrite Hs. lia.
  - intros d Hd. exact Hd.
  - intros d. rewrite cT_norm, Et. unfold cT. rewrite msum_app. fold (cT d (map IDSubmit (hadm s))).
    rewrite msum_map_dsubmit_T. reflexivity.
  - intros d Hp. left. rewrite cP_norm in Hp. rewrite Et. unfold cP in *. rewrite msum_app in Hp.
    fold (cP d (map IDSubmit (hadm s))) in Hp. rewrite msum_map_dsubmit_P in Hp. exact Hp.
Qed.

Lemma do_rcread_invK N s t x s' : InvN N s -> (t < N)%nat -> do_rcread s t x = Some s' -> InvN N s'.
Proof.
  intros I Ht Hx. unfold do_rcread in Hx. brk Hx; inv_some Hx; try solve [kfin I N s].
  match goal with E : thr s t = _ |- _ => rename E into Et end.
  apply (invN_set_m N s); try kside I; intros; rewrite Et; unfold cT, cP, q1, q2; cbn [msum wS wQ wP]; unfold wT; cbn [wA wP]; lia.
Qed.

Lemma do_pop_invK N s t s' : InvN N s -> (t < N)%nat -> do_pop s t = Some s' -> InvN N s'.
Proof.
  intros I Ht Hx. unfold do_pop in Hx. brk Hx. inv_some Hx. t_is_H.
  match goal with E : thr s H = _ |- _ => rename E into Et end.
  match goal with E : owned (xown s) H = true |- _ => rename E into Eo end.
  apply invN_log.
  match goal with |- InvN N (set_prog ?s1 H ?p') => apply (invN_step N s _ H (norm s1 p') I Ht) end.
  - intros u. reflexivity.
  - reflexivity.
  - rewrite Q_set_prog_H, Q_unfold, Et. simpl (xown _). simpl (hadm _). simpl (running _). rewrite Eo.
    rewrite app_length, Nat2Z.inj_add. cbn [length]. unfold q1, q2. cbn [msum wS wQ]. lia.
  - intros d Hd. exact Hd.
  - intros d. rewrite cT_norm, Et. reflexivity.
  - intros d Hp. left. rewrite cP_norm in Hp. rewrite Et. exact Hp.
Qed.

(* ---- the counter: incr by the hand-over thread, decr by a done-callback ------------------------------- *)
Lemma invN_decr N s s' t d tail :
  InvN N s -> (t < N)%nat -> thr s t = IAcqA (ADecr d) :: tail ->
  (forall u, thr s' u = upd (thr s) t tail u) ->
  ndel s' = ndel s -> running s' = running s - 1 -> xown s' = xown s -> hadm s' = hadm s ->
  ds s' = ds s -> dcbs s' = dcbs s -> InvN N s'.
Proof.
  intros [S1 R1 L1 D1 F1] Ht Et Hthr En Er Ex Eh Eds Ecb.
  assert (HcT : forall d0, cT d0 (thr s t) = (if Nat.eqb d d0 then 1 else 0) + cT d0 tail).
  { intros d0. rewrite Et. unfold cT. cbn [msum]. rewrite wT_decr. reflexivity. }
  assert (HcP : forall d0, cP d0 (thr s t) = (if Nat.eqb d d0 then 1 else 0) + cP d0 tail).
  { intros d0. rewrite Et. unfold cP. cbn [msum]. rewrite wP_decr. reflexivity. }
  assert (Hdlt : (d < ndel s)%nat).
  { destruct (le_lt_dec (ndel s) d) as [Hge|Hlt]; [|exact Hlt]. exfalso.
    destruct (F1 d Hge) as [_ Fb]. specialize (Fb t). rewrite HcT, Nat.eqb_refl in Fb.
    pose proof (cT_nonneg d tail) as P1. lia. }
  assert (Hdone : fdone (ds s d) = true).
  { apply (D1 t d). rewrite HcP, Nat.eqb_refl. pose proof (cP_nonneg d tail) as P1. lia. }
  assert (Etok : forall d0, tokN N s' d0 = tokN N s d0 - (if Nat.eqb d d0 then 1 else 0)).
  { intros d0. rewrite (tokN_change N s s' t tail d0 Ht Hthr), Ecb, HcT. lia. }
  constructor.
  - intros u Hu. rewrite Hthr, upd_other by lia. apply S1; exact Hu.
  - rewrite (Q_upd s s' t tail Hthr Ex Eh).
    + rewrite En, Er. rewrite (sumT_change (ndel s) (tokN N s) (tokN N s') d Hdlt).
      * rewrite (Etok d), Nat.eqb_refl. lia.
      * intros k Hk. rewrite Etok. apply Nat.eqb_neq in Hk. rewrite (Nat.eqb_sym d k), Hk. lia.
    + rewrite Et. reflexivity.
    + rewrite Et. reflexivity.
  - intros d0 Hd Hnd. rewrite En in Hd. rewrite Eds in Hnd. rewrite Etok.
    destruct (Nat.eqb d d0) eqn:E; [apply Nat.eqb_eq in E; subst d0; rewrite Hdone in Hnd; discriminate|].
    specialize (L1 d0 Hd Hnd). lia.
  - intros u d0 Hp. rewrite Eds. rewrite Hthr in Hp. destruct (Nat.eq_dec u t) as [->|Hne].
    + rewrite upd_same in Hp. apply (D1 t d0). rewrite HcP. destruct (Nat.eqb d d0); lia.
    + rewrite upd_other in Hp by exact Hne. exact (D1 u d0 Hp).
  - intros d0 Hd. rewrite En in Hd. destruct (F1 d0 Hd) as [Fa Fb]. rewrite Ecb. split; [exact Fa|].
    intros u. rewrite Hthr. destruct (Nat.eq_dec u t) as [->|Hne]; [|rewrite upd_other by exact Hne; apply Fb].
    rewrite upd_same. specialize (Fb t). rewrite HcT in Fb. pose proof (cT_nonneg d0 tail) as P1.
    destruct (Nat.eqb d d0); lia.
Qed.

Lemma do_acq_a_invK N s t s' : InvN N s -> (t < N)%nat -> do_acq_a s t = Some s' -> InvN N s'.
Proof.
  intros I Ht Hx. unfold do_acq_a in Hx.
  destruct (negb (free (aown s))); [discriminate|].
  destruct (thr s t) as [|i rest] eqn:Et; [discriminate|]. destruct i; try discriminate. destruct k.
  - (* incr: the job popped last is committed *)
    destruct (negb (Nat.eqb t H)) eqn:Eh; [discriminate|]. apply negb_false_iff, Nat.eqb_eq in Eh. subst t. inv_some Hx.
    apply invN_log.
    match goal with |- InvN N (set_prog ?s1 H ?p') => apply (invN_step N s _ H (norm s1 p') I Ht) end.
    + intros u. reflexivity.
    + reflexivity.
    + rewrite Q_set_prog_H, Q_unfold, Et. simpl (xown _). simpl (hadm _). simpl (running _).
      unfold q1, q2. cbn [msum wS wQ]. destruct (owned (xown s) H); lia.
    + intros d Hd. exact Hd.
    + intros d. rewrite cT_norm, Et. reflexivity.
    + intros d Hp. left. rewrite cP_norm in Hp. rewrite Et. exact Hp.
  - (* decr: the token of d is consumed *)
    destruct rest as [|i2 r2]; [discriminate|]. destruct i2; try discriminate.
    destruct r2 as [|i3 r3]; [discriminate|]. destruct i3; try discriminate. inv_some Hx.
    apply invN_log. apply (invN_decr N s _ t d (IRelA :: IEvSet :: r3) I Ht Et); try reflexivity.
Qed.

(* ---- delegate.submit: a committed job becomes a delegate future with its token ------------------------ *)
Lemma invN_dsubmit N s s' j rest dstate :
  InvN N s -> (H < N)%nat -> thr s H = IDSubmit j :: rest -> owned (xown s) H = false ->
  (forall u, thr s' u =
     upd (thr s) H (IAddCb1 (ndel s) :: IAcqMSet j (Some (ndel s)) :: IRelM j :: IAddCb2 (ndel s) j :: rest) u) ->
  ndel s' = S (ndel s) -> running s' = running s -> xown s' = xown s -> hadm s' = hadm s ->
  ds s' = upd (ds s) (ndel s) dstate -> dcbs s' = upd (dcbs s) (ndel s) [] -> InvN N s'.
Proof.
  intros [S1 R1 L1 D1 F1] Ht Et Eo Hthr En Er Ex Eh Eds Ecb.
  set (d := ndel s) in *.
  set (p' := IAddCb1 d :: IAcqMSet j (Some d) :: IRelM j :: IAddCb2 d j :: rest) in *.
  assert (HcT : forall d0, cT d0 p' = (if Nat.eqb d d0 then 1 else 0) + cT d0 (thr s H)).
  { intros d0. rewrite Et. unfold p', cT. cbn [msum]. unfold wT. cbn [wA wP]. lia. }
  assert (HcP : forall d0, cP d0 p' = cP d0 (thr s H)).
  { intros d0. rewrite Et. unfold p', cP. cbn [msum wP]. lia. }
  destruct (F1 d (le_n _)) as [Fa Fb].
  assert (Etok : forall d0, tokN N s' d0 = if Nat.eqb d d0 then 1 else tokN N s d0).
  { intros d0. rewrite (tokN_change N s s' H p' d0 Ht Hthr), Ecb, HcT. unfold upd. rewrite (Nat.eqb_sym d0 d).
    destruct (Nat.eqb d d0) eqn:E; [apply Nat.eqb_eq in E; subst d0|lia].
    unfold tokN. rewrite Fa. rewrite (sumT_ext N _ (fun _ => 0)) by (intros; apply Fb).
    assert (Z0 : forall n, sumT n (fun _ => 0) = 0) by (induction n as [|n IH]; simpl; lia).
    rewrite Z0. cbn [cb]. lia. }
  constructor.
  - intros u Hu. rewrite Hthr, upd_other by lia. apply S1; exact Hu.
  - assert (EQ : Q s' = Q s - 1).
    { unfold Q. rewrite Ex, Eh, Eo, (Hthr H), upd_same, Et. unfold p', q1. cbn [msum wS]. lia. }
    rewrite EQ, En, Er. rewrite sumT_S. rewrite (Etok d), Nat.eqb_refl.
    rewrite (sumT_ext d (tokN N s') (tokN N s)); [lia|].
    intros k Hk. rewrite Etok. assert (Hne : Nat.eqb d k = false) by (apply Nat.eqb_neq; lia). rewrite Hne. reflexivity.
  - intros d0 Hd Hnd. rewrite Etok. destruct (Nat.eqb d d0) eqn:E; [lia|].
    apply Nat.eqb_neq in E. rewrite En in Hd. rewrite Eds, upd_other in Hnd by (intro; apply E; auto).
    apply L1; [fold d; lia|exact Hnd].
  - intros u d0 Hp.
    assert (Hp0 : exists u0, 0 < cP d0 (thr s u0)).
    { rewrite Hthr in Hp. destruct (Nat.eq_dec u H) as [->|Hne].
      - rewrite upd_same, HcP in Hp. eauto.
      - rewrite upd_other in Hp by exact Hne. eauto. }
    destruct Hp0 as [u0 Hp0].
    assert (Hlt : (d0 < d)%nat).
    { destruct (le_lt_dec d d0) as [Hge|Hlt]; [|exact Hlt]. exfalso.
      destruct (F1 d0 Hge) as [_ Fc]. specialize (Fc u0). pose proof (cP_le_cT d0 (thr s u0)) as P1. lia. }
    rewrite Eds, upd_other by lia. exact (D1 u0 d0 Hp0).
  - intros d0 Hd. rewrite En in Hd. fold d in Hd. destruct (F1 d0 ltac:(fold d; lia)) as [Fc Fd].
    rewrite Ecb, upd_other by lia. split; [exact Fc|].
    intros u. rewrite Hthr. destruct (Nat.eq_dec u H) as [->|Hne]; [|rewrite upd_other by exact Hne; apply Fd].
    rewrite upd_same, HcT, (Fd H). assert (Hne : Nat.eqb d d0 = false) by (apply Nat.eqb_neq; lia). rewrite Hne. lia.
Qed.

Lemma do_dsubmit_invK N s t d i s' : InvN N s -> (t < N)%nat -> do_dsubmit s t d i = Some s' -> InvN N s'.
Proof.
  intros I Ht Hx. unfold do_dsubmit in Hx.
  destruct (thr s t) as [|i0 rest] eqn:Et; [discriminate|]. destruct i0; try discriminate.
  destruct (negb (Nat.eqb d (ndel s)) || negb (Nat.eqb t H) || owned (xown s) t) eqn:Eg; [discriminate|].
  apply orb_false_elim in Eg. destruct Eg as [Eg Eo]. apply orb_false_elim in Eg. destruct Eg as [Ed Eh].
  apply negb_false_iff, Nat.eqb_eq in Ed. apply negb_false_iff, Nat.eqb_eq in Eh. subst t d.
  inv_some Hx.
  destruct (issome i); eapply (invN_dsubmit N s _ j rest _ I Ht Et Eo); try reflexivity.
Qed.
