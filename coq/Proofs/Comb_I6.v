(* I6: every logged decision directly follows the deciding evaluation, and the fold laws. *)
From Coq Require Import List Arith Bool Lia PeanoNat ZArith.
From ME Require Import Base.Machine Base.Fut Base.GenPrelude Gen.BoolGen Gen.ZipGen Model.Comb Proofs.Comb_Spec.
From ME Require Import Proofs.Comb_I0 Proofs.Comb_I2 Proofs.Comb_I4 Proofs.Comb_I5.
Import ListNotations.

Definition oc_eo (eo : nat -> option outcome) (d : nat) : outcome :=
  match eo d with Some o => o | None => Ok 0 false end.

Definition Pd (k : ckind) (ins : list nat) (esf : nat -> fstate) (eo : nat -> option outcome)
  (h : hev) (r : list hev) : Prop :=
  match h with
  | HDecide d o =>
      fdone (esf d) = true /\
      exists v pre l2', r = pre ++ HSeen d v :: l2' /\
        (pre = [] \/ (k = KZip /\ v_cancelled v = false /\ v_failed v = false /\ exists i w, pre = [HStore i w])) /\
        o = (if v_cancelled v then None else Some (oc_eo eo d)) /\
        (k = KOr -> truthy_view v = true \/ forall x, In x ins -> seen_in r x) /\
        (k = KAnd -> falsy_view v = true \/ forall x, In x ins -> seen_in r x) /\
        (forall d' v', In (HSeen d' v') l2' -> quiet k v')
  | _ => True
  end.

Fixpoint hist_ok (P : hev -> list hev -> Prop) (l : list hev) : Prop :=
  match l with [] => True | h :: r => P h r /\ hist_ok P r end.

Definition I6 (s : st) : Prop := hist_ok (Pd (ck s) (inputs s) (es s) (eout s)) (hist s).

Lemma hist_ok_split (P : hev -> list hev -> Prop) l1 h l2 : hist_ok P (l1 ++ h :: l2) -> P h l2.
Proof. induction l1; simpl; tauto. Qed.

Lemma hist_ok_impl (P Q : hev -> list hev -> Prop) l : (forall h r, P h r -> Q h r) -> hist_ok P l -> hist_ok Q l.
Proof. intros H. induction l; simpl; auto. intros [A B]. split; auto. Qed.

Lemma hist_ok_env (P : hev -> list hev -> Prop) l : (forall h, In h l -> isenv h = true) -> (forall h r, isenv h = true -> P h r) -> hist_ok P l.
Proof. intros H HP. induction l; simpl; auto. split; [apply HP; apply H; left; auto|]. apply IHl. intros; apply H; right; auto. Qed.

Lemma I6_old s e s' : I4 s -> I5 s -> I6 s -> step s e = Some s' ->
  hist_ok (Pd (ck s') (inputs s') (es s') (eout s')) (hist s).
Proof.
  intros J I5 I H. destruct (built s) eqn:Hb.
  - destruct (step_built _ _ _ H Hb) as (_ & Hi & Hk). rewrite Hi, Hk.
    eapply hist_ok_impl; [|exact I]. intros h r. destruct h; simpl; auto.
    intros (Hd & v & pre & l2' & A & B & C & D). destruct (step_frozen _ _ _ d H Hd) as [E1 E2].
    split; [congruence|]. exists v, pre, l2'. unfold oc_eo in *. rewrite E2. auto.
  - apply hist_ok_env; [apply (i5_unb _ I5 Hb)|]. intros h r. destruct h; simpl; auto; discriminate.
Qed.

Lemma all_seen s t i d l v pre : I2 s -> I5 s -> thr s t = ICancelledQ i d :: l -> isnil (fsd s) = true ->
  forall x, In x (inputs s) -> seen_in (pre ++ HSeen d v :: hist s) x.
Proof.
  intros K I Ht Hn x Hin. destruct (fsd s) eqn:Hf; [|discriminate].
  assert (Hx : ~ In x (fsd s)) by (rewrite Hf; simpl; tauto).
  destruct (i5_seen _ I x Hin Hx) as [[w Hw]|(t' & i' & r' & Ht')].
  - exists w. apply in_or_app. right. right. exact Hw.
  - pose proof (i2_thr _ K t) as (_ & A & _). pose proof (i2_thr _ K t') as (_ & B & _).
    rewrite Ht in A. rewrite Ht' in B. simpl in A, B.
    assert (t' = t) by (specialize (A eq_refl); specialize (B eq_refl); congruence). subst t'.
    rewrite Ht in Ht'. inversion Ht'; subst. exists v. apply in_or_app. right. left. reflexivity.
Qed.

Lemma I6_step s e s' : I2 s -> I4 s -> I5 s -> I6 s -> step s e = Some s' -> I6 s'.
Proof.
  intros K J I5 I H. pose proof (I6_old _ _ _ J I5 I H) as Hold. unfold I6.
  destruct e; pose proof (i2_thr _ K t) as (_ & Kl & Kc); pose proof (i4_thr _ J t) as Jt;
  step_inv H; simpl in *; auto;
  try match goal with Hq : thr _ _ = _ |- _ => rewrite Hq in Kc, Kl, Jt; simpl in Kc, Kl end;
  fa_hyps; try solve [repeat split; auto].
  all: clean; rewrite ?Heqc in *; simpl in Hhd; destruct Hhd as (Hd & _).
  all: pose proof (i5_quiet _ I5) as Hq; rewrite Heqc in Hq.
  - repeat split; auto. exists (view s d0), [], (hist s). simpl. repeat split; auto; try discriminate.
    + intros _. apply orb_true_iff in Heqb1. destruct Heqb1 as [A|A]; auto. right.
      apply (all_seen s t i0 d0 l (view s d0) [] K I5 Heql A).
    + apply Hq; auto.
  - repeat split; auto. exists (view s d0), [], (hist s). simpl. repeat split; auto; try discriminate.
    + intros _. apply orb_true_iff in Heqb1. destruct Heqb1 as [A|A]; auto. right.
      apply (all_seen s t i0 d0 l (view s d0) [] K I5 Heql A).
    + apply Hq; auto.
  - repeat split; auto. exists (view s d0), [], (hist s). simpl. rewrite Heqb2. repeat split; auto; try discriminate;
      intros; eapply Hq; eauto.
  - repeat split; auto. exists (view s d0), [], (hist s). simpl. rewrite Heqb2. repeat split; auto; try discriminate;
      intros; eapply Hq; eauto.
  - repeat split; auto. eexists (view s d0), [_], (hist s). simpl. rewrite Heqb2. repeat split; auto; try discriminate;
      try (intros; eapply Hq; eauto). right. repeat split; auto. eauto.
Qed.

Lemma I6_reach s : reachable s -> I6 s.
Proof.
  apply invariant_rule_r; [exact I|]. intros s0 e s' R I6 H.
  eapply I6_step; eauto using I2_reach, I4_reach, I5_reach.
Qed.
