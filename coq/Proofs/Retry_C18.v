(* Delegates: a delegate future that is not done has its in-flight record in _jobs. *)
From Coq Require Import List ZArith Bool Arith Lia.
From RecordUpdate Require Import RecordSet.
From ME Require Import Base.Machine Base.Fut Base.GenPrelude Gen.RetryGen Model.Retry Proofs.Retry_Spec Proofs.Retry_C0 Proofs.Retry_C1 Proofs.Retry_C2 Proofs.Retry_C3 Proofs.Retry_C4 Proofs.Retry_C5 Proofs.Retry_C6 Proofs.Retry_C7 Proofs.Retry_C8 Proofs.Retry_C9 Proofs.Retry_C10 Proofs.Retry_C11 Proofs.Retry_C12 Proofs.Retry_C13 Proofs.Retry_C14 Proofs.Retry_C15 Proofs.Retry_C16 Proofs.Retry_C17.
Import ListNotations RecordSetNotations.

Definition D1 (s : st) : Prop := forall d, d < ndel s ->
  fdone (ds s d) = true \/ exists r, In r (jobs s) /\ jdel (recs s r) = Some d.

Lemma D1_keep s s' : MONO s s' -> RI s -> D1 s -> ndel s' = ndel s ->
  (forall r d, In r (jobs s) -> jdel (recs s r) = Some d -> In r (jobs s') \/ fdone (ds s d) = true) -> D1 s'.
Proof.
  intros M R IH En K d Hd. rewrite En in Hd. destruct (IH d Hd) as [A|(r & A & B)].
  - left. apply (mo_ddone _ _ M); assumption.
  - destruct (K r d A B) as [C|C].
    + right. exists r. split; [exact C|]. rewrite (mo_jdel _ _ M); [exact B|apply (ri_jobs s R); exact A].
    + left. apply (mo_ddone _ _ M); assumption.
Qed.

Lemma D1_step0 s e s' : D1 s -> PI s -> RI s -> step0 s e = Some s' -> D1 s'.
Proof.
  intros HD HP HR H. pose proof (MONO_step0 _ _ _ H) as HM. s0inv H; try exact HD.
  all: try (match goal with inl : option outcome |- _ => destruct inl end).
  all: bsplit; subst.
  all: try (apply (D1_keep s _ HM HR HD); [reflexivity|]; unfold log, set_prog; simpl; intros r0 d0' Hr0 Hd0;
            try (left; first [exact Hr0 | apply in_app_iff; left; exact Hr0]; fail)).
  all: try (match goal with Hq : thr _ ?t = _ |- _ => pose proof (pi_thr s HP t) as Q; rewrite Hq in Q;
              inversion Q as [|? ? Qi _]; subst; simpl in Qi end).
  - left. apply in_remove_id. split; [exact Hr0|]. intros ->. congruence.
  - destruct (Nat.eq_dec r0 r) as [->|Nr].
    + right. destruct Qi as (_ & d1 & B & _ & F & _). assert (d0' = d1) by congruence. subst. rewrite F. reflexivity.
    + left. apply in_app_iff. left. apply in_remove_id. split; assumption.
  - destruct (Nat.eq_dec r0 r) as [->|Nr].
    + right. destruct Qi as (_ & B). apply (B _ Hd0).
    + left. apply in_remove_id. split; assumption.
  - left. apply in_remove_id. split; [exact Hr0|]. intros ->. destruct Qi as (_ & B & _). congruence.
  - intros d Hd. unfold log, set_prog in *. simpl in *. destruct (Nat.eq_dec d (ndel s)) as [->|Nd].
    + right. exists (nrec s). split; [apply in_app_iff; right; left; reflexivity|]. rewrite upd_same. reflexivity.
    + assert (Hd' : d < ndel s) by lia. destruct (HD d Hd') as [A|(r1 & A & B)].
      * left. rewrite upd_lt by exact Hd'. exact A.
      * right. exists r1. split; [apply in_app_iff; left; exact A|].
        rewrite upd_lt by (apply (ri_jobs s HR); exact A). exact B.
  - intros d Hd. unfold log, set_prog in *. simpl in *. destruct (Nat.eq_dec d (ndel s)) as [->|Nd].
    + right. exists (nrec s). split; [apply in_app_iff; right; left; reflexivity|]. rewrite upd_same. reflexivity.
    + assert (Hd' : d < ndel s) by lia. destruct (HD d Hd') as [A|(r1 & A & B)].
      * left. rewrite upd_lt by exact Hd'. exact A.
      * right. exists r1. split; [apply in_app_iff; left; exact A|].
        rewrite upd_lt by (apply (ri_jobs s HR); exact A). exact B.
Qed.

Lemma D1_reach s : reachable_from step init s -> D1 s.
Proof.
  apply (invariant_rule_r step D1).
  - intros d Hd. simpl in Hd. lia.
  - intros s0 e s' R IH H. apply step_split in H. destruct H as (s1 & Ht & H).
    apply tick_eq in Ht. subst s1. eapply D1_step0; [ | | |exact H].
    + exact IH.
    + apply PI_tick, PI_reach, R.
    + apply RI_tick, RI_reach, R.
Qed.

Definition D4 (s : st) : Prop := forall t j d r l, thr s t = IDCancel j d r :: l ->
  fdone (rs s j) = false -> forall r' d', In r' (jobs s) -> jf (recs s r') = j ->
  jdel (recs s r') = Some d' -> d' = d.

Lemma D4_step0 s e s' : D4 s -> uniq s -> MI s -> PI s -> RI s -> (forall t, posok (thr s t) = true) ->
  step0 s e = Some s' -> D4 s'.
Proof.
  intros HD HU HMI HP HR HPos H. pose proof (MONO_step0 _ _ _ H) as HM.
  assert (Oth : forall u j d r l, thr s u = IDCancel j d r :: l -> fdone (rs s' j) = false ->
     forall r' d', In r' (jobs s) -> jf (recs s' r') = j -> jdel (recs s' r') = Some d' -> d' = d).
  { intros u j d r l Eu Hd r' d' Hr' Ej Ed. pose proof (ri_jobs s HR r' Hr') as Lr.
    rewrite (mo_jf _ _ HM) in Ej by exact Lr. rewrite (mo_jdel _ _ HM) in Ed by exact Lr.
    assert (Hdn : fdone (rs s j) = false).
    { pose proof (pi_thr s HP u) as Q. rewrite Eu in Q. inversion Q as [|? ? Qi _]; subst. simpl in Qi.
      destruct Qi as (A & _ & C & _). eapply dn_back; [exact HM| |exact Hd]. rewrite <- C. apply (pi_jf s HP). exact A. }
    apply (HD u j d r l Eu Hdn r' d' Hr' Ej Ed). }
  s0inv H; try exact HD.
  all: try (match goal with inl : option outcome |- _ => destruct inl end).
  all: bsplit; subst.
  all: intros u jq dq rq lq E Hd r' d' Hr' Ej Ed.
  all: try (match goal with Hq : thr _ ?t = _ |- _ =>
      destruct (Nat.eq_dec u t) as [->|Nu];
      [pose proof (HPos t) as Pt; rewrite Hq in Pt; unfold posok in Pt; simpl in Pt
      |assert (Eu : thr s u = IDCancel jq dq rq :: lq) by (unfold log, set_prog in E; simpl in E; rewrite upd_other in E by exact Nu; exact E);
       apply (Oth u jq dq rq lq Eu Hd r' d'); [|exact Ej|exact Ed];
       unfold log, set_prog in Hr'; simpl in Hr'] end).
  all: try assumption.
  all: try (apply in_remove_id in Hr'; apply Hr').
  all: try (unfold log, set_prog in E; simpl in E; rewrite ?upd_same in E).
  all: try (apply norm_head_nh in E; [|assumption]; discriminate E).
  all: try (inversion E; fail).
  - apply in_app_iff in Hr'. destruct Hr' as [Hr'|[<-|[]]]; [first [exact Hr'|apply in_remove_id in Hr'; apply Hr']|].
    exfalso. unfold log, set_prog in Ed. simpl in Ed. rewrite upd_same in Ed. discriminate Ed.
  - injection E as E1 E2 E3 E4. unfold set_prog in *. simpl in *. rewrite jf_stop_upd in Ej. rewrite jdel_stop_upd in Ed.
    pose proof (find_fut_some s _ _ Heqo) as [Nin Nj].
    destruct (HU r' n Hr') as [X|X]; [exact Nin|congruence|subst r'; congruence|congruence].
  - apply in_app_iff in Hr'. destruct Hr' as [Hr'|[<-|[]]]; [first [exact Hr'|apply in_remove_id in Hr'; apply Hr']|].
    exfalso. unfold log, set_prog in Ed. simpl in Ed. rewrite upd_same in Ed. discriminate Ed.
  - assert (X : forallb nh (cbs_prog j0 (rcbs s j0) ++ l) = true) by (rewrite forallb_app, nh_cbs; exact Pt).
    apply norm_head_nh in E; [|exact X]. discriminate E.
  - apply (nh_norm l true) in Pt. rewrite E in Pt. simpl in Pt. discriminate Pt.
  - apply in_app_iff in Hr'. destruct Hr' as [Hr'|[<-|[]]]; [exact Hr'|].
    exfalso. unfold log, set_prog in Ej. simpl in Ej. rewrite upd_same in Ej. simpl in Ej.
    assert (A : mown s jq = Some u).
    { eapply MI_head; [exact HMI|exact Eu|]. right. simpl. rewrite Nat.eqb_refl. reflexivity. }
    assert (B : mown s jq = Some t).
    { eapply MI_head; [exact HMI|exact Heql|]. right. simpl. unfold jfs. rewrite Ej, Nat.eqb_refl. reflexivity. }
    congruence.
  - apply in_app_iff in Hr'. destruct Hr' as [Hr'|[<-|[]]]; [exact Hr'|].
    exfalso. unfold log, set_prog in Ej. simpl in Ej. rewrite upd_same in Ej. simpl in Ej.
    assert (A : mown s jq = Some u).
    { eapply MI_head; [exact HMI|exact Eu|]. right. simpl. rewrite Nat.eqb_refl. reflexivity. }
    assert (B : mown s jq = Some t).
    { eapply MI_head; [exact HMI|exact Heql|]. right. simpl. unfold jfs. rewrite Ej, Nat.eqb_refl. reflexivity. }
    congruence.
  - destruct (dcb s d); simpl in E; inversion E.
  - destruct (dcb s d); simpl in E; inversion E.
Qed.

Lemma D4_reach s : reachable_from step init s -> D4 s.
Proof.
  apply (invariant_rule_r step D4).
  - intros t j d r l E. discriminate E.
  - intros s0 e s' R IH H. apply step_split in H. destruct H as (s1 & Ht & H).
    apply tick_eq in Ht. subst s1. destruct (JU_reach s0 R) as [U X].
    eapply D4_step0; [ | | | | | |exact H].
    + exact IH.
    + exact U.
    + apply MI_tick, MI_reach, R.
    + apply PI_tick, PI_reach, R.
    + apply RI_tick, RI_reach, R.
    + apply (POS_reach s0 R).
Qed.

Definition DF (s : st) : Prop := forall c j, In (IFCancel j) (thr s c) ->
  forall d, d < ndel s -> dfor s d = j -> fdone (ds s d) = true.

Lemma in_cbs_fc j0 j l : ~ In (IFCancel j0) (cbs_prog j l).
Proof.
  induction l as [|c l IH]; simpl; [tauto|]. destruct c; simpl; intros [E|H]; try discriminate E; auto.
  destruct H as [E|H]; [discriminate E|auto].
Qed.

Lemma DF_step0 s e s' : DF s -> D1 s -> D4 s -> uniq s -> HI s -> MI s -> (forall t, bfc s (thr s t) = true) ->
  PI s -> RI s -> step0 s e = Some s' -> DF s'.
Proof.
  intros HF HD1 HD4 HU HH HMI HB HP HR H. pose proof (MONO_step0 _ _ _ H) as HM.
  assert (Old : forall v j, In (IFCancel j) (thr s v) -> forall d, d < ndel s -> dfor s' d = j -> fdone (ds s' d) = true).
  { intros v j Hv d Hd Ed. rewrite (mo_dfor _ _ HM) in Ed by exact Hd. apply (mo_ddone _ _ HM); [exact Hd|].
    apply (HF v j Hv d Hd Ed). }
  s0inv H; try exact HF.
  all: try (match goal with inl : option outcome |- _ => destruct inl end).
  all: bsplit; subst.
  all: intros u jq Hin dq Hdq Edq.
  all: try (unfold log, set_prog in Hin; simpl in Hin; unfold upd in Hin;
    match type of Hin with context[Nat.eqb ?a ?b] => destruct (Nat.eqb a b) eqn:Eu end;
    [apply eqb_t in Eu; subst u; try (apply in_norm in Hin; destruct Hin as [Hin|Hin]; [|discriminate Hin]);
     simpl in Hin; repeat (destruct Hin as [Hin|Hin]; [try discriminate Hin|])
    |]).
  all: try contradiction.
  all: try (match goal with Hq : thr _ ?t = _ :: _ |- _ =>
     first [ apply (Old t jq); [rewrite Hq; right; exact Hin|exact Hdq|exact Edq]
           | apply (Old u jq Hin); [exact Hdq|exact Edq] ] end).
  all: try (apply (Old u jq Hin); [exact Hdq|exact Edq]).
  - injection Hin as <-. unfold set_prog in *. simpl in *.
    assert (Hdn : fdone (rs s j) = false) by (pose proof (HH _ _ _ Heql) as X; exact X).
    pose proof (find_fut_some s _ _ Heqo) as [Nin Nj].
    destruct (HD1 dq Hdq) as [A|(r1 & A & B)]; [exact A|exfalso].
    destruct (pi_del s HP r1 dq (ri_jobs s HR r1 A) B) as [_ C].
    destruct (HU r1 n A Nin) as [X|X]; [congruence|subst r1; congruence|congruence].
  - apply in_app_iff in Hin. destruct Hin as [Hin|Hin]; [exfalso; eapply in_cbs_fc; exact Hin|].
    apply (Old n jq); [rewrite Heql; right; exact Hin|exact Hdq|exact Edq].
  - apply in_tl in Hin. apply (Old t jq); [rewrite Heql; right; exact Hin|exact Hdq|exact Edq].
  - injection Hin as <-. unfold set_prog in *. simpl in *.
    assert (Hdn : fdone (rs s j) = false) by (pose proof (HH _ _ _ Heql) as X; exact X).
    assert (Ff : fdone f = true) by (eapply f_cancel_done'; exact Heqp).
    destruct (HD1 dq Hdq) as [A|(r1 & A & B)].
    + unfold upd. destruct (Nat.eqb dq d0); [exact Ff|exact A].
    + destruct (pi_del s HP r1 dq (ri_jobs s HR r1 A) B) as [_ C].
      assert (dq = d0) by (eapply (HD4 t j d0 r l Heql Hdn r1 dq A); congruence). subst dq.
      rewrite upd_same. exact Ff.
  - injection Hin as <-. unfold set_prog in *. simpl in *.
    assert (Hdn : fdone (rs s j) = false) by (pose proof (HH _ _ _ Heql) as X; exact X).
    assert (Ff : fdone f = true) by (eapply f_cancel_done'; exact Heqp).
    destruct (HD1 dq Hdq) as [A|(r1 & A & B)].
    + unfold upd. destruct (Nat.eqb dq d0); [exact Ff|exact A].
    + destruct (pi_del s HP r1 dq (ri_jobs s HR r1 A) B) as [_ C].
      assert (dq = d0) by (eapply (HD4 t j d0 r l Heql Hdn r1 dq A); congruence). subst dq.
      rewrite upd_same. exact Ff.
  - exfalso. pose proof (HB t) as Bt. rewrite Heql in Bt. simpl in Bt.
    rewrite (in_hasfc _ _ Hin) in Bt. discriminate Bt.
  - unfold log, set_prog in *. simpl in *. destruct (Nat.eq_dec dq (ndel s)) as [->|Nd].
    + exfalso. rewrite upd_same in Edq.
      assert (A : mown s jq = Some u) by (apply (fc_owner s u jq HMI HB Hin)).
      assert (B : mown s jq = Some t).
      { eapply MI_head; [exact HMI|exact Heql|]. right. simpl. unfold jfs. rewrite Edq, Nat.eqb_refl. reflexivity. }
      apply Nat.eqb_neq in Eu. congruence.
    + assert (Hd' : dq < ndel s) by lia. rewrite upd_lt in Edq by exact Hd'. rewrite upd_lt by exact Hd'.
      apply (HF u jq Hin dq Hd' Edq).
  - exfalso. pose proof (HB t) as Bt. rewrite Heql in Bt. simpl in Bt.
    rewrite (in_hasfc _ _ Hin) in Bt. discriminate Bt.
  - unfold log, set_prog in *. simpl in *. destruct (Nat.eq_dec dq (ndel s)) as [->|Nd].
    + exfalso. rewrite upd_same in Edq.
      assert (A : mown s jq = Some u) by (apply (fc_owner s u jq HMI HB Hin)).
      assert (B : mown s jq = Some t).
      { eapply MI_head; [exact HMI|exact Heql|]. right. simpl. unfold jfs. rewrite Edq, Nat.eqb_refl. reflexivity. }
      apply Nat.eqb_neq in Eu. congruence.
    + assert (Hd' : dq < ndel s) by lia. rewrite upd_lt in Edq by exact Hd'. rewrite upd_lt by exact Hd'.
      apply (HF u jq Hin dq Hd' Edq).
  - destruct (dcb s d); simpl in Hin; [destruct Hin as [E|[E|[]]]; discriminate E|destruct Hin].
  - destruct (dcb s d); simpl in Hin; [destruct Hin as [E|[E|[]]]; discriminate E|destruct Hin].
Qed.

Lemma DF_reach s : reachable_from step init s -> DF s.
Proof.
  apply (invariant_rule_r step DF).
  - intros c j H. destruct H.
  - intros s0 e s' R IH H. apply step_split in H. destruct H as (s1 & Ht & H).
    apply tick_eq in Ht. subst s1. destruct (JU_reach s0 R) as [U X].
    eapply DF_step0; [ | | | | | | | | |exact H].
    + exact IH.
    + exact (D1_reach s0 R).
    + exact (D4_reach s0 R).
    + exact U.
    + apply HI_tick, HI_reach, R.
    + apply MI_tick, MI_reach, R.
    + intros t. simpl. rewrite bfc_tick. apply (BF_reach s0 R).
    + apply PI_tick, PI_reach, R.
    + apply RI_tick, RI_reach, R.
Qed.

Definition D2 (s : st) : Prop := forall j, j < nfut s -> fcancelled (rs s j) = true ->
  forall d, d < ndel s -> dfor s d = j -> fdone (ds s d) = true.

Lemma D2_step0 s e s' : D2 s -> DF s -> HI s -> PI s -> step0 s e = Some s' -> D2 s'.
Proof.
  intros HD HF HH HP H. pose proof (MONO_step0 _ _ _ H) as HM.
  assert (Old : forall j, j < nfut s -> fcancelled (rs s j) = true -> forall d, d < ndel s -> dfor s' d = j -> fdone (ds s' d) = true).
  { intros j Hj Hc d Hd Ed. rewrite (mo_dfor _ _ HM) in Ed by exact Hd. apply (mo_ddone _ _ HM); [exact Hd|].
    apply (HD j Hj Hc d Hd Ed). }
  s0inv H; try exact HD.
  all: try (match goal with inl : option outcome |- _ => destruct inl end).
  all: bsplit; subst.
  all: intros jq Hjq Hcq dq Hdq Edq.
  all: try (apply (Old jq Hjq Hcq dq Hdq Edq)).
  - unfold log, set_prog in *. simpl in *. unfold upd in Hcq. destruct (Nat.eqb jq (nfut s)) eqn:E; [discriminate Hcq|].
    apply Nat.eqb_neq in E. assert (Hj' : jq < nfut s) by lia. apply (HD jq Hj' Hcq dq Hdq Edq).
  - unfold log, set_prog in *. simpl in *. unfold upd in Hcq. destruct (Nat.eqb jq j0) eqn:E.
    + apply eqb_t in E. subst jq. apply (HF t j0); [rewrite Heql; left; reflexivity|exact Hdq|exact Edq].
    + apply (HD jq Hjq Hcq dq Hdq Edq).
  - unfold log, set_prog in *. simpl in *. unfold upd in Hcq. destruct (Nat.eqb jq j0) eqn:E.
    + apply eqb_t in E. subst jq. apply (HD j0 Hjq); [|exact Hdq|exact Edq].
      destruct (rs s j0); simpl in Heqo; inversion Heqo; subst; simpl in *; try discriminate; reflexivity.
    + apply (HD jq Hjq Hcq dq Hdq Edq).
  - unfold log, set_prog in *. simpl in *. unfold upd in Hcq. destruct (Nat.eqb jq j0) eqn:E.
    + exfalso. destruct (rs s j0); simpl in Heqo0; inversion Heqo0; subst; simpl in *; discriminate.
    + apply (HD jq Hjq Hcq dq Hdq Edq).
  - unfold log, set_prog in *. simpl in *. destruct (Nat.eq_dec dq (ndel s)) as [->|Nd].
    + exfalso. rewrite upd_same in Edq. pose proof (HH _ _ _ Heql) as Hh. simpl in Hh. destruct Hh as [_ Hn].
      rewrite Edq in Hn. destruct (rs s jq); simpl in *; discriminate.
    + assert (Hd' : dq < ndel s) by lia. rewrite upd_lt in Edq by exact Hd'. rewrite upd_lt by exact Hd'.
      apply (HD jq Hjq Hcq dq Hd' Edq).
  - unfold log, set_prog in *. simpl in *. destruct (Nat.eq_dec dq (ndel s)) as [->|Nd].
    + exfalso. rewrite upd_same in Edq. pose proof (HH _ _ _ Heql) as Hh. simpl in Hh. destruct Hh as [_ Hn].
      rewrite Edq in Hn. destruct (rs s jq); simpl in *; discriminate.
    + assert (Hd' : dq < ndel s) by lia. rewrite upd_lt in Edq by exact Hd'. rewrite upd_lt by exact Hd'.
      apply (HD jq Hjq Hcq dq Hd' Edq).
Qed.

Lemma D2_reach s : reachable_from step init s -> D2 s.
Proof.
  apply (invariant_rule_r step D2).
  - intros j Hj. simpl in Hj. lia.
  - intros s0 e s' R IH H. apply step_split in H. destruct H as (s1 & Ht & H).
    apply tick_eq in Ht. subst s1. eapply D2_step0; [ | | | |exact H].
    + exact IH.
    + exact (DF_reach s0 R).
    + apply HI_tick, HI_reach, R.
    + apply PI_tick, PI_reach, R.
Qed.

Definition NS (s : st) : Prop :=
  (forall d t, In (HStart d t) (hist s) -> d < ndel s) /\
  (forall l1 j ts l2, hist s = l1 ++ HCancelRet j true ts :: l2 ->
     forall d t, In (HStart d t) l1 -> dfor s d <> j).

Lemma NS_ext s s' ext : NS s -> MONO s s' -> hist s' = ext ++ hist s ->
  (forall j ts, In (HCancelRet j true ts) ext -> ext = [HCancelRet j true ts]) ->
  (forall d t, In (HStart d t) ext -> d < ndel s' /\
     forall j ts, In (HCancelRet j true ts) (hist s) -> dfor s' d <> j) -> NS s'.
Proof.
  intros [HN IH] M E Hc Hs. split.
  - intros d t Hin. rewrite E in Hin. apply in_app_iff in Hin. destruct Hin as [Hin|Hin].
    + apply (Hs d t Hin).
    + pose proof (mo_ndel _ _ M). apply HN in Hin. lia.
  - intros l1 j ts l2 Hh d t Hin. rewrite E in Hh.
    destruct (app_split_elt _ _ _ _ _ Hh) as [(l1' & -> & Eh)|Hc'].
    + apply in_app_iff in Hin. destruct Hin as [Hin|Hin].
      * apply (proj2 (Hs d t Hin) j ts). rewrite Eh. apply in_app_iff. right. left. reflexivity.
      * assert (Ld : d < ndel s) by (apply (HN d t); rewrite Eh; apply in_app_iff; left; exact Hin).
        rewrite (mo_dfor _ _ M) by exact Ld. apply (IH _ _ _ _ Eh d t Hin).
    + rewrite (Hc _ _ Hc') in Hh. destruct l1 as [|y l1]; [destruct Hin|].
      simpl in Hh. inversion Hh as [[Ey Eh]]. destruct Hin as [X|Hin]; [rewrite <- Ey in X; discriminate X|].
      assert (Ld : d < ndel s) by (apply (HN d t); rewrite Eh; apply in_app_iff; left; exact Hin).
      rewrite (mo_dfor _ _ M) by exact Ld. apply (IH _ _ _ _ Eh d t Hin).
Qed.

Lemma NS_step0 s e s' : NS s -> D2 s -> CI s -> HI s -> step0 s e = Some s' -> NS s'.
Proof.
  intros HN HD HC HH H. pose proof (MONO_step0 _ _ _ H) as HM. s0inv H; try exact HN.
  all: try (match goal with inl : option outcome |- _ => destruct inl end).
  all: bsplit; subst.
  all: try (apply (NS_ext s _ [] HN HM); [reflexivity|intros ? ? []|intros ? ? []]).
  all: try (match goal with |- NS (log ?BB ?h) => apply (NS_ext s _ [h] HN HM); [reflexivity| |];
     try (intros ? ? Hin; simpl in Hin; destruct Hin as [Ex|[]]; first [discriminate Ex | rewrite Ex; reflexivity]);
     try (intros ? ? Hin; simpl in Hin; destruct Hin as [Ex|[]]; discriminate Ex) end).
  all: try (match goal with |- NS (set_prog (log _ ?h) _ _) => apply (NS_ext s _ [h] HN HM); [reflexivity| |];
     try (intros ? ? Hin; simpl in Hin; destruct Hin as [Ex|[]]; discriminate Ex) end).
  - apply (NS_ext s _ [HDDone (ndel s) o (clock s); HStart (ndel s) (clock s);
        HDSubmit (jf (recs s r)) (ndel s) (S (jatt (recs s r))) (clock s) (jwhen (recs s r))] HN HM); [reflexivity| |].
    + intros ? ? Hin; simpl in Hin; destruct Hin as [Ex|[Ex|[Ex|[]]]]; discriminate Ex.
    + intros d0 t0 Hin; simpl in Hin; destruct Hin as [Ex|[Ex|[Ex|[]]]]; try discriminate Ex.
      inversion Ex; subst. unfold set_prog. simpl. split; [lia|]. intros j ts Hc. rewrite upd_same. intros Ej.
      destruct (ci_hist s HC j ts Hc) as [_ Cc].
      pose proof (HH _ _ _ Heql) as Hh. simpl in Hh. destruct Hh as [_ Hn]. rewrite Ej in Hn.
      destruct (rs s j); simpl in *; discriminate.
  - intros d0 t0 Hin. simpl in Hin. destruct Hin as [Ex|[]]. inversion Ex; subst. unfold log. simpl.
    split; [apply Nat.ltb_lt; assumption|]. intros j ts Hc Ej.
    destruct (ci_hist s HC j ts Hc) as [Lj Cc].
    assert (Ld : d0 < ndel s) by (apply Nat.ltb_lt; assumption).
    pose proof (HD j Lj Cc d0 Ld Ej) as X. rewrite H0 in X. discriminate X.
Qed.

Lemma NS_reach s : reachable_from step init s -> NS s.
Proof.
  apply (invariant_rule_r step NS).
  - split; [intros d t []|intros l1 j ts l2 E; destruct l1; discriminate E].
  - intros s0 e s' R IH H. apply step_split in H. destruct H as (s1 & Ht & H).
    apply tick_eq in Ht. subst s1. eapply NS_step0; [ | | | |exact H].
    + exact IH.
    + exact (D2_reach s0 R).
    + apply CI_tick, CI_reach, R.
    + apply HI_tick, HI_reach, R.
Qed.

Lemma retry_cancel_true_no_start : forall s, reachable_from step init s -> forall l1 j ts l2,
  hist s = l1 ++ HCancelRet j true ts :: l2 ->
  forall d t, In (HStart d t) l1 -> d < ndel s -> dfor s d <> j.
Proof. intros s R l1 j ts l2 E d t Hin _. apply (proj2 (NS_reach s R) l1 j ts l2 E d t Hin). Qed.
