(* C17 / Proxy2: the generated bodies, all of them: every one has one of ten shapes; its run is one resolution followed by the
   operation on the value, or (for the two constant ones) no resolution at all.  Facts about the regenerated table. *)
From Coq Require Import String List Bool Arith ZArith.
From ME Require Import Base.GenPrelude Base.ProxyPrelude Gen.ProxyGen Gen.Proxy2Gen Model.Proxy Model.Proxy2 Proofs.Proxy2_Dispatch Proofs.Proxy2_Forms.
Import ListNotations.
Local Open Scope string_scope.
Local Open Scope list_scope.

Section Run.
  Variable val : Type.
  Variable cmeth : val -> string -> option (list val -> cres val).
  Variable bpost : string -> res val -> res val.
  Variable bfallback : string -> val -> list val -> cres val.
  Variable fs : pstate val.
  Variable tmo : tval.
  Variable is_attr_err : nat -> bool.
  Variable vgetattr : val -> string -> cres val.
  Variable vtrue vfalse vnone : val.
  Notation RUN := (run_method val cmeth bpost bfallback fs tmo is_attr_err vgetattr vtrue vfalse vnone).
  Notation SM1 := (selfm1 val cmeth bpost bfallback fs tmo is_attr_err vgetattr vtrue vfalse vnone).
  Notation AR := (after_resolve val fs tmo).
  Notation CBIN := (cbinop val cmeth).
  Notation CUN := (cunop val cmeth).
  Notation CBUILTIN := (cbuiltin val cmeth bpost bfallback).
  Notation CALLB := (call_builtin val cmeth bpost bfallback).
  Notation CMCALL := (cmethod_call val cmeth).
  Hypothesis HS : sane_attr_err is_attr_err.

  (* what running a body of shape s on args amounts to *)
  Definition shape_sem (s : bshape) (args : list val) : cres val :=
    match s with
    | SBin o => AR (fun v => CBIN (fst (pop_dunder o)) (snd (pop_dunder o)) v (hd v args))
    | SUn o => AR (fun v => CUN (fst (pop_dunder o)) v)
    | SBuiltin fn => AR (fun v => CALLB fn (v :: args))
    | SGetItem => AR (fun v => CBUILTIN "operator.getitem" v args)
    | SSetItem => AR (fun v => CBUILTIN "operator.setitem" v args)
    | SDelItem => AR (fun v => CBUILTIN "operator.delitem" v args)
    | SContains => AR (fun v => CBUILTIN "operator.contains" v args)
    | SMethodCall mn => AR (fun v => CMCALL mn v args)
    | SConst => (RVal vtrue, [])
    | SConstVia callee => SM1 callee
    end.

  Lemma bexps_eqb_args rest params : bexps_eqb rest (args_of_params params) = true -> rest = args_of_params params.
  Proof.
    revert rest. induction params as [|[n st] r IH]; intros rest H; destruct rest as [|b rest]; simpl in *; try discriminate; auto.
    apply andb_prop in H. destruct H as [H1 H2]. rewrite (IH _ H2). f_equal.
    destruct st, b; simpl in H1; try discriminate; apply String.eqb_eq in H1; subst; reflexivity.
  Qed.

  Ltac norm :=
    repeat match goal with
    | H : _ && _ = true |- _ => apply andb_prop in H; destruct H
    | H : String.eqb _ _ = true |- _ => apply String.eqb_eq in H; subst
    | H : negb _ = false |- _ => apply negb_false_iff in H
    end.

  Theorem shape_run m s args : shape_of m = Some s -> arity_ok val (snd (fst m)) args = true -> RUN SM1 m args = shape_sem s args.
  Proof.
    destruct m as [[name params] body]. intros H AO. unfold shape_of in H. simpl in AO.
    destruct (nodup_names (map fst params)) eqn:ND; simpl in H; [|discriminate].
    repeat match type of H with context [match ?x with _ => _ end] => destruct x eqn:?; try discriminate H end.
    all: inversion H; subst; clear H; norm.
    all: try match goal with H : bexps_eqb _ _ = true |- _ => apply bexps_eqb_args in H; subst end.
    all: try (apply builtin_body_run; assumption).
    all: repeat match goal with
         | AO : arity_ok val _ ?a = true |- _ => is_var a; destruct a; simpl in AO; try discriminate AO
         | AO : context [match ?a with [] => _ | _ :: _ => _ end] |- _ => is_var a; destruct a; simpl in AO; try discriminate AO
         end.
    all: unfold run_method, shape_sem; simpl; rewrite ?String.eqb_refl.
    all: try reflexivity.
    all: try (simpl in ND; apply andb_prop in ND; destruct ND as [ND _]; apply negb_true_iff in ND; rewrite orb_false_r in ND;
              rewrite String.eqb_sym in ND; rewrite ND).
    all: rewrite ?bind1_val; rewrite ?(bind1_get_result _ _ _ _ _ _ _ HS); try reflexivity.
    all: try (apply AR_ext; intros v; rewrite ?bind1_val; try reflexivity).
    all: unfold bindl; simpl; apply pair_eta.
  Qed.

  (* consequences for the ghost log *)
  Corollary resolving_body_log m s args : shape_of m = Some s -> arity_ok val (snd (fst m)) args = true -> resolving_shape s = true ->
    exists k, RUN SM1 m args = AR k /\
      snd (RUN SM1 m args) = match resolve val fs tmo with RVal v => tmo :: snd (k v) | _ => [tmo] end /\
      ((forall v, resolve val fs tmo <> RVal v) -> RUN SM1 m args = (resolve val fs tmo, [tmo])).
  Proof.
    intros H AO R. rewrite (shape_run _ _ _ H AO).
    destruct s; try discriminate R; simpl shape_sem; eexists; (split; [reflexivity|]);
      unfold after_resolve; (split; [destruct (resolve val fs tmo); reflexivity|]);
      intros N; destruct (resolve val fs tmo) as [w| |e]; try reflexivity; exfalso; apply (N w); reflexivity.
  Qed.
  Lemma selfm1_bool : SM1 "__bool__" = (RVal vtrue, []).
  Proof. reflexivity. Qed.
  Corollary constant_body_log m s args : shape_of m = Some s -> arity_ok val (snd (fst m)) args = true ->
    s = SConst \/ s = SConstVia "__bool__" -> RUN SM1 m args = (RVal vtrue, []).
  Proof. intros H AO [->| ->]; rewrite (shape_run _ _ _ H AO); [reflexivity|apply selfm1_bool]. Qed.
End Run.

(* ---- the regenerated table ---------------------------------------------------------------------------- *)
Lemma bodies_agree_with_table : tables_agree proxy_bodies proxy_table = true.
Proof. vm_compute. reflexivity. Qed.
Lemma bodies_all_shaped : forallb (fun m => match shape_of m with Some _ => true | None => false end) proxy_bodies = true.
Proof. vm_compute. reflexivity. Qed.
Lemma bodies_names_unique : nodup_names (map mname proxy_bodies) = true.
Proof. vm_compute. reflexivity. Qed.
Lemma bodies_found : Forall (fun m => find_body (mname m) = Some m) proxy_bodies.
Proof. repeat (constructor; [vm_compute; reflexivity|]). constructor. Qed.
(* exactly __bool__ / __nonzero__ do not resolve; their shapes are the constant ones *)
Lemma non_resolving_bodies :
  map (fun m => (mname m, shape_of m)) (filter (fun m => match shape_of m with Some s => negb (resolving_shape s) | None => true end) proxy_bodies)
  = [("__bool__", Some SConst); ("__nonzero__", Some (SConstVia "__bool__"))].
Proof. vm_compute. reflexivity. Qed.
Lemma resolving_bodies_count :
  length (filter (fun m => match shape_of m with Some s => resolving_shape s | None => false end) proxy_bodies) = 31.
Proof. vm_compute. reflexivity. Qed.
(* repr / str / equality / hashing / ordering are not in the table; they are the inherited, identity-based ones *)
Lemma identity_dunders_inherited :
  forallb (fun n => match find_body n with None => mem n object_dunders | Some _ => false end)
          ["__repr__"; "__str__"; "__eq__"; "__ne__"; "__hash__"; "__lt__"; "__le__"; "__gt__"; "__ge__"; "__format__"] = true.
Proof. vm_compute. reflexivity. Qed.
Lemma unproxied_dunders_absent :
  forallb (fun n => match find_body n with None => negb (mem n object_dunders) | Some _ => false end)
          ["__index__"; "__matmul__"; "__enter__"; "__exit__"; "__bytes__"; "__call__"; "__next__"; "__await__"; "__radd__"] = true.
Proof. vm_compute. reflexivity. Qed.

(* ---- the per-form theorems of Proofs/Proxy2_Forms.v for EVERY entry of the regenerated table ---------------------- *)
Ltac norm_t :=
  repeat match goal with
  | H : _ && _ = true |- _ => apply andb_prop in H; destruct H
  | H : String.eqb _ _ = true |- _ => apply String.eqb_eq in H; subst
  end.
Ltac invert_shape H :=
  unfold shape_of in H;
  match type of H with context [nodup_names ?l] => destruct (nodup_names l) eqn:ND; simpl in H; [|discriminate H] end;
  repeat match type of H with context [match ?x with _ => _ end] => destruct x eqn:?; try discriminate H end;
  inversion H; subst; clear H; norm_t.

Lemma shape_bin_inv m o : shape_of m = Some (SBin o) ->
  exists a, m = (mname m, [(a, false)], BBin o BResult (BArg a)) /\ pop_dunder o = (mname m, snd (pop_dunder o)).
Proof.
  destruct m as [[name params] body]. intros H. invert_shape H. eexists. split; [reflexivity|].
  unfold mname; simpl. destruct (pop_dunder o); reflexivity.
Qed.
Lemma shape_un_inv m o : shape_of m = Some (SUn o) ->
  m = (mname m, [], BUn o BResult) /\ pop_dunder o = (mname m, snd (pop_dunder o)).
Proof.
  destruct m as [[name params] body]. intros H. invert_shape H. split; [reflexivity|].
  unfold mname; simpl. destruct (pop_dunder o); reflexivity.
Qed.
Lemma shape_builtin_inv m fn : shape_of m = Some (SBuiltin fn) ->
  m = (mname m, snd (fst m), BCall fn (BResult :: args_of_params (snd (fst m)))) /\ builtin_dunder fn = mname m /\
  nodup_names (map fst (snd (fst m))) = true.
Proof.
  destruct m as [[name params] body]. intros H. invert_shape H.
  match goal with H : bexps_eqb _ _ = true |- _ => apply bexps_eqb_args in H; subst end.
  repeat split; assumption.
Qed.

Lemma in_bodies_found m : In m proxy_bodies -> find_body (mname m) = Some m.
Proof. intros H. pose proof bodies_found as F. rewrite Forall_forall in F. apply F; exact H. Qed.

Section Table.
  Variable val : Type.
  Variable cmeth : val -> string -> option (list val -> cres val).
  Variable bpost : string -> res val -> res val.
  Variable bfallback : string -> val -> list val -> cres val.
  Variable fs : pstate val.
  Variable tmo : tval.
  Variable is_attr_err : nat -> bool.
  Variable vgetattr : val -> string -> cres val.
  Variable vtrue vfalse vnone : val.
  Variable obj_sem : string -> list val -> res val.
  Variable p : val.
  Notation PAT := (proxy_at val cmeth bpost bfallback fs tmo is_attr_err vgetattr vtrue vfalse vnone obj_sem p).
  Notation AR := (after_resolve val fs tmo).
  Hypothesis HS : sane_attr_err is_attr_err.

  (* every binary operator the table forwards, applied to the proxy as the LEFT operand *)
  Theorem table_binop_resolves_once m o b : In m proxy_bodies -> shape_of m = Some (SBin o) -> PAT (mname m) [b] ->
    cbinop val cmeth (mname m) (snd (pop_dunder o)) p b = AR (fun v => cbinop val cmeth (mname m) (snd (pop_dunder o)) v b).
  Proof.
    intros HI HSh HA. destruct (shape_bin_inv _ _ HSh) as (a & Em & Ep).
    eapply (binop_body_resolves_once val cmeth bpost bfallback fs tmo is_attr_err vgetattr vtrue vfalse vnone obj_sem p HS);
      [exact HA| |exact Ep]. rewrite <- Em. apply in_bodies_found; exact HI.
  Qed.
  (* every unary operator *)
  Theorem table_unop_resolves_once m o : In m proxy_bodies -> shape_of m = Some (SUn o) -> PAT (mname m) [] ->
    cunop val cmeth (mname m) p = AR (fun v => cunop val cmeth (mname m) v).
  Proof.
    intros HI HSh HA. destruct (shape_un_inv _ _ HSh) as (Em & Ep).
    eapply (unop_body_resolves_once val cmeth bpost bfallback fs tmo is_attr_err vgetattr vtrue vfalse vnone obj_sem p HS);
      [exact HA| |exact Ep]. rewrite <- Em. apply in_bodies_found; exact HI.
  Qed.
  (* every builtin (len iter divmod pow abs complex int float round math.trunc / floor / ceil), with any admissible arguments *)
  Theorem table_builtin_resolves_once m fn args : In m proxy_bodies -> shape_of m = Some (SBuiltin fn) -> PAT (mname m) args ->
    arity_ok val (snd (fst m)) args = true -> post_ok val bpost bfallback fn ->
    call_builtin val cmeth bpost bfallback fn (p :: args) = AR (fun v => call_builtin val cmeth bpost bfallback fn (v :: args)).
  Proof.
    intros HI HSh HA AO PO. destruct (shape_builtin_inv _ _ HSh) as (Em & Ed & ND).
    eapply (builtin_body_resolves_once val cmeth bpost bfallback fs tmo is_attr_err vgetattr vtrue vfalse vnone obj_sem p HS);
      [exact HA| |exact Ed|exact ND|exact AO|exact PO]. rewrite <- Em. apply in_bodies_found; exact HI.
  Qed.

  (* EXACTLY one resolution: when the plain values of the universe perform no resolution of their own (their methods log nothing),
     the log of a forwarded operation is the configured timeout and nothing else -- whatever the state of the future *)
  Definition quiet_values : Prop :=
    (forall x n f args, x <> p -> cmeth x n = Some f -> snd (f args) = []) /\ (forall fn x rest, x <> p -> snd (bfallback fn x rest) = []).
  Lemma quiet_cbinop op rop a b : quiet_values -> a <> p -> b <> p -> snd (cbinop val cmeth op rop a b) = [].
  Proof.
    intros [Q _] Na Nb.
    assert (snd (creflected val cmeth rop a b) = []) as R.
    { unfold creflected. destruct (cmeth b rop) as [g|] eqn:E; simpl; [apply (Q b rop g [a] Nb E)|reflexivity]. }
    unfold cbinop. destruct (cmeth a op) as [f|] eqn:E; [|exact R].
    pose proof (Q a op f [b] Na E) as L. destruct (fst (f [b])); simpl; rewrite ?L, ?R; reflexivity.
  Qed.
  Lemma quiet_cunop op a : quiet_values -> a <> p -> snd (cunop val cmeth op a) = [].
  Proof. intros [Q _] Na. unfold cunop. destruct (cmeth a op) as [f|] eqn:E; simpl; [apply (Q a op f [] Na E)|reflexivity]. Qed.
  Lemma quiet_call_builtin fn a rest : quiet_values -> a <> p -> hd a rest <> p ->
    snd (call_builtin val cmeth bpost bfallback fn (a :: rest)) = [].
  Proof.
    intros QV Na Nb. unfold call_builtin. destruct (binary_builtin fn (length (a :: rest))); [apply quiet_cbinop; assumption|].
    destruct QV as [Q QF]. unfold cbuiltin. destruct (cmeth a (builtin_dunder fn)) as [f|] eqn:E; simpl; [apply (Q a _ f rest Na E)|apply QF; exact Na].
  Qed.
  Definition value_not_proxy : Prop := forall v, fs = PResolved v -> v <> p.
  Lemma AR_quiet_log (k : val -> cres val) : value_not_proxy -> (forall v, v <> p -> snd (k v) = []) -> snd (AR k) = [tmo].
  Proof.
    intros VN K. unfold after_resolve. destruct fs as [v|e|] eqn:E; simpl.
    - rewrite K; [reflexivity|]. apply VN. exact E.
    - reflexivity.
    - destruct tmo; reflexivity.
  Qed.
  Theorem table_binop_exactly_one m o b : In m proxy_bodies -> shape_of m = Some (SBin o) -> PAT (mname m) [b] ->
    quiet_values -> value_not_proxy -> b <> p -> snd (cbinop val cmeth (mname m) (snd (pop_dunder o)) p b) = [tmo].
  Proof.
    intros HI HSh HA QV VN Nb. rewrite (table_binop_resolves_once m o b HI HSh HA). apply AR_quiet_log; [exact VN|].
    intros v Nv. apply quiet_cbinop; assumption.
  Qed.
  Theorem table_unop_exactly_one m o : In m proxy_bodies -> shape_of m = Some (SUn o) -> PAT (mname m) [] ->
    quiet_values -> value_not_proxy -> snd (cunop val cmeth (mname m) p) = [tmo].
  Proof.
    intros HI HSh HA QV VN. rewrite (table_unop_resolves_once m o HI HSh HA). apply AR_quiet_log; [exact VN|].
    intros v Nv. apply quiet_cunop; assumption.
  Qed.
  Theorem table_builtin_exactly_one m fn args : In m proxy_bodies -> shape_of m = Some (SBuiltin fn) -> PAT (mname m) args ->
    arity_ok val (snd (fst m)) args = true -> post_ok val bpost bfallback fn ->
    quiet_values -> value_not_proxy -> (forall a, In a args -> a <> p) ->
    snd (call_builtin val cmeth bpost bfallback fn (p :: args)) = [tmo].
  Proof.
    intros HI HSh HA AO PO QV VN NA. rewrite (table_builtin_resolves_once m fn args HI HSh HA AO PO). apply AR_quiet_log; [exact VN|].
    intros v Nv. apply quiet_call_builtin; [exact QV|exact Nv|]. destruct args as [|a r]; simpl; [exact Nv|apply NA; left; reflexivity].
  Qed.
End Table.

(* which entries these cover *)
Lemma table_shapes_census :
  map (fun m => mname m) (filter (fun m => match shape_of m with Some (SBin _) => true | _ => false end) proxy_bodies) =
    ["__add__"; "__sub__"; "__mul__"; "__truediv__"; "__floordiv__"; "__mod__"; "__lshift__"; "__rshift__"; "__and__"; "__xor__"; "__or__"] /\
  map (fun m => mname m) (filter (fun m => match shape_of m with Some (SUn _) => true | _ => false end) proxy_bodies) =
    ["__neg__"; "__pos__"; "__invert__"] /\
  map (fun m => mname m) (filter (fun m => match shape_of m with Some (SBuiltin _) => true | _ => false end) proxy_bodies) =
    ["__len__"; "__iter__"; "__divmod__"; "__pow__"; "__abs__"; "__complex__"; "__int__"; "__float__"; "__round__"; "__trunc__"; "__floor__"; "__ceil__"] /\
  map (fun m => mname m) (filter (fun m => match shape_of m with Some SGetItem | Some SSetItem | Some SDelItem | Some SContains | Some (SMethodCall _) => true | _ => false end) proxy_bodies) =
    ["__getitem__"; "__setitem__"; "__delitem__"; "__contains__"; "__div__"].
Proof. vm_compute. repeat split; reflexivity. Qed.
