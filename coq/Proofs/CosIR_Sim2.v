(* Lockstep of the IR machine (generated programs) and Cos.v: the shutdown() side and the theorem. *)
From Coq Require Import List Arith Bool Lia PeanoNat.
From ME Require Import Base.Machine Base.Fut Model.Cos Model.CosIR Gen.CosSkel Proofs.CosIR_Sim.
Import ListNotations.

Lemma ls_dshutdown s cs t : R s cs -> lock_ok (gstep s (DShutdown t)) (step cs (DShutdown t)).
Proof.
  intros HR. open_R HR s cs.
  unfold gstep, istep, step. simpl.
  thread_cases Hth th' t; try exact I; solve_R Hth t.
Qed.

Lemma ls_ret s cs t r : R s cs -> lock_ok (gstep s (Ret t r)) (step cs (Ret t r)).
Proof.
  intros HR. open_R HR s cs.
  unfold gstep, istep, step, set_thr. simpl.
  thread_cases Hth th' t; destruct r; simpl; try exact I;
    rewrite ?orb_false_r, ?orb_true_r; solve_R Hth t.
Qed.

Lemma ls_cancel s cs t f p : R s cs -> lock_ok (gstep s (Cancel t f p)) (step cs (Cancel t f p)).
Proof.
  intros HR. open_R HR s cs.
  unfold gstep, istep, step.
  Opaque remove_f memb srun.
  simpl.
  thread_cases Hth th' t; try exact I.
    destruct (memb f (fq :: todo)); simpl; [|exact I].
    destruct (fstate_eqb p (ff f)); simpl; [|exact I].
    Transparent srun.
    destruct (remove_f f (fq :: todo)) as [|fr rest] eqn:Er; destruct (snd (f_cancel p)); simpl;
      solve_R Hth t.
Qed.
Transparent remove_f memb srun.

(* THE LOCKSTEP THEOREM: from related states, every event is accepted by both machines (and the successors are
   related) or rejected by both. *)
Theorem lockstep s cs e : R s cs -> lock_ok (gstep s e) (step cs e).
Proof.
  intros HR. destruct e as [t|t|t l|t l|t f d|t f p|t f p|t|t r|f p|f p].
  - apply ls_call_submit; exact HR.
  - apply ls_call_shutdown; exact HR.
  - apply ls_acq; exact HR.
  - apply ls_rel; exact HR.
  - apply ls_dsubmit; exact HR.
  - apply ls_addcb; exact HR.
  - apply ls_cancel; exact HR.
  - apply ls_dshutdown; exact HR.
  - apply ls_ret; exact HR.
  - apply ls_env_run; exact HR.
  - apply ls_env_finish; exact HR.
Qed.
