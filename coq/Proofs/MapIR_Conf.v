(* PATH CONFORMANCE of the methods REGENERATED FROM THE SOURCE (Gen/MapSkel.v) with Model/MapFut.v: definitions of the
   check (entry points, configurations, scenarios) and the soundness of [drive].  The checks themselves are run in
   Proofs/MapIR_Conf_{New,Cancel,AddCb,Resolved}.v. *)
From Coq Require Import ZArith List Bool Arith String.
From RecordUpdate Require Import RecordSet.
From ME Require Import Base.Machine Base.Fut Base.GenPrelude Model.MapFut Model.MapIR Gen.MapSkel.
Import ListNotations RecordSetNotations.
(* o_intf is set through RecordSet *)

(* ---- the finite families -------------------------------------------------------------------------- *)
Definition cb_lists : list (list nat) := [[]; [40]; [40; 41]].
Definition all_cfgs : list cfg :=
  flat_map (fun k => flat_map (fun fn => flat_map (fun efn => flat_map (fun fl => map (fun cbs => mkCfg k fn efn fl cbs) cb_lists)
    [false; true]) [false; true]) [false; true]) [KMap; KFlat].
(* outside Model/MapFut.v: a FlatMapFuture without fn (it maps through futures.f_return: `KFlat => None` in step), and
   meaningless: a flattened MapFuture *)
Definition cfg_ok (c : cfg) : bool :=
  match c_kind c with
  | KMap => negb (c_flat c)
  | KFlat => c_fn c || c_flat c
  end.
Definition cfgs : list cfg := filter cfg_ok all_cfgs.

Definition e1_states : list (fstate * outcome) :=
  [(Pending, Ok 5); (Running, Ok 5); (Cancelled, Ok 5); (CancelledNotified, Ok 5); (Finished, Ok 5); (Finished, Err 7)].
Definition e3_states : list (fstate * outcome) := [(Pending, Ok 6); (CancelledNotified, Ok 6); (Finished, Ok 6); (Finished, Err 8)].
Definition scns : list scn :=
  flat_map (fun sf => flat_map (fun dl => flat_map (fun '(e1, o1) => map (fun '(e3, o3) => mkScn sf dl e1 o1 e3 o3) e3_states) e1_states)
    [None; Some 1]) [Pending; CancelledNotified; Finished].

(* ---- entry points ---------------------------------------------------------------------------------- *)
Inductive entry :=
| EnNew                       (* MapFuture(d1, fn, error_fn) / FlatMapFuture(d1, fn, error_fn) *)
| EnCancel                    (* future.cancel() *)
| EnAddCb                     (* future.add_done_callback(cb50) *)
| EnResolved (how : nat).     (* the environment completes d1 (0: result 5, 1: exception 7, 2: cancel) and the stdlib runs _delegate_resolved *)

Definition NEWCB := 50.

Definition applicable (en : entry) (c : cfg) (x : scn) : bool :=
  match en with
  | EnNew => negb (c_flat c) && isnil (c_cbs c) && fstate_eqb (s_self x) Pending && isnone (s_del x)
  | EnCancel | EnAddCb => true
  | EnResolved how =>
      match s_del x with
      | Some 1 => negb (fdone (s_e1 x)) && (if Nat.eqb how 2 then fstate_eqb (s_e1 x) Pending else true)
      | _ => false
      end
  end.

Definition entry_state (en : entry) (c : cfg) (x : scn) : st :=
  match en with EnNew => state_of c x <| nfut := 0 |> | _ => state_of c x end.

Definition entry_ev (en : entry) (c : cfg) (x : scn) : ev :=
  match en with
  | EnNew => ECallNew T J (c_kind c) (c_fn c) (c_efn c) 1
  | EnCancel => ECallCancel T J
  | EnAddCb => ECallAddCb T J NEWCB
  | EnResolved 0 => EEnvFinish T 1 (s_e1 x) (Ok 5)
  | EnResolved 1 => EEnvFinish T 1 (s_e1 x) (Err 7)
  | EnResolved _ => EEnvCancel T 1 (s_e1 x)
  end.

Definition entry_env (en : entry) (c : cfg) (x : scn) : env :=
  let E := env_of c x in
  match en with
  | EnResolved how =>
      E <| o_es := upd (o_es E) 1 (if Nat.eqb how 2 then Cancelled else Finished) |>
        <| o_eout := upd (o_eout E) 1 (if Nat.eqb how 2 then None else Some (if Nat.eqb how 0 then Ok 5 else Err 7)) |>
        <| o_reg := upd (o_reg E) 1 false |>
  | _ => E
  end.

Definition entry_call (en : entry) (c : cfg) : mname * list sval :=
  match en with
  | EnNew => (M_new, [SVFut 1; if c_fn c then SVUserFn else SVNone; if c_efn c then SVUserEfn else SVNone])
  | EnCancel => (M_cancel, [])
  | EnAddCb => (M_add_done_callback, [SVCb NEWCB])
  | EnResolved _ => (M_delegate_resolved, [SVFut 1])
  end.

(* the instruction by which the API call returns to its caller *)
Definition entry_ret (en : entry) (v : sval) : option (list item) :=
  match en, v with
  | EnNew, SVNone | EnAddCb, SVNone => Some [mkItem T IRet (ARet 0) false None]
  | EnCancel, SVBool b => Some [mkItem T (IRetB b) (ARet 0) false None]
  | EnResolved _, SVNone => Some []
  | _, _ => None
  end.

(* every path of the generated method, as the list of instructions it puts at the head of the thread's program;
   n = how many interferences by a second thread (a whole cancel() call, or the environment finishing d3 and the callback
   that fires) may be inserted between two visible operations made while M is not held *)
Definition paths_n (n : nat) (en : entry) (c : cfg) (x : scn) : list (env * completion) :=
  let '(m, vs) := entry_call en c in run_method meth (entry_env en c x <| o_intf := n |>) m vs.
Definition paths := paths_n 0.

Definition path_items (en : entry) (p : env * completion) : option (list item) :=
  match snd p with
  | KReturn v => option_map (fun r => rev (o_items (fst p)) ++ r) (entry_ret en v)
  | _ => None
  end.

Definition path_ok (en : entry) (c : cfg) (x : scn) (p : env * completion) : bool :=
  match path_items en p, step (entry_state en c x) (entry_ev en c x) with
  | Some its, Some s1 =>
      match drive s1 its with
      | Some (_, s2) => isnil (thr s2 T) && isnil (thr s2 T2) && agree s2 (fst p)
      | None => false
      end
  | _, _ => false
  end.

Definition conf_n (n : nat) (en : entry) (c : cfg) (x : scn) : bool :=
  negb (applicable en c x) || (negb (isnil (paths_n n en c x)) && forallb (path_ok en c x) (paths_n n en c x)).
Definition conf := conf_n 0.

Definition conf_all_n (n : nat) (en : entry) : bool := forallb (fun c => forallb (conf_n n en c) scns) cfgs.
Definition conf_all := conf_all_n 0.

(* ---- soundness of drive ------------------------------------------------------------------------------ *)
Lemma instr_eqb_eq a b : instr_eqb a b = true -> a = b.
Proof.
  destruct a, b; simpl; intros Heq; try discriminate; try reflexivity;
    repeat match goal with
           | H : _ && _ = true |- _ => apply andb_prop in H; destruct H
           | H : Nat.eqb _ _ = true |- _ => apply Nat.eqb_eq in H; subst
           | H : Bool.eqb _ _ = true |- _ => apply Bool.eqb_prop in H; subst
           | H : match ?x with _ => _ end = true |- _ => destruct x; try discriminate
           end; reflexivity.
Qed.

Lemma drive_sound : forall its s evs s2,
  drive s its = Some (evs, s2) ->
  run step s evs = Some s2 /\ heads s (map it_t its) evs = Some (map it_head its).
Proof.
  induction its as [|it r IH]; intros s evs s2 H; simpl in H.
  - inversion H; subst; simpl; split; reflexivity.
  - unfold it_head at 1. simpl map.
    destruct (it_call it) as [e0|] eqn:Hcall; destruct (thr s (it_t it)) as [|i p] eqn:Hthr; try discriminate.
    + destruct (step s e0) as [s'|] eqn:Hs; [|discriminate].
      destruct (drive s' r) as [[es s3]|] eqn:Hd; [|discriminate].
      inversion H; subst. destruct (IH _ _ _ Hd) as [Hr Hh].
      simpl. rewrite Hs, Hthr, Hr, Hh. split; reflexivity.
    + destruct (instr_eqb i (it_instr it)) eqn:Hi; [|discriminate].
      destruct (ev_of s (it_t it) it) as [e|] eqn:He; [|discriminate].
      destruct (step s e) as [s'|] eqn:Hs; [|discriminate].
      destruct (drive s' r) as [[es s3]|] eqn:Hd; [|discriminate].
      inversion H; subst. destruct (IH _ _ _ Hd) as [Hr Hh].
      apply instr_eqb_eq in Hi. simpl. rewrite Hs, Hthr, Hr, Hh, Hi. split; reflexivity.
Qed.
