(* C02 -- the Future protocol of a library future, machine independent.
   A machine (Throttle / Poll / Timeout) is looked at through a VIEW: the number of allocated library futures, their
   stdlib state (Base/Fut.v), their recorded outcome and the protocol part of the ghost history (outcome set,
   cancelled, cancel() returned b).  [vstep] lists what ONE machine step may do to the view; each machine proves that
   every step from a reachable state is a [vstep] of its view (Proto_<M>_V.v, using its program-shape invariant for
   the side conditions: ids are allocated, a True return happens only on a cancelled future).  Everything below
   follows for every such machine, by induction over [run]. *)
From Coq Require Import List Bool Arith Lia.
From ME Require Import Base.Machine Base.Fut.
Import ListNotations.

(* ---- filter-map ---------------------------------------------------------------------------------- *)
Fixpoint pmap {A B : Type} (f : A -> option B) (l : list A) : list B :=
  match l with
  | [] => []
  | a :: r => match f a with Some b => b :: pmap f r | None => pmap f r end
  end.
Lemma pmap_app {A B : Type} (f : A -> option B) l1 l2 : pmap f (l1 ++ l2) = pmap f l1 ++ pmap f l2.
Proof. induction l1 as [|a r IH]; simpl; [reflexivity|]. destruct (f a); simpl; rewrite IH; reflexivity. Qed.
Lemma in_pmap {A B : Type} (f : A -> option B) l a b : In a l -> f a = Some b -> In b (pmap f l).
Proof.
  induction l as [|x r IH]; simpl; [tauto|]. intros [->|Hin] Hf.
  - rewrite Hf. left. reflexivity.
  - destruct (f x); [right|]; auto.
Qed.
Lemma in_pmap_inv {A B : Type} (f : A -> option B) l b : In b (pmap f l) -> exists a, In a l /\ f a = Some b.
Proof.
  induction l as [|x r IH]; simpl; [tauto|]. destruct (f x) as [y|] eqn:E.
  - intros [->|Hin]; [exists x; auto|]. destruct (IH Hin) as [a [A1 A2]]. exists a; auto.
  - intros Hin. destruct (IH Hin) as [a [A1 A2]]. exists a; auto.
Qed.

(* what may still change on a done future: the stdlib's CANCELLED -> CANCELLED_AND_NOTIFIED refinement *)
Definition frefines (a b : fstate) : Prop := a = b \/ (a = Cancelled /\ b = CancelledNotified).
Lemma frefines_refl a : frefines a a. Proof. left. reflexivity. Qed.
Lemma frefines_trans a b c : frefines a b -> frefines b c -> frefines a c.
Proof. unfold frefines. intros [H1|[H1 H2]] [H3|[H3 H4]]; subst; auto; discriminate. Qed.
Lemma frefines_done a b : frefines a b -> fdone a = true -> fdone b = true.
Proof. intros [->|[-> ->]]; auto. Qed.
Lemma frefines_cancelled a b : frefines a b -> fcancelled a = fcancelled b.
Proof. intros [->|[-> ->]]; auto. Qed.
Lemma frefines_finished a b : frefines a b -> a = Finished -> b = Finished.
Proof. intros [->|[-> ->]]; auto; discriminate. Qed.

Section Proto.
Variable O : Type.

Inductive pev := PSet (j : nat) (o : O) | PCancelled (j : nat) | PCancelRet (j : nat) (b : bool).

Record view := mkView { vn : nat; vs : nat -> fstate; vo : nat -> option O; vh : list pev }.

Definition same_at (v v' : view) (k : nat) : Prop := vs v' k = vs v k /\ vo v' k = vo v k.

Inductive vstep (v v' : view) : Prop :=
| VNeutral : vn v' = vn v -> (forall k, same_at v v' k) -> vh v' = vh v -> vstep v v'
| VNew : vn v' = S (vn v) -> (forall k, k <> vn v -> same_at v v' k) ->
         vs v' (vn v) = Pending -> vo v' (vn v) = None -> vh v' = vh v -> vstep v v'
| VCancel j : j < vn v -> snd (f_cancel (vs v j)) = true -> vn v' = vn v -> (forall k, k <> j -> same_at v v' k) ->
         vs v' j = fst (f_cancel (vs v j)) -> vo v' j = vo v j -> vh v' = PCancelled j :: vh v -> vstep v v'
| VSrnc j n b : j < vn v -> f_srnc (vs v j) = Some (n, b) -> vn v' = vn v -> (forall k, k <> j -> same_at v v' k) ->
         vs v' j = n -> vo v' j = vo v j -> vh v' = vh v -> vstep v v'
| VSet j o n : j < vn v -> f_set (vs v j) = Some n -> vn v' = vn v -> (forall k, k <> j -> same_at v v' k) ->
         vs v' j = n -> vo v' j = Some o -> vh v' = PSet j o :: vh v -> vstep v v'
| VRet j b : (b = true -> fcancelled (vs v j) = true) -> vn v' = vn v -> (forall k, same_at v v' k) ->
         vh v' = PCancelRet j b :: vh v -> vstep v v'.

(* e speaks about a terminal event of future j: an outcome, a cancellation, a True return of cancel() *)
Definition touch (j : nat) (e : pev) : Prop :=
  match e with PSet j' _ => j' = j | PCancelled j' => j' = j | PCancelRet j' b => j' = j /\ b = true end.

Record VInv (v : view) : Prop := {
  vi_fresh : forall j, vn v <= j -> vs v j = Pending /\ vo v j = None;
  vi_out : forall j o, vo v j = Some o -> vs v j = Finished;
  vi_fin : forall j, vs v j = Finished -> exists o, vo v j = Some o /\ In (PSet j o) (vh v);
  vi_canc : forall j, fcancelled (vs v j) = true -> In (PCancelled j) (vh v);
  vi_hset : forall j o, In (PSet j o) (vh v) -> vs v j = Finished /\ vo v j = Some o;
  vi_hcanc : forall j, In (PCancelled j) (vh v) -> fcancelled (vs v j) = true;
  vi_hret : forall j, In (PCancelRet j true) (vh v) -> fcancelled (vs v j) = true;
  vi_once : forall l1 j o l2, vh v = l1 ++ PSet j o :: l2 -> forall e, In e (l1 ++ l2) -> ~ touch j e
}.

Definition vinit (v : view) : Prop := vn v = 0 /\ (forall j, vs v j = Pending /\ vo v j = None) /\ vh v = [].

Lemma vinv_init v : vinit v -> VInv v.
Proof.
  intros [H0 [H1 H2]]. constructor.
  - intros j _. apply H1.
  - intros j o Ho. destruct (H1 j) as [_ E]. rewrite E in Ho. discriminate.
  - intros j Hf. destruct (H1 j) as [E _]. rewrite E in Hf. discriminate.
  - intros j Hc. destruct (H1 j) as [E _]. rewrite E in Hc. discriminate.
  - intros j o Hin. rewrite H2 in Hin. contradiction.
  - intros j Hin. rewrite H2 in Hin. contradiction.
  - intros j Hin. rewrite H2 in Hin. contradiction.
  - intros l1 j o l2 E. rewrite H2 in E. destruct l1; discriminate.
Qed.

(* a touching event at the head of the new history contradicts a finished future *)
Lemma once_cons e h :
  (forall l1 j o l2, h = l1 ++ PSet j o :: l2 -> forall x, In x (l1 ++ l2) -> ~ touch j x) ->
  (forall j o, In (PSet j o) h -> ~ touch j e) ->
  (forall j o, e = PSet j o -> forall x, In x h -> ~ touch j x) ->
  forall l1 j o l2, e :: h = l1 ++ PSet j o :: l2 -> forall x, In x (l1 ++ l2) -> ~ touch j x.
Proof.
  intros Hold Hnew Hset l1 j o l2 E x Hin. destruct l1 as [|a l1']; simpl in E.
  - injection E as Ea Eh. subst h. simpl in Hin. eapply Hset; eauto.
  - injection E as Ea Eh. subst a. simpl in Hin. destruct Hin as [<-|Hin].
    + eapply Hnew. rewrite Eh. apply in_or_app. right. left. reflexivity.
    + eapply Hold; eauto.
Qed.

Lemma touch_done v j e : VInv v -> In e (vh v) -> touch j e -> fdone (vs v j) = true.
Proof.
  intros I Hin Ht. destruct e as [j' o|j'|j' b]; simpl in Ht.
  - subst. destruct (vi_hset _ I _ _ Hin) as [E _]. rewrite E. reflexivity.
  - subst. pose proof (vi_hcanc _ I _ Hin) as E. destruct (vs v j); simpl in *; congruence.
  - destruct Ht as [-> ->]. pose proof (vi_hret _ I _ Hin) as E. destruct (vs v j); simpl in *; congruence.
Qed.

Lemma vinv_step v v' : VInv v -> vstep v v' -> VInv v'.
Proof.
  intros I Hs. destruct I as [F1 F2 F3 F4 F5 F6 F7 F8].
  assert (I : VInv v) by (constructor; assumption).
  destruct Hs as [Hn Hsame Hh | Hn Hsame Hs0 Ho0 Hh | j Hj Hb Hn Hsame Hsj Hoj Hh | j n b Hj Hb Hn Hsame Hsj Hoj Hh
                 | j o n Hj Hb Hn Hsame Hsj Hoj Hh | j b Hb Hn Hsame Hh].
  - (* neutral *)
    constructor; rewrite ?Hh, ?Hn.
    + intros k Hk. destruct (Hsame k) as [E1 E2]. rewrite E1, E2. auto.
    + intros k o Hk. destruct (Hsame k) as [E1 E2]. rewrite E1. rewrite E2 in Hk. eauto.
    + intros k Hk. destruct (Hsame k) as [E1 E2]. rewrite E2. rewrite E1 in Hk. eauto.
    + intros k Hk. destruct (Hsame k) as [E1 E2]. rewrite E1 in Hk. eauto.
    + intros k o Hin. destruct (Hsame k) as [E1 E2]. rewrite E1, E2. eauto.
    + intros k Hin. destruct (Hsame k) as [E1 E2]. rewrite E1. eauto.
    + intros k Hin. destruct (Hsame k) as [E1 E2]. rewrite E1. eauto.
    + exact F8.
  - (* new *)
    constructor; rewrite ?Hh, ?Hn.
    + intros k Hk. assert (Hne : k <> vn v) by lia. destruct (Hsame k Hne) as [E1 E2]. rewrite E1, E2. apply F1. lia.
    + intros k o Hk. destruct (Nat.eq_dec k (vn v)) as [->|Hne]; [rewrite Ho0 in Hk; discriminate|].
      destruct (Hsame k Hne) as [E1 E2]. rewrite E1. rewrite E2 in Hk. eauto.
    + intros k Hk. destruct (Nat.eq_dec k (vn v)) as [->|Hne]; [rewrite Hs0 in Hk; discriminate|].
      destruct (Hsame k Hne) as [E1 E2]. rewrite E2. rewrite E1 in Hk. eauto.
    + intros k Hk. destruct (Nat.eq_dec k (vn v)) as [->|Hne]; [rewrite Hs0 in Hk; discriminate|].
      destruct (Hsame k Hne) as [E1 E2]. rewrite E1 in Hk. eauto.
    + intros k o Hin. destruct (Nat.eq_dec k (vn v)) as [->|Hne].
      * destruct (F5 _ _ Hin) as [E _]. destruct (F1 (vn v) (le_n _)) as [E' _]. congruence.
      * destruct (Hsame k Hne) as [E1 E2]. rewrite E1, E2. eauto.
    + intros k Hin. destruct (Nat.eq_dec k (vn v)) as [->|Hne].
      * pose proof (F6 _ Hin) as E. destruct (F1 (vn v) (le_n _)) as [E' _]. rewrite E' in E. discriminate.
      * destruct (Hsame k Hne) as [E1 E2]. rewrite E1. eauto.
    + intros k Hin. destruct (Nat.eq_dec k (vn v)) as [->|Hne].
      * pose proof (F7 _ Hin) as E. destruct (F1 (vn v) (le_n _)) as [E' _]. rewrite E' in E. discriminate.
      * destruct (Hsame k Hne) as [E1 E2]. rewrite E1. eauto.
    + intros. eapply F8; eauto.
  - (* cancel *)
    assert (Hpre : vs v j <> Finished) by (intros E; rewrite E in Hb; discriminate).
    assert (Hc' : fcancelled (vs v' j) = true) by (rewrite Hsj; apply f_cancel_true_cancelled; exact Hb).
    constructor; rewrite ?Hh, ?Hn.
    + intros k Hk. assert (Hne : k <> j) by lia. destruct (Hsame k Hne) as [E1 E2]. rewrite E1, E2. apply F1. lia.
    + intros k o Hk. destruct (Nat.eq_dec k j) as [->|Hne].
      * rewrite Hoj in Hk. exfalso. apply Hpre. eauto.
      * destruct (Hsame k Hne) as [E1 E2]. rewrite E1. rewrite E2 in Hk. eauto.
    + intros k Hk. destruct (Nat.eq_dec k j) as [->|Hne].
      * rewrite Hk in Hc'. discriminate.
      * destruct (Hsame k Hne) as [E1 E2]. rewrite E2. rewrite E1 in Hk. destruct (F3 _ Hk) as [o [A B]]. exists o. split; [exact A|right; exact B].
    + intros k Hk. destruct (Nat.eq_dec k j) as [->|Hne]; [left; reflexivity|].
      destruct (Hsame k Hne) as [E1 E2]. rewrite E1 in Hk. right. eauto.
    + intros k o [Hx|Hin]; [discriminate|]. destruct (Nat.eq_dec k j) as [->|Hne].
      * exfalso. apply Hpre. destruct (F5 _ _ Hin); assumption.
      * destruct (Hsame k Hne) as [E1 E2]. rewrite E1, E2. eauto.
    + intros k [Hx|Hin].
      * inversion Hx; subst. exact Hc'.
      * destruct (Nat.eq_dec k j) as [->|Hne]; [exact Hc'|]. destruct (Hsame k Hne) as [E1 E2]. rewrite E1. eauto.
    + intros k [Hx|Hin]; [discriminate|].
      destruct (Nat.eq_dec k j) as [->|Hne]; [exact Hc'|]. destruct (Hsame k Hne) as [E1 E2]. rewrite E1. eauto.
    + apply once_cons; [exact F8| |discriminate].
      intros k o Hin Ht. simpl in Ht. subst k. apply Hpre. destruct (F5 _ _ Hin); assumption.
  - (* set_running_or_notify_cancel *)
    assert (Hpre : vs v j <> Finished) by (intros E; rewrite E in Hb; discriminate).
    assert (Hn' : n <> Finished) by (destruct (vs v j); simpl in Hb; inversion Hb; subst; discriminate).
    assert (Hcc : fcancelled n = fcancelled (vs v j)) by (destruct (vs v j); simpl in Hb; inversion Hb; subst; reflexivity).
    constructor; rewrite ?Hh, ?Hn.
    + intros k Hk. assert (Hne : k <> j) by lia. destruct (Hsame k Hne) as [E1 E2]. rewrite E1, E2. apply F1. lia.
    + intros k o Hk. destruct (Nat.eq_dec k j) as [->|Hne].
      * rewrite Hoj in Hk. exfalso. apply Hpre. eauto.
      * destruct (Hsame k Hne) as [E1 E2]. rewrite E1. rewrite E2 in Hk. eauto.
    + intros k Hk. destruct (Nat.eq_dec k j) as [->|Hne]; [congruence|].
      destruct (Hsame k Hne) as [E1 E2]. rewrite E2. rewrite E1 in Hk. eauto.
    + intros k Hk. destruct (Nat.eq_dec k j) as [->|Hne].
      * rewrite Hsj, Hcc in Hk. eauto.
      * destruct (Hsame k Hne) as [E1 E2]. rewrite E1 in Hk. eauto.
    + intros k o Hin. destruct (Nat.eq_dec k j) as [->|Hne].
      * exfalso. apply Hpre. destruct (F5 _ _ Hin); assumption.
      * destruct (Hsame k Hne) as [E1 E2]. rewrite E1, E2. eauto.
    + intros k Hin. destruct (Nat.eq_dec k j) as [->|Hne].
      * rewrite Hsj, Hcc. eauto.
      * destruct (Hsame k Hne) as [E1 E2]. rewrite E1. eauto.
    + intros k Hin. destruct (Nat.eq_dec k j) as [->|Hne].
      * rewrite Hsj, Hcc. eauto.
      * destruct (Hsame k Hne) as [E1 E2]. rewrite E1. eauto.
    + intros. eapply F8; eauto.
  - (* set_result / set_exception *)
    assert (Hn' : n = Finished) by (destruct (vs v j); simpl in Hb; inversion Hb; reflexivity). rewrite Hn' in Hsj.
    assert (Hpre : fdone (vs v j) = false) by (destruct (vs v j); simpl in Hb; try discriminate; reflexivity).
    constructor; rewrite ?Hh, ?Hn.
    + intros k Hk. assert (Hne : k <> j) by lia. destruct (Hsame k Hne) as [E1 E2]. rewrite E1, E2. apply F1. lia.
    + intros k o' Hk. destruct (Nat.eq_dec k j) as [->|Hne]; [exact Hsj|].
      destruct (Hsame k Hne) as [E1 E2]. rewrite E1. rewrite E2 in Hk. eauto.
    + intros k Hk. destruct (Nat.eq_dec k j) as [->|Hne].
      * exists o. split; [exact Hoj|left; reflexivity].
      * destruct (Hsame k Hne) as [E1 E2]. rewrite E2. rewrite E1 in Hk. destruct (F3 _ Hk) as [o' [A B]]. exists o'. split; [exact A|right; exact B].
    + intros k Hk. destruct (Nat.eq_dec k j) as [->|Hne]; [rewrite Hsj in Hk; discriminate|].
      destruct (Hsame k Hne) as [E1 E2]. rewrite E1 in Hk. right. eauto.
    + intros k o' [Hx|Hin].
      * inversion Hx; subst. auto.
      * destruct (Nat.eq_dec k j) as [->|Hne].
        -- exfalso. destruct (F5 _ _ Hin) as [E _]. rewrite E in Hpre. discriminate.
        -- destruct (Hsame k Hne) as [E1 E2]. rewrite E1, E2. eauto.
    + intros k [Hx|Hin]; [discriminate|]. destruct (Nat.eq_dec k j) as [->|Hne].
      * exfalso. pose proof (F6 _ Hin) as E. destruct (vs v j); simpl in *; congruence.
      * destruct (Hsame k Hne) as [E1 E2]. rewrite E1. eauto.
    + intros k [Hx|Hin]; [discriminate|]. destruct (Nat.eq_dec k j) as [->|Hne].
      * exfalso. pose proof (F7 _ Hin) as E. destruct (vs v j); simpl in *; congruence.
      * destruct (Hsame k Hne) as [E1 E2]. rewrite E1. eauto.
    + apply once_cons; [exact F8| |].
      * intros k o' Hin Ht. simpl in Ht. subst k. destruct (F5 _ _ Hin) as [E _]. rewrite E in Hpre. discriminate.
      * intros k o' Hx x Hin Ht. inversion Hx; subst. pose proof (touch_done v k x I Hin Ht) as E. congruence.
  - (* cancel() returns b *)
    constructor; rewrite ?Hh, ?Hn.
    + intros k Hk. destruct (Hsame k) as [E1 E2]. rewrite E1, E2. auto.
    + intros k o Hk. destruct (Hsame k) as [E1 E2]. rewrite E1. rewrite E2 in Hk. eauto.
    + intros k Hk. destruct (Hsame k) as [E1 E2]. rewrite E2. rewrite E1 in Hk.
      destruct (F3 _ Hk) as [o [A B]]. exists o. split; [exact A|right; exact B].
    + intros k Hk. destruct (Hsame k) as [E1 E2]. rewrite E1 in Hk. right. auto.
    + intros k o [Hx|Hin]; [discriminate|]. destruct (Hsame k) as [E1 E2]. rewrite E1, E2. eauto.
    + intros k [Hx|Hin]; [discriminate|]. destruct (Hsame k) as [E1 E2]. rewrite E1. eauto.
    + intros k [Hx|Hin]; destruct (Hsame k) as [E1 E2]; rewrite E1; [|eauto]. inversion Hx; subst. auto.
    + apply once_cons; [exact F8| |discriminate].
      intros k o Hin [Ht1 Ht2]. subst. destruct (F5 _ _ Hin) as [E _]. specialize (Hb eq_refl). rewrite E in Hb. discriminate.
Qed.

(* one step on a done future *)
Lemma vstep_stable v v' j : VInv v -> vstep v v' -> fdone (vs v j) = true ->
  frefines (vs v j) (vs v' j) /\ vo v' j = vo v j.
Proof.
  intros I Hs Hd.
  destruct Hs as [Hn Hsame Hh | Hn Hsame Hs0 Ho0 Hh | k Hj Hb Hn Hsame Hsj Hoj Hh | k n b Hj Hb Hn Hsame Hsj Hoj Hh
                 | k o n Hj Hb Hn Hsame Hsj Hoj Hh | k b Hb Hn Hsame Hh].
  - destruct (Hsame j) as [E1 E2]. rewrite E1, E2. split; [left|]; reflexivity.
  - assert (Hne : j <> vn v).
    { intros ->. destruct (vi_fresh _ I (vn v) (le_n _)) as [E _]. rewrite E in Hd. discriminate. }
    destruct (Hsame j Hne) as [E1 E2]. rewrite E1, E2. split; [left|]; reflexivity.
  - destruct (Nat.eq_dec j k) as [->|Hne].
    + rewrite Hsj, Hoj, (f_cancel_done_mono _ Hd). split; [left|]; reflexivity.
    + destruct (Hsame j Hne) as [E1 E2]. rewrite E1, E2. split; [left|]; reflexivity.
  - destruct (Nat.eq_dec j k) as [->|Hne].
    + rewrite Hsj, Hoj. split; [|reflexivity]. destruct (vs v k); simpl in Hb, Hd; try discriminate; inversion Hb; subst.
      right. split; reflexivity.
    + destruct (Hsame j Hne) as [E1 E2]. rewrite E1, E2. split; [left|]; reflexivity.
  - destruct (Nat.eq_dec j k) as [->|Hne].
    + exfalso. destruct (vs v k); simpl in Hb, Hd; discriminate.
    + destruct (Hsame j Hne) as [E1 E2]. rewrite E1, E2. split; [left|]; reflexivity.
  - destruct (Hsame j) as [E1 E2]. rewrite E1, E2. split; [left|]; reflexivity.
Qed.

Lemma vstep_mono v v' : vstep v v' -> vn v <= vn v'.
Proof. intros [ ]; lia. Qed.

(* the protocol history only grows, at its head *)
Lemma vstep_hist v v' : vstep v v' -> exists hs, vh v' = hs ++ vh v.
Proof.
  intros [ ]; try (exists []; assumption);
    match goal with E : vh v' = ?e :: vh v |- _ => exists [e]; exact E end.
Qed.

(* ---- a machine seen through a view --------------------------------------------------------------- *)
Section Sys.
  Context {St Ev : Type}.
  Variable step : St -> Ev -> option St.
  Variable init : St.
  Variable view_of : St -> view.
  Hypothesis Hinit : vinit (view_of init).
  Hypothesis Hstep : forall s e s', reachable_from step init s -> step s e = Some s' -> vstep (view_of s) (view_of s').

  Lemma sys_vinv : forall s, reachable_from step init s -> VInv (view_of s).
  Proof.
    apply (invariant_rule_r step (fun s => VInv (view_of s)) init); [apply vinv_init; exact Hinit|].
    intros s0 e s' Hr I Hx. eapply vinv_step; eauto.
  Qed.

  Lemma reachable_run s es s' : reachable_from step init s -> run step s es = Some s' -> reachable_from step init s'.
  Proof. intros [es0 H0] H1. exists (es0 ++ es). rewrite run_app, H0. exact H1. Qed.

  (* TERMINAL ONCE, along any extension of the run *)
  Lemma sys_stable es : forall s s', reachable_from step init s -> run step s es = Some s' -> forall j,
    fdone (vs (view_of s) j) = true ->
    frefines (vs (view_of s) j) (vs (view_of s') j) /\ vo (view_of s') j = vo (view_of s) j /\
    vn (view_of s) <= vn (view_of s') /\ exists hs, vh (view_of s') = hs ++ vh (view_of s).
  Proof.
    induction es as [|e r IH]; simpl; intros s s' Hr Hrun j Hd.
    - inversion Hrun; subst. split; [left; reflexivity|]. split; [reflexivity|]. split; [lia|exists []; reflexivity].
    - destruct (step s e) as [s1|] eqn:E; [|discriminate].
      pose proof (Hstep s e s1 Hr E) as Hv. pose proof (sys_vinv s Hr) as I.
      destruct (vstep_stable _ _ j I Hv Hd) as [A B].
      assert (Hr1 : reachable_from step init s1) by (eapply reachable_step; eauto).
      destruct (IH s1 s' Hr1 Hrun j (frefines_done _ _ A Hd)) as [A' [B' [C' [hs' D']]]].
      split; [eapply frefines_trans; eauto|]. split; [congruence|]. split; [pose proof (vstep_mono _ _ Hv); lia|].
      destruct (vstep_hist _ _ Hv) as [hs Ehs]. exists (hs' ++ hs). rewrite D', Ehs, app_assoc. reflexivity.
  Qed.
End Sys.

(* ---- consequences of VInv on the protocol history (newest first) --------------------------------- *)
(* an outcome is recorded at most once, no cancellation / True answer of cancel() on either side of it *)
Lemma vinv_set_once v : VInv v -> forall l1 j o l2, vh v = l1 ++ PSet j o :: l2 ->
  (forall o', ~ In (PSet j o') l1) /\ (forall o', ~ In (PSet j o') l2) /\
  ~ In (PCancelled j) l1 /\ ~ In (PCancelled j) l2 /\ ~ In (PCancelRet j true) l1 /\ ~ In (PCancelRet j true) l2 /\
  vs v j = Finished /\ vo v j = Some o.
Proof.
  intros I l1 j o l2 E. pose proof (vi_once _ I _ _ _ _ E) as H.
  assert (Hin : In (PSet j o) (vh v)) by (rewrite E; apply in_or_app; right; left; reflexivity).
  destruct (vi_hset _ I _ _ Hin) as [A B].
  repeat split; auto; try (intros o' Hx); try (intros Hx);
    (eapply H; [apply in_or_app; first [left; exact Hx|right; exact Hx]|simpl; auto]).
Qed.

(* cancel() answered b although an outcome had been set before (older = further right): b = false *)
Lemma vinv_ret_after_set v : VInv v -> forall l1 j b l2, vh v = l1 ++ PCancelRet j b :: l2 ->
  (exists o, In (PSet j o) l2) -> b = false.
Proof.
  intros I l1 j b l2 E [o Hin]. apply in_split in Hin. destruct Hin as [a [c ->]].
  assert (E' : vh v = (l1 ++ PCancelRet j b :: a) ++ PSet j o :: c) by (rewrite E, <- app_assoc; reflexivity).
  destruct b; [|reflexivity]. exfalso.
  eapply (vi_once _ I _ _ _ _ E' (PCancelRet j true)); [|simpl; auto].
  apply in_or_app. left. apply in_or_app. right. left. reflexivity.
Qed.

(* after a True answer no outcome is ever set *)
Lemma vinv_no_set_after_true v : VInv v -> forall l1 j l2, vh v = l1 ++ PCancelRet j true :: l2 ->
  forall o, ~ In (PSet j o) l1.
Proof.
  intros I l1 j l2 E o Hin. apply in_split in Hin. destruct Hin as [a [c ->]].
  assert (E' : vh v = a ++ PSet j o :: (c ++ PCancelRet j true :: l2)) by (rewrite E, <- app_assoc; reflexivity).
  eapply (vi_once _ I _ _ _ _ E' (PCancelRet j true)); [|simpl; auto].
  apply in_or_app. right. apply in_or_app. right. left. reflexivity.
Qed.
End Proto.

Arguments PSet {O}. Arguments PCancelled {O}. Arguments PCancelRet {O}.
Arguments mkView {O}. Arguments vn {O}. Arguments vs {O}. Arguments vo {O}. Arguments vh {O}.
