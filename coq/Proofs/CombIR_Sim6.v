(* Lockstep of the IR machine (generated combinator programs) and Comb.v: the stdlib Future methods on an INPUT
   (event EFI) of a thread in the phase after construction: registration of handle_done, the decision kernels,
   cancel() of a loser / of the chained input. *)
From Coq Require Import List Arith Bool Lia PeanoNat ZArith.
From RecordUpdate Require Import RecordSet.
From ME Require Import Base.Machine Base.Fut Base.GenPrelude Gen.BoolGen Gen.ZipGen Model.Comb Model.CombIR Gen.CombSkel
  Proofs.CombIR_Sim Proofs.CombIR_Sim2 Proofs.CombIR_Sim3 Proofs.CombIR_Sim4 Proofs.CombIR_Sim5.
Import ListNotations RecordSetNotations.

(* cancel() on an input keeps every done input done and no outcome changes *)
Lemma stable_cancel cs cs' d : ck cs' = ck cs -> inputs cs' = inputs cs -> eout cs' = eout cs ->
  es cs' = upd (es cs) d (fst (f_cancel (es cs d))) -> stable cs cs'.
Proof.
  intros H1 H2 H3 H4. split; [exact H1|]. split; [exact H2|]. intros d0 Hd0. rewrite H3, H4. split; [|reflexivity].
  unfold upd. destruct (Nat.eqb d0 d) eqn:E; [|exact Hd0]. apply Nat.eqb_eq in E. subst d0. apply f_cancel_done. exact Hd0.
Qed.

Lemma fires_done pre : f_cancel_fires pre = true -> fdone (fst (f_cancel pre)) = true.
Proof. destruct pre; simpl; intros H; try discriminate H; reflexivity. Qed.

(* what Comb.v prepends after the decision = what the tail of handle_done stands for *)
Lemma bool_tail_eq o lv q :
  IRelL :: ((if l_sr lv then [ISetOut o] else []) ++ (if l_se lv then [ISetOut o] else []) ++ map cancel_instr (l_cf lv)) ++ q
  = tail_instrs o lv (KRel :: BT) ++ q.
Proof. simpl. rewrite app_nil_r, <- !app_assoc. reflexivity. Qed.
Lemma bool_tail_eq' o lv0 (sr se : bool) (cl : list nat) q :
  IRelL :: ((if sr then [ISetOut o] else []) ++ (if se then [ISetOut o] else []) ++ map cancel_instr cl) ++ q
  = tail_instrs o (set_decision lv0 sr se cl) (KRel :: BT) ++ q.
Proof. apply (bool_tail_eq o (set_decision lv0 sr se cl)). Qed.
Lemma zip_tail_eq' o lv0 (sr se cn : bool) q :
  IRelL :: ((if cn then [ICancelOut] else []) ++ (if sr then [ISetOut (Ok 0 true)] else []) ++
            (if se then [ISetOut o] else [])) ++ q
  = tail_instrs o (set_zip_decision lv0 sr se cn) (KRel :: ZT) ++ q.
Proof. simpl. rewrite app_nil_r, <- !app_assoc. reflexivity. Qed.
Lemma zip_tail_eq o lv q :
  IRelL :: ((if l_cancel lv then [ICancelOut] else []) ++ (if l_sr lv then [ISetOut (Ok 0 true)] else []) ++
            (if l_se lv then [ISetOut o] else [])) ++ q
  = tail_instrs o lv (KRel :: ZT) ++ q.
Proof. simpl. rewrite app_nil_r, <- !app_assoc. reflexivity. Qed.

Lemma ls2_fi s cs t op d pre : Rcore (sh s) cs -> R2 s cs ->
  lock_ok (EFI t op d pre) (gstep s (EFI t op d pre)) (step cs (EFI t op d pre)).
Proof.
  intros Hc (Hb & Hf & Hr & Hall).
  destruct s as [h thr_i]. simpl in Hc, Hf, Hr, Hall.
  destruct (Hall t) as [HRt Htop].
  unfold gstep, istep, step. simpl.
  remember (thr cs t) as p eqn:Ep. remember (thr_i t) as st eqn:Est.
  assert (Fin : forall cs' h' p' st', Rcore h' cs' -> built cs' = true -> fsd_rel h' cs' -> rem_rel h' cs' ->
            thr cs' = upd (thr cs) t (norm false p') -> stable cs cs' -> R_thr cs p' st' ->
            R (resume bool_init_prog zip_init_prog h' thr_i t st') cs').
  { intros. eapply assemble_o; eauto. }
  assert (Fin' : forall cs' h' p' st', Rcore h' cs' -> built cs' = true -> fsd_rel h' cs' -> rem_rel h' cs' ->
            thr cs' = upd (thr cs) t (norm false p') -> stable cs cs' -> R_thr cs' p' st' ->
            R (resume bool_init_prog zip_init_prog h' thr_i t st') cs').
  { intros. eapply assemble; eauto. }
  destruct HRt as [|p fr Hs|p fr rest st Hs Hrest].
  - destruct (negb (fstate_eqb pre (es cs d))); exact I.
  - destruct Hs as [ |i lv Hi Hx Hfl|i lv Hi Hx Hfl|lv|j lv|lv Hret|  |b lv Hret]; simpl in Htop; try discriminate Htop; simpl;
      core_rw Hc; destruct (fstate_eqb pre (es cs d)) eqn:Epre; simpl; ops op.
    (* f.add_done_callback(weak_callback(self.handle_done)) *)
    subst i. rewrite Hfl. destruct (Nat.eqb d (input_at cs (l_idx lv))) eqn:Ed; simpl; [|exact I].
    apply fstate_eqb_eq in Epre. subst pre.
    destruct (fdone (es cs d)) eqn:Hd; simpl.
    + (* the input is already done: handle_done runs now *)
      apply (Fin _ _ (IAcqL (l_idx lv) d :: ICatch :: loop (length (inputs cs)) (S (l_idx lv)) ++ [IRet])).
      * solve_core Hc.
      * exact Hb.
      * exact Hf.
      * exact Hr.
      * reflexivity.
      * apply stable_same; reflexivity.
      * rewrite (rc_ck _ _ Hc).
        exact (R_in_fires cs d Hd [l_idx lv] _ _ (RT_bot _ _ _ (SB_KF cs (S (l_idx lv)) lv))).
    + apply (Fin _ _ (loop (length (inputs cs)) (S (l_idx lv)) ++ [IRet])).
      * solve_core Hc.
      * exact Hb.
      * unfold fsd_rel in *. simpl. exact Hf.
      * unfold rem_rel in *. simpl. exact Hr.
      * reflexivity.
      * apply stable_same; reflexivity.
      * apply RT_bot. apply SB_KF.
  - destruct Hs as [i lv Hx|i lv Hx|lv|lv|lv|lv|lv|i d0 Hk Hd|i d0 Hk Hd|i d0 Hk Hd|i d0 Hk Hd|i d0 Hk Hd|i d0 Hk Hd|d0 lv k Hd Hfl Ht Hl];
      simpl in Htop; try discriminate Htop; simpl; core_rw Hc.
    + destruct (fstate_eqb pre (es cs d)) eqn:Epre; simpl; ops op.
    + (* the chain_cancel lambda: f_inner.cancel() *)
      destruct (fstate_eqb pre (es cs d)) eqn:Epre; simpl; ops op.
      rewrite (Rcore_input _ _ _ Hc), Hx.
      destruct (Nat.eqb d (input_at cs i)) eqn:Ed; simpl; [|exact I].
      apply fstate_eqb_eq in Epre. subst pre.
      unfold cancel_input. destruct (f_cancel (es cs d)) as [n b] eqn:Ec. simpl.
      assert (En : n = fst (f_cancel (es cs d))) by (rewrite Ec; reflexivity).
      destruct (f_cancel_fires (es cs d)) eqn:Ef; simpl.
      * apply (Fin' _ _ (in_fires cs d ([] ++ ICatch :: rest))).
        -- solve_core Hc.
        -- exact Hb.
        -- unfold fsd_rel in *. simpl. exact Hf.
        -- unfold rem_rel in *. simpl. exact Hr.
        -- reflexivity.
        -- apply (stable_cancel _ _ d); try reflexivity. simpl. rewrite En. reflexivity.
        -- unfold in_fires, in_clos. rewrite (rc_ecbs _ _ Hc), (rc_ck _ _ Hc).
           match goal with |- R_thr ?c _ _ =>
             refine (R_in_fires c d _ (ecbs cs d) ([] ++ ICatch :: rest) (([], lv) :: st) _) end.
           ++ simpl. rewrite upd_same, En. apply fires_done. exact Ef.
           ++ apply RT_cb; [apply SC_end|]. eapply R_thr_stable; [|exact Hrest].
              apply (stable_cancel _ _ d); try reflexivity. simpl. rewrite En. reflexivity.
      * apply (Fin _ _ ([] ++ ICatch :: rest)).
        -- solve_core Hc.
        -- exact Hb.
        -- unfold fsd_rel in *. simpl. exact Hf.
        -- unfold rem_rel in *. simpl. exact Hr.
        -- reflexivity.
        -- apply (stable_cancel _ _ d); try reflexivity. simpl. rewrite En. reflexivity.
        -- apply RT_cb; [apply SC_end|exact Hrest].
    + destruct (fstate_eqb pre (es cs d)) eqn:Epre; simpl; ops op.
    + destruct (fstate_eqb pre (es cs d)) eqn:Epre; simpl; ops op.
    + destruct (fstate_eqb pre (es cs d)) eqn:Epre; simpl; ops op.
    + (* BoolOperation: get_state_update(f) under the lock *)
      destruct (fstate_eqb pre (es cs d)) eqn:Epre; simpl; ops op.
      destruct (Nat.eqb d d0) eqn:Ed; simpl; [|exact I]. apply Nat.eqb_eq in Ed. subst d0.
      apply fstate_eqb_eq in Epre. subst pre.
      assert (Hfsd : ifsd h = fsd cs) by (destruct Hf as [Hf|Hf]; [rewrite (rc_ck _ _ Hc) in Hf; contradiction|exact Hf]).
      rewrite Hfsd, (Rcore_view _ _ _ Hc), (Rcore_oc _ _ _ Hc).
      assert (Hk2 : forall lv' q, l_f lv' = d ->
                ICancelledQ2 d :: tail_instrs (oc_of cs d) lv' (KRel :: BT) ++ q
                = tail_instrs (oc_of cs d) lv' (KKernel2 :: KRel :: BT) ++ q).
      { intros lv' q <-. reflexivity. }
      assert (Hgo : forall cs' h' k' lv', Rcore h' cs' -> built cs' = true -> fsd_rel h' cs' -> rem_rel h' cs' ->
                thr cs' = upd (thr cs) t (norm false (tail_instrs (oc_of cs d) lv' k' ++ ICatch :: rest)) -> stable cs cs' ->
                l_f lv' = d -> tailish k' = true -> length k' <= 8 ->
                R (resume bool_init_prog zip_init_prog h' thr_i t ((k', lv') :: st)) cs').
      { intros cs' h' k' lv' H1 H2 H3 H4 H5 H6 H7 H8 H9. eapply Fin; eauto. apply RT_cb; [|exact Hrest]. apply SC_T; auto. }
      destruct (ck cs) eqn:Ek; [| |congruence].
      * destruct (or_update (fsd cs) out_id (view cs d)) as [[[dn sr] se] cl] eqn:Eu. simpl.
        rewrite (bool_tail_eq' (oc_of cs d) (lv_cb i d)).
        destruct dn.
        -- rewrite andb_true_r. destruct (negb (isnil (fsd cs))); simpl.
           ++ apply Hgo; [solve_core Hc|exact Hb|unfold fsd_rel in *; simpl; exact Hf|unfold rem_rel in *; simpl; exact Hr
                         |reflexivity|apply stable_same; reflexivity|reflexivity|reflexivity|simpl; lia].
           ++ apply Hgo; [solve_core Hc|exact Hb|unfold fsd_rel in *; simpl; exact Hf|unfold rem_rel in *; simpl; exact Hr
                         |reflexivity|apply stable_same; reflexivity|reflexivity|reflexivity|simpl; lia].
        -- rewrite andb_false_r. simpl.
           apply Hgo; [solve_core Hc|exact Hb|unfold fsd_rel in *; simpl; exact Hf|unfold rem_rel in *; simpl; exact Hr
                         |reflexivity|apply stable_same; reflexivity|reflexivity|reflexivity|simpl; lia].
      * destruct (and_update (fsd cs) out_id (view cs d)) as [[[dn sr] se] cl] eqn:Eu. simpl.
        rewrite (bool_tail_eq' (oc_of cs d) (lv_cb i d)).
        destruct dn;
           apply Hgo; [solve_core Hc|exact Hb|unfold fsd_rel in *; simpl; exact Hf|unfold rem_rel in *; simpl; exact Hr
                         |reflexivity|apply stable_same; reflexivity|reflexivity|reflexivity|simpl; lia
                      |solve_core Hc|exact Hb|unfold fsd_rel in *; simpl; exact Hf|unfold rem_rel in *; simpl; exact Hr
                         |reflexivity|apply stable_same; reflexivity|reflexivity|reflexivity|simpl; lia].
    + destruct (fstate_eqb pre (es cs d)) eqn:Epre; simpl; ops op.
    + (* Zipper.handle_done: the elif-chain under the lock *)
      destruct (fstate_eqb pre (es cs d)) eqn:Epre; simpl; ops op.
      destruct (Nat.eqb d d0) eqn:Ed; simpl; [|exact I]. apply Nat.eqb_eq in Ed. subst d0.
      apply fstate_eqb_eq in Epre. subst pre.
      assert (Hrem : iremaining h = remaining cs) by (destruct Hr as [Hr|Hr]; [rewrite (rc_ck _ _ Hc) in Hr; contradiction|exact Hr]).
      rewrite Hrem, (Rcore_view _ _ _ Hc), (Rcore_oc _ _ _ Hc), Hk.
      assert (Hgo : forall cs' h' k' lv', Rcore h' cs' -> built cs' = true -> fsd_rel h' cs' -> rem_rel h' cs' ->
                thr cs' = upd (thr cs) t (norm false (tail_instrs (oc_of cs d) lv' k' ++ ICatch :: rest)) -> stable cs cs' ->
                l_f lv' = d -> tailish k' = true -> length k' <= 8 ->
                R (resume bool_init_prog zip_init_prog h' thr_i t ((k', lv') :: st)) cs').
      { intros cs' h' k' lv' H1 H2 H3 H4 H5 H6 H7 H8 H9. eapply Fin; eauto. apply RT_cb; [|exact Hrest]. apply SC_T; auto. }
      destruct (zip_update (cdone cs) (remaining cs) (view cs d)) as [[[[[dn rem] store] sr] se] cn] eqn:Eu. simpl.
      rewrite (zip_tail_eq' (oc_of cs d) (lv_cb i d)).
      apply Hgo.
      * destruct store; destruct (cn || sr || se); solve_core Hc.
      * destruct store; destruct (cn || sr || se); exact Hb.
      * unfold fsd_rel in *. destruct store; destruct (cn || sr || se); simpl; exact Hf.
      * right. destruct store; destruct (cn || sr || se); reflexivity.
      * destruct store; destruct (cn || sr || se); reflexivity.
      * destruct store; destruct (cn || sr || se); apply stable_same; reflexivity.
      * reflexivity.
      * reflexivity.
      * simpl; lia.
    + (* tails *)
      destruct (tail_head_cases k lv Ht Htop) as [Hh Htl]. simpl in Hl. subst d0.
      assert (Hseg : forall it r lv', k = it :: r -> l_f lv' = l_f lv ->
                R_thr cs (tail_instrs (oc_of cs (l_f lv)) lv' r ++ ICatch :: rest) ((r, lv') :: st)).
      { intros it r lv' -> Hlv. apply RT_cb; [|exact Hrest]. rewrite <- Hlv.
        simpl in Ht. apply andb_true_iff in Ht. simpl in Hl.
        apply SC_T; [rewrite Hlv; exact Hd|reflexivity|apply Ht|lia]. }
      destruct Hh as [r|r|r|r|r|r|r x cf Hcf]; simpl in Htl; simpl; core_rw Hc.
      * (* OrOperation.get_state_update: the second f.cancelled() *)
        destruct (fstate_eqb pre (es cs d)) eqn:Epre; simpl; ops op.
        destruct (Nat.eqb d (l_f lv)) eqn:Ed; simpl; [|exact I].
        apply (Fin _ _ (tail_instrs (oc_of cs (l_f lv)) lv r ++ ICatch :: rest));
          [solve_core Hc|exact Hb|exact Hf|exact Hr|reflexivity|apply stable_same; reflexivity|exact (Hseg _ r lv eq_refl eq_refl)].
      * destruct (fstate_eqb pre (es cs d)) eqn:Epre; simpl; ops op.
      * destruct (fstate_eqb pre (es cs d)) eqn:Epre; simpl; ops op.
      * destruct (fstate_eqb pre (es cs d)) eqn:Epre; simpl; ops op.
      * destruct (fstate_eqb pre (es cs d)) eqn:Epre; simpl; ops op.
      * destruct (fstate_eqb pre (es cs d)) eqn:Epre; simpl; ops op.
      * (* the loop over cancel_futures, at an input *)
        rewrite Hcf. simpl. destruct (Nat.eqb x out_id) eqn:Ex.
        { replace (cancel_instr x) with ICancelOut by (unfold cancel_instr; rewrite Ex; reflexivity).
          simpl. destruct (fstate_eqb pre (es cs d)); simpl; ops op. }
        replace (cancel_instr x) with (ICancelIn x) by (unfold cancel_instr; rewrite Ex; reflexivity). simpl.
        destruct (fstate_eqb pre (es cs d)) eqn:Epre; simpl; ops op.
        destruct (Nat.eqb d x) eqn:Ed; simpl; [|exact I]. apply Nat.eqb_eq in Ed. subst x.
        apply fstate_eqb_eq in Epre. subst pre.
        change (map cancel_instr cf ++ tail_instrs (oc_of cs (l_f lv)) (set_cf lv []) r)
          with (tail_instrs (oc_of cs (l_f lv)) (set_cf lv cf) (IS SForCancel :: r)).
        assert (Hnew : R_thr cs (tail_instrs (oc_of cs (l_f lv)) (set_cf lv cf) (IS SForCancel :: r) ++ ICatch :: rest)
                             ((IS SForCancel :: r, set_cf lv cf) :: st)).
        { apply RT_cb; [|exact Hrest]. apply (SC_T cs (l_f lv) (set_cf lv cf)); auto. }
        unfold cancel_input. destruct (f_cancel (es cs d)) as [n b] eqn:Ec. simpl.
        assert (En : n = fst (f_cancel (es cs d))) by (rewrite Ec; reflexivity).
        destruct (f_cancel_fires (es cs d)) eqn:Ef; simpl.
        -- apply (Fin' _ _ (in_fires cs d (tail_instrs (oc_of cs (l_f lv)) (set_cf lv cf) (IS SForCancel :: r) ++ ICatch :: rest))).
           ++ solve_core Hc.
           ++ exact Hb.
           ++ unfold fsd_rel in *. simpl. exact Hf.
           ++ unfold rem_rel in *. simpl. exact Hr.
           ++ reflexivity.
           ++ apply (stable_cancel _ _ d); try reflexivity. simpl. rewrite En. reflexivity.
           ++ unfold in_fires, in_clos. rewrite (rc_ecbs _ _ Hc), (rc_ck _ _ Hc).
              match goal with |- R_thr ?c _ _ =>
                refine (R_in_fires c d _ (ecbs cs d) _ ((IS SForCancel :: r, set_cf lv cf) :: st) _) end.
              ** simpl. rewrite upd_same, En. apply fires_done. exact Ef.
              ** eapply R_thr_stable; [|exact Hnew].
                 apply (stable_cancel _ _ d); try reflexivity. simpl. rewrite En. reflexivity.
        -- apply (Fin _ _ (tail_instrs (oc_of cs (l_f lv)) (set_cf lv cf) (IS SForCancel :: r) ++ ICatch :: rest)).
           ++ solve_core Hc.
           ++ exact Hb.
           ++ unfold fsd_rel in *. simpl. exact Hf.
           ++ unfold rem_rel in *. simpl. exact Hr.
           ++ reflexivity.
           ++ apply (stable_cancel _ _ d); try reflexivity. simpl. rewrite En. reflexivity.
           ++ exact Hnew.
Qed.
