(* C12 / Timeout: "a job of a done future leaves _jobs at the job thread's next partition" (part A: program shapes).
   jshape: the loop-control instructions of the job thread are the LAST instruction of a program (so after
   event.clear() the job thread is at the top of its loop);
   done futures stay done. *)
From Coq Require Import List ZArith Bool Arith Lia.
From RecordUpdate Require Import RecordSet.
From ME Require Import Base.Machine Base.Fut Base.GenPrelude Gen.TimeoutGen Proofs.Timeout_Spec Model.Timeout Proofs.Timeout_Inv.
Import ListNotations RecordSetNotations.
Local Open Scope Z_scope.

Definition isctl (i : instr) : bool :=
  match i with IClockP | IXRelP | IWaitCalc _ | IWWait _ | IWWoke | IWClear => true | _ => false end.
Fixpoint jshape (p : list instr) : bool :=
  match p with [] => true | i :: r => if isctl i then isnil r else jshape r end.
Definition noctl (p : list instr) : bool := forallb (fun i => negb (isctl i)) p.

Lemma jshape_app p q : noctl p = true -> jshape (p ++ q) = jshape q.
Proof.
  induction p as [|i r IH]; simpl; [reflexivity|]. intros Hx. apply andb_true_iff in Hx. destruct Hx as [A B].
  apply negb_true_iff in A. rewrite A. auto.
Qed.
Lemma jshape_stamp s p : jshape (stamp s p) = jshape p.
Proof. unfold stamp. destruct p as [|[] r]; try reflexivity. destruct e; reflexivity. Qed.
Lemma jshape_ret_of t b l : jshape (ret_of t b ++ l) = jshape l.
Proof. unfold ret_of. destruct (Nat.eqb t jt); reflexivity. Qed.
Lemma jshape_cb_prog j c l : jshape (cb_prog j c ++ l) = jshape l.
Proof. destruct c; reflexivity. Qed.
Lemma jshape_cbs_prog j cs l : jshape (cbs_prog j cs ++ l) = jshape l.
Proof.
  apply jshape_app. unfold cbs_prog, noctl. apply forallb_forall. intros i Hi. apply in_flat_map in Hi.
  destruct Hi as [c [_ Hc]]. destruct c; simpl in Hc; destruct Hc as [<-|[]]; reflexivity.
Qed.
Lemma jshape_map_tc l q : jshape (map ITCancel l ++ q) = jshape q.
Proof. apply jshape_app. unfold noctl. apply forallb_forall. intros i Hi. apply in_map_iff in Hi. destruct Hi as [x [<- _]]. reflexivity. Qed.
Lemma jshape_map_pd (l : list tjob) q : jshape (map (fun job => IPDone (tj_id job)) l ++ q) = jshape q.
Proof. apply jshape_app. unfold noctl. apply forallb_forall. intros i Hi. apply in_map_iff in Hi. destruct Hi as [x [<- _]]. reflexivity. Qed.

Definition InvJS (s : st) : Prop := forall t, jshape (thr s t) = true.

Lemma invjs_step0 s e s' : InvJS s -> step0 s e = Some s' -> InvJS s'.
Proof.
  intros A H. step0_cases H.
  all: try match goal with E : wait_view _ = _ |- _ => apply wait_view_inv in E; destruct E as [E|[E _]] end.
  all: intros t'; simpl; try apply A; unfold upd;
       match goal with |- context [Nat.eqb t' ?t] => destruct (Nat.eqb t' t) eqn:Et; [|apply A];
         rewrite jshape_stamp; specialize (A t) end;
       match goal with E : thr _ _ = _ |- _ => rewrite E in A end; simpl in A |- *;
       rewrite ?jshape_ret_of, ?jshape_cb_prog, ?jshape_cbs_prog, ?jshape_map_tc, ?jshape_map_pd; simpl;
       try exact A; try reflexivity.
  apply isnil_nil in A. subst. reflexivity.
Qed.

Lemma invjs_reach s : reachable_from step init s -> InvJS s.
Proof.
  apply invariant_rule; [intros t; reflexivity|]. intros s0 e s1 I H.
  apply step_split in H. destruct H as [_ H]. eapply invjs_step0; [|exact H]. exact I.
Qed.

(* a control instruction at the head of a program is the whole program *)
Lemma jshape_ctl_last s : reachable_from step init s -> forall t i r, thr s t = i :: r -> isctl i = true -> r = [].
Proof.
  intros R t i r E Hi. pose proof (invjs_reach s R t) as A. rewrite E in A. simpl in A. rewrite Hi in A.
  apply isnil_nil. exact A.
Qed.

(* ---- done is stable --------------------------------------------------------------------------------------- *)
Lemma f_set_done pre f : f_set pre = Some f -> fdone f = true.
Proof. destruct pre; simpl; intros H; inversion H; reflexivity. Qed.
Lemma f_cancel_done_t pre f : f_cancel pre = (f, true) -> fdone f = true.
Proof. destruct pre; simpl; intros H; inversion H; reflexivity. Qed.
Lemma f_srnc_done pre f b : f_srnc pre = Some (f, b) -> fdone f = fdone pre.
Proof. destruct pre; simpl; intros H; inversion H; reflexivity. Qed.

Lemma done_mono s e s' : step0 s e = Some s' -> forall j, fdone (rs s j) = true -> fdone (rs s' j) = true.
Proof.
  intros H. step0_cases H; simpl; intros j' Hd; try exact Hd; unfold upd;
    destruct (Nat.eqb j' _) eqn:Ej; try exact Hd; apply Nat.eqb_eq in Ej; subst;
    match goal with E : negb (fstate_eqb _ _) = false |- _ => apply pre_eq in E; subst end.
  all: first [ eapply f_set_done; eassumption | eapply f_cancel_done_t; eassumption
             | (erewrite f_srnc_done by eassumption; exact Hd) ].
Qed.
