(* PATH CONFORMANCE: the checks (vm_compute over the finite families of Proofs/MapIR_Conf.v, on the terms regenerated
   from the source) and the statement they establish. *)
Set Warnings "-abstract-large-number".
From Coq Require Import ZArith List Bool Arith String.
From ME Require Import Base.Machine Base.Fut Base.GenPrelude Model.MapFut Model.MapIR Gen.MapSkel Proofs.MapIR_Conf.
Import ListNotations.

(* what one conforming path means: MapFut.step accepts the entry event, then a run in which the successive heads of the
   executing thread's program are exactly the instructions of the path; the thread's program is then empty, and the
   machine's state of the future and of the delegates agrees with the IR's symbolic object state *)
Definition conforms (en : entry) (c : cfg) (x : scn) (p : env * completion) : Prop :=
  exists its evs s1 s2,
    path_items en p = Some its /\
    step (entry_state en c x) (entry_ev en c x) = Some s1 /\
    run step s1 evs = Some s2 /\
    heads s1 (map it_t its) evs = Some (map it_head its) /\
    thr s2 T = [] /\ thr s2 T2 = [] /\
    agree s2 (fst p) = true.

Lemma isnil_true {A} (l : list A) : isnil l = true -> l = [].
Proof. destruct l; simpl; congruence. Qed.

Lemma path_ok_conforms en c x p : path_ok en c x p = true -> conforms en c x p.
Proof.
  unfold path_ok, conforms. intros H.
  destruct (path_items en p) as [its|] eqn:Hits; [|discriminate].
  destruct (step (entry_state en c x) (entry_ev en c x)) as [s1|] eqn:Hs1; [|discriminate].
  destruct (drive s1 its) as [[evs s2]|] eqn:Hd; [|discriminate].
  apply andb_prop in H. destruct H as [Hnil Hag]. apply andb_prop in Hnil. destruct Hnil as [Hnil Hnil2].
  destruct (drive_sound _ _ _ _ Hd) as [Hrun Hheads].
  exists its, evs, s1, s2. repeat split; auto using isnil_true.
Qed.

Lemma conf_all_n_conforms n en : conf_all_n n en = true ->
  forall c x, In c cfgs -> In x scns -> applicable en c x = true ->
  paths_n n en c x <> [] /\ forall p, In p (paths_n n en c x) -> conforms en c x p.
Proof.
  unfold conf_all_n. intros H c x Hc Hx Happ.
  rewrite forallb_forall in H. specialize (H c Hc). rewrite forallb_forall in H. specialize (H x Hx).
  unfold conf_n in H. rewrite Happ in H. simpl in H. apply andb_prop in H. destruct H as [Hne Hall].
  split.
  - intros Heq. rewrite Heq in Hne. discriminate.
  - intros p Hp. rewrite forallb_forall in Hall. apply path_ok_conforms. apply Hall. exact Hp.
Qed.

Lemma conf_all_conforms en : conf_all en = true ->
  forall c x, In c cfgs -> In x scns -> applicable en c x = true ->
  paths en c x <> [] /\ forall p, In p (paths en c x) -> conforms en c x p.
Proof. exact (conf_all_n_conforms 0 en). Qed.

Lemma new_conf : conf_all EnNew = true.            Proof. vm_compute. reflexivity. Qed.
Lemma cancel_conf : conf_all EnCancel = true.      Proof. vm_compute. reflexivity. Qed.
Lemma addcb_conf : conf_all EnAddCb = true.        Proof. vm_compute. reflexivity. Qed.
Lemma resolved_ok_conf : conf_all (EnResolved 0) = true.      Proof. vm_compute. reflexivity. Qed.
Lemma resolved_err_conf : conf_all (EnResolved 1) = true.     Proof. vm_compute. reflexivity. Qed.
Lemma resolved_cancel_conf : conf_all (EnResolved 2) = true.  Proof. vm_compute. reflexivity. Qed.

Definition entries : list entry := [EnNew; EnCancel; EnAddCb; EnResolved 0; EnResolved 1; EnResolved 2].

Lemma all_paths_conform : forall en c x, In en entries -> In c cfgs -> In x scns -> applicable en c x = true ->
  paths en c x <> [] /\ forall p, In p (paths en c x) -> conforms en c x p.
Proof.
  intros en c x Hen. simpl in Hen.
  destruct Hen as [<-|[<-|[<-|[<-|[<-|[<-|[]]]]]]]; apply conf_all_conforms.
  - exact new_conf. - exact cancel_conf. - exact addcb_conf.
  - exact resolved_ok_conf. - exact resolved_err_conf. - exact resolved_cancel_conf.
Qed.

(* how much is covered: (applicable configuration x scenario pairs, paths) per entry point *)
Definition count (en : entry) : nat * nat :=
  fold_left (fun ab c => fold_left (fun '(a, b) x => if applicable en c x then (S a, b + List.length (paths en c x)) else (a, b)) scns ab) cfgs (0, 0).
Lemma coverage_counts : map count entries = [(144, 212); (4320, 4800); (4320, 7200); (720, 1840); (720, 1960); (360, 360)].
Proof. vm_compute. reflexivity. Qed.

(* no path of any generated method ends stuck / raises out of the method in the families (part of conf_all, stated on its own) *)
Definition completes (p : env * completion) : bool := match snd p with KReturn _ => true | _ => false end.
Lemma all_paths_complete : forallb (fun en => forallb (fun c => forallb (fun x => negb (applicable en c x) || forallb completes (paths en c x)) scns) cfgs) entries = true.
Proof. vm_compute. reflexivity. Qed.

(* ---- with ONE interference by a second thread ------------------------------------------------------------------
   between two visible operations of the method made while M is not held, thread T2 runs a whole cancel() of the same
   future (paths of the generated cancel, callbacks included), or the environment finishes d3 and - if the future is
   registered there - runs the generated _delegate_resolved(d3) in its thread.  These are the syntactic paths that need
   a race (done() false and then a tolerated InvalidStateError, a delegate that completes between the release of M and
   add_done_callback, callbacks registered after the snapshot ...). *)
Lemma new_conf1 : conf_all_n 1 EnNew = true.            Proof. vm_compute. reflexivity. Qed.
Lemma cancel_conf1 : conf_all_n 1 EnCancel = true.      Proof. vm_compute. reflexivity. Qed.
Lemma addcb_conf1 : conf_all_n 1 EnAddCb = true.        Proof. vm_compute. reflexivity. Qed.
Lemma resolved_cancel_conf1 : conf_all_n 1 (EnResolved 2) = true.  Proof. vm_compute. reflexivity. Qed.
