(* Layers, part 4: the side condition on upward calls is needed.  The G10 shape -- a thread that holds a lock x of
   layer i+1 calls UP and takes a lock g of layer i, against a thread that holds g and calls DOWN for x -- is
   rejected by wf_layers, its flattening violates the global order, and the two threads deadlock. *)
From Coq Require Import List Bool Arith Lia.
From ME Require Import Base.Machine Model.Locks Proofs.Locks_Proofs Model.Layers Proofs.Layers_Exec.
Import ListNotations.

(* at layer i: hold g (the gate / a lock of layer i), call down, take x there (a submit through the stack) *)
Definition down_prog (g x : nat) : list lp := [LAcq g; LDown [LAcq x; LRel x]; LRel g].
(* at layer i+1: hold x, call up, take g there (RetryExecutor._submit_now running user code inline) *)
Definition up_prog (g x : nat) : list lp := [LAcq x; LUp [LAcq g; LRel g]; LRel x].

Definition updown_threads (i g x : nat) (t : nat) : lthread :=
  match t with
  | 0 => {| l_start := i; l_prog := down_prog g x |}
  | 1 => {| l_start := S i; l_prog := up_prog g x |}
  | _ => idle
  end.

(* an upward call while a lock of the calling layer is held is never accepted *)
Lemma wf_up_holding_rejected K above c cs b : wf1 K above (c :: cs) (LUp b) = None.
Proof. reflexivity. Qed.

(* nor is an upward call from the top layer *)
Lemma wf_up_from_top_rejected K cur b : wf1 K [] cur (LUp b) = None.
Proof. destruct cur; reflexivity. Qed.

Lemma up_prog_not_wf K i g x : wf_layers K (S i) (up_prog g x) = false.
Proof.
  unfold wf_layers, wfs, up_prog. simpl. destruct (acq_ok K [] x); reflexivity.
Qed.

Lemma acq_ok_nil K k : k < K -> acq_ok K [] k = true.
Proof. intros H. apply Nat.ltb_lt in H. unfold acq_ok. rewrite H. reflexivity. Qed.

Lemma acq_ok_unbounded K cur k : Nat.ltb k K = false -> acq_ok K cur k = false.
Proof. intros H. unfold acq_ok. rewrite H. reflexivity. Qed.

Lemma down_prog_wf K i g x : g < K -> x < K -> wf_layers K i (down_prog g x) = true.
Proof.
  intros Hg Hx. unfold wf_layers, wfs, down_prog.
  cbn [ofold wf1]. rewrite (acq_ok_nil K g Hg). cbn [ofold wf1]. rewrite (acq_ok_nil K x Hx).
  rewrite !Nat.eqb_refl. reflexivity.
Qed.

Lemma flat_down_prog K i g x :
  flat K i (down_prog g x) = [Acq (glob K i g); Acq (glob K (S i) x); Rel (glob K (S i) x); Rel (glob K i g)].
Proof. reflexivity. Qed.

Lemma flat_up_prog K i g x :
  flat K (S i) (up_prog g x) = [Acq (glob K (S i) x); Acq (glob K i g); Rel (glob K i g); Rel (glob K (S i) x)].
Proof. reflexivity. Qed.

(* the flattening of the upward-call-while-holding shape does violate the global order *)
Lemma up_prog_not_ordered K i g x : g < K -> ordered [] (flat K (S i) (up_prog g x)) = false.
Proof.
  intros Hg. rewrite flat_up_prog.
  pose proof (glob_lt_layer K i (S i) g x (Nat.lt_succ_diag_r i) Hg) as L.
  assert (E1 : Nat.eqb (glob K i g) (glob K (S i) x) = false) by (apply Nat.eqb_neq; lia).
  assert (E2 : Nat.ltb (glob K (S i) x) (glob K i g) = false) by (apply Nat.ltb_ge; lia).
  simpl. rewrite E1, E2. reflexivity.
Qed.

(* two threads taking two different locks in opposite orders deadlock (Locks_Proofs.opposite_orders_deadlock for
   arbitrary lock numbers) *)
Definition opp (a b : nat) (t : nat) : list op :=
  match t with
  | 0 => [Acq a; Acq b; Rel b; Rel a]
  | 1 => [Acq b; Acq a; Rel a; Rel b]
  | _ => []
  end.

Lemma opposite_orders_deadlock_gen a b progs : a <> b ->
  progs 0 = opp a b 0 -> progs 1 = opp a b 1 -> (forall t, progs (S (S t)) = []) ->
  exists s, run step (init_of progs) [0; 1] = Some s /\
            (exists t, prog s t <> []) /\ forall t, step s t = None.
Proof.
  intros N P0 P1 P2. simpl in P0, P1.
  assert (Eba : Nat.eqb b a = false) by (apply Nat.eqb_neq; auto).
  pose (s1 := {| owner := upd (fun _ => None) a (Some 0); depth := upd (fun _ => 0) a 1;
                 prog := upd progs 0 [Acq b; Rel b; Rel a] |}).
  pose (s2 := {| owner := upd (owner s1) b (Some 1); depth := upd (depth s1) b 1;
                 prog := upd (prog s1) 1 [Acq a; Rel a; Rel b] |}).
  assert (R1 : step (init_of progs) 0 = Some s1).
  { unfold step, init_of. cbn [prog owner depth]. rewrite P0. reflexivity. }
  assert (R2 : step s1 1 = Some s2).
  { unfold step, s1. cbn [prog owner depth]. rewrite upd_other by discriminate. rewrite P1.
    rewrite upd_other by auto. reflexivity. }
  exists s2. split; [simpl run; rewrite R1, R2; reflexivity|]. split.
  - exists 0. unfold s2, s1. cbn [prog]. rewrite upd_other by discriminate. rewrite upd_same. discriminate.
  - intros [|[|t]]; unfold step, s2, s1; cbn [prog owner depth].
    + rewrite upd_other by discriminate. rewrite upd_same. rewrite upd_same. reflexivity.
    + rewrite upd_same. rewrite upd_other by auto. rewrite upd_same. reflexivity.
    + rewrite !upd_other by discriminate. rewrite P2. reflexivity.
Qed.

(* the G10 shape at any layer i of any stack, for any two locks: not well-formed, and a reachable deadlock *)
Theorem updown_deadlock : forall K i g x, g < K ->
  lwf K (updown_threads i g x 0) = (Nat.ltb x K) /\
  lwf K (updown_threads i g x 1) = false /\
  exists s, reachable_from step (init_of (fun t => lflat K (updown_threads i g x t))) s /\
            (exists t, prog s t <> []) /\ forall t, step s t = None.
Proof.
  intros K i g x Hg. split; [|split].
  - unfold lwf. simpl. destruct (Nat.ltb x K) eqn:Hx.
    + apply down_prog_wf; auto. apply Nat.ltb_lt; auto.
    + unfold wf_layers, wfs, down_prog. cbn [ofold wf1]. rewrite (acq_ok_nil K g Hg). cbn [ofold wf1].
      rewrite (acq_ok_unbounded K [] x Hx). reflexivity.
  - apply up_prog_not_wf.
  - pose proof (glob_lt_layer K i (S i) g x (Nat.lt_succ_diag_r i) Hg) as L.
    destruct (opposite_orders_deadlock_gen (glob K i g) (glob K (S i) x)
                (fun t => lflat K (updown_threads i g x t))) as (s & R & Hu & Hd);
      [lia|reflexivity|reflexivity|reflexivity|].
    exists s. split; [|split; auto]. exists [0; 1]. exact R.
Qed.
