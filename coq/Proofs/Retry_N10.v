(* C03 / C12 for the Retry machine, part 10: "this program will certainly execute _pop_job(r)" -- a predicate on
   programs that survives every step (exceptions are tracked the way norm does) until the pop happens. *)
From Coq Require Import List ZArith Bool Arith Lia.
From RecordUpdate Require Import RecordSet.
From ME Require Import Base.Machine Base.Fut Base.GenPrelude Gen.RetryGen Model.Retry Proofs.Retry_Spec.
From ME Require Import Proofs.Retry_C0 Proofs.Retry_C1 Proofs.Retry_C2 Proofs.Retry_C3 Proofs.Retry_C4 Proofs.Retry_C5 Proofs.Retry_C6
  Proofs.Retry_C7.
Import ListNotations RecordSetNotations.

(* thrw = an exception is propagating (instructions are skipped up to the next ICatch); IDCbDone may raise
   (assert found_job), so only pops behind the next ICatch are counted after it *)
Fixpoint wpop (r : nat) (thrw : bool) (p : list instr) : bool :=
  match p with
  | [] => false
  | ICatch :: q => wpop r false q
  | IThrow :: q => wpop r true q
  | IDCbDone _ :: q => wpop r true q
  | IXPop r' :: q => if thrw then wpop r true q else Nat.eqb r' r || wpop r false q
  | _ :: q => wpop r thrw q
  end.

Lemma wpop_true_false r : forall p, wpop r true p = true -> wpop r false p = true.
Proof.
  induction p as [|i q IH]; [discriminate|]. destruct i; simpl; auto.
  intros H. rewrite (IH H). apply orb_true_r.
Qed.
Lemma wpop_norm r : forall p b, wpop r b p = true -> wpop r false (norm b p) = true.
Proof.
  induction p as [|i q IH]; intros b H.
  - destruct b; discriminate H.
  - destruct i; simpl in H |- *; try (apply IH; exact H);
      try (destruct b; [apply IH; exact H|simpl; exact H]).
Qed.
Lemma wpop_cbs r j q : forall l, wpop r false (cbs_prog j l ++ q) = wpop r false q.
Proof. induction l as [|c l IH]; simpl; [reflexivity|]. destruct c; simpl; exact IH. Qed.

Lemma fset_next s t j o rest : MI s -> thr s t = IFSet j o :: rest -> exists r', rest = IRelMCbs j :: r'.
Proof.
  intros HM E. pose proof (mi_seq s HM t j) as X. rewrite E in X. simpl in X. rewrite Nat.eqb_refl in X.
  apply andb_true_iff in X. destruct X as [_ X]. apply mseq_fset_d in X. exact X.
Qed.

Lemma wpop_step s e s' r t0 : MI s -> step0 s e = Some s' -> wpop r false (thr s t0) = true ->
  wpop r false (thr s' t0) = true \/ ~ In r (jobs s').
Proof.
  intros HM H Hw. s0inv H; auto.
  all: try (match goal with inl : option outcome |- _ => destruct inl end).
  all: bsplit; subst.
  all: match goal with Hq : thr _ ?t = _ |- _ => destruct (Nat.eq_dec t0 t) as [->|Nt];
         [pose proof Hw as Hw0; rewrite Hq in Hw; simpl in Hw; try discriminate Hw
         |left; unfold log, set_prog; simpl; rewrite (upd_other _ _ _ _ Nt); exact Hw] end.
  all: unfold log, set_prog; simpl; rewrite ?upd_same.
  all: try solve [left; simpl; rewrite ?Hw, ?orb_true_r; reflexivity].
  all: try solve [left; apply wpop_norm; simpl; rewrite ?wpop_cbs, ?Hw, ?orb_true_r; reflexivity].
  - destruct (Nat.eqb r0 r) eqn:E.
    + apply eqb_t in E. subst r0. right. intros X. apply in_remove_id in X. destruct X as [_ X]. apply X. reflexivity.
    + left. apply wpop_norm. exact Hw.
  - left. destruct (fset_next s t _ _ _ HM Heql) as [l' ->]. simpl in Hw |- *. exact Hw.
  - left. simpl. apply wpop_true_false. exact Hw.
Qed.
