(* Layers, part 6: the library's call shapes (Model/LayerShapes.v) checked against wf_layers; the G10 stack and the
   G5 shape evaluated. *)
From Coq Require Import List Bool Arith Lia.
From ME Require Import Base.Machine Model.Locks Proofs.Locks_Proofs Model.Layers Model.LayerShapes
  Proofs.Layers_Exec Proofs.Layers_Wf Proofs.Layers_Deadlock Proofs.Layers_Refute Proofs.Layers_Solo Proofs.Layers_Seq Proofs.Layers_Num Proofs.Layers_Sync.
Import ListNotations.

(* ---- 1. cancel_on_shutdown / throttle / retry / pool: user submit, hand-over thread, retry thread, pool worker ---- *)
Lemma stack4_wf : forall t, lwf KL (stack4 t) = true.
Proof. intros [|[|[|[|t]]]]; vm_compute; reflexivity. Qed.

Lemma stack4_idle : forall t, 4 <= t -> l_prog (stack4 t) = [].
Proof. intros [|[|[|[|t]]]] H; try lia. reflexivity. Qed.

Lemma stack4_no_deadlock : forall s,
  reachable_from step (init_of (fun t => lflat KL (stack4 t))) s ->
  (exists t, prog s t <> []) -> exists t s', step s t = Some s'.
Proof. exact (layers_no_deadlock KL 4 stack4 stack4_wf stack4_idle). Qed.

(* non-vacuity: the user thread is inside ThrottleExecutor.submit holding gate 0, _lock of layer 0, gate 1 and X of
   layer 1 (four locks of two layers); the hand-over thread waits for X; the retry thread and the pool worker are
   in the middle of their programs; the user thread can move *)
Definition stack4_schedule : list nat := [0; 0; 0; 0; 0; 0; 0; 0; 2; 2; 2; 3].
Lemma stack4_blocked_example :
  exists s, run step (init_of (fun t => lflat KL (stack4 t))) stack4_schedule = Some s /\
            owner s (glob KL 0 G) = Some 0 /\ owner s (glob KL 0 cL) = Some 0 /\
            owner s (glob KL 1 G) = Some 0 /\ owner s (glob KL 1 X) = Some 0 /\
            owner s (glob KL 2 (M 0)) = Some 2 /\ owner s (glob KL 3 (C 0)) = Some 3 /\
            step s 1 = None /\ prog s 1 <> [] /\ step s 0 <> None.
Proof.
  eexists. split; [vm_compute; reflexivity|].
  repeat split; try reflexivity; discriminate.
Qed.

Lemma shapes_wf :
  wf_layers KL 0 cos_submit = true /\ wf_layers KL 1 throttle_handover = true /\
  wf_layers KL 2 retry_thread = true /\ wf_layers KL 3 pool_worker = true /\
  wf_layers KL 0 cos_map_map_submit = true /\
  wf_layers KL 0 map_cancel = true /\
  wf_layers KL 0 cos_shutdown = true /\
  wf_layers KL 2 completion_up2 = true.
Proof. vm_compute. repeat split. Qed.

(* the deepest nesting of cos_map_map_submit: gate 0, _lock 0, gate 1, gate 2, then the pool's two locks *)
Lemma gates_held_across_submit :
  exists pre post, flat KL 0 cos_map_map_submit =
    pre ++ [Acq (glob KL 0 G); Acq (glob KL 0 cL); Acq (glob KL 1 G); Acq (glob KL 2 G);
            Acq (glob KL 3 pS); Acq (glob KL 3 pGS)] ++ post.
Proof. exists []. eexists. vm_compute. reflexivity. Qed.

(* cancel: M of the outer future (twice, re-entrant), M of the inner future, X of retry, the pool condition *)
Lemma cancel_holds_outer_M :
  exists post, flat KL 0 map_cancel =
    [Acq (glob KL 0 (M 0)); Acq (glob KL 0 (M 0)); Acq (glob KL 1 (M 0)); Acq (glob KL 1 X); Rel (glob KL 1 X);
     Acq (glob KL 2 (C 0))] ++ post.
Proof. eexists. vm_compute. reflexivity. Qed.

(* seeded change C04-m3 (callbacks under the future's lock): rejected, and its flattening violates the order *)
Lemma m3_rejected :
  wf_layers KL 2 completion_up2_m3 = false /\ ordered [] (flat KL 2 completion_up2_m3) = false.
Proof. vm_compute. split; reflexivity. Qed.

(* ---- G10: timeout over retry over a synchronous executor ---- *)
Lemma g10_refuted :
  lwf KL (g10_threads 0) = true /\ lwf KL (g10_threads 1) = false /\
  ordered [] (lflat KL (g10_threads 1)) = false /\
  exists s, reachable_from step (init_of (fun t => lflat KL (g10_threads t))) s /\
            owner s (glob KL 0 G) = Some 0 /\ owner s (glob KL 1 X) = Some 1 /\
            (exists r, prog s 0 = Acq (glob KL 1 X) :: r) /\ (exists r, prog s 1 = Acq (glob KL 0 G) :: r) /\
            forall t, step s t = None.
Proof.
  split; [vm_compute; reflexivity|]. split; [vm_compute; reflexivity|]. split; [vm_compute; reflexivity|].
  eexists. split; [exists g10_schedule; vm_compute; reflexivity|].
  split; [reflexivity|]. split; [reflexivity|].
  split; [eexists; reflexivity|]. split; [eexists; reflexivity|].
  intros [|[|t]]; reflexivity.
Qed.

(* with a pool below retry instead of the synchronous executor the same two threads are well-formed *)
Lemma g10_with_pool_wf :
  wf_layers KL 0 (timeout_submit 1) = true /\ wf_layers KL 1 (retry_submit_now pool_submit) = true.
Proof. vm_compute. split; reflexivity. Qed.

(* the smallest instance of the shape is literally the pair of programs of Locks_Proofs.opposite_orders_deadlock *)
Lemma updown_is_opposite_orders :
  lflat 2 (updown_threads 0 1 0 0) = [Acq 1; Acq 2; Rel 2; Rel 1] /\
  lflat 2 (updown_threads 0 1 0 1) = [Acq 2; Acq 1; Rel 1; Rel 2].
Proof. split; reflexivity. Qed.

(* ---- nested submission ---- *)
Lemma nested_in_map_fn_wf : wf_layers KL 0 nested_in_map_fn = true.
Proof. vm_compute. reflexivity. Qed.

(* the nested call re-enters gate 0 while the outer call holds it *)
Lemma nested_in_map_fn_reenters :
  exists pre post, flat KL 0 nested_in_map_fn = Acq (glob KL 0 G) :: pre ++ Acq (glob KL 0 G) :: post /\
                   ~ In (Rel (glob KL 0 G)) pre.
Proof.
  eexists [_; _; _; _; _; _; _; _]. eexists. split; [vm_compute; reflexivity|].
  vm_compute. intros H. repeat (destruct H as [H|H]; [discriminate H|]). exact H.
Qed.

(* the callable of the (repaired) synchronous executor submits to the map executor again: well-formed *)
Lemma nested_in_callable_wf : wf_layers KL 0 nested_in_callable = true.
Proof. vm_compute. reflexivity. Qed.

(* the code before commit 3a8457b: the same under the sync gate *)
Lemma nested_in_callable_before_fix_facts :
  wf_layers KL 0 nested_in_callable_before_fix = false /\
  ordered [] (flat KL 0 nested_in_callable_before_fix) = false /\
  balanced [] (flat KL 0 nested_in_callable_before_fix) = true.
Proof. vm_compute. repeat split. Qed.

(* G5: the gate of layer 0 as a plain Lock: the very same program blocks on itself for ever *)
Lemma g5_self_deadlock :
  exists s, run (step_nr gate0_plain) (init_of (only 0 (flat KL 0 nested_in_map_fn))) (solo 0 9) = Some s /\
            (exists r, prog s 0 = Acq (glob KL 0 G) :: r) /\ owner s (glob KL 0 G) = Some 0 /\
            forall t, step_nr gate0_plain s t = None.
Proof.
  eexists. split; [vm_compute; reflexivity|].
  split; [eexists; reflexivity|]. split; [reflexivity|].
  intros [|t]; reflexivity.
Qed.

Lemma g5_repaired_returns :
  exists s', run step (init_of (only 0 (flat KL 0 nested_in_map_fn))) (solo 0 (length (flat KL 0 nested_in_map_fn))) = Some s' /\
             (forall t, prog s' t = []) /\ (forall l, owner s' l = None).
Proof.
  exact (layers_solo_returns KL 0 {| l_start := 0; l_prog := nested_in_map_fn |} nested_in_map_fn_wf).
Qed.

Lemma nested_in_callable_returns :
  exists s', run step (init_of (only 0 (flat KL 0 nested_in_callable))) (solo 0 (length (flat KL 0 nested_in_callable))) = Some s' /\
             (forall t, prog s' t = []) /\ (forall l, owner s' l = None).
Proof.
  exact (layers_solo_returns KL 0 {| l_start := 0; l_prog := nested_in_callable |} nested_in_callable_wf).
Qed.

Lemma nested_in_callable_before_fix_returns :
  exists s', run step (init_of (only 0 (flat KL 0 nested_in_callable_before_fix)))
                 (solo 0 (length (flat KL 0 nested_in_callable_before_fix))) = Some s' /\
             (forall t, prog s' t = []) /\ (forall l, owner s' l = None).
Proof.
  apply solo_balanced_returns. vm_compute. reflexivity.
Qed.

(* ---- any number of user threads making any sequence of calls on the 4-layer stack, worker threads iterating ---- *)
Lemma stack4_api_wf : forall layer, Forall (fun p => wf_layers KL layer p = true) (stack4_api layer).
Proof. intros [|[|[|[|l]]]]; simpl; repeat constructor. Qed.

Lemma stack4_any_calls_no_deadlock : forall n start (calls : nat -> list (list lp)),
  (forall t, incl (calls t) (stack4_api (start t))) -> (forall t, n <= t -> calls t = []) ->
  forall s, reachable_from step (init_of (fun t => lflat KL (seq_thread start calls t))) s ->
  (exists t, prog s t <> []) -> exists t s', step s t = Some s'.
Proof.
  intros n start calls Hincl Hn. apply (layers_calls_no_deadlock KL n); auto.
  intros t. apply Forall_forall. intros p Hp.
  pose proof (stack4_api_wf (start t)) as F. rewrite Forall_forall in F. apply F. exact (Hincl t p Hp).
Qed.

(* ---- map over the (repaired) synchronous executor, entered at the top AND directly at the sync layer ---- *)
Lemma map_sync_api_wf : forall layer, Forall (fun p => wf_layers KL layer p = true) (map_sync_api layer).
Proof. intros [|[|l]]; simpl; repeat constructor. Qed.

Lemma map_sync_any_calls_no_deadlock : forall n start (calls : nat -> list (list lp)),
  (forall t, incl (calls t) (map_sync_api (start t))) -> (forall t, n <= t -> calls t = []) ->
  forall s, reachable_from step (init_of (fun t => lflat KL (seq_thread start calls t))) s ->
  (exists t, prog s t <> []) -> exists t s', step s t = Some s'.
Proof.
  intros n start calls Hincl Hn. apply (layers_calls_no_deadlock KL n); auto.
  intros t. apply Forall_forall. intros p Hp.
  pose proof (map_sync_api_wf (start t)) as F. rewrite Forall_forall in F. apply F. exact (Hincl t p Hp).
Qed.

(* G20 repaired: the two threads of the gate inversion on the code since commit 3a8457b *)
Lemma gate_inversion_idle : forall t, 2 <= t -> l_prog (gate_inversion_threads t) = [].
Proof. intros [|[|t]] H; try lia. reflexivity. Qed.

Lemma gate_inversion_repaired :
  (forall t, lwf KL (gate_inversion_threads t) = true) /\
  In (l_prog (gate_inversion_threads 0)) (map_sync_api 0) /\ In (l_prog (gate_inversion_threads 1)) (map_sync_api 1) /\
  (forall s, reachable_from step (init_of (fun t => lflat KL (gate_inversion_threads t))) s ->
             (exists t, prog s t <> []) -> exists t s', step s t = Some s') /\
  (* the schedule prefix that deadlocked before the repair now extends to a run in which both calls return *)
  exists s, run step (init_of (fun t => lflat KL (gate_inversion_threads t)))
                (gate_inversion_schedule ++ [1] ++ repeat 0 11 ++ repeat 1 12) = Some s /\
            (forall t, prog s t = []) /\ (forall l, owner s l = None).
Proof.
  assert (W : forall t, lwf KL (gate_inversion_threads t) = true).
  { intros [|[|t]]; vm_compute; reflexivity. }
  split; [exact W|]. split; [left; reflexivity|]. split; [right; left; reflexivity|].
  split; [exact (layers_no_deadlock KL 2 gate_inversion_threads W gate_inversion_idle)|].
  eexists. split; [vm_compute; reflexivity|]. split; [intros [|[|t]]; reflexivity|].
  intros l. do 30 (destruct l as [|l]; [reflexivity|]). reflexivity.
Qed.

(* ---- the code BEFORE commit 3a8457b: map over a synchronous executor, entered through the top: ordered under the
   gates-first numbering ---- *)
Lemma map_sync_api_before_fix_ordered :
  Forall (fun p => ordered [] (flatn (gate_first LS KL) 0 p) = true) map_sync_api_before_fix.
Proof. unfold map_sync_api_before_fix. repeat constructor. Qed.

Lemma map_sync_before_fix_any_calls_no_deadlock : forall n (calls : nat -> list (list lp)),
  (forall t, incl (calls t) map_sync_api_before_fix) -> (forall t, n <= t -> calls t = []) ->
  forall s, reachable_from step (init_of (fun t => flatn (gate_first LS KL) 0 (concat (calls t)))) s ->
  (exists t, prog s t <> []) -> exists t s', step s t = Some s'.
Proof.
  intros n calls Hincl Hn. apply (numbered_calls_no_deadlock (gate_first LS KL) n (fun _ => 0)); auto.
  intros t. apply Forall_forall. intros p Hp.
  pose proof map_sync_api_before_fix_ordered as F. rewrite Forall_forall in F. apply F. exact (Hincl t p Hp).
Qed.

(* the shape outside wf_layers is in that API, and the lexicographic numbering rejects it *)
Lemma map_sync_api_before_fix_has_nested_in_callable :
  In nested_in_callable_before_fix map_sync_api_before_fix /\
  wf_layers KL 0 nested_in_callable_before_fix = false /\
  ordered [] (flatn (glob KL) 0 nested_in_callable_before_fix) = false /\
  ordered [] (flatn (gate_first LS KL) 0 nested_in_callable_before_fix) = true.
Proof. split; [right; right; right; left; reflexivity|]. vm_compute. repeat split. Qed.

(* ---- G20, the code BEFORE commit 3a8457b: the same stack entered at two layers: gate inversion, no retry executor ---- *)
Lemma gate_inversion_deadlock :
  lwf KL (gate_inversion_threads_before_fix 0) = true /\ lwf KL (gate_inversion_threads_before_fix 1) = false /\
  ordered [] (flatn (gate_first LS KL) 1 sync_direct_nested_before_fix) = false /\
  exists s, run step (init_of (fun t => lflat KL (gate_inversion_threads_before_fix t))) gate_inversion_schedule = Some s /\
            owner s (glob KL 0 G) = Some 0 /\ owner s (glob KL 1 G) = Some 1 /\
            (exists r, prog s 0 = Acq (glob KL 1 G) :: r) /\ (exists r, prog s 1 = Acq (glob KL 0 G) :: r) /\
            forall t, step s t = None.
Proof.
  split; [vm_compute; reflexivity|]. split; [vm_compute; reflexivity|]. split; [vm_compute; reflexivity|].
  eexists. split; [vm_compute; reflexivity|].
  split; [reflexivity|]. split; [reflexivity|].
  split; [eexists; reflexivity|]. split; [eexists; reflexivity|].
  intros [|[|t]]; reflexivity.
Qed.

(* ---- PollExecutor over a pool; FlatMapExecutor over a pool whose map function submits to the executor itself ---- *)
Lemma poll_api_wf : forall layer, Forall (fun p => wf_layers KL layer p = true) (poll_api layer).
Proof. intros [|[|l]]; simpl; repeat constructor. Qed.

Lemma poll_any_calls_no_deadlock : forall n start (calls : nat -> list (list lp)),
  (forall t, incl (calls t) (poll_api (start t))) -> (forall t, n <= t -> calls t = []) ->
  forall s, reachable_from step (init_of (fun t => lflat KL (seq_thread start calls t))) s ->
  (exists t, prog s t <> []) -> exists t s', step s t = Some s'.
Proof.
  intros n start calls Hincl Hn. apply (layers_calls_no_deadlock KL n); auto.
  intros t. apply Forall_forall. intros p Hp.
  pose proof (poll_api_wf (start t)) as F. rewrite Forall_forall in F. apply F. exact (Hincl t p Hp).
Qed.

(* the deepest nesting of the Poll machine: gate, X, M held by one thread, then released in order *)
Lemma poll_nested_gate_X_M :
  exists pre post, flat KL 0 poll_submit_delegate_done =
    Acq (glob KL 0 G) :: pre ++ [Acq (glob KL 0 pX); Acq (glob KL 0 (pM 0))] ++ post /\
    ~ In (Rel (glob KL 0 G)) pre.
Proof.
  eexists [_; _; _; _; _; _; _; _]. eexists. split; [vm_compute; reflexivity|].
  vm_compute. intros H. repeat (destruct H as [H|H]; [discriminate H|]). exact H.
Qed.

Lemma flat_map_api_wf : forall layer, Forall (fun p => wf_layers KL layer p = true) (flat_map_api layer).
Proof. intros [|[|l]]; simpl; repeat constructor. Qed.

Lemma flat_map_any_calls_no_deadlock : forall n start (calls : nat -> list (list lp)),
  (forall t, incl (calls t) (flat_map_api (start t))) -> (forall t, n <= t -> calls t = []) ->
  forall s, reachable_from step (init_of (fun t => lflat KL (seq_thread start calls t))) s ->
  (exists t, prog s t <> []) -> exists t s', step s t = Some s'.
Proof.
  intros n start calls Hincl Hn. apply (layers_calls_no_deadlock KL n); auto.
  intros t. apply Forall_forall. intros p Hp.
  pose proof (flat_map_api_wf (start t)) as F. rewrite Forall_forall in F. apply F. exact (Hincl t p Hp).
Qed.
