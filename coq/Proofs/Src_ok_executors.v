(* source facts of more_executors/_impl/executors.py: what the translator finds now is what the models were written against *)
From Coq Require Import List String.
From ME Require Import Gen.Src_executors Model.SrcExpected.
Lemma src_executors_ok : Src_executors.facts = expected_executors.
Proof. reflexivity. Qed.
