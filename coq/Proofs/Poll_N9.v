(* C03 / C12 for the Poll machine, part 9: a done poll future is on its way out of the descriptor list.
   InvQ: until PollFuture.__init__ has registered _clear_executor (IDoneA) that step is still pending;
         a super().cancel() (IFCancel j) is followed by the callbacks (IRelMCbs j) in the same program.
   Inv12: while a done future still has a descriptor, its deregistration is pending in some thread's program:
          the X-section itself (IXDereg), or the callbacks that will run it (IRelMCbs with _clear_executor
          registered), or the constructor step that will find the future done (IDoneA). *)
From Coq Require Import ZArith List Bool Arith Lia.
From RecordUpdate Require Import RecordSet.
From ME Require Import Base.Machine Base.Fut Base.GenPrelude Model.Poll Proofs.Poll_Inv Proofs.Poll_Prov
     Proofs.Poll_Raise Proofs.Poll_NoDup Proofs.Poll_N1 Proofs.Poll_N2 Proofs.Poll_N3 Proofs.Poll_N4 Proofs.Poll_N8.
Import ListNotations RecordSetNotations.

Fixpoint cprog (p : list instr) : Prop :=
  match p with
  | [] => True
  | IFCancel j :: r => In (IRelMCbs j) r /\ cprog r
  | _ :: r => cprog r
  end.

Lemma cprog_cancel_cont s j r : cprog r -> cprog (cancel_cont s j ++ r).
Proof.
  intros H. unfold cancel_cont, cancel_no, cancel_ok. destruct (negb (pexec s j)); [exact H|].
  destruct (negb (hascfn s)); [simpl; auto|]. destruct (lookup j (descs s)); simpl; auto.
Qed.
Lemma cprog_norm s p : cprog p -> cprog (norm s p).
Proof. destruct p as [|i r]; [auto|]. destruct i; auto. simpl. apply cprog_cancel_cont. Qed.
Lemma cprog_raise e (sn : list (nat * nat)) : cprog (flat_map (fun p => exc_prog (fst p) e) sn).
Proof. induction sn; simpl; auto. Qed.

Definition plain (i : instr) : Prop := forall k, i <> ICancelFnQ k.
Lemma in_norm s p i : plain i -> In i p -> In i (norm s p).
Proof.
  intros Hp. destruct p as [|x r]; [auto|]. destruct x; auto. simpl. rewrite in_app_iff.
  intros [H|H]; [exfalso; eapply Hp; eauto|right; exact H].
Qed.
Lemma plain_doneA j : plain (IDoneA j). Proof. intros k; discriminate. Qed.
Lemma plain_dereg j : plain (IXDereg j). Proof. intros k; discriminate. Qed.
Lemma plain_relcbs j : plain (IRelMCbs j). Proof. intros k; discriminate. Qed.

Record InvQ (s : st) : Prop := {
  q_doneA : forall j, j < nfut s -> pcb s j = false -> fdone (ps s j) = false -> exists t, In (IDoneA j) (thr s t);
  q_prog : forall t, cprog (thr s t)
}.

Lemma invq_init : InvQ init.
Proof. constructor; simpl; intros; [lia|exact I]. Qed.

(* In i (thr s tw) carried over to the new program of the moving thread (tail) or of another thread *)
Ltac in_goal Hp :=
  match goal with
  | |- In ?i (upd (thr _) ?t _ ?t') =>
      destruct (Nat.eq_dec t' t) as [Heqt|Hnet];
      [ subst; rewrite upd_same;
        match goal with E : thr _ _ = _ |- _ => rewrite E in Hp end;
        try (apply in_norm; [intros kk; discriminate|]);
        try match goal with |- context [yield_prog _ ?o] => destruct o end;
        try match goal with |- context [if ?c then [IXDereg _] else []] => destruct c end;
        simpl in *; rewrite ?in_app_iff; simpl;
        intuition (try discriminate; try congruence; eauto)
      | rewrite upd_other by assumption; exact Hp ]
  | _ => exact Hp
  end.

Ltac gQ_doneA Ip Iq :=
  let j0 := fresh "j0" in let Hl := fresh "Hl" in let Hc := fresh "Hc" in let Hnd := fresh "Hnd" in
  try match goal with
  | E : thr ?s ?t = _ :: _ |- _ =>
      let Hh := fresh "Hh" in pose proof (Ip t) as Hh; rewrite E in Hh; simpl in Hh; unfold Dn in Hh
  end;
  fst_eqs; intros j0 Hl Hc Hnd; pose proof (Iq j0) as Hw; split_j j0;
  try solve [ exfalso; first [ congruence | simpl in *; congruence | tauto
                             | match goal with E : f_set _ = Some _ |- _ => apply fset_done in E; congruence end
                             | match goal with E : f_cancel _ = (_, true) |- _ => apply fcancel_true_done in E; congruence end
                             | match goal with Hq : fdone _ = true /\ _ |- _ => destruct Hq; congruence end ]
            | eexists; rewrite upd_same; simpl; auto 6
            | match type of Hw with ?A -> ?B -> ?C -> _ =>
                assert (Hl0 : A) by lia;
                assert (Hc0 : B) by first [assumption|congruence];
                assert (Hnd0 : C)
                  by first [ assumption | eapply fsrnc_undone; eassumption | eapply fcancel_undone; eassumption ];
                let tw := fresh "tw" in let Hp := fresh "Hp" in
                destruct (Hw Hl0 Hc0 Hnd0) as [tw Hp]; exists tw; in_goal Hp end ].

Ltac gQ_prog Ic :=
  let t0 := fresh "t0" in intros t0; pose proof (Ic t0) as Hc0;
  try match goal with
  | E : thr ?s ?t = _ |- _ =>
      let Hc := fresh "Hc" in pose proof (Ic t) as Hc; rewrite E in Hc; simpl in Hc
  end;
  try match goal with |- context [upd (thr _) ?t _ t0] =>
    destruct (Nat.eq_dec t0 t) as [Heq|Hne];
    [ subst t0; rewrite (upd_same _ t); try apply cprog_norm; try apply cprog_cancel_cont
    | rewrite (upd_other _ t _ t0) by assumption ]
  end;
  try match goal with |- context [yield_prog _ ?o] => destruct o end;
  try match goal with |- context [if ?c then [IXDereg _] else []] => destruct c end;
  simpl; try apply cprog_raise;
  repeat match goal with H : _ /\ _ |- _ => destruct H end;
  try solve [ exact I | assumption | tauto | split; [simpl; tauto|assumption] ].

Ltac invq_fin Ip Iq Ic := constructor; simpl in *; [ try solve [gQ_doneA Ip Iq] | try solve [gQ_prog Ic] ].

Lemma invq_step s e s' : InvD s -> InvQ s -> step s e = Some s' -> InvQ s'.
Proof.
  destruct e as [ts e]. intros ID I H. apply step_inv in H. destruct H as [s1 [Ht H]].
  assert (I1 : InvD s1 /\ InvQ s1).
  { apply tick_inv in Ht. destruct Ht as [[-> _]|[-> _]]; [split; assumption|].
    split; [destruct ID; constructor; simpl; auto|destruct I; constructor; simpl; auto]. }
  clear I ID Ht s. destruct I1 as [[Ip _] [Iq Ic]].
  apply step0_inv in H. destruct H as [[c [d [Hev [_ Hs']]]]|[_ [H|[H|H]]]].
  - subst. constructor; simpl; auto.
  - open1 H; norm_eqs; invq_fin Ip Iq Ic.
  - open2 H; norm_eqs; invq_fin Ip Iq Ic.
  - open3 H; norm_eqs; invq_fin Ip Iq Ic.
Qed.

(* ---- Inv12 ------------------------------------------------------------------------------------------ *)
Definition dereg_pending (s : st) (j : nat) : Prop :=
  (exists t, In (IXDereg j) (thr s t)) \/ (pcb s j = true /\ exists t, In (IRelMCbs j) (thr s t)) \/
  (exists t, In (IDoneA j) (thr s t)).

Definition Inv12 (s : st) : Prop :=
  forall j, fdone (ps s j) = true -> In j (map fst (descs s)) -> dereg_pending s j.

Lemma inv12_init : Inv12 init.
Proof. intros j _ H. destruct H. Qed.

(* facts about the pre-state the preservation proof needs *)
Record Pre12 (s : st) : Prop := {
  p_reg : forall t j v l, thr s t = IXAcqReg j v :: l -> fdone (ps s j) = false;
  p_lt : forall j, In j (map fst (descs s)) -> j < nfut s
}.

Lemma not_in_remove j l : ~ In j (map fst (remove_fut j l)).
Proof.
  unfold remove_fut. induction l as [|p r IH]; simpl; [tauto|].
  destruct (Nat.eqb (fst p) j) eqn:E; simpl; [exact IH|]. apply Nat.eqb_neq in E. intros [H|H]; auto.
Qed.
Lemma in_fst_snoc_inv k (l : list (nat * nat)) p : In k (map fst (l ++ [p])) -> In k (map fst l) \/ k = fst p.
Proof. rewrite map_app, in_app_iff. simpl. intuition. Qed.

(* the pending step found in the old state was the head of the moving thread's program and has just run:
   its successor (IXDereg) is now in that program *)
Ltac dp_switch Hp tw orig :=
  match goal with E : thr ?s ?t = _ :: _ |- _ =>
    destruct (Nat.eq_dec tw t) as [Heq|Hne];
    [ subst tw; rewrite E in Hp; simpl in Hp; destruct Hp as [Hp|Hp];
      [ inversion Hp; subst; left; eexists; rewrite upd_same; simpl; solve [auto 6]
      | orig; exists t; rewrite upd_same; try (apply in_norm; [intros kk; discriminate|]);
        try match goal with |- context [if ?c then [IXDereg _] else []] => destruct c end;
        simpl; rewrite ?in_app_iff; simpl; solve [auto 8] ]
    | orig; exists tw; rewrite upd_other by assumption; exact Hp ]
  end.

Ltac dp_keep Hw :=
  (* Hw : dereg_pending in the old state *)
  let tw := fresh "tw" in let Hp := fresh "Hp" in let Hb := fresh "Hb" in
  destruct Hw as [[tw Hp]|[[Hb [tw Hp]]|[tw Hp]]];
  [ left; exists tw; in_goal Hp
  | first [ right; left; split; [first [assumption|congruence]|exists tw; solve [in_goal Hp]]
          | dp_switch Hp tw ltac:(right; left; split; [first [assumption|congruence]|])
          | left; eexists; rewrite upd_same; simpl; solve [auto 6] ]
  | first [ right; right; exists tw; solve [in_goal Hp]
          | dp_switch Hp tw ltac:(right; right)
          | left; eexists; rewrite upd_same; simpl; solve [auto 6] ] ].

Ltac inv12_fin Ip Iq Ic P12 I12 :=
  let j0 := fresh "j0" in let Hd := fresh "Hd" in let Hin := fresh "Hin" in
  try match goal with
  | E : thr ?s ?t = _ :: _ |- _ =>
      let Hh := fresh "Hh" in pose proof (Ip t) as Hh; rewrite E in Hh; simpl in Hh; unfold Dn in Hh;
      let Hk := fresh "Hk" in pose proof (Ic t) as Hk; rewrite E in Hk; simpl in Hk
  end;
  fst_eqs; unfold Inv12, dereg_pending; simpl in *; intros j0 Hd Hin;
  pose proof (I12 j0) as Hw; unfold dereg_pending in Hw; pose proof (Iq j0) as Hq;
  try match type of Hin with In _ (map fst (remove_fut ?j _)) =>
        destruct (Nat.eq_dec j0 j) as [->|?]; [exfalso; eapply not_in_remove; eassumption|] end;
  try (apply in_fst_remove in Hin);
  try (apply in_fst_snoc_inv in Hin; destruct Hin as [Hin|Hin]; [|simpl in Hin; subst j0]);
  split_j j0;
  try match goal with E : f_cancel (ps ?s ?jj) = (_, true) |- _ =>
        destruct (Bool.bool_dec (fdone (ps s jj)) true) as [Hpre|Hpre]; [|apply not_true_is_false in Hpre] end;
  try solve [ exfalso; first [ eapply not_in_remove; eassumption
                             | match goal with E : thr _ _ = IXAcqReg _ _ :: _ |- _ =>
                                 pose proof (p_reg _ P12 _ _ _ _ E); congruence end
                             | pose proof (p_lt _ P12 _ Hin); lia ]
            | (* j0 has just become done: the callbacks are next in this thread's program *)
              match goal with
              | E : f_set _ = Some _ |- _ => pose proof (fset_some_notdone _ _ E) as Hnd0
              | E : f_cancel (ps ?s ?jj) = (_, true), Hn : fdone (ps ?s ?jj) = false |- _ => idtac
              end;
              match goal with |- context [pcb ?s ?jj = true] =>
                destruct (Bool.bool_dec (pcb s jj) true) as [Epcb|Epcb]; [|apply not_true_is_false in Epcb] end;
              [ right; left; split; [assumption|];
                eexists; rewrite upd_same; try (apply in_norm; [intros kk; discriminate|]); simpl; solve [auto | tauto]
              | right; right;
                pose proof (p_lt _ P12 _ Hin) as Hl0;
                let tq := fresh "tq" in let Hp := fresh "Hp" in
                match goal with Hb : pcb _ ?jj = false, Hn : fdone (ps _ ?jj) = false |- _ =>
                  destruct (Hq Hl0 Hb Hn) as [tq Hp] end; exists tq; in_goal Hp ]
            | match type of Hw with ?A -> ?B -> _ =>
                assert (Hd0 : A)
                  by first [ assumption | eapply fsrnc_done_back; eassumption
                           | eapply fcancel_false_done_back; eassumption ];
                specialize (Hw Hd0 Hin) end;
              dp_keep Hw ].

Lemma inv12_step s e s' : InvD s -> InvQ s -> Pre12 s -> Inv12 s -> step s e = Some s' -> Inv12 s'.
Proof.
  destruct e as [ts e]. intros ID IQ P I H. apply step_inv in H. destruct H as [s1 [Ht H]].
  assert (I1 : InvD s1 /\ InvQ s1 /\ Pre12 s1 /\ Inv12 s1).
  { apply tick_inv in Ht. destruct Ht as [[-> _]|[-> _]]; [auto|].
    split; [destruct ID; constructor; simpl; auto|]. split; [destruct IQ; constructor; simpl; auto|].
    split; [destruct P; constructor; simpl; auto|exact I]. }
  clear I ID IQ P Ht s. destruct I1 as [[Ip _] [[Iq Ic] [P12 I12]]].
  apply step0_inv in H. destruct H as [[c [d [Hev [_ Hs']]]]|[_ [H|[H|H]]]].
  - subst. exact I12.
  - open1 H; norm_eqs; try solve [inv12_fin Ip Iq Ic P12 I12].
  - open2 H; norm_eqs; try solve [inv12_fin Ip Iq Ic P12 I12].
  - open3 H; norm_eqs; try solve [inv12_fin Ip Iq Ic P12 I12].
Qed.
