(* C03 for the Retry machine, part 13: the record of a retry future whose in-flight delegate future was cancelled by
   somebody else (EEnvCancel) stays in _jobs: the only thread that can still pop it is a canceller of that very
   retry future (XC), so the witness W7 is kept by every step until then (keep7). *)
From Coq Require Import List ZArith Bool Arith Lia.
From RecordUpdate Require Import RecordSet.
From ME Require Import Base.Machine Base.Fut Base.GenPrelude Gen.RetryGen Model.Retry Proofs.Retry_Spec.
From ME Require Import Proofs.Retry_C0 Proofs.Retry_C1 Proofs.Retry_C2 Proofs.Retry_C3 Proofs.Retry_C4 Proofs.Retry_C5 Proofs.Retry_C6
  Proofs.Retry_C7 Proofs.Retry_C8 Proofs.Retry_C9 Proofs.Retry_C10 Proofs.Retry_C11 Proofs.Retry_C12 Proofs.Retry_N0 Proofs.Retry_N1
  Proofs.Retry_N2 Proofs.Retry_N3.
Import ListNotations RecordSetNotations.
#[local] Arguments norm : simpl nomatch.

(* a pending _pop_job of a record whose delegate future is cancelled belongs to a canceller of the retry future
   (RetryFuture.cancel() after delegate_future.cancel() returned True), or the retry future is done already *)
Definition XC (s : st) : Prop := forall t r d, In (IXPop r) (thr s t) -> jdel (recs s r) = Some d ->
  fcancelled (ds s d) = true ->
  fcpre s (jf (recs s r)) 0 (thr s t) = true \/ fdone (rs s (jf (recs s r))) = true.

Lemma XC_step0 s e s' : XC s -> PI s -> step0 s e = Some s' -> XC s'.
Proof.
  intros HX HP H. pose proof (MONO_step0 _ _ _ H) as HM. pose proof H as H0.
  assert (Old : forall v r d, In (IXPop r) (thr s v) -> jdel (recs s' r) = Some d -> fcancelled (ds s' d) = true ->
     fcpre s' (jf (recs s' r)) 0 (thr s' v) = true \/ fdone (rs s' (jf (recs s' r))) = true).
  { intros v r d Hv Hjd Hc. pose proof (pop_lt s v r HP Hv) as Hr.
    rewrite (mo_jdel _ _ HM) in Hjd by exact Hr. rewrite (mo_jf _ _ HM) by exact Hr.
    pose proof (pi_thr s HP v) as Q. rewrite Forall_forall in Q. destruct (Q _ Hv) as [_ Qd].
    destruct (Qd d Hjd) as [Hd Hdn]. rewrite (mo_dcan_inv _ _ HM d Hd Hdn) in Hc.
    destruct (HX v r d Hv Hjd Hc) as [F|F].
    - destruct (fcpre_step s e s' _ v H0 HP F) as [G|G]; [left; exact G|right; exact G].
    - right. apply (mo_rdone _ _ HM); [apply (pi_jf s HP); exact Hr|exact F]. }
  clear H0. s0inv H; try exact HX.
  all: try (match goal with inl : option outcome |- _ => destruct inl end).
  all: bsplit; subst.
  all: intros u rx dx Hin Hjd Hc.
  all: try (apply (Old u rx dx); [exact Hin|exact Hjd|exact Hc]).
  all: match type of Hin with In _ (thr ?B _) =>
         match goal with Hq : thr _ ?t = _ |- _ =>
           destruct (Nat.eq_dec u t) as [->|Nu];
           [|apply (Old u rx dx); [|exact Hjd|exact Hc];
             unfold log, set_prog in Hin; simpl in Hin; rewrite (upd_other _ _ _ _ Nu) in Hin; exact Hin] end end.
  all: try (match goal with Hq : thr _ ?t = ?i :: _ |- _ => pose proof (head_ipr _ t i _ HP Hq) as Hi; simpl in Hi end).
  all: pose proof Hin as Hin0; unfold log, set_prog in Hin; simpl in Hin; rewrite ?upd_same in Hin.
  all: try (match type of Hin with context[if dcb ?s ?d then _ else _] => destruct (dcb s d) end).
  all: try (apply in_norm in Hin; destruct Hin as [Hin|Hin]; [|discriminate Hin]).
  all: try (apply in_app_iff in Hin; destruct Hin as [Hin|Hin]; [exfalso; eapply in_cbs_xpop; exact Hin|]).
  all: try (apply in_tl in Hin).
  all: simpl in Hin; repeat (destruct Hin as [Hin|Hin]; [try discriminate Hin|]); try contradiction.
  all: try (apply in_tl in Hin).
  all: try (match goal with Hq : thr _ ?t = _ :: _ |- _ =>
         apply (Old t rx dx); [rewrite Hq; right; exact Hin|exact Hjd|exact Hc] end).
  all: try (inversion Hin; subst; clear Hin).
  all: clear Old HM; unfold log, set_prog in Hjd, Hc |- *; simpl in Hjd, Hc |- *.
  1-2: (exfalso; apply next_job_in in Heqo; destruct Heqo as [_ B]; congruence).
  all: try solve [exfalso; repeat match goal with H : _ /\ _ |- _ => destruct H | H : exists _, _ |- _ => destruct H end;
        match goal with E1 : jdel (recs _ ?x) = Some ?a, E2 : jdel (recs _ ?x) = Some ?b |- _ =>
          assert (a = b) by congruence; subst end;
        first [congruence | match goal with F : ds _ _ = Finished |- _ => rewrite F in Hc; discriminate Hc end]].
  - left. destruct Hi as (_ & _ & Ej & _). rewrite upd_same. simpl. rewrite upd_same, (f_cancel_can _ _ Heqp), Ej, Nat.eqb_refl.
    reflexivity.
  - left. destruct Hi as (_ & _ & Ej & _). rewrite upd_same. simpl. rewrite Ej, Nat.eqb_refl. reflexivity.
Qed.

Lemma XC_reach s : reachable_from step init s -> XC s.
Proof.
  apply (invariant_rule_r step XC).
  - intros t r d H. destruct H.
  - intros s0 e s' R IH H. apply step_split in H. destruct H as (s1 & Ht & H).
    apply tick_eq in Ht. subst s1. eapply XC_step0; [ | |exact H].
    + intros t r d Hin Hjd Hc. destruct (IH t r d Hin Hjd Hc) as [A|A]; [left|right; exact A].
      simpl. rewrite fcpre_tick. exact A.
    + apply PI_tick, PI_reach, R.
Qed.


(* W7 is kept by every step: the record can only be popped by a canceller of j itself *)
Lemma keep7 s e s' j : SI s -> XC s -> step0 s e = Some s' -> W7 s j -> fdone (rs s' j) = false -> Wit s' j.
Proof.
  intros HS HX H (r & d & Hin & Hjf & Hjd & Hcan & Henv) Hnd.
  assert (Hr : r < nrec s) by (apply (ri_jobs s (si_ri s HS)); exact Hin).
  pose proof (si_pi s HS) as HP.
  assert (Hd : d < ndel s) by (apply (pi_del s HP r d Hr Hjd)).
  pose proof (MONO_step0 _ _ _ H) as HM.
  assert (K : In r (jobs s') -> Wit s' j).
  { intros X. w7. exists r, d. split; [exact X|]. split; [rewrite (mo_jf _ _ HM) by exact Hr; exact Hjf|].
    split; [rewrite (mo_jdel _ _ HM) by exact Hr; exact Hjd|]. split; [apply (mo_dcan _ _ HM); assumption|].
    eapply envc_step0; eassumption. }
  assert (Hj : j < nfut s) by (rewrite <- Hjf; apply (pi_jf s HP); exact Hr).
  assert (Hnd0 : fdone (rs s j) = false).
  { destruct (fdone (rs s j)) eqn:E; [|reflexivity]. rewrite (mo_rdone _ _ HM j Hj E) in Hnd. discriminate. }
  assert (F7 : forall p, Forall (ipr s) p -> fcpre s j 0 p = true -> fcpre s' j 0 p = true)
    by (intros p Hp; apply fcpre_mono; [exact HM|exact Hp]).
  clear HM. s0inv H; try (apply K; exact Hin).
  all: try (match goal with inl : option outcome |- _ => destruct inl end).
  all: bsplit; subst.
  all: try solve [apply K; unfold log, set_prog; simpl; first [exact Hin | apply in_app_iff; left; exact Hin]].
  all: try (match goal with Hq : thr _ ?t = ?i :: _ |- _ => pose proof (head_ipr _ t i _ HP Hq) as Hi; simpl in Hi end).
  - (* cancel scan, idle record removed: not ours *)
    apply K. unfold set_prog. simpl. apply in_remove_id. split; [exact Hin|congruence].
  - (* _retry: its record has a finished delegate future *)
    destruct Hi as (_ & d' & Ed & _ & Ef & _).
    apply K. unfold log, set_prog. simpl. apply in_app_iff. left. apply in_remove_id. split; [exact Hin|].
    intros ->. rewrite Ed in Hjd. inversion Hjd; subst d'. rewrite Ef in Hcan. discriminate.
  - (* _pop_job *)
    destruct (Nat.eq_dec r r0) as [->|Nr]; [|apply K; unfold set_prog; simpl; apply in_remove_id; split; assumption].
    assert (Ho : In (IXPop r0) (thr s t)) by (rewrite Heql; left; reflexivity).
    destruct (HX t r0 d Ho Hjd Hcan) as [F|F]; [|unfold set_prog in Hnd; simpl in Hnd; congruence].
    rewrite Heql in F. simpl in F.
    pose proof (pi_thr s HP t) as Q. rewrite Heql in Q. inversion Q as [|? ? _ Ql]; subst.
    w6. exists t. rewrite thr_set_prog_same. apply fcpre_norm. apply F7; assumption.
  - (* _submit_now pops an idle record *)
    destruct Hi as (_ & Ed & _).
    apply K. unfold set_prog. simpl. apply in_remove_id. split; [exact Hin|congruence].
Qed.
