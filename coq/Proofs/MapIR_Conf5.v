(* PATH CONFORMANCE with one interference by a second thread: all entry points; how many paths. *)
Set Warnings "-abstract-large-number".
From Coq Require Import ZArith List Bool Arith String.
From ME Require Import Base.Machine Base.Fut Base.GenPrelude Model.MapFut Model.MapIR Gen.MapSkel
  Proofs.MapIR_Conf Proofs.MapIR_Conf2 Proofs.MapIR_Conf3 Proofs.MapIR_Conf4.
Import ListNotations.

Lemma all_paths_conform1 : forall en c x, In en entries -> In c cfgs -> In x scns -> applicable en c x = true ->
  paths_n 1 en c x <> [] /\ forall p, In p (paths_n 1 en c x) -> conforms en c x p.
Proof.
  intros en c x Hen. simpl in Hen.
  destruct Hen as [<-|[<-|[<-|[<-|[<-|[<-|[]]]]]]]; apply conf_all_n_conforms.
  - exact new_conf1. - exact cancel_conf1. - exact addcb_conf1.
  - exact resolved_ok_conf1. - exact resolved_err_conf1. - exact resolved_cancel_conf1.
Qed.

Definition count1 (en : entry) : nat * nat :=
  fold_left (fun ab c => fold_left (fun '(a, b) x => if applicable en c x then (S a, b + List.length (paths_n 1 en c x)) else (a, b)) scns ab) cfgs (0, 0).
(* paths in which the second thread did move *)
Definition interfered (p : env * completion) : bool := existsb (fun it => Nat.eqb (it_t it) T2) (o_items (fst p)).
Definition count1i (en : entry) : nat :=
  fold_left (fun a c => fold_left (fun a x => if applicable en c x then a + List.length (filter interfered (paths_n 1 en c x)) else a) scns a) cfgs 0.

Lemma coverage_counts1 :
  map count1 entries = [(144, 2212); (4320, 12300); (4320, 24720); (720, 19172); (720, 22130); (360, 1420)] /\
  map count1i entries = [2000; 7500; 17520; 17332; 20170; 1060].
Proof. vm_compute. split; reflexivity. Qed.
