(* The NoCancelFuture machine (Model/NoCancel.v): invariant and theorems. *)
From Coq Require Import ZArith List Bool Arith Lia.
From RecordUpdate Require Import RecordSet.
From ME Require Import Base.Machine Base.Fut Base.GenPrelude Base.ProxyPrelude Gen.Proxy2Gen Model.MapFut Model.MapLaw Model.NoCancel
  Proofs.MapFut_D0 Proofs.MapFut_D1 Proofs.MapFut_D2 Proofs.MapFut_D7 Proofs.MapFut_D8 Proofs.MapFut_D10 Proofs.MapFut_E4 Proofs.NoCancel_Inv Proofs.NoCancel_Step.
Import ListNotations RecordSetNotations.

(* what is known about a NoCancelFuture j over the base machine b *)
Record ncfacts (b : st) (j : nat) : Prop := {
  nf_born : j < nfut b;
  nf_nocall : ~ In (HCancelCall j) (hist b);
  nf_kind : mkind b j = KMap;
  nf_fn : mfn b j = has_fn nocancel_map_fn;
  nf_efn : mefn b j = has_fn nocancel_error_fn;
  nf_ans : is_identity nocancel_map_fn = true -> forall d a, In (HFn j d a) (hist b) ->
             exists v, a = ARet v /\ eout b d = Some (Ok v) /\ es b d = Finished
}.
Definition J (s : ncst) : Prop := reachable (base s) /\ forall j, isnc s j = true -> ncfacts (base s) j.

Lemma ncfacts_step (s : ncst) e b' j : J s -> step (base s) e = Some b' ->
  (forall t, e = ECallCancel t j -> False) ->
  (forall t a, e = EUserFn t a -> fn_answer_ok s t a = true) ->
  isnc s j = true -> ncfacts b' j.
Proof.
  intros [R JJ] H NC FA IJ. pose proof (JJ j IJ) as [F1 F2 F3 F4 F5 F6].
  destruct (step_loud _ _ _ R H) as (s0 & L & [SFh SFe SFo SFn SFk SFf SFg _ _]).
  destruct (lstep_static _ _ _ L j F1) as (S1 & S2 & S3).
  pose proof (lstep_nfut _ _ _ L) as LN.
  constructor; rewrite ?SFh, ?SFe, ?SFo, ?SFn, ?SFk, ?SFf, ?SFg.
  - lia.
  - intros X. destruct (lstep_new_cancelcall _ _ _ _ L X) as [X1|[t ->]]; [contradiction|]. eapply NC; reflexivity.
  - congruence.
  - congruence.
  - congruence.
  - intros ID d a X. destruct (lstep_new_fn _ _ _ _ _ _ L X) as [X1|(t & rest & -> & ET)].
    + destruct (F6 ID d a X1) as (v & -> & E1 & E2). destruct (lstep_es_fin _ _ _ L d E2) as [G1 G2].
      exists v. repeat split; congruence.
    + pose proof (FA t a eq_refl) as OK. unfold fn_answer_ok in OK. rewrite ET, IJ, ID in OK. simpl in OK.
      destruct a as [v| | |]; try discriminate OK. destruct (eout (base s) d) as [[w|]|] eqn:EO; try discriminate OK.
      apply Nat.eqb_eq in OK. subst w.
      pose proof (inv6_reach _ R) as [_ (_ & _ & OL)]. pose proof (o_thr _ OL t) as OT. rewrite ET in OT. inversion OT; subst.
      match goal with P : okP _ (IUserFn _ _) |- _ => destruct P as (_ & P2 & _ & _) end.
      destruct (lstep_es_fin _ _ _ L d P2) as [G1 G2]. exists v. repeat split; congruence.
Qed.

Lemma J_init : J ncinit.
Proof. split; [apply reachable_refl|]. intros j X. discriminate X. Qed.

Lemma J_step s e s' : J s -> nstep s e = Some s' -> J s'.
Proof.
  intros Js H. pose proof Js as [R JJ]. destruct e as [t j d|t j|e]; unfold nstep in H.
  - (* NNew *)
    destruct (step (base s) (ECallNew t j KMap (has_fn nocancel_map_fn) (has_fn nocancel_error_fn) d)) as [b|] eqn:E; [|discriminate].
    inversion H; subst; clear H. simpl. split; [eapply reachable_step; eauto|].
    intros j' X. destruct (Nat.eq_dec j' j) as [->|N].
    + destruct (step_loud _ _ _ R E) as (s0 & L & [SFh SFe SFo SFn SFk SFf SFg _ _]).
      destruct (lstep_callnew _ _ _ _ _ _ _ _ L) as (-> & N1 & N2 & N3 & N4 & N5 & N6 & N7).
      pose proof (inv2_reach _ R) as [[_ B] _].
      constructor; simpl; rewrite ?SFh, ?SFe, ?SFo, ?SFn, ?SFk, ?SFf, ?SFg; try assumption; try lia.
      * rewrite N5. intros [Y|Y]; [discriminate Y|]. pose proof (bnd_hist _ _ _ B Y eq_refl). lia.
      * intros _ d' a Y. rewrite N5 in Y. destruct Y as [Y|Y]; [discriminate Y|]. pose proof (bnd_hist _ _ _ B Y eq_refl). lia.
    + simpl in X. rewrite upd_other in X by exact N. simpl. eapply ncfacts_step; eauto; intros; discriminate.
  - (* NCancel *)
    destruct (negb (isnc s j) || negb (j <? nfut (base s))); [discriminate|].
    destruct (thr (base s) t); [|discriminate]. vm_compute nocancel_cancel_body in H. inversion H; subst; clear H. simpl. exact Js.
  - (* NBase *)
    assert (forall b (f : nat -> bool), step (base s) e = Some b -> (forall j, f j = true -> isnc s j = true) ->
            (forall t j, e = ECallCancel t j -> isnc s j = false) -> (forall t a, e = EUserFn t a -> fn_answer_ok s t a = true) ->
            J (s <| base := b |> <| isnc := f |>)) as G.
    { intros b f E F NC FA. simpl. split; [eapply reachable_step; eauto|]. simpl. intros j X.
      apply (ncfacts_step s e b j Js E).
      - intros t ->. pose proof (NC t j eq_refl) as N1. pose proof (F j X) as N2. congruence.
      - exact FA.
      - apply F; exact X. }
    destruct e;
      try (destruct (step (base s) _) as [b|] eqn:E; [|discriminate]; inversion H; subst; clear H;
           apply (G b (isnc s)); auto; intros; discriminate).
    + destruct (step (base s) (ECallNew t j k hasfn hasefn d)) as [b|] eqn:E; [|discriminate]. inversion H; subst; clear H.
      apply (G b (upd (isnc s) j false)); auto; try (intros; discriminate).
      intros j' X. destruct (Nat.eq_dec j' j) as [->|N]; [rewrite upd_same in X; discriminate|rewrite upd_other in X by exact N; exact X].
    + destruct (isnc s j) eqn:IJ; [discriminate|].
      destruct (step (base s) (ECallCancel t j)) as [b|] eqn:E; [|discriminate]. inversion H; subst; clear H.
      apply (G b (isnc s)); auto; try (intros; discriminate). intros t' j' X. inversion X; subst. exact IJ.
    + destruct (fn_answer_ok s t a) eqn:OK; [|discriminate].
      destruct (step (base s) (EUserFn t a)) as [b|] eqn:E; [|discriminate]. inversion H; subst; clear H.
      apply (G b (isnc s)); auto; try (intros; discriminate). intros t' a' X. inversion X; subst. exact OK.
Qed.

Lemma J_reach s : ncreachable s -> J s.
Proof. apply invariant_rule; [apply J_init|]. intros; eapply J_step; eauto. Qed.

(* ---- theorems ------------------------------------------------------------------------------------------ *)
Theorem nc_base_reachable s : ncreachable s -> reachable (base s).
Proof. intros R. apply (J_reach _ R). Qed.

(* whatever the state of the underlying future and however often cancel() is called on the wrapper: no cancel() reaches the
   underlying future on the wrapper's behalf, the wrapper itself is never cancelled, no thread is on its cancel path *)
Theorem nc_underlying_receives_no_cancel s : ncreachable s -> forall j, isnc s j = true ->
  (forall d b, ~ In (HDCancel j d b) (hist (base s))) /\ ~ In (HCancelled j) (hist (base s)) /\
  fcancelled (ms (base s) j) = false /\ (forall t i, In i (thr (base s) t) -> cinstr i <> Some j).
Proof.
  intros R j IJ. destruct (J_reach _ R) as [RB JJ]. apply mapfut_no_call_no_cancel; [exact RB|]. apply (nf_nocall _ _ (JJ j IJ)).
Qed.

(* cancel() on the wrapper: no visible operation, the base machine (the underlying future included) is exactly as before,
   the answer is False *)
Theorem nc_cancel_is_noop s t j s' : nstep s (NCancel t j) = Some s' ->
  base s' = base s /\ isnc s' = isnc s /\ nans s' j = false :: nans s j.
Proof.
  unfold nstep. destruct (negb (isnc s j) || negb (j <? nfut (base s))); [discriminate|].
  destruct (thr (base s) t); [|discriminate]. vm_compute nocancel_cancel_body. intros H. inversion H; subst; clear H. simpl.
  rewrite upd_same. repeat split; reflexivity.
Qed.
Theorem nc_cancel_enabled s t j : isnc s j = true -> j < nfut (base s) -> thr (base s) t = [] -> exists s', nstep s (NCancel t j) = Some s'.
Proof.
  intros I L T. unfold nstep. rewrite I. apply Nat.ltb_lt in L. rewrite L, T. simpl. vm_compute nocancel_cancel_body. eauto.
Qed.
(* any number of them *)
Theorem nc_cancel_any_number s t j n : isnc s j = true -> j < nfut (base s) -> thr (base s) t = [] ->
  exists s', run nstep s (repeat (NCancel t j) n) = Some s' /\ base s' = base s /\ isnc s' = isnc s /\ nans s' j = repeat false n ++ nans s j.
Proof.
  revert s. induction n as [|n IH]; intros s I L T.
  - exists s. simpl. auto.
  - destruct (nc_cancel_enabled s t j I L T) as (s1 & E). destruct (nc_cancel_is_noop _ _ _ _ E) as (B1 & I1 & A1).
    destruct (IH s1) as (s' & RU & B2 & I2 & A2); [congruence|congruence|congruence|].
    exists s'. cbn [repeat run]. rewrite E. split; [exact RU|]. repeat split; try congruence.
    rewrite A2, A1. change (false :: nans s j) with ([false] ++ nans s j). rewrite app_assoc, <- repeat_cons. reflexivity.
Qed.
Theorem nc_every_answer_false s : ncreachable s -> forall j b, In b (nans s j) -> b = false.
Proof.
  revert s. apply (invariant_rule nstep (fun s => forall j b, In b (nans s j) -> b = false)).
  - intros j b X. destruct X.
  - intros s e s' I H j b X. destruct e as [t j0 d|t j0|e]; unfold nstep in H.
    + destruct (step (base s) _); [|discriminate]. inversion H; subst; clear H. simpl in X.
      destruct (Nat.eq_dec j j0) as [->|N]; [rewrite upd_same in X; destruct X|rewrite upd_other in X by exact N; eauto].
    + destruct (nc_cancel_is_noop _ _ _ _ H) as (_ & _ & A).
      assert (forall j', j' <> j0 -> nans s' j' = nans s j') as O.
      { destruct (negb (isnc s j0) || negb (j0 <? nfut (base s))); [discriminate|].
        destruct (thr (base s) t); [|discriminate]. vm_compute nocancel_cancel_body in H. inversion H; subst; clear H. simpl.
        intros j' N. apply upd_other; exact N. }
      destruct (Nat.eq_dec j j0) as [->|N]; [rewrite A in X; destruct X as [X|X]; [congruence|eauto]|rewrite O in X by exact N; eauto].
    + assert (nans s' = nans s) as E.
      { destruct e;
          repeat match type of H with
                 | (if ?c then _ else _) = _ => destruct c; try discriminate H
                 | match ?x with _ => _ end = _ => destruct x; try discriminate H
                 end; inversion H; reflexivity. }
      rewrite E in X. eauto.
Qed.

(* the wrapper mirrors the underlying outcome: whatever outcome it is ever given is the delegate's own *)
Theorem nc_outcome_mirrors s : ncreachable s -> forall j, isnc s j = true -> forall o, In (HSet j o) (hist (base s)) ->
  exists d, In (HNew j d) (hist (base s)) /\ eout (base s) d = Some o /\ es (base s) d = Finished /\
            ms (base s) j = Finished /\ mout (base s) j = Some o.
Proof.
  intros R j IJ o X. destruct (J_reach _ R) as [RB JJ]. pose proof (JJ j IJ) as [F1 F2 F3 F4 F5 F6].
  destruct (mapfut_outcome_law _ RB j o X) as (d & din & N & EO & ES & LAW).
  pose proof (inv2_reach _ RB) as [_ HD]. destruct (h_set _ HD j o X) as [M1 M2].
  exists d. repeat split; auto.
  rewrite F4, F5, F3 in LAW. vm_compute nocancel_map_fn in LAW. vm_compute nocancel_error_fn in LAW. simpl in LAW.
  destruct din as [v|e]; [|congruence].
  destruct LAW as (fa & HF & AP). destruct (F6 eq_refl d fa HF) as (w & -> & E1 & _). simpl in AP. congruence.
Qed.

(* the identity-answer restriction of the machine excludes nothing: when the wrapper's function is about to be called the
   delegate is finished with a value, which is the (only) answer the identity can give *)
Theorem nc_identity_answer_exists s : ncreachable s -> forall t j d rest, thr (base s) t = IUserFn j d :: rest ->
  exists v, eout (base s) d = Some (Ok v) /\ es (base s) d = Finished /\
            (isnc s j = true -> fn_answer_ok s t (ARet v) = true).
Proof.
  intros R t j d rest ET. pose proof (nc_base_reachable _ R) as RB.
  pose proof (inv6_reach _ RB) as [_ (_ & _ & OL)]. pose proof (o_thr _ OL t) as OT. rewrite ET in OT. inversion OT; subst.
  match goal with P : okP _ (IUserFn _ _) |- _ => destruct P as (_ & P2 & (v & P3) & _) end.
  exists v. repeat split; auto. intros IJ. unfold fn_answer_ok. rewrite ET, IJ, P3. simpl. rewrite Nat.eqb_refl.
  destruct (is_identity nocancel_map_fn); reflexivity.
Qed.

(* a wrapper that is done was resolved with the underlying future's own outcome (it is never cancelled) *)
Theorem nc_done_means_mirrored s : ncreachable s -> forall j, isnc s j = true -> fdone (ms (base s) j) = true ->
  exists d o, In (HNew j d) (hist (base s)) /\ eout (base s) d = Some o /\ es (base s) d = Finished /\
              ms (base s) j = Finished /\ mout (base s) j = Some o.
Proof.
  intros R j IJ D. pose proof (nc_base_reachable _ R) as RB. pose proof (inv2_reach _ RB) as [_ HD].
  destruct (nc_underlying_receives_no_cancel _ R j IJ) as (_ & NC & _).
  destruct (h_done _ HD j D) as [[o X]|X]; [|contradiction].
  destruct (nc_outcome_mirrors _ R j IJ o X) as (d & H1 & H2 & H3 & H4 & H5). exists d, o. auto.
Qed.
(* at rest (no thread inside the library) a wrapper that is still pending waits, registered, for an underlying future that is not done
   -- or its underlying future was cancelled by someone else (the known finding G1: the wrapper then stays pending) *)
Theorem nc_pending_at_rest s : ncreachable s -> (forall t, thr (base s) t = []) -> forall j, isnc s j = true ->
  fdone (ms (base s) j) = false ->
  exists d, In (HNew j d) (hist (base s)) /\
    ((In j (ecbs (base s) d) /\ fdone (es (base s) d) = false) \/ fcancelled (es (base s) d) = true).
Proof.
  intros R Q j IJ D. destruct (J_reach _ R) as [RB JJ]. pose proof (JJ j IJ) as [F1 _ F3 _ _ _].
  destruct (MapFut_E4.mapfut_no_lost _ RB Q j F1 D) as (d & [FL|[_ N]] & X).
  - destruct FL as [K _]. rewrite F3 in K. discriminate K.
  - exists d. split; assumption.
Qed.
