(* Layer 6: fn / error_fn called at most once (continued): guard of re-registration, call steps. *)
From Coq Require Import ZArith List Bool Arith Lia.
From RecordUpdate Require Import RecordSet.
From ME Require Import Base.Machine Base.Fut Base.GenPrelude Model.MapFut Proofs.MapFut_D0 Proofs.MapFut_D1 Proofs.MapFut_D2 Proofs.MapFut_D3 Proofs.MapFut_D4 Proofs.MapFut_D5.
Import ListNotations RecordSetNotations.

Lemma lstep_f_grd_nc s e s0 j : lstep s e = Some s0 -> shape_all s -> Bnd s -> Bnd s0 -> Fn s -> ncall s0 j = ncall s j ->
  forall t, gA (Cj s0 j) j (thr s0 t).
Proof.
  intros H SH B B0 F NC t'. destruct (le_lt_dec (nfut s0) j) as [L|L].
  { eapply gA_unborn; [apply (b_thr _ B0)|exact L]. }
  destruct (le_lt_dec (nfut s) j) as [L1|L1].
  { assert (C0 : Cj s0 j) by (left; rewrite NC; apply ncall_unborn; assumption).
    apply grd_C. exact C0. }
  assert (CM : Cj s j -> Cj s0 j) by (intros; eapply Cj_mono; eauto).
  assert (OT : t' <> tid e -> gA (Cj s0 j) j (thr s0 t')).
  { intros N. rewrite (lstep_thr_other _ _ _ H _ N). eapply grd_mono; [exact CM|apply (f_grd _ F)]. }
  destruct (Nat.eq_dec t' (tid e)) as [->|N]; [clear OT|exact (OT N)].
  pose proof (f_grd _ F (tid e) j) as It. pose proof (SH (tid e)) as Sh. clear F B B0 L NC SH.
  step_cases H; simpl tid in *; try (eapply grd_mono; [exact CM|exact It]).
  all: rewrite Heql in It, Sh; simpl in Sh; simp_thr.
  all: try (apply gA_on_mapped); try (apply gA_fires); try (apply gA_cbs); unfold gA in *.
  (* the flattening acquisition at the head *)
  all: try (match goal with E : thr _ _ = IAcqMSet ?j1 _ ?fl :: _ |- _ =>
              destruct fl; [destruct (Nat.eq_dec j j1) as [->|Nj];
                [apply grd_C; right; simpl; rewrite upd_same; reflexivity|]|] end).
  all: try (match goal with E : thr _ _ = _ :: ?l |- context [tl ?l] => destruct l as [|[] ?]; try discriminate Sh; simpl tl end).
  all: eapply grd_mono; [exact CM|]; simpl in It |- *.
  all: repeat match goal with |- context [Nat.eqb ?a ?b] => destruct (Nat.eqb a b) eqn:? end.
  all: repeat match type of It with context [Nat.eqb ?a ?b] => destruct (Nat.eqb a b) eqn:? end.
  all: simpl in *; try (intuition (try discriminate); fail).
  all: norm_hyps; lia.
Qed.

Lemma wD_false j i : wD j i = false -> wF j i = false /\ wQ j i = false /\ isAddCb j i = false.
Proof. unfold wD. intros H. repeat (apply orb_false_iff in H; destruct H as [H ?]). auto. Qed.
Lemma cnt_zero_in {A} (f : A -> bool) l : cnt f l = 0 -> forall x, In x l -> f x = false.
Proof.
  intros H x Hx. destruct (f x) eqn:E; auto. pose proof (in_cnt_pos f l x Hx E). lia.
Qed.
Lemma quietD_okF s j p : cnt (wD j) p = 0 -> Forall (okF s j) p.
Proof.
  intros H. apply Forall_forall. intros i Hi. pose proof (cnt_zero_in _ _ H i Hi) as X.
  apply wD_false in X. destruct X as (X1 & X2 & _). apply okF_plain; assumption.
Qed.
Lemma quietD_gA C j p : cnt (wD j) p = 0 -> gA C j p.
Proof.
  intros H. apply grd_noT. intros i Hi. pose proof (cnt_zero_in _ _ H i Hi) as X.
  apply wD_false in X. tauto.
Qed.

Lemma call_unique s t j : Dloc s -> is_call s t j ->
  (forall t', t' <> t -> cnt (wD j) (thr s t') = 0) /\
  (forall hd rest, thr s t = hd :: rest -> cnt (wD j) rest = 0) /\
  (forall d, cnt (Nat.eqb j) (ecbs s d) = 0).
Proof.
  intros [loc L] (d & rest & IC). destruct (L j) as [L1 L2].
  assert (W : cnt (wD j) (thr s t) = 1 + cnt (wD j) rest).
  { destruct IC as [E|E]; rewrite E, cnt_cons; unfold wD at 1; simpl; rewrite Nat.eqb_refl; reflexivity. }
  assert (LL : loc j = DT t) by (apply isDT_ge1; specialize (L1 t); lia).
  rewrite LL in *. repeat split.
  - intros t' N. specialize (L1 t'). rewrite isDT_other in L1 by exact N. lia.
  - intros hd r E. specialize (L1 t). rewrite isDT_same in L1.
    assert (r = rest) as -> by (destruct IC as [E'|E']; rewrite E' in E; inversion E; reflexivity). lia.
  - intros d'. specialize (L2 d'). simpl in L2. lia.
Qed.

Lemma lstep_call_j s e s0 j : lstep s e = Some s0 -> Dloc s -> is_call s (tid e) j ->
  (forall t, Forall (okF s0 j) (thr s0 t)) /\ (forall d, ~ In j (ecbs s0 d)) /\ (forall t, gA (Cj s0 j) j (thr s0 t)).
Proof.
  intros H D IC. destruct (call_unique _ _ _ D IC) as (U1 & U2 & U3).
  assert (OT : forall t', t' <> tid e -> Forall (okF s0 j) (thr s0 t') /\ gA (Cj s0 j) j (thr s0 t')).
  { intros t' N. rewrite (lstep_thr_other _ _ _ H _ N). split; [apply quietD_okF|apply quietD_gA]; auto. }
  assert (EC : forall d, ~ In j (ecbs s d)).
  { intros d X. apply cnt_eqb_pos in X. specialize (U3 d). lia. }
  enough (TT : Forall (okF s0 j) (thr s0 (tid e)) /\ gA (Cj s0 j) j (thr s0 (tid e)) /\ ecbs s0 = ecbs s).
  { destruct TT as (T1 & T2 & T3). repeat split.
    - intros t'. destruct (Nat.eq_dec t' (tid e)) as [->|N]; [exact T1|apply OT; exact N].
    - rewrite T3. exact EC.
    - intros t'. destruct (Nat.eq_dec t' (tid e)) as [->|N]; [exact T2|apply OT; exact N]. }
  clear OT EC U1 U3 D. destruct IC as (d & rest & IC).
  step_cases H; simpl tid in *; try (destruct IC as [IC|IC]; rewrite Heql in IC; discriminate IC).
  all: specialize (U2 _ _ Heql); simp_thr.
  all: (split; [|split; [|reflexivity]]).
  all: try (apply okF_on_mapped); try (apply gA_on_mapped).
  all: try (apply quietD_okF; assumption); try (apply quietD_gA; assumption).
  all: try (repeat (constructor; [apply okF_plain; reflexivity|]); apply quietD_okF; assumption).
  all: unfold gA; simpl; (split; [discriminate|right]); apply quietD_gA; assumption.
Qed.

Lemma lstep_fn s e s0 : lstep s e = Some s0 -> shape_all s -> Bnd s -> Bnd s0 -> Dloc s -> Fn s -> Fn s0.
Proof.
  intros H SH B B0 D F. destruct (lstep_ncall _ _ _ H) as [NC|(j & IC & NC)].
  - constructor.
    + intros j. rewrite NC. apply (f_le _ F).
    + intros t j. eapply lstep_f_thr_nc; eauto.
    + intros d. apply Forall_forall. intros j Hj. eapply lstep_f_ecbs_nc; eauto.
    + intros t j. eapply lstep_f_grd_nc; eauto.
  - destruct (lstep_call_j _ _ _ _ H D IC) as (C1 & C2 & C3).
    assert (NC' : forall j', j' <> j -> ncall s0 j' = ncall s j').
    { intros j' N. rewrite NC. apply Nat.eqb_neq in N. rewrite N. reflexivity. }
    constructor.
    + intros j'. destruct (Nat.eq_dec j' j) as [->|N]; [|rewrite NC' by exact N; apply (f_le _ F)].
      rewrite NC, Nat.eqb_refl. destruct IC as (d & rest & IC).
      pose proof (f_thr _ F (tid e) j) as X.
      destruct IC as [E|E]; rewrite E in X; inversion X; subst;
        match goal with Q : okF _ _ _ |- _ => destruct Q as [Q1 _]; simpl in Q1; rewrite Nat.eqb_refl in Q1; rewrite (Q1 eq_refl) end; lia.
    + intros t j'. destruct (Nat.eq_dec j' j) as [->|N]; [apply C1|eapply lstep_f_thr_nc; eauto].
    + intros d. apply Forall_forall. intros j' Hj. destruct (Nat.eq_dec j' j) as [->|N]; [exfalso; eapply C2; eauto|].
      eapply lstep_f_ecbs_nc; eauto.
    + intros t j'. destruct (Nat.eq_dec j' j) as [->|N]; [apply C3|eapply lstep_f_grd_nc; eauto].
Qed.

Lemma sil_mflat_mono t s s' : sil t s s' -> forall j, mflat s j = true -> mflat s' j = true.
Proof.
  intros H j' X; inversion H; subst; simpl; auto.
  destruct (Nat.eq_dec j' j) as [->|N]; [rewrite upd_same, X; apply orb_true_r|rewrite upd_other by exact N; exact X].
Qed.
Lemma sil_Cj t s s' j : sil t s s' -> Cj s j -> Cj s' j.
Proof.
  intros H [X|X]; [left; unfold ncall in *; rewrite (sil_hist _ _ _ H); exact X|right; eapply sil_mflat_mono; eauto].
Qed.

Lemma sil_head_acq t s s' : sil t s s' -> forall i r, thr s t = i :: r ->
  forall j, isAcqFlat j i = false \/ mflat s' j = true.
Proof.
  intros H i r E j'; inversion H; subst; rewrite (upd_eq_same _ _ _ _ H0) in E; inversion E; subst; auto.
  destruct fl; auto. simpl. destruct (Nat.eqb j' j) eqn:Ej; auto.
  apply Nat.eqb_eq in Ej; subst. right. apply upd_same.
Qed.

Lemma sil_fn t s s' : sil t s s' -> Fn s -> Fn s'.
Proof.
  intros H [I1 I2 I3 I4]. destruct (sil_thr _ _ _ H) as (i & r & Et & Ho & Hr).
  assert (NC : forall j, ncall s' j = ncall s j) by (intros; unfold ncall; rewrite (sil_hist _ _ _ H); reflexivity).
  assert (OK : forall j i, okF s j i -> okF s' j i).
  { intros j i0 [A1 A2]. split; intros W; [rewrite NC; auto|eapply sil_Cj; eauto]. }
  constructor.
  - intros j. rewrite NC. apply I1.
  - intros t' j. destruct (Nat.eq_dec t' t) as [->|N].
    + pose proof (I2 t j) as It. rewrite Et in It. inversion It; subst.
      assert (Forall (okF s' j) r) by (eapply Forall_impl; [apply OK|assumption]).
      destruct Hr as [->|(j0 & -> & ->)]; [assumption|apply okF_cbs; assumption].
    + rewrite Ho by exact N. eapply Forall_impl; [apply OK|apply I2].
  - intros d. rewrite (sil_ecbs _ _ _ H). eapply Forall_impl; [|apply I3]. intros j. eapply sil_Cj. exact H.
  - intros t' j. destruct (Nat.eq_dec t' t) as [->|N].
    + pose proof (I4 t j) as It. rewrite Et in It.
      destruct (sil_head_acq _ _ _ H _ _ Et j) as [G|G].
      * apply grd_tl in It; [|exact G].
        assert (gA (Cj s' j) j r) by (eapply grd_mono; [eapply sil_Cj; exact H|exact It]).
        destruct Hr as [->|(j0 & -> & ->)]; [assumption|apply gA_cbs; assumption].
      * apply grd_C. right. exact G.
    + rewrite Ho by exact N. eapply grd_mono; [eapply sil_Cj; exact H|apply I4].
Qed.

Definition Inv5 (s : st) : Prop := Inv4 s /\ (Dloc s /\ Fn s).
Lemma linv5 : linv Inv5.
Proof.
  apply linv_and; [apply linv4| | |].
  - split.
    + exists (fun _ => DN). intros j. split; intros; unfold cnt; simpl; lia.
    + constructor; simpl; intros; try constructor; unfold ncall, cnt; simpl; lia.
  - intros s e s0 [[[[[SH _] B] _] _] _] [[[[[_ _] B0] _] _] _] [D F] H. split.
    + exact (dloc_trans s s0 (tid e) B D (lstep_thr_other _ _ _ H) (lstep_dteff _ _ _ H SH)).
    + eapply lstep_fn; eauto.
  - intros t s s' [[[[[SH _] B] _] _] _] _ [D F] H. split.
    + destruct (sil_thr _ _ _ H) as (i & r & Et & Ho & Hr).
      exact (dloc_trans s s' t B D Ho (sil_dteff _ _ _ H)).
    + eapply sil_fn; eauto.
Qed.
Lemma inv5_reach s : reachable s -> Inv5 s.
Proof. apply linv_reach; [apply linv5|]. intros s0 H; apply H. Qed.

Lemma ncall_split s j l1 h l2 : Fn s -> hist s = l1 ++ h :: l2 -> hcall j h = true ->
  forall x, hcall j x = true -> ~ In x l1 /\ ~ In x l2.
Proof.
  intros F E Hh x Hx. pose proof (f_le _ F j) as L. unfold ncall in L.
  rewrite E, cnt_app, cnt_cons, Hh in L.
  split; intros X; pose proof (in_cnt_pos _ _ _ X Hx); lia.
Qed.

Lemma mapfut_fn_once : forall s, reachable s -> forall l1 j d a l2,
  hist s = l1 ++ HFn j d a :: l2 -> (forall d' a', ~ In (HFn j d' a') l2) /\ (forall d' a', ~ In (HEfn j d' a') (hist s)).
Proof.
  intros s R l1 j d a l2 E. destruct (inv5_reach s R) as [_ [_ F]].
  assert (Hh : hcall j (HFn j d a) = true) by (simpl; apply Nat.eqb_refl).
  split; intros d' a'.
  - apply (ncall_split s j l1 _ l2 F E Hh (HFn j d' a')). simpl; apply Nat.eqb_refl.
  - intros X. rewrite E in X. apply in_app_or in X.
    destruct (ncall_split s j l1 _ l2 F E Hh (HEfn j d' a')) as [N1 N2]; [simpl; apply Nat.eqb_refl|].
    destruct X as [X|[X|X]]; [auto|discriminate X|auto].
Qed.
Lemma mapfut_efn_once : forall s, reachable s -> forall l1 j d a l2,
  hist s = l1 ++ HEfn j d a :: l2 -> (forall d' a', ~ In (HEfn j d' a') l2) /\ (forall d' a', ~ In (HFn j d' a') (hist s)).
Proof.
  intros s R l1 j d a l2 E. destruct (inv5_reach s R) as [_ [_ F]].
  assert (Hh : hcall j (HEfn j d a) = true) by (simpl; apply Nat.eqb_refl).
  split; intros d' a'.
  - apply (ncall_split s j l1 _ l2 F E Hh (HEfn j d' a')). simpl; apply Nat.eqb_refl.
  - intros X. rewrite E in X. apply in_app_or in X.
    destruct (ncall_split s j l1 _ l2 F E Hh (HFn j d' a')) as [N1 N2]; [simpl; apply Nat.eqb_refl|].
    destruct X as [X|[X|X]]; [auto|discriminate X|auto].
Qed.
