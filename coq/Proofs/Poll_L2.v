(* C04 for the Poll machine, part 2: lock ownership, lock order, absence of lock deadlock. *)
From Coq Require Import ZArith List Bool Arith Lia.
From RecordUpdate Require Import RecordSet.
From ME Require Import Base.Machine Base.Fut Base.GenPrelude Model.Poll Proofs.Poll_Inv Proofs.Poll_NoDup
     Proofs.Poll_L1 Proofs.Poll_Refute.
Import ListNotations RecordSetNotations.

Lemma reach_disc s : reachable s -> Inv7 s /\ Disc s.
Proof.
  apply (invariant_rule step (fun x => Inv7 x /\ Disc x) init); [split; [exact inv7_init|exact disc_init]|].
  intros x e x' [I7 D] H. split; [eapply inv7_step; eauto|eapply disc_step; eauto].
Qed.

(* ---- 1. ownership ------------------------------------------------------------------------------- *)
(* the first operation on lock a in a program *)
Fixpoint first_op (a : lock) (p : list instr) : eff :=
  match p with
  | [] => EN
  | i :: r => match effect a i with EN => first_op a r | e => e end
  end.

Lemma run_true_first dsf a p b : run dsf a true p = Some b -> b = true \/ first_op a p = ER.
Proof.
  induction p as [|i r IH]; simpl; [intros H; inversion H; auto|].
  destruct (forb dsf a i); simpl; [discriminate|]. destruct (effect a i); auto; discriminate.
Qed.
Lemma run_false_first dsf a p b : run dsf a false p = Some b -> first_op a p <> ER.
Proof.
  induction p as [|i r IH]; simpl; [discriminate|].
  destruct (effect a i); auto; discriminate.
Qed.

(* the owner's program releases the lock before touching it otherwise; nobody else's program releases it
   before acquiring it; (that a lock has at most one owner is built into the state: owner s a is a function) *)
Lemma lock_owner_lemma s a t :
  reachable s ->
  (owner s a = Some t -> first_op a (thr s t) = ER) /\
  (owner s a <> Some t -> first_op a (thr s t) <> ER).
Proof.
  intros R. destruct (reach_disc s R) as [_ D]. specialize (D a t). split; intros H.
  - rewrite H in D. simpl in D. rewrite Nat.eqb_refl in D.
    destruct (run_true_first _ _ _ _ D) as [Hx|Hx]; [discriminate|exact Hx].
  - assert (Hh : holds (owner s a) t = false).
    { unfold holds. destruct (owner s a) as [x|]; [|reflexivity]. apply Nat.eqb_neq. intros ->. apply H. reflexivity. }
    rewrite Hh in D. eapply run_false_first; eauto.
Qed.

(* ---- 2. order ------------------------------------------------------------------------------------- *)
(* the lock thread t has to obtain before its next visible operation *)
Definition wants (s : st) (t : nat) : option lock :=
  match thr s t with
  | IAcqM j :: _ | IAcqMClr j :: _ => Some (LM j)
  | IXAcqReg _ _ :: _ | IXDereg _ :: _ => Some LX
  | IGAcq :: _ => Some LG
  | [] => if Nat.eqb t poller then match pmode s with PTop => Some LX | _ => None end else None
  | _ => None
  end.

Lemma lock_order_lemma s t a b :
  reachable s -> owner s a = Some t -> wants s t = Some b -> lrank a < lrank b.
Proof.
  intros R Ho Hw. destruct (reach_disc s R) as [_ D]. specialize (D a t).
  rewrite Ho in D. simpl in D. rewrite Nat.eqb_refl in D.
  unfold wants in Hw. destruct (thr s t) as [|i r] eqn:E.
  - simpl in D. discriminate.
  - destruct i; try discriminate Hw; inversion Hw; subst; clear Hw;
      destruct a as [ja| |]; simpl in *; try lia; unfold is in D; simpl in D;
      try discriminate D;
      try (destruct (Nat.eqb j ja) eqn:Ej; simpl in D; discriminate D).
Qed.

(* ---- 3. no lock deadlock ---------------------------------------------------------------------------- *)
(* following the owner chain from t one reaches, within n hops and without coming back to the waiter, a
   thread that is not waiting for a held lock *)
Fixpoint unblocked_within (n : nat) (s : st) (t : nat) : Prop :=
  match wants s t with
  | None => True
  | Some a =>
      match owner s a with
      | None => True
      | Some t' => t' <> t /\ match n with 0 => False | S n' => unblocked_within n' s t' end
      end
  end.

Lemma chain_lemma s : reachable s ->
  forall k t, (forall b, wants s t = Some b -> k <= lrank b) -> unblocked_within (3 - k) s t.
Proof.
  intros R k. remember (3 - k) as n eqn:En. revert k En.
  induction n as [|n IH]; intros k En t Hk.
  - simpl. destruct (wants s t) as [b|] eqn:Hw; [|exact I]. specialize (Hk b eq_refl).
    destruct b; simpl in Hk; lia.
  - simpl. destruct (wants s t) as [b|] eqn:Hw; [|exact I].
    destruct (owner s b) as [t'|] eqn:Ho; [|exact I]. split.
    + intros ->. pose proof (lock_order_lemma s t b b R Ho Hw). lia.
    + apply (IH (S k)); [lia|]. intros c Hc. pose proof (lock_order_lemma s t' b c R Ho Hc).
      specialize (Hk b eq_refl). lia.
Qed.

Lemma no_deadlock_lemma s t : reachable s -> unblocked_within 3 s t.
Proof. intros R. apply (chain_lemma s R 0 t). intros; lia. Qed.

(* ---- non-vacuity: implementation histories (cut in the middle) ------------------------------------- *)
Local Open Scope Z_scope.
(* an environment thread is inside _register_poll: it holds X and waits for M_0, which a thread inside
   cancel() holds; the canceller's next operation (self.cancelled()) needs no lock *)
Definition w_blocked : list (list Z) :=
  (* blocked: verdict [-1], 21 events *)
   [[0; 0; 0; 2];
    [0; 7; 0];
    [0; 1; 1];
    [0; 4; 1];
    [0; 6; 1; 0; 0; 0; 0];
    [0; 12; 1; 0];
    [0; 16; 0];
    [0; 18; 0; 0; 0];
    [0; 14; 1; 1; 0; 0];
    [0; 13; 1; 0];
    [0; 21; 1];
    [0; 15; 1; 5; 0; 0];
    [0; 5; 1];
    [0; 11; 1; 0];
    [2; 2; 1; 0];
    [2; 25; 2; 0; 0; 0; 100];
    [2; 22; 1];
    [2; 15; 2; 0; 0; 4];
    [2; 23];
    [2; 8; 2];
    [2; 12; 1; 0]].
(* submit() with an already finished delegate: the submitting thread holds G, X and M_0 at once *)
Definition w_nested : list (list Z) :=
  (* nested: verdict [-1], 11 events *)
   [[0; 0; 0; 2];
    [0; 1; 1];
    [0; 4; 1];
    [0; 6; 1; 0; 1; 0; 100];
    [0; 12; 1; 0];
    [0; 14; 1; 1; 0; 0];
    [0; 13; 1; 0];
    [0; 15; 1; 5; 0; 4];
    [0; 15; 1; 0; 0; 4];
    [0; 8; 1];
    [0; 12; 1; 0]].
Local Close Scope Z_scope.

Definition lock_eqb (a b : lock) : bool :=
  match a, b with LM i, LM j => Nat.eqb i j | LX, LX => true | LG, LG => true | _, _ => false end.

Example blocked_example :
  let s := state_of w_blocked in
  accepted w_blocked = true /\
  exists t t', t <> t' /\ wants s t = Some (LM 0) /\ owner s LX = Some t /\ owner s (LM 0) = Some t' /\ wants s t' = None.
Proof. split; [vm_compute; reflexivity|]. exists 2%nat, 1%nat. vm_compute. repeat split; congruence. Qed.

Example nested_example :
  let s := state_of w_nested in
  accepted w_nested = true /\
  exists t, owner s LG = Some t /\ owner s LX = Some t /\ owner s (LM 0) = Some t.
Proof. split; [vm_compute; reflexivity|]. exists 1%nat. vm_compute. repeat split. Qed.
