(* C12 / Timeout (part B): "leave M_j and invoke the callbacks" (IRelMCbs j) and set_running_or_notify_cancel
   (IFSrnc j) are at the head of a program only when future j is done: in every program IRelMCbs j immediately
   follows set_result / set_exception / set_running_or_notify_cancel on j, and IFSrnc j immediately follows
   Future.cancel on j. *)
From Coq Require Import List ZArith Bool Arith Lia.
From RecordUpdate Require Import RecordSet.
From ME Require Import Base.Machine Base.Fut Base.GenPrelude Gen.TimeoutGen Proofs.Timeout_Spec Model.Timeout Proofs.Timeout_Inv
  Proofs.Keep_Timeout_A.
Import ListNotations RecordSetNotations.
Local Open Scope Z_scope.

Definition bound (i : instr) : bool := match i with IRelMCbs _ | IFSrnc _ => true | _ => false end.
Definition nb (r : list instr) : bool := match r with i :: _ => negb (bound i) | [] => true end.
Definition ordinary (i : instr) : bool :=
  match i with IFSetRes _ _ | IFSetExc _ _ | IFSrnc _ | IFCancel _ => false | _ => true end.
Definition okpair (i i2 : instr) : bool :=
  match i with
  | IFSetRes j _ | IFSetExc j _ | IFSrnc j => match i2 with IRelMCbs j' => Nat.eqb j j' | _ => false end
  | IFCancel j => match i2 with IFSrnc j' => Nat.eqb j j' | _ => false end
  | _ => negb (bound i2)
  end.
Definition okhd (x : instr) (q : list instr) : bool := match q with i2 :: _ => okpair x i2 | [] => ordinary x end.
Fixpoint shp (p : list instr) : bool := match p with [] => true | i :: r => okhd i r && shp r end.
Definition good (l : list instr) : Prop := shp l = true /\ nb l = true.
Definition hdok (s : st) (p : list instr) : Prop :=
  match p with IRelMCbs j :: _ | IFSrnc j :: _ => fdone (rs s j) = true | _ => True end.

Lemma okpair_free x i : ordinary x = true -> bound i = false -> okpair x i = true.
Proof. destruct x; simpl; intros Ho Hb; try discriminate Ho; rewrite Hb; reflexivity. Qed.
Lemma okhd_nb x q : ordinary x = true -> nb q = true -> okhd x q = true.
Proof. destruct q as [|i q]; [auto|]. simpl. intros Ho Hb. apply negb_true_iff in Hb. apply okpair_free; assumption. Qed.
Lemma okpair_ord i i2 : ordinary i = true -> okpair i i2 = true -> bound i2 = false.
Proof. destruct i; simpl; intros A B; try discriminate A; apply negb_true_iff in B; exact B. Qed.
Lemma good_nil : good []. Proof. split; reflexivity. Qed.
Definition plainb (x : instr) : bool := negb (bound x) && ordinary x.
Lemma good_plain x q : plainb x = true -> good q -> good (x :: q).
Proof.
  unfold plainb. intros Hx [A B]. apply andb_true_iff in Hx. destruct Hx as [H1 H2].
  split; simpl; [rewrite (okhd_nb x q H2 B), A; reflexivity|exact H1].
Qed.
Lemma good_tl i l : shp (i :: l) = true -> ordinary i = true -> good l.
Proof.
  simpl. intros Hs Ho. apply andb_true_iff in Hs. destruct Hs as [A B]. split; [exact B|].
  destruct l as [|i2 l2]; [reflexivity|]. simpl in *. rewrite (okpair_ord _ _ Ho A). reflexivity.
Qed.
Lemma shp_tl i l : shp (i :: l) = true -> shp l = true.
Proof. simpl. intros Hs. apply andb_true_iff in Hs. tauto. Qed.
Lemma nb_hdok s p : nb p = true -> hdok s p.
Proof. destruct p as [|[] p]; simpl; intros; try exact Logic.I; discriminate. Qed.

Lemma good_app F q : forallb plainb F = true -> good q -> good (F ++ q).
Proof.
  induction F as [|i F IH]; simpl; [auto|]. intros Hx Hq. apply andb_true_iff in Hx. destruct Hx as [A B].
  apply good_plain; [exact A|auto].
Qed.
Lemma good_ret_of t b q : good q -> good (ret_of t b ++ q).
Proof. unfold ret_of. destruct (Nat.eqb t jt); [auto|]. apply good_plain. reflexivity. Qed.
Lemma good_cb_prog j c q : good q -> good (cb_prog j c ++ q).
Proof. destruct c; simpl; apply good_plain; reflexivity. Qed.
Lemma good_cbs_prog j cs q : good q -> good (cbs_prog j cs ++ q).
Proof.
  apply good_app. unfold cbs_prog. apply forallb_forall. intros i Hi. apply in_flat_map in Hi.
  destruct Hi as [c [_ Hc]]. destruct c; simpl in Hc; destruct Hc as [<-|[]]; reflexivity.
Qed.
Lemma good_map_tc l q : good q -> good (map ITCancel l ++ q).
Proof. apply good_app. apply forallb_forall. intros i Hi. apply in_map_iff in Hi. destruct Hi as [x [<- _]]. reflexivity. Qed.
Lemma good_map_pd (l : list tjob) q : good q -> good (map (fun job => IPDone (tj_id job)) l ++ q).
Proof. apply good_app. apply forallb_forall. intros i Hi. apply in_map_iff in Hi. destruct Hi as [x [<- _]]. reflexivity. Qed.
Lemma good_setres j v q : good q -> good (IAcqM j :: IFSetRes j v :: IRelMCbs j :: q).
Proof. intros [A B]. split; [|reflexivity]. simpl. rewrite Nat.eqb_refl, (okhd_nb (IRelMCbs j) q eq_refl B), A. reflexivity. Qed.
Lemma good_setexc j e q : good q -> good (IAcqM j :: IRelM j :: IAcqM j :: IFSetExc j e :: IRelMCbs j :: IDoneQ j :: q).
Proof. intros [A B]. split; [|reflexivity]. simpl. rewrite Nat.eqb_refl, (okhd_nb (IDoneQ j) q eq_refl B), A. reflexivity. Qed.
Lemma good_cancel j q : good q -> good (IFCancel j :: IFSrnc j :: IRelMCbs j :: q).
Proof. intros [A B]. split; [|reflexivity]. simpl. rewrite !Nat.eqb_refl, (okhd_nb (IRelMCbs j) q eq_refl B), A. reflexivity. Qed.

Lemma shp_stamp s p : shp (stamp s p) = shp p.
Proof. unfold stamp. destruct p as [|[] r]; try reflexivity. destruct e; reflexivity. Qed.
Lemma hdok_stamp s s1 p : hdok s (stamp s1 p) <-> hdok s p.
Proof. unfold stamp. destruct p as [|[] r]; try tauto. destruct e; tauto. Qed.

Ltac good_tac :=
  repeat first [ assumption | apply good_nil | apply good_setres | apply good_setexc | apply good_cancel
               | apply good_ret_of | apply good_cb_prog | apply good_cbs_prog | apply good_map_tc | apply good_map_pd
               | apply good_plain; [reflexivity|] ].

Definition InvSH (s : st) : Prop := forall t, shp (thr s t) = true /\ hdok s (thr s t).

Definition tailord (p : list instr) : Prop := match p with i :: _ => ordinary i = true | [] => True end.
Lemma good_of_tail p : shp p = true -> tailord p -> good (tl p).
Proof. destruct p as [|i l]; simpl tl; intros A B; [apply good_nil|eapply good_tl; eauto]. Qed.

Lemma hdok_mono s s' p : (forall j, fdone (rs s j) = true -> fdone (rs s' j) = true) -> hdok s p -> hdok s' p.
Proof. intros DM. destruct p as [|[] p]; simpl; auto. Qed.

(* thread t takes a step from an ordinary head *)
Lemma invsh_ord s s' t s1 P :
  InvSH s -> (forall j, fdone (rs s j) = true -> fdone (rs s' j) = true) ->
  tailord (thr s t) -> thr s' = upd (thr s) t (stamp s1 P) -> (good (tl (thr s t)) -> good P) -> InvSH s'.
Proof.
  intros I DM Ho ET HP t'. rewrite ET. unfold upd. destruct (Nat.eqb t' t) eqn:E.
  - destruct (HP (good_of_tail _ (proj1 (I t)) Ho)) as [A B]. rewrite shp_stamp. split; [exact A|].
    apply hdok_stamp. apply nb_hdok. exact B.
  - destruct (I t') as [A B]. split; [exact A|eapply hdok_mono; eauto].
Qed.
(* ... from a setter head: the rest of the program follows, its head is justified by the step *)
Lemma invsh_pop s s' t s1 i l :
  InvSH s -> (forall j, fdone (rs s j) = true -> fdone (rs s' j) = true) ->
  thr s t = i :: l -> thr s' = upd (thr s) t (stamp s1 l) -> (okhd i l = true -> hdok s' l) -> InvSH s'.
Proof.
  intros I DM E ET HP t'. rewrite ET. unfold upd. destruct (Nat.eqb t' t) eqn:E2.
  - destruct (I t) as [A _]. rewrite E in A. simpl in A. apply andb_true_iff in A. destruct A as [A1 A2].
    rewrite shp_stamp. split; [exact A2|]. apply hdok_stamp. auto.
  - destruct (I t') as [A B]. split; [exact A|eapply hdok_mono; eauto].
Qed.

Lemma invsh_gen s s' t s1 P :
  InvSH s -> (forall j, fdone (rs s j) = true -> fdone (rs s' j) = true) ->
  thr s' = upd (thr s) t (stamp s1 P) -> shp P = true -> hdok s' P -> InvSH s'.
Proof.
  intros I DM ET A B t'. rewrite ET. unfold upd. destruct (Nat.eqb t' t) eqn:E.
  - rewrite shp_stamp. split; [exact A|apply hdok_stamp; exact B].
  - destruct (I t') as [A' B']. split; [exact A'|eapply hdok_mono; eauto].
Qed.
Lemma invsh_same s s' : InvSH s -> (forall j, fdone (rs s j) = true -> fdone (rs s' j) = true) -> thr s' = thr s -> InvSH s'.
Proof. intros I DM ET t'. rewrite ET. destruct (I t') as [A B]. split; [exact A|eapply hdok_mono; eauto]. Qed.

Definition setter (j : nat) (i : instr) : Prop :=
  match i with IFSetRes j' _ | IFSetExc j' _ | IFSrnc j' => j' = j | _ => False end.
(* what follows a setter / Future.cancel *)
Lemma setter_next j i l : setter j i -> okhd i l = true -> exists r, l = IRelMCbs j :: r.
Proof.
  intros Hs Ho. destruct i; simpl in Hs; try contradiction; subst; (destruct l as [|i2 l2]; [discriminate Ho|]);
    simpl in Ho; destruct i2; try discriminate Ho; apply Nat.eqb_eq in Ho; subst; eexists; reflexivity.
Qed.
Lemma cancel_next j l : okhd (IFCancel j) l = true -> exists r, l = IFSrnc j :: r.
Proof.
  intros Ho. destruct l as [|i2 l2]; [discriminate Ho|]. simpl in Ho. destruct i2; try discriminate Ho.
  apply Nat.eqb_eq in Ho. subst. eexists; reflexivity.
Qed.
Lemma hdok_after_setter s' j i l : setter j i -> fdone (rs s' j) = true -> okhd i l = true -> hdok s' l.
Proof. intros Hs Hd Ho. destruct (setter_next j i l Hs Ho) as [r ->]. exact Hd. Qed.
Lemma hdok_after_cancel s' j l : fdone (rs s' j) = true -> okhd (IFCancel j) l = true -> hdok s' l.
Proof. intros Hd Ho. destruct (cancel_next j l Ho) as [r ->]. exact Hd. Qed.

Lemma invsh_step0 s e s' : InvSH s -> step0 s e = Some s' -> InvSH s'.
Proof.
  intros I H. pose proof (done_mono _ _ _ H) as DM. step0_cases H.
  all: try match goal with E : wait_view _ = _ |- _ => apply wait_view_inv in E; destruct E as [E|[E _]] end.
  all: try solve [ match goal with I0 : InvSH ?s0, E : thr ?s0 ?t = _ |- _ =>
         eapply (invsh_ord s0 _ t); [exact I|exact DM|rewrite E; simpl; first [reflexivity|exact Logic.I]|simpl; reflexivity|rewrite E; simpl tl; intros G; good_tac] end ].
  all: repeat match goal with E : negb (Nat.eqb _ _) = false |- _ => apply negb_false_iff, Nat.eqb_eq in E; subst end.
  all: try match goal with E : negb (fstate_eqb _ _) = false |- _ => apply pre_eq in E; subst end.
  all: try match goal with I0 : InvSH ?s0, E : thr ?s0 _ = _ |- _ => rename E into Et end.
  - (* set_result succeeded *)
    eapply (invsh_pop s _ t); [exact I|exact DM|exact Et|simpl; reflexivity|].
    intros Ho. refine (hdok_after_setter _ _ _ _ _ _ Ho); [simpl; reflexivity|]. simpl. rewrite upd_same. eapply f_set_done; eauto.
  - (* set_result lost *)
    destruct (I t) as [A _]. rewrite Et in A. apply shp_tl in A. apply good_tl in A; [|reflexivity].
    match goal with |- InvSH (log (set_prog _ _ ?P) _) => assert (G : good P) by (apply good_plain; [reflexivity|exact A]) end.
    destruct G as [G1 G2].
    eapply (invsh_gen s _ t); [exact I|exact DM|simpl; reflexivity|exact G1|apply nb_hdok; exact G2].
  - eapply (invsh_pop s _ t); [exact I|exact DM|exact Et|simpl; reflexivity|].
    intros Ho. refine (hdok_after_setter _ _ _ _ _ _ Ho); [simpl; reflexivity|]. simpl. rewrite upd_same. eapply f_set_done; eauto.
  - destruct (I t) as [A _]. rewrite Et in A. apply shp_tl in A. apply good_tl in A; [|reflexivity].
    match goal with |- InvSH (log (set_prog _ _ ?P) _) => assert (G : good P) by (apply good_plain; [reflexivity|exact A]) end.
    destruct G as [G1 G2].
    eapply (invsh_gen s _ t); [exact I|exact DM|simpl; reflexivity|exact G1|apply nb_hdok; exact G2].
  - (* Future.cancel *)
    eapply (invsh_pop s _ t); [exact I|exact DM|exact Et|simpl; reflexivity|].
    intros Ho. refine (hdok_after_cancel _ _ _ _ Ho). simpl. rewrite upd_same. eapply f_cancel_done_t; eauto.
  - (* set_running_or_notify_cancel: the head IFSrnc j says j is done *)
    eapply (invsh_pop s _ t); [exact I|exact DM|exact Et|simpl; reflexivity|].
    intros Ho. refine (hdok_after_setter _ _ _ _ _ _ Ho); [simpl; reflexivity|]. simpl. rewrite upd_same.
    destruct (I t) as [_ B]. rewrite Et in B. simpl in B.
    erewrite f_srnc_done by eassumption. exact B.
  - apply (invsh_same s); [exact I|exact DM|reflexivity].
Qed.

Lemma invsh_reach s : reachable_from step init s -> InvSH s.
Proof.
  apply invariant_rule; [intros t; split; [reflexivity|exact Logic.I]|]. intros s0 e s1 I H.
  apply step_split in H. destruct H as [_ H]. eapply invsh_step0; [|exact H]. exact I.
Qed.

(* leaving M_j with the callbacks / set_running_or_notify_cancel only ever run on a done future *)
Lemma relmcbs_head_done s : reachable_from step init s -> forall t j r,
  (thr s t = IRelMCbs j :: r \/ thr s t = IFSrnc j :: r) -> fdone (rs s j) = true.
Proof. intros R t j r [E|E]; destruct (invsh_reach s R t) as [_ B]; rewrite E in B; exact B. Qed.
(* a successful set_result / set_exception / Future.cancel is followed by the callbacks *)
Lemma setter_followed s : reachable_from step init s -> forall t i l, thr s t = i :: l -> okhd i l = true.
Proof. intros R t i l E. destruct (invsh_reach s R t) as [A _]. rewrite E in A. simpl in A. apply andb_true_iff in A. tauto. Qed.
