(* Inductive invariants of the RetryExecutor model (Model/Retry.v) and the lemmas behind
   Props/C05_machine.v. *)
From Coq Require Import List ZArith Bool Arith Lia PeanoNat.
From RecordUpdate Require Import RecordSet.
From ME Require Import Base.Machine Base.Fut Base.GenPrelude Gen.RetryGen Model.Retry Proofs.Retry_Spec.
Import ListNotations RecordSetNotations.

(* ---- classification of instructions ------------------------------------------------------- *)
(* weight: instructions that hold (or may come to hold) the right to create the next attempt;
   every thread program has total weight <= 1 *)
Definition w (i : instr) : nat :=
  match i with
  | ICancelled _ | IDoneC _ | IXCancelScan _ | IDCancel _ _ _
  | IAddCbD _ | IDCbDone _ | IDCbCancelled _ _ | IPolSR _ | IPolST _ | IXRetry _ _
  | IXAcqPop _ | IDoneW _ | IDSubmit _ => 1
  | _ => 0
  end.
Fixpoint wt (p : list instr) : nat := match p with [] => 0 | i :: r => w i + wt r end.

(* the delegate future whose (pending or running) _delegate_callback this instruction belongs to *)
Definition tok_of (recs : nat -> jrec) (i : instr) : option nat :=
  match i with
  | IAddCbD d | IDCbDone d | IDCbCancelled d _ => Some d
  | IPolSR r | IPolST r | IXRetry r _ => jdel (recs r)
  | _ => None
  end.
(* the queued job record the submit thread took from the scan *)
Definition hold_of (i : instr) : option nat :=
  match i with IXAcqPop r | IDoneW r | IDSubmit r => Some r | _ => None end.

Definition iok (t : nat) (nrec : nat) (recs : nat -> jrec) (clock : Z) (jobs : list nat) (ndel : nat)
           (ds : nat -> fstate) (dcb : nat -> bool) (i : instr) : Prop :=
  match i with
  | IXAcqPop r => t = worker /\ r < nrec /\ jdel (recs r) = None /\ (jwhen (recs r) <= clock)%Z
  | IDoneW r | IDSubmit r =>
      t = worker /\ r < nrec /\ jdel (recs r) = None /\ (jwhen (recs r) <= clock)%Z /\ ~ In r jobs
  | IDCbDone d => d < ndel /\ fdone (ds d) = true
  | IDCbCancelled d r => d < ndel /\ fdone (ds d) = true /\ r < nrec /\ jdel (recs r) = Some d
  | IPolSR r | IPolST r | IXRetry r _ =>
      r < nrec /\ exists d, d < ndel /\ jdel (recs r) = Some d /\ fdone (ds d) = true
  | IAddCbD d => d < ndel /\ dcb d = false
  | IDCancel _ d _ => d < ndel
  | _ => True
  end.

Definition has_tok (recs : nat -> jrec) (thr : nat -> list instr) (d t : nat) : Prop :=
  exists i, In i (thr t) /\ tok_of recs i = Some d.
Definition holdsR (thr : nat -> list instr) (r : nat) : Prop :=
  exists t i, In i (thr t) /\ hold_of i = Some r.
(* a queued (no delegate) record that can still lead to a delegate submission *)
Definition qlive (jobs : list nat) (recs : nat -> jrec) (thr : nat -> list instr) (r : nat) : Prop :=
  (In r jobs /\ jdel (recs r) = None) \/ holdsR thr r.
(* a delegate future that is not done, or whose _delegate_callback has not yet decided *)
Definition dlive (ndel : nat) (ds : nat -> fstate) (recs : nat -> jrec) (thr : nat -> list instr)
           (d : nat) : Prop :=
  (d < ndel /\ fdone (ds d) = false) \/ exists t, has_tok recs thr d t.

Record Inv (s : st) : Prop := {
  i_jf : forall r, r < nrec s -> jf (recs s r) < nfut s;
  i_dfor : forall d, d < ndel s -> dfor s d < nfut s;
  i_jobs : forall r, In r (jobs s) -> r < nrec s;
  i_jdel : forall r d, r < nrec s -> jdel (recs s r) = Some d ->
           d < ndel s /\ dfor s d = jf (recs s r);
  i_ok : forall t i, In i (thr s t) ->
         iok t (nrec s) (recs s) (clock s) (jobs s) (ndel s) (ds s) (dcb s) i;
  i_wt : forall t, wt (thr s t) <= 1;
  i_tok : forall t1 t2 d, has_tok (recs s) (thr s) d t1 -> has_tok (recs s) (thr s) d t2 -> t1 = t2;
  i_rr : forall r1 r2, qlive (jobs s) (recs s) (thr s) r1 -> qlive (jobs s) (recs s) (thr s) r2 ->
         jf (recs s r1) = jf (recs s r2) -> r1 = r2;
  i_dd : forall d1 d2, dlive (ndel s) (ds s) (recs s) (thr s) d1 ->
         dlive (ndel s) (ds s) (recs s) (thr s) d2 -> dfor s d1 = dfor s d2 -> d1 = d2;
  i_rd : forall r d, qlive (jobs s) (recs s) (thr s) r -> dlive (ndel s) (ds s) (recs s) (thr s) d ->
         jf (recs s r) <> dfor s d
}.

(* ---- basic lemmas --------------------------------------------------------------------------- *)
Lemma in_norm x : forall p b, In x (norm b p) -> x = IDead \/ In x p.
Proof.
  induction p as [|i r IH]; intros b H; cbn [norm] in H.
  - destruct b; simpl in H; intuition.
  - pose proof (IH true) as Ht. pose proof (IH false) as Hf.
    destruct i; try (destruct b); simpl in *; intuition.
Qed.

Lemma wt_norm : forall p b, wt (norm b p) <= wt p.
Proof.
  induction p as [|i r IH]; intros b; cbn [norm].
  - destruct b; simpl; lia.
  - pose proof (IH true) as Ht. pose proof (IH false) as Hf.
    destruct i; try (destruct b); cbn [wt w] in *; lia.
Qed.

Arguments norm : simpl never.

Lemma wt_app p q : wt (p ++ q) = wt p + wt q.
Proof. induction p; simpl; lia. Qed.

Lemma wt_in x p : In x p -> w x <= wt p.
Proof. induction p; simpl; intros H; [contradiction|]. destruct H as [->|H]; [lia|apply IHp in H; lia]. Qed.

Lemma wt_tl p : wt (tl p) <= wt p.
Proof. destruct p; simpl; lia. Qed.

Lemma in_tl {A} (x : A) l : In x (tl l) -> In x l.
Proof. destruct l; simpl; auto. Qed.

Definition plain (i : instr) : bool :=
  match i with IAcqM _ | IRelM _ | IUserCb _ _ => true | _ => false end.
Lemma cbs_plain j x l : In x (cbs_prog j l) -> plain x = true.
Proof.
  unfold cbs_prog. rewrite in_flat_map. intros (c & _ & H). destruct c; simpl in H; intuition; subst; reflexivity.
Qed.
Lemma wt_cbs j l : wt (cbs_prog j l) = 0.
Proof. induction l as [|c l IH]; simpl; [reflexivity|]. rewrite wt_app, IH. destruct c; reflexivity. Qed.

Lemma in_remove_id x y l : In x (remove_id y l) <-> In x l /\ x <> y.
Proof. unfold remove_id. rewrite filter_In, negb_true_iff, Nat.eqb_neq. tauto. Qed.

Lemma in_upd_norm (thr : nat -> list instr) t P t2 x :
  In x (upd thr t (norm false P) t2) ->
  (t2 <> t /\ In x (thr t2)) \/ (t2 = t /\ (x = IDead \/ In x P)).
Proof.
  intros H. destruct (Nat.eq_dec t2 t) as [->|Hne].
  - rewrite upd_same in H. right. split; [reflexivity|]. apply in_norm in H. exact H.
  - rewrite upd_other in H by assumption. left. auto.
Qed.

(* ---- tactics -------------------------------------------------------------------------------- *)
Ltac step_inv H :=
  repeat match type of H with
  | (if ?c then _ else _) = Some _ => destruct c eqn:?; try discriminate H
  | (match ?x with _ => _ end) = Some _ => destruct x eqn:?; try discriminate H
  | (let '(_, _) := ?x in _) = Some _ => destruct x eqn:?
  end.
Ltac clean :=
  repeat match goal with
  | H : _ || _ = false |- _ => apply orb_false_iff in H; destruct H
  | H : _ && _ = true |- _ => apply andb_true_iff in H; destruct H
  | H : negb _ = false |- _ => apply negb_false_iff in H
  | H : negb _ = true |- _ => apply negb_true_iff in H
  | H : (_ =? _) = true |- _ => apply Nat.eqb_eq in H; subst
  | H : (_ =? _) = false |- _ => apply Nat.eqb_neq in H
  | H : fstate_eqb _ _ = true |- _ => apply fstate_eqb_eq in H; subst
  | H : (_ <=? _)%Z = true |- _ => apply Z.leb_le in H
  | H : (_ <=? _)%Z = false |- _ => apply Z.leb_gt in H
  | H : (_ <? _) = true |- _ => apply Nat.ltb_lt in H
  | H : ?i = _ , H2 : thr _ _ = ?i :: _ |- _ => clear H
  end.
(* all accepting branches of step0 s e = Some s', with s' replaced by its definition *)
Ltac invert_step H :=
  unfold step0 in H;
  try match goal with inline : option outcome |- _ => destruct inline end;
  step_inv H;
  try match type of H with context [if dcb ?s ?d then _ else _] => destruct (dcb s d) eqn:? end;
  injection H as <-; clean.

Ltac upd_cases :=
  repeat match goal with
  | H : context [upd _ ?k _ ?x] |- _ =>
      destruct (Nat.eq_dec x k) as [->|?];
      [rewrite ?upd_same in * | rewrite ?(upd_other _ k _ x) in * by assumption]
  | |- context [upd _ ?k _ ?x] =>
      destruct (Nat.eq_dec x k) as [->|?];
      [rewrite ?upd_same in * | rewrite ?(upd_other _ k _ x) in * by assumption]
  end.

(* ---- preservation, clause by clause ---------------------------------------------------------- *)
Ltac head_ok I :=
  try match goal with Et : thr ?s ?t = ?i :: ?l |- _ =>
    let Hok := fresh "Hok" in
    assert (Hok : iok t (nrec s) (recs s) (clock s) (jobs s) (ndel s) (ds s) (dcb s) i)
      by (apply (i_ok _ I t); rewrite Et; left; reflexivity); simpl in Hok end.

Lemma stepB s e s' : Inv s -> step0 s e = Some s' ->
  (forall r, r < nrec s' -> jf (recs s' r) < nfut s') /\
  (forall d, d < ndel s' -> dfor s' d < nfut s') /\
  (forall r, In r (jobs s') -> r < nrec s') /\
  (forall r d, r < nrec s' -> jdel (recs s' r) = Some d -> d < ndel s' /\ dfor s' d = jf (recs s' r)).
Proof.
  intros I H. destruct e; invert_step H.
  all: simpl.
  all: try solve [split; [|split; [|split]]; [exact (i_jf _ I)|exact (i_dfor _ I)|exact (i_jobs _ I)| exact (i_jdel _ I)]].
  all: head_ok I.
  all: pose proof (i_jf _ I) as Ijf; pose proof (i_dfor _ I) as Idfor; pose proof (i_jobs _ I) as Ijobs; pose proof (i_jdel _ I) as Ijdel.
  all: split; [|split; [|split]]; intros; upd_cases; simpl in *.
  all: try (match goal with Hx : In _ (_ ++ [_]) |- _ => apply in_app_or in Hx; destruct Hx as [Hx|[<-|[]]] end).
  all: try (match goal with Hx : In _ (remove_id _ _) |- _ => apply in_remove_id in Hx; destruct Hx as [Hx ?] end).
  all: try lia; try discriminate; try congruence.
  all: try (match goal with Hx : In _ (jobs _) |- _ => apply Ijobs in Hx; lia end).
  all: try (match goal with Hx : ?r < S (nrec ?s), Hn : ?r <> nrec ?s |- _ => assert (r < nrec s) by lia end).
  all: try (match goal with Hx : ?r < nrec ?s |- jf (recs ?s ?r) < _ => apply Ijf in Hx; lia end).
  all: try (match goal with Hx : ?r < ndel ?s |- dfor ?s ?r < _ => apply Idfor in Hx; lia end).
  all: try solve [eauto].
  all: try solve [apply Ijf; tauto].
  all: try (apply Idfor; lia).
  all: try (match goal with Hr : ?r < nrec ?s, Hd : jdel (recs ?s ?r) = Some ?d |- _ =>
       destruct (Ijdel r d Hr Hd); first [exfalso; lia | split; [lia|assumption]] end).
Qed.

Lemma stepW s e s' : Inv s -> step0 s e = Some s' -> forall t, wt (thr s' t) <= 1.
Proof.
  intros I H. destruct e; invert_step H.
  all: simpl.
  all: try exact (i_wt _ I).
  all: intros t0;
    match goal with |- wt (upd _ ?t _ _) <= 1 =>
      destruct (Nat.eq_dec t0 t) as [->|Hne];
      [rewrite upd_same; eapply Nat.le_trans; [apply wt_norm|];
       pose proof (i_wt _ I t) as Hw;
       match goal with Et : thr _ t = _ |- _ => rewrite Et in Hw end;
       try match goal with |- context [tl ?l] => pose proof (wt_tl l) end;
       simpl in *; rewrite ?wt_app, ?wt_cbs; simpl; try lia
      | rewrite upd_other by assumption; apply (i_wt _ I)]
    end.
Qed.

Lemma iok_mono t nrec recs clock jobs ndel ds dcb nrec' recs' clock' jobs' ndel' ds' dcb' i :
  iok t nrec recs clock jobs ndel ds dcb i ->
  nrec <= nrec' ->
  (forall r, r < nrec -> jdel (recs' r) = jdel (recs r) /\ jwhen (recs' r) = jwhen (recs r)) ->
  (clock <= clock')%Z ->
  (forall r, r < nrec -> In r jobs' -> In r jobs) ->
  ndel <= ndel' ->
  (forall d, d < ndel -> fdone (ds d) = true -> fdone (ds' d) = true) ->
  (forall d, d < ndel -> i = IAddCbD d -> dcb d = false -> dcb' d = false) ->
  iok t nrec' recs' clock' jobs' ndel' ds' dcb' i.
Proof.
  intros H Hn Hr Hc Hj Hd Hds Hcb.
  destruct i; simpl in *; auto.
  - lia.
  - destruct H as (A & B). split; [lia|auto].
  - destruct H as (A & B & C & D). destruct (Hr _ C) as [E F]. rewrite E. repeat split; auto; lia.
  - destruct H as (A & e & B & C & D). destruct (Hr _ A) as [E F]. split; [lia|]. exists e. rewrite E. repeat split; auto; lia.
  - destruct H as (A & e & B & C & D). destruct (Hr _ A) as [E F]. split; [lia|]. exists e. rewrite E. repeat split; auto; lia.
  - destruct H as (A & e & B & C & D). destruct (Hr _ A) as [E F]. split; [lia|]. exists e. rewrite E. repeat split; auto; lia.
  - destruct H as (T & A & B & C). destruct (Hr _ A) as [E F]. rewrite E, F. repeat split; auto; lia.
  - destruct H as (T & A & B & C & D). destruct (Hr _ A) as [E F]. rewrite E, F. repeat split; auto; try lia.
  - destruct H as (T & A & B & C & D). destruct (Hr _ A) as [E F]. rewrite E, F. repeat split; auto; try lia.
  - destruct H as (A & B). split; [lia|]. eapply Hcb; eauto.
Qed.

Lemma find_fut_some s j r : find_fut s j = Some r -> In r (jobs s) /\ jf (recs s r) = j.
Proof. unfold find_fut. intros H. apply find_some in H. rewrite Nat.eqb_eq in H. exact H. Qed.
Lemma find_del_some s d r : find_del s d = Some r -> In r (jobs s) /\ jdel (recs s r) = Some d.
Proof.
  unfold find_del. intros H. apply find_some in H. destruct H as [A B]. split; [exact A|].
  unfold opt_eqb in B. destruct (jdel (recs s r)); [|discriminate]. apply Nat.eqb_eq in B. congruence.
Qed.
Lemma scan_spec s ts v : get_next_job ts (map (view s) (jobs s)) = Some v ->
  In (rj_id v) (jobs s) /\ jdel (recs s (rj_id v)) = None /\ v = view s (rj_id v).
Proof.
  intros H. pose proof (get_next_job_spec ts (map (view s) (jobs s))) as G. rewrite H in G.
  destruct G as (A & B & _). apply in_map_iff in A. destruct A as (r & <- & Hr). simpl.
  split; [exact Hr|]. split; [|reflexivity].
  simpl in B. unfold issome, isnone in B. destruct (jdel (recs s r)); [discriminate|reflexivity].
Qed.
Lemma f_cancel_true pre n : f_cancel pre = (n, true) -> fdone n = true.
Proof. destruct pre; simpl; intros H; inversion H; reflexivity. Qed.
Lemma f_cancel_mono pre n b : f_cancel pre = (n, b) -> fdone pre = true -> fdone n = true.
Proof. destruct pre; simpl; intros H; inversion H; auto. Qed.
Lemma f_set_some pre n : f_set pre = Some n -> fdone n = true /\ fdone pre = false.
Proof. destruct pre; simpl; intros H; inversion H; auto. Qed.
Lemma f_srnc_some pre n b : f_srnc pre = Some (n, b) -> fdone n = fdone pre.
Proof. destruct pre; simpl; intros H; inversion H; auto. Qed.

Ltac old_ok I t0 x Hx :=
  eapply iok_mono; [exact (i_ok _ I t0 x Hx)|..]; simpl.

Lemma stepK s e s' : Inv s -> step0 s e = Some s' ->
  forall t i, In i (thr s' t) -> iok t (nrec s') (recs s') (clock s') (jobs s') (ndel s') (ds s') (dcb s') i.
Proof.
  intros I H. destruct e; invert_step H.
  all: simpl.
  all: head_ok I.
  all: intros t0 x Hx.
  all: try (apply in_upd_norm in Hx; destruct Hx as [[Hne Hx]|[-> [->|Hx]]];
    [ | exact Logic.I | simpl in Hx; repeat (destruct Hx as [<-|Hx]); try contradiction; try exact Logic.I ]).
  all: try (apply in_tl in Hx).
  all: try (apply in_app_or in Hx; destruct Hx as [Hx|Hx];
            [apply cbs_plain in Hx; destruct x; try discriminate Hx; exact Logic.I|]).
  all: try (match goal with Et : thr ?s ?t = _ :: ?l, Hx : In ?x ?l |- _ =>
        assert (Hx' : In x (thr s t)) by (rewrite Et; right; exact Hx); old_ok I t x Hx' end).
  all: try (match goal with Hx : In ?x (thr ?s ?t) |- _ => old_ok I t x Hx end).
  all: try lia; auto.
  all: try solve [intros r0 Hr0; upd_cases; simpl; auto; lia].
  all: try solve [intros r0 Hr0 Hin; try (apply in_app_or in Hin; destruct Hin as [Hin|[<-|[]]]);
                  try (apply in_remove_id in Hin; destruct Hin); auto; lia].
  all: try solve [intros d1 Hd1 Hdone; upd_cases; auto; try lia;
                  first [ eapply f_cancel_mono; eassumption
                        | erewrite f_srnc_some by eassumption; assumption
                        | eapply f_set_some; eassumption ]].
  all: try solve [simpl; intuition (auto; try lia)].
  all: try solve [simpl; intuition (eauto; try lia)].
  all: try solve [intros d1 Hd1 -> Hcb; upd_cases; auto; exfalso;
                  first [ apply Hne; apply (i_tok _ I _ _ d0);
                          [exists (IAddCbD d0); split; [assumption|reflexivity]
                          |exists (IAddCbD d0); split; [rewrite Heql; left; reflexivity|reflexivity]]
                        | pose proof (i_wt _ I t) as Hw; rewrite Heql in Hw; apply wt_in in Hx; simpl in *; lia ]].
  - destruct (scan_spec _ _ _ Heqo) as (A & B & C). simpl. split; [reflexivity|]. split; [apply (i_jobs _ I); exact A|auto].
  - simpl. destruct (find_fut_some _ _ _ Heqo) as [A B]. apply (i_jobs _ I) in A. apply (i_jdel _ I _ _ A Heqo0).
  - simpl. destruct Hok as (T & A & B & C). do 4 (split; [assumption|]). intros X. apply in_remove_id in X. tauto.
  - simpl; rewrite upd_same; split; [auto| eapply f_cancel_true; eauto].
  - simpl. destruct (find_del_some _ _ _ Heqo) as [A B]. apply (i_jobs _ I) in A. tauto.
  - simpl; rewrite upd_same; split; [lia|reflexivity].
  - simpl; rewrite upd_same; split; [lia|reflexivity].
  - simpl; rewrite upd_same; split; [auto|eapply f_set_some; eauto].
  - intros d1 Hd1 Hdone; upd_cases; auto; destruct (ds s d); simpl in *; congruence.
  - simpl; rewrite upd_same; split; [auto|destruct (ds s d); simpl in *; congruence].
  - intros d1 Hd1 Hdone; upd_cases; auto; destruct (ds s d); simpl in *; congruence.
Qed.

(* ---- what every step preserves of the data fields -------------------------------------------- *)
Definition ext (s s' : st) : Prop :=
  nrec s <= nrec s' /\ ndel s <= ndel s' /\ nfut s <= nfut s' /\
  (forall r, r < nrec s -> jf (recs s' r) = jf (recs s r) /\ jdel (recs s' r) = jdel (recs s r) /\
                           jwhen (recs s' r) = jwhen (recs s r) /\ jatt (recs s' r) = jatt (recs s r)) /\
  (forall r, In r (jobs s') -> In r (jobs s) \/ (r = nrec s /\ nrec s' = S (nrec s))) /\
  (forall d, d < ndel s -> dfor s' d = dfor s d /\ (fdone (ds s d) = true -> fdone (ds s' d) = true)) /\
  (forall h, In h (hist s) -> In h (hist s')) /\ ndel s' <= S (ndel s) /\ nrec s' <= S (nrec s).

Lemma step_ext s e s' : step0 s e = Some s' -> ext s s'.
Proof.
  intros H. unfold ext. destruct e; invert_step H.
  all: simpl.
  all: repeat (split; [try lia; try (intros r0 Hr0; upd_cases; simpl; auto; lia) |]).
  all: try lia.
  all: try (intros h Hh; simpl; tauto).
  all: try solve [intros r0 Hin; try (apply in_app_or in Hin; destruct Hin as [Hin|[<-|[]]]);
                  try (apply in_remove_id in Hin; destruct Hin); auto].
  all: try solve [intros d1 Hd1; split; [upd_cases; auto; lia|]; intros Hdone; upd_cases; auto; try lia;
                  first [ eapply f_cancel_mono; eassumption
                        | erewrite f_srnc_some by eassumption; assumption
                        | eapply f_set_some; eassumption ]].
  all: try solve [intros Hdone; upd_cases; auto; try lia;
                  first [ eapply f_cancel_mono; eassumption
                        | erewrite f_srnc_some by eassumption; assumption
                        | eapply f_set_some; eassumption ]].
  all: intros Hdone; upd_cases; auto; destruct (ds s d); simpl in *; congruence.
Qed.

(* ---- callback tokens: a step only moves a token along, or spawns one for a delegate future that
   was not done (and had the callback registered) or that is fresh ---------------------------- *)
Lemma tok_state s d t : Inv s -> has_tok (recs s) (thr s) d t ->
  d < ndel s /\ (dcb s d = false \/ fdone (ds s d) = true).
Proof.
  intros I (i & Hin & Htok). pose proof (i_ok _ I _ _ Hin) as Hok.
  destruct i; simpl in *; try discriminate; try (injection Htok as <-; tauto).
  all: destruct Hok as (_ & d' & A & B & C); rewrite B in Htok; injection Htok as <-; tauto.
Qed.

Lemma tok_frame t nrec recs clock jobs ndel ds dcb i recs' :
  iok t nrec recs clock jobs ndel ds dcb i -> (forall r, r < nrec -> jdel (recs' r) = jdel (recs r)) ->
  tok_of recs' i = tok_of recs i.
Proof. intros H Hr. destruct i; simpl in *; auto; apply Hr; tauto. Qed.

Definition actor (e : ev) : nat :=
  match e with
  | ECallSubmit t | ECallCancel t _ | ECallAddCb t _ _ | EXSec t _ | EXAcq t | EXRel t | EEvSet t | ERet t _
  | EAcqM t _ | ERelM t _ | EFR t _ _ _ | EFD t _ _ _ | EUserCb t _ _ | EPolSR t _ | EPolST t _
  | EDSubmit t _ _ | EEnvRun t _ _ | EEnvStart t _ | EEnvFinish t _ _ _ | EDied t | EEnvCancel t _ _ => t
  | EWWait _ | EWWoke _ | EWClear => worker
  end.

Lemma stepTok s e s' : Inv s -> step0 s e = Some s' -> forall d t0,
  has_tok (recs s') (thr s') d t0 ->
  has_tok (recs s) (thr s) d t0 \/
  (t0 = actor e /\ ((d < ndel s /\ fdone (ds s d) = false /\ dcb s d = true) \/
                    (d = ndel s /\ ndel s' = S (ndel s)))).
Proof.
  intros I H. destruct e; invert_step H.
  all: simpl.
  all: head_ok I.
  all: intros d1 t0 (x & Hx & Htok).
  all: try (apply in_upd_norm in Hx; destruct Hx as [[Hne Hx]|[-> [->|Hx]]];
    [ | discriminate Htok
      | simpl in Hx; repeat (destruct Hx as [<-|Hx]); try contradiction; try discriminate Htok ]).
  all: try (apply in_tl in Hx).
  all: try (apply in_app_or in Hx; destruct Hx as [Hx|Hx];
            [apply cbs_plain in Hx; destruct x; try discriminate Hx; discriminate Htok|]).
  all: try (match goal with Et : thr ?s ?t = _ :: ?l, Hx : In ?x ?l |- _ =>
        assert (Hx' : In x (thr s t)) by (rewrite Et; right; exact Hx); clear Hx; rename Hx' into Hx end).
  all: try (match goal with Hx : In ?x (thr ?s ?t) |- _ =>
        left; exists x; split; [exact Hx|];
        first [exact Htok | erewrite <- tok_frame; [exact Htok | apply (i_ok _ I _ _ Hx) | ];
                            intros r0 Hr0; upd_cases; simpl; auto; lia ] end).
  all: try solve [left; eexists; split; [rewrite Heql; left; reflexivity| simpl in *; intuition congruence]].
  all: simpl in Htok; injection Htok as <-; right; (split; [reflexivity|]).
  all: try solve [right; split; reflexivity].
  all: left; (split; [assumption|]); (split; [|assumption]).
  - destruct (ds s d0); simpl in *; congruence.
  - eapply f_set_some; eassumption.
  - destruct (ds s d); simpl in *; congruence.
Qed.

Lemma stepT s e s' : Inv s -> step0 s e = Some s' ->
  forall t1 t2 d, has_tok (recs s') (thr s') d t1 -> has_tok (recs s') (thr s') d t2 -> t1 = t2.
Proof.
  intros I H t1 t2 d H1 H2.
  destruct (stepTok _ _ _ I H _ _ H1) as [A|[A A']]; destruct (stepTok _ _ _ I H _ _ H2) as [B|[B B']].
  - exact (i_tok _ I _ _ _ A B).
  - exfalso. apply (tok_state _ _ _ I) in A. destruct B' as [B'|B']; [|lia].
    destruct A as [_ [A|A]]; destruct B' as (_ & X & Y); congruence.
  - exfalso. apply (tok_state _ _ _ I) in B. destruct A' as [A'|A']; [|lia].
    destruct B as [_ [B|B]]; destruct A' as (_ & X & Y); congruence.
  - congruence.
Qed.

(* ---- live queued records / live delegate futures after a step ------------------------------- *)
Lemma stepHold s e s' : Inv s -> step0 s e = Some s' -> forall r,
  holdsR (thr s') r -> qlive (jobs s) (recs s) (thr s) r.
Proof.
  intros I H. destruct e; invert_step H.
  all: simpl.
  all: intros r1 (t0 & x & Hx & Hh).
  all: try (apply in_upd_norm in Hx; destruct Hx as [[Hne Hx]|[-> [->|Hx]]];
    [ | discriminate Hh
      | simpl in Hx; repeat (destruct Hx as [<-|Hx]); try contradiction; try discriminate Hh ]).
  all: try (apply in_tl in Hx).
  all: try (apply in_app_or in Hx; destruct Hx as [Hx|Hx];
            [apply cbs_plain in Hx; destruct x; try discriminate Hx; discriminate Hh|]).
  all: try (match goal with Et : thr ?s ?t = _ :: ?l, Hx : In ?x ?l |- _ =>
        assert (Hx' : In x (thr s t)) by (rewrite Et; right; exact Hx); clear Hx; rename Hx' into Hx end).
  all: try (match goal with Hx : In ?x (thr ?s ?t) |- _ =>
        right; exists t, x; split; [exact Hx|exact Hh] end).
  all: try solve [right; eexists; eexists; split; [rewrite Heql; left; reflexivity| exact Hh]].
  simpl in Hh; injection Hh as <-. destruct (scan_spec _ _ _ Heqo) as (A & B & _). left; auto.
Qed.

Lemma q_lt s r : Inv s -> qlive (jobs s) (recs s) (thr s) r -> r < nrec s /\ jdel (recs s r) = None.
Proof.
  intros I [[A B]|(t & x & Hx & Hh)]; [split; [exact (i_jobs _ I _ A)|exact B]|].
  pose proof (i_ok _ I _ _ Hx) as Hok. destruct x; try discriminate Hh; injection Hh as <-; simpl in Hok; tauto.
Qed.

Lemma d_lt s d : Inv s -> dlive (ndel s) (ds s) (recs s) (thr s) d -> d < ndel s.
Proof. intros I [[A _]|[t A]]; [exact A|]. apply (tok_state _ _ _ I A). Qed.

Lemma stepQ s e s' : Inv s -> step0 s e = Some s' -> forall r,
  qlive (jobs s') (recs s') (thr s') r ->
  qlive (jobs s) (recs s) (thr s) r \/ (r = nrec s /\ nrec s' = S (nrec s) /\ jdel (recs s' r) = None).
Proof.
  intros I H r [[A B]|A]; [|left; exact (stepHold _ _ _ I H _ A)].
  destruct (step_ext _ _ _ H) as (_ & _ & _ & Hr & Hj & _ & _ & _ & _).
  destruct (Hj _ A) as [A'|[-> E]]; [|right; auto].
  left; left. split; [exact A'|]. destruct (Hr r (i_jobs _ I _ A')) as (_ & <- & _). exact B.
Qed.

Lemma stepD s e s' : Inv s -> step0 s e = Some s' -> forall d,
  dlive (ndel s') (ds s') (recs s') (thr s') d ->
  dlive (ndel s) (ds s) (recs s) (thr s) d \/ (d = ndel s /\ ndel s' = S (ndel s)).
Proof.
  intros I H d [[A B]|[t A]].
  - destruct (step_ext _ _ _ H) as (_ & Hn & _ & _ & _ & Hd & _ & Hn' & _).
    destruct (lt_dec d (ndel s)) as [L|L]; [|right; lia].
    left; left. split; [exact L|]. destruct (Hd d L) as [_ M].
    destruct (fdone (ds s d)); [rewrite M in B by reflexivity; discriminate|reflexivity].
  - destruct (stepTok _ _ _ I H _ _ A) as [A'|[_ [(X & Y & _)|X]]].
    + left; right. exists t; exact A'.
    + left; left; auto.
    + right; exact X.
Qed.

(* ---- one holder per retry future ----------------------------------------------------------- *)
Definition Q (s : st) (r : nat) := qlive (jobs s) (recs s) (thr s) r.
Definition D (s : st) (d : nat) := dlive (ndel s) (ds s) (recs s) (thr s) d.
Definition U (s : st) : Prop :=
  (forall r1 r2, Q s r1 -> Q s r2 -> jf (recs s r1) = jf (recs s r2) -> r1 = r2) /\
  (forall d1 d2, D s d1 -> D s d2 -> dfor s d1 = dfor s d2 -> d1 = d2) /\
  (forall r d, Q s r -> D s d -> jf (recs s r) <> dfor s d).

Lemma inv_U s : Inv s -> U s.
Proof. intros I. split; [exact (i_rr _ I)|split; [exact (i_dd _ I)|exact (i_rd _ I)]]. Qed.

(* general combination: old elements keep their keys; at most one new queued record or one new
   delegate future, whose key differs from the keys of all other live elements *)
Lemma U_step s s' : Inv s -> ext s s' ->
  (forall r, Q s' r -> Q s r \/ r = nrec s) ->
  (forall d, D s' d -> D s d \/ d = ndel s) ->
  (forall r, Q s' r -> r <> nrec s -> Q s' (nrec s) -> jf (recs s r) <> jf (recs s' (nrec s))) ->
  (forall d, D s' d -> d <> ndel s -> Q s' (nrec s) -> dfor s d <> jf (recs s' (nrec s))) ->
  (forall d, D s' d -> d <> ndel s -> D s' (ndel s) -> dfor s d <> dfor s' (ndel s)) ->
  (forall r, Q s' r -> r <> nrec s -> D s' (ndel s) -> jf (recs s r) <> dfor s' (ndel s)) ->
  (Q s' (nrec s) -> D s' (ndel s) -> False) ->
  U s'.
Proof.
  intros I (_ & _ & _ & Hr & _ & Hd & _) HQ HD A1 A2 A3 A4 A5.
  assert (QL : forall r, Q s' r -> r <> nrec s -> Q s r /\ jf (recs s' r) = jf (recs s r)).
  { intros r q ne. destruct (HQ r q) as [q'|]; [|contradiction]. split; [exact q'|].
    apply Hr. apply (q_lt _ _ I q'). }
  assert (DL : forall d, D s' d -> d <> ndel s -> D s d /\ dfor s' d = dfor s d).
  { intros d q ne. destruct (HD d q) as [q'|]; [|contradiction]. split; [exact q'|].
    apply Hd. apply (d_lt _ _ I q'). }
  split; [|split].
  - intros r1 r2 q1 q2 E.
    destruct (Nat.eq_dec r1 (nrec s)) as [->|n1]; destruct (Nat.eq_dec r2 (nrec s)) as [->|n2]; auto.
    + exfalso. destruct (QL _ q2 n2) as [_ E2]. rewrite E2 in E. exact (A1 _ q2 n2 q1 (eq_sym E)).
    + exfalso. destruct (QL _ q1 n1) as [_ E1]. rewrite E1 in E. exact (A1 _ q1 n1 q2 E).
    + destruct (QL _ q1 n1) as [p1 E1]. destruct (QL _ q2 n2) as [p2 E2]. rewrite E1, E2 in E.
      exact (i_rr _ I _ _ p1 p2 E).
  - intros d1 d2 q1 q2 E.
    destruct (Nat.eq_dec d1 (ndel s)) as [->|n1]; destruct (Nat.eq_dec d2 (ndel s)) as [->|n2]; auto.
    + exfalso. destruct (DL _ q2 n2) as [_ E2]. rewrite E2 in E. exact (A3 _ q2 n2 q1 (eq_sym E)).
    + exfalso. destruct (DL _ q1 n1) as [_ E1]. rewrite E1 in E. exact (A3 _ q1 n1 q2 E).
    + destruct (DL _ q1 n1) as [p1 E1]. destruct (DL _ q2 n2) as [p2 E2]. rewrite E1, E2 in E.
      exact (i_dd _ I _ _ p1 p2 E).
  - intros r d q1 q2 E.
    destruct (Nat.eq_dec r (nrec s)) as [->|n1]; destruct (Nat.eq_dec d (ndel s)) as [->|n2].
    + exact (A5 q1 q2).
    + destruct (DL _ q2 n2) as [_ E2]. rewrite E2 in E. exact (A2 _ q2 n2 q1 (eq_sym E)).
    + destruct (QL _ q1 n1) as [_ E1]. rewrite E1 in E. exact (A4 _ q1 n1 q2 E).
    + destruct (QL _ q1 n1) as [p1 E1]. destruct (DL _ q2 n2) as [p2 E2]. rewrite E1, E2 in E.
      exact (i_rd _ I _ _ p1 p2 E).
Qed.

Lemma tok_w recs x d : tok_of recs x = Some d -> w x = 1.
Proof. destruct x; simpl; intros; try discriminate; reflexivity. Qed.
Lemma hold_w x r : hold_of x = Some r -> w x = 1.
Proof. destruct x; simpl; intros; try discriminate; reflexivity. Qed.

(* the head of a program is its only weighted instruction *)
Lemma head_only s t i l x : Inv s -> thr s t = i :: l -> w i = 1 -> In x l -> w x = 0.
Proof.
  intros I Et Hi Hx. pose proof (i_wt _ I t) as Hw. rewrite Et in Hw. apply wt_in in Hx. simpl in Hw. lia.
Qed.

Lemma stepU s e s' : Inv s -> step0 s e = Some s' -> U s'.
Proof.
  intros I H.
  pose proof (step_ext _ _ _ H) as HE. pose proof (stepQ _ _ _ I H) as HQ. pose proof (stepD _ _ _ I H) as HD.
  pose proof (stepTok _ _ _ I H) as HT.
  assert (NQ : Q s' (nrec s) -> nrec s' = S (nrec s) /\ jdel (recs s' (nrec s)) = None).
  { intros q. destruct (HQ _ q) as [q'|(_ & A & B)]; [|auto]. apply (q_lt _ _ I) in q'. lia. }
  assert (ND : D s' (ndel s) -> ndel s' = S (ndel s)).
  { intros q. destruct (HD _ q) as [q'|(_ & A)]; [|auto]. apply (d_lt _ _ I) in q'. lia. }
  assert (OQ : forall r, Q s' r -> r <> nrec s -> Q s r).
  { intros r q ne. destruct (HQ r q) as [|[? _]]; [auto|contradiction]. }
  assert (OD : forall d, D s' d -> d <> ndel s -> D s d).
  { intros d q ne. destruct (HD d q) as [|[? _]]; [auto|contradiction]. }
  apply (U_step s s' I HE).
  - intros r q; destruct (HQ r q) as [|[? _]]; auto.
  - intros d q; destruct (HD d q) as [|[? _]]; auto.
  - intros r q ne qn. apply NQ in qn. destruct qn as [N1 N2]. specialize (OQ r q ne). clear HE HQ HD HT NQ ND OD.
    destruct e; invert_step H; simpl in *; try lia; rewrite ?upd_same in *; simpl in *; try discriminate.
    all: head_ok I.
    + apply (q_lt _ _ I) in OQ. destruct OQ as [L _]. apply (i_jf _ I) in L. lia.
    + destruct Hok as (L & d0 & Ld & Ed & Dd). destruct (i_jdel _ I _ _ L Ed) as [_ Ef]. rewrite <- Ef.
      apply (i_rd _ I); [exact OQ|]. right. exists t, (IXRetry r0 delta). split; [rewrite Heql; left; reflexivity|exact Ed].
  - intros d q ne qn. apply NQ in qn. destruct qn as [N1 N2]. specialize (OD d q ne). clear HE HQ HD NQ ND OQ.
    destruct e; invert_step H; simpl in *; try lia; rewrite ?upd_same in *; simpl in *; try discriminate.
    all: head_ok I.
    + apply (d_lt _ _ I) in OD. apply (i_dfor _ I) in OD. lia.
    + destruct Hok as (L & d0 & Ld & Ed & Dd). destruct (i_jdel _ I _ _ L Ed) as [_ Ef]. rewrite <- Ef.
      intros E.
      assert (T0 : has_tok (recs s) (thr s) d0 t)
        by (exists (IXRetry r delta); split; [rewrite Heql; left; reflexivity|exact Ed]).
      assert (d = d0) by (apply (i_dd _ I); [exact OD | right; exists t; exact T0 | exact E]). subst d.
      unfold D, dlive in q; simpl in q. destruct q as [[_ q]|[t0 q]]; [congruence|].
      destruct (HT _ _ q) as [q'|(_ & [(_ & X & _)|(X & _)])]; [|congruence|lia].
      assert (t0 = t) by exact (i_tok _ I _ _ _ q' T0). subst t0.
      destruct q as (x & Hx & Htok). rewrite upd_same in Hx. apply in_norm in Hx.
      destruct Hx as [->|Hx]; [discriminate|].
      apply tok_w in Htok. rewrite (head_only _ _ _ _ _ I Heql eq_refl Hx) in Htok. discriminate.
  - intros d q ne qd. apply ND in qd. specialize (OD d q ne). clear HE HQ HD NQ ND OQ HT.
    destruct e; invert_step H; simpl in *; try lia; rewrite ?upd_same in *; simpl in *; try discriminate.
    all: head_ok I.
    + intros E; apply (i_rd _ I r d);
        [right; exists t, (IDSubmit r); split; [rewrite Heql; left; reflexivity|reflexivity] | exact OD | symmetry; exact E].
    + intros E; apply (i_rd _ I r d);
        [right; exists t, (IDSubmit r); split; [rewrite Heql; left; reflexivity|reflexivity] | exact OD | symmetry; exact E].
  - intros r1 q ne qd. apply ND in qd. specialize (OQ r1 q ne). clear HE HQ HD NQ ND OD HT.
    destruct e; invert_step H; simpl in *; try lia; rewrite ?upd_same in *; simpl in *; try discriminate.
    all: head_ok I.
    all: intros E;
      assert (Q0 : Q s r) by (right; exists t, (IDSubmit r); split; [rewrite Heql; left; reflexivity|reflexivity]);
      assert (r1 = r) by (apply (i_rr _ I); [exact OQ|exact Q0|exact E]); subst r1;
      unfold Q, qlive in q; simpl in q; destruct q as [[q _]|(t0 & x & Hx & Hh)];
      [ apply in_app_or in q; destruct q as [q|[q|[]]]; [tauto|lia] |];
      apply in_upd_norm in Hx; destruct Hx as [[Hne Hx]|[-> [->|Hx]]];
      [ pose proof (i_ok _ I _ _ Hx) as Hok'; destruct Hok as [-> _];
        destruct x; try discriminate Hh; simpl in Hok'; tauto
      | discriminate
      | simpl in Hx; repeat (destruct Hx as [<-|Hx]); try discriminate Hh;
        apply hold_w in Hh; rewrite (head_only _ _ _ _ _ I Heql eq_refl Hx) in Hh; discriminate ].
  - intros qn qd. apply NQ in qn. apply ND in qd. destruct qn as [N1 N2]. clear HE HQ HD HT NQ ND OD OQ.
    destruct e; invert_step H; simpl in *; try lia; rewrite ?upd_same in *; simpl in *; discriminate.
Qed.

(* ---- the invariant is inductive ------------------------------------------------------------- *)
Lemma inv_step0 s e s' : Inv s -> step0 s e = Some s' -> Inv s'.
Proof.
  intros I H.
  destruct (stepB _ _ _ I H) as (B1 & B2 & B3 & B4).
  destruct (stepU _ _ _ I H) as (U1 & U2 & U3).
  constructor; auto.
  - exact (stepK _ _ _ I H).
  - exact (stepW _ _ _ I H).
  - exact (stepT _ _ _ I H).
Qed.

Lemma inv_tick s ts : Inv s -> (clock s <= ts)%Z -> Inv (s <| clock := ts |>).
Proof.
  intros I Hc. pose proof (i_ok _ I) as K. destruct I. constructor; simpl; auto.
  intros t i Hi. eapply iok_mono; [exact (K t i Hi)|..]; auto.
Qed.

Lemma inv_init : Inv init.
Proof.
  constructor; simpl; try (intros; lia); try contradiction.
  - intros t1 t2 d (i & [] & _).
  - intros r1 r2 [[[] _]|(t & i & [] & _)].
  - intros d1 d2 [[A _]|(t & i & [] & _)]; lia.
  - intros r d [[[] _]|(t & i & [] & _)].
Qed.

Lemma inv_step s e s' : Inv s -> step s e = Some s' -> Inv s'.
Proof.
  intros I H. unfold step, tick in H. destruct (Z.leb (clock s) (fst e)) eqn:E; [|discriminate].
  apply Z.leb_le in E. eapply inv_step0; [|exact H]. apply inv_tick; assumption.
Qed.

Lemma reachable_inv s : reachable_from step init s -> Inv s.
Proof. apply invariant_rule; [exact inv_init|]. intros s0 e s1 HI Hs. exact (inv_step _ _ _ HI Hs). Qed.

Lemma retry_one_inflight : forall s, reachable_from step init s -> forall d1 d2,
  d1 < ndel s -> d2 < ndel s -> dfor s d1 = dfor s d2 ->
  fdone (ds s d1) = false -> fdone (ds s d2) = false -> d1 = d2.
Proof.
  intros s R d1 d2 L1 L2 E F1 F2. apply (i_dd _ (reachable_inv _ R)); auto; left; auto.
Qed.

(* ---- history invariant (back-off times) ---------------------------------------------------- *)
Record InvH (s : st) : Prop := {
  h_when : forall r, r < nrec s -> jdel (recs s r) = None -> 1 <= jatt (recs s r) ->
           exists delta ts1, In (HRetry (jf (recs s r)) (jatt (recs s r)) delta ts1) (hist s) /\
                             jwhen (recs s r) = (ts1 + delta)%Z;
  h_early : forall j d a ts w, In (HDSubmit j d a ts w) (hist s) -> (w <= ts)%Z;
  h_sub : forall j d a ts w, In (HDSubmit j d (S a) ts w) (hist s) -> 1 <= a ->
          exists delta ts1, In (HRetry j a delta ts1) (hist s) /\ w = (ts1 + delta)%Z
}.

Lemma stepH_when s e s' : Inv s -> InvH s -> step0 s e = Some s' ->
  forall r, r < nrec s' -> jdel (recs s' r) = None -> 1 <= jatt (recs s' r) ->
  exists delta ts1, In (HRetry (jf (recs s' r)) (jatt (recs s' r)) delta ts1) (hist s') /\
                    jwhen (recs s' r) = (ts1 + delta)%Z.
Proof.
  intros I IH H r L E A.
  destruct (step_ext _ _ _ H) as (_ & _ & _ & Hr & _ & _ & Hh & _ & Hn).
  destruct (lt_dec r (nrec s)) as [L'|L'].
  - destruct (Hr r L') as (E1 & E2 & E3 & E4). rewrite E1, E3, E4. rewrite E2 in E. rewrite E4 in A.
    destruct (h_when _ IH r L' E A) as (delta & ts1 & X & Y). exists delta, ts1. split; [apply Hh; exact X|exact Y].
  - assert (r = nrec s) by lia. subst r. clear Hr Hh L'.
    destruct e; invert_step H; simpl in *; try lia; rewrite ?upd_same in *; simpl in *; try discriminate; try lia.
    eexists; eexists; split; [left; reflexivity|reflexivity].
Qed.

Lemma step_hsub s e s' : step0 s e = Some s' -> forall j d a ts w,
  In (HDSubmit j d a ts w) (hist s') ->
  In (HDSubmit j d a ts w) (hist s) \/
  exists t r l, thr s t = IDSubmit r :: l /\ j = jf (recs s r) /\ a = S (jatt (recs s r)) /\
                ts = clock s /\ w = jwhen (recs s r).
Proof.
  intros H. destruct e; invert_step H; simpl; intros j1 d1 a1 ts1 w1 Hin; auto.
  all: repeat (destruct Hin as [Hin|Hin]; [try discriminate Hin|]); auto.
  all: injection Hin as <- <- <- <- <-; right; eexists; eexists; eexists; split; [eassumption|auto].
Qed.

Lemma stepH s e s' : Inv s -> InvH s -> step0 s e = Some s' -> InvH s'.
Proof.
  intros I IH H. destruct (step_ext _ _ _ H) as (_ & _ & _ & _ & _ & _ & Hh & _).
  constructor.
  - exact (stepH_when _ _ _ I IH H).
  - intros j d a ts w Hin. destruct (step_hsub _ _ _ H _ _ _ _ _ Hin) as [Hin'|(t & r & l & Et & -> & -> & -> & ->)].
    + exact (h_early _ IH _ _ _ _ _ Hin').
    + pose proof (i_ok _ I t (IDSubmit r)) as Hok. rewrite Et in Hok. simpl in Hok. apply Hok. left; reflexivity.
  - intros j d a ts w Hin A. destruct (step_hsub _ _ _ H _ _ _ _ _ Hin) as [Hin'|(t & r & l & Et & -> & Ea & -> & ->)].
    + destruct (h_sub _ IH _ _ _ _ _ Hin' A) as (delta & ts1 & X & Y). exists delta, ts1. split; [apply Hh; exact X|exact Y].
    + injection Ea as ->.
      pose proof (i_ok _ I t (IDSubmit r)) as Hok. rewrite Et in Hok. simpl in Hok.
      destruct Hok as (_ & L & E & _); [left; reflexivity|].
      destruct (h_when _ IH r L E A) as (delta & ts1 & X & Y). exists delta, ts1. split; [apply Hh; exact X|exact Y].
Qed.

Lemma invH_tick s ts : InvH s -> InvH (s <| clock := ts |>).
Proof. intros IH. destruct IH. constructor; simpl; auto. Qed.

Lemma invH_init : InvH init.
Proof. constructor; simpl; intros; try lia; contradiction. Qed.

Lemma reachable_invH s : reachable_from step init s -> Inv s /\ InvH s.
Proof.
  revert s. apply (invariant_rule step (fun s => Inv s /\ InvH s)); [split; [exact inv_init|exact invH_init]|].
  intros s0 e s1 [I IH] Hs. split; [exact (inv_step _ _ _ I Hs)|].
  unfold step, tick in Hs. destruct (Z.leb (clock s0) (fst e)) eqn:E; [|discriminate].
  apply Z.leb_le in E. eapply stepH; [| |exact Hs]; [apply inv_tick; assumption|apply invH_tick; assumption].
Qed.

Lemma retry_backoff_not_early : forall s, reachable_from step init s -> forall j d a ts w,
  In (HDSubmit j d a ts w) (hist s) -> (w <= ts)%Z.
Proof. intros s R. exact (h_early _ (proj2 (reachable_invH _ R))). Qed.

Lemma retry_when_is_retry_plus_delay : forall s, reachable_from step init s -> forall j d a ts w,
  In (HDSubmit j d (S a) ts w) (hist s) -> 1 <= a ->
  exists delta ts1, In (HRetry j a delta ts1) (hist s) /\ w = (ts1 + delta)%Z.
Proof. intros s R. exact (h_sub _ (proj2 (reachable_invH _ R))). Qed.

(* ---- one-step property of the scan ---------------------------------------------------------- *)
Lemma retry_wait_exact : forall s ts w s', reachable_from step init s ->
  step s (ts, EXSec worker w) = Some s' -> thr s worker = [] ->
  forall tau rest, thr s' worker = IWWait (Some tau) :: rest ->
  exists r, In r (jobs s) /\ jdel (recs s r) = None /\ tau = (jwhen (recs s r) - ts)%Z /\
    forall r', In r' (jobs s) -> jdel (recs s r') = None ->
      jstop (recs s r') = false /\ (ts < jwhen (recs s r'))%Z /\ (jwhen (recs s r) <= jwhen (recs s r'))%Z.
Proof.
  intros s ts w s' _ H Et tau rest Et'.
  unfold step, tick in H. cbn [fst snd] in H.
  destruct (Z.leb (clock s) ts) eqn:Ec; [|discriminate].
  apply Z.leb_le in Ec.
  unfold step0 in H. simpl in H. rewrite Et in H. step_inv H; injection H as <-; simpl in Et';
    rewrite upd_same in Et'; cbv beta iota delta [norm] in Et'; try discriminate Et'.
  injection Et' as <- <-. clean.
  match type of Heqo with get_next_job ?a ?b = _ => pose proof (get_next_job_spec a b) as G end.
  rewrite Heqo in G. destruct G as (A & B & C).
  apply in_map_iff in A. destruct A as (r0 & <- & Hr0). simpl in *.
  exists r0. split; [exact Hr0|]. split; [unfold issome, isnone in B; destruct (jdel (recs s r0)); [discriminate|reflexivity]|].
  split; [reflexivity|].
  destruct C as [C|[C|C]]; [congruence|lia|].
  intros r' Hr' Hd. eapply (C (view _ r')).
  - apply in_map. exact Hr'.
  - simpl. rewrite Hd. reflexivity.
Qed.
