(* Layer A: well-formedness of records, delegates and thread programs. *)
From Coq Require Import List ZArith Bool Arith Lia PeanoNat.
From RecordUpdate Require Import RecordSet.
From ME Require Import Base.Machine Base.Fut Base.GenPrelude Gen.RetryGen Model.Retry Proofs.Retry_Spec Proofs.Retry_InvB0.
Import ListNotations RecordSetNotations.

Definition wfi (s : st) (i : instr) : Prop :=
  match i with
  | IXAcqPop r | IDoneW r | IDSubmit r => r < nrec s /\ jdel (recs s r) = None
  | IAddCbD d | IDCbDone d => d < ndel s
  | IDCancel _ d r => d < ndel s
  | IDCbCancelled d r => r < nrec s /\ jdel (recs s r) = Some d
  | IPolSR r | IPolST r | IXRetry r _ => r < nrec s /\ jdel (recs s r) <> None
  | _ => True
  end.

(* worker-only instructions *)
Definition wki (i : instr) : bool :=
  match i with IXAcqPop _ | IDoneW _ | IDSubmit _ | IAddCbD _ => true | _ => false end.
Definition wcount (p : list instr) : nat := length (filter wki p).
Definition heldi (r : nat) (i : instr) : Prop := i = IDoneW r \/ i = IDSubmit r.

Record InvA (s : st) : Prop := {
  a_jobs : forall r, In r (jobs s) -> r < nrec s;
  a_rec : forall r d, r < nrec s -> jdel (recs s r) = Some d ->
          d < ndel s /\ dfor s d = jf (recs s r) /\ datt s d = jatt (recs s r) /\ 1 <= jatt (recs s r);
  a_inj : forall r1 r2 d, r1 < nrec s -> r2 < nrec s ->
          jdel (recs s r1) = Some d -> jdel (recs s r2) = Some d -> r1 = r2;
  a_jf : forall r, r < nrec s -> jf (recs s r) < nfut s;
  a_dfor : forall d, d < ndel s -> dfor s d < nfut s;
  a_wf : forall t i, In i (thr s t) -> wfi s i;
  a_wk0 : forall t, t <> worker -> wcount (thr s t) = 0;
  a_wk1 : wcount (thr s worker) <= 1;
  a_held : forall r i, heldi r i -> In i (thr s worker) -> ~ In r (jobs s);
  a_addcb : forall d, In (IAddCbD d) (thr s worker) -> dcb s d = false
}.

Lemma wcount_norm b p : wcount (norm b p) <= wcount p.
Proof.
  revert b; induction p as [|i r IH]; intros b.
  - destruct b; simpl; auto.
  - unfold norm; fold norm. unfold wcount in *.
    destruct i; try (destruct b; [etransitivity; [apply IH|simpl; lia]|lia]);
      (etransitivity; [apply IH|simpl; lia]).
Qed.

Lemma in_remove_id x y l : In y (remove_id x l) <-> In y l /\ y <> x.
Proof. unfold remove_id. rewrite filter_In, negb_true_iff, Nat.eqb_neq. tauto. Qed.

(* records keep jf/jatt/jdel (only jstop may change) *)
Definition same_rec (a b : jrec) : Prop := jf a = jf b /\ jatt a = jatt b /\ jdel a = jdel b /\ jold a = jold b.

Lemma wfi_same s s' i : nrec s' = nrec s -> ndel s' = ndel s ->
  (forall r, same_rec (recs s' r) (recs s r)) -> wfi s i -> wfi s' i.
Proof.
  intros Hn Hd Hr. destruct i; simpl; auto; rewrite ?Hn, ?Hd;
    try (destruct (Hr r) as (_ & _ & -> & _)); auto.
Qed.

Lemma invA_upd s s' t p :
  InvA s ->
  nrec s' = nrec s -> nfut s' = nfut s -> ndel s' = ndel s -> dfor s' = dfor s -> datt s' = datt s ->
  dcb s' = dcb s ->
  (forall r, In r (jobs s') -> In r (jobs s)) ->
  (forall r, same_rec (recs s' r) (recs s r)) ->
  thr s' = upd (thr s) t (norm false p) ->
  Forall (wfi s) p ->
  wcount p <= wcount (thr s t) \/ (t = worker /\ wcount p <= 1) ->
  (forall r i, heldi r i -> In i p -> In i (thr s t) \/ ~ In r (jobs s')) ->
  (forall d, In (IAddCbD d) p -> In (IAddCbD d) (thr s t)) ->
  InvA s'.
Proof.
  intros I Hn Hf Hd Hdf Hda Hcb Hj Hr Ht Hwf Hwk Hh Ha.
  assert (Hin : forall t' i, In i (thr s' t') -> i = IDead \/ (t' = t /\ In i p) \/ (t' <> t /\ In i (thr s t'))).
  { intros t' i. rewrite Ht. unfold upd. destruct (Nat.eqb t' t) eqn:E.
    - apply Nat.eqb_eq in E. intros H. apply norm_in in H. tauto.
    - apply Nat.eqb_neq in E. tauto. }
  assert (Hw : forall t', wcount (thr s' t') <= wcount (thr s t') \/ (t' = worker /\ wcount (thr s' t') <= 1)).
  { intros t'. rewrite Ht. unfold upd. destruct (Nat.eqb t' t) eqn:E; [|lia].
    apply Nat.eqb_eq in E. subst t'. pose proof (wcount_norm false p). destruct Hwk as [Hwk|[-> Hwk]]; [left|right]; lia. }
  destruct I as [A1 A2 A3 A4 A5 A6 A7 A8 A9 A10]. constructor.
  - intros r H. rewrite Hn. apply A1, Hj, H.
  - intros r d. rewrite Hn, Hd, Hdf, Hda. destruct (Hr r) as (-> & -> & -> & _). auto.
  - intros r1 r2 d. rewrite Hn. destruct (Hr r1) as (_ & _ & -> & _). destruct (Hr r2) as (_ & _ & -> & _). eauto.
  - intros r. rewrite Hn, Hf. destruct (Hr r) as (-> & _). auto.
  - intros d. rewrite Hd, Hf, Hdf. auto.
  - intros t' i H. destruct (Hin t' i H) as [->|[[-> H1]|[H0 H1]]]; [exact I| |].
    + apply (wfi_same s); auto. rewrite Forall_forall in Hwf. auto.
    + apply (wfi_same s); auto. eapply A6; eauto.
  - intros t' H. specialize (Hw t'). rewrite (A7 t' H) in Hw. destruct Hw as [Hw|[Hw _]]; [lia|tauto].
  - specialize (Hw worker). lia.
  - intros r i Hi H. destruct (Hin worker i H) as [->|[[<- H1]|[H0 H1]]].
    + destruct Hi; discriminate.
    + destruct (Hh r i Hi H1) as [H2|H2]; [|exact H2].
      intros Hc. apply Hj in Hc. revert Hc. eapply A9; eauto.
    + intros Hc. apply Hj in Hc. revert Hc. eapply A9; eauto.
  - intros d H. rewrite Hcb. destruct (Hin worker _ H) as [E|[[<- H1]|[H0 H1]]]; [discriminate| |]; auto.
Qed.

Lemma invA_same s s' : InvA s ->
  jobs s' = jobs s -> recs s' = recs s -> nrec s' = nrec s -> nfut s' = nfut s -> ndel s' = ndel s ->
  dfor s' = dfor s -> datt s' = datt s -> dcb s' = dcb s -> thr s' = thr s -> InvA s'.
Proof.
  intros [A1 A2 A3 A4 A5 A6 A7 A8 A9 A10] E1 E2 E3 E4 E5 E6 E7 E8 E9.
  constructor; rewrite ?E1, ?E2, ?E3, ?E4, ?E5, ?E6, ?E7, ?E8, ?E9; auto.
  intros t i H. apply A6 in H. destruct i; simpl in *; rewrite ?E2, ?E3, ?E5; auto.
Qed.

Lemma same_rec_refl a : same_rec a a.
Proof. repeat split. Qed.
Lemma wcount_cbs j l p : wcount (cbs_prog j l ++ p) = wcount p.
Proof.
  unfold wcount, cbs_prog. induction l as [|c l IH]; simpl; auto. destruct c; simpl; auto.
Qed.
Lemma wfi_cbs s j l : Forall (wfi s) (cbs_prog j l).
Proof.
  unfold cbs_prog. induction l as [|c l IH]; simpl; auto. destruct c; simpl; repeat constructor; auto.
Qed.
Lemma in_cbs_wk i j l : In i (cbs_prog j l) -> wki i = false.
Proof.
  unfold cbs_prog. induction l as [|c l IH]; simpl; [tauto|]. rewrite in_app_iff. intros [H|H]; auto.
  destruct c; simpl in H; intuition (subst; auto).
Qed.

(* solvers for the side conditions of invA_upd *)
Ltac sv_jobs := simpl; intros ? ?; rewrite ?in_remove_id in *; tauto.
Ltac sv_recs := simpl; intros r0; unfold upd; try destruct (Nat.eqb r0 _); repeat split.
Ltac sv_wf P := repeat (first [apply Forall_cons; [simpl; auto|] | apply Forall_app; split; [apply wfi_cbs|]]);
  try (inversion P; subst; assumption); try apply Forall_nil.
Ltac sv_wc E := rewrite E; rewrite ?wcount_cbs; unfold wcount; simpl; lia.
Ltac sv_in E := intros; left; rewrite E; simpl in *; unfold heldi in *;
  intuition (subst; try discriminate; auto).
Ltac sv_in2 E := intros; rewrite E; simpl in *; intuition (subst; try discriminate; auto).

Lemma find_fut_some s j r : find_fut s j = Some r -> In r (jobs s) /\ jf (recs s r) = j.
Proof. unfold find_fut. intros H. apply find_some in H. rewrite Nat.eqb_eq in H. exact H. Qed.
Lemma find_del_some s d r : find_del s d = Some r -> In r (jobs s) /\ jdel (recs s r) = Some d.
Proof.
  unfold find_del. intros H. apply find_some in H. destruct H as [H1 H2]. split; auto.
  unfold opt_eqb in H2. destruct (jdel (recs s r)); [|discriminate]. apply Nat.eqb_eq in H2. congruence.
Qed.
Lemma gnj_some s ts v : get_next_job ts (map (view s) (jobs s)) = Some v ->
  In (rj_id v) (jobs s) /\ jdel (recs s (rj_id v)) = None.
Proof.
  intros H. pose proof (get_next_job_spec ts (map (view s) (jobs s))) as G. rewrite H in G.
  destruct G as (G1 & G2 & _). apply in_map_iff in G1. destruct G1 as (r & <- & Hr). simpl in *.
  split; auto. destruct (jdel (recs s r)); [discriminate|auto].
Qed.
Lemma wcount_tl p : wcount (tl p) <= wcount p.
Proof. destruct p as [|i p]; simpl; auto. unfold wcount. simpl. destruct (wki i); simpl; lia. Qed.
Lemma in_tl_in {A} (x : A) p : In x (tl p) -> In x p.
Proof. destruct p; simpl; auto. Qed.
Lemma wk_worker s t i l : InvA s -> thr s t = i :: l -> wki i = true -> t = worker.
Proof.
  intros I E Hi. destruct (Nat.eq_dec t worker) as [|Hn]; auto.
  pose proof (a_wk0 _ I t Hn) as H. rewrite E in H. unfold wcount in H. simpl in H. rewrite Hi in H. discriminate.
Qed.
Lemma wk_rest0 s t i l : InvA s -> thr s t = i :: l -> wki i = true -> wcount l = 0.
Proof.
  intros I E Hi. assert (t = worker) by (eapply wk_worker; eauto). subst t.
  pose proof (a_wk1 _ I) as H. rewrite E in H. unfold wcount in *. simpl in H. rewrite Hi in H. simpl in H. lia.
Qed.
Lemma wcount0_in p i : wcount p = 0 -> In i p -> wki i = false.
Proof.
  unfold wcount. induction p as [|a p IH]; simpl; [tauto|]. destruct (wki a) eqn:E; simpl; [discriminate|].
  intros H [<-|H1]; auto.
Qed.

Lemma wfi_mono s s' i : nrec s <= nrec s' -> ndel s <= ndel s' ->
  (forall r, r < nrec s -> recs s' r = recs s r) -> wfi s i -> wfi s' i.
Proof.
  intros Hn Hd Hr. destruct i; simpl; auto; try lia;
    try (intros [H1 H2]; rewrite (Hr _ H1); split; [lia|auto]).
Qed.

Lemma invA_alloc s s' t p rc :
  InvA s ->
  nrec s' = S (nrec s) -> recs s' = upd (recs s) (nrec s) rc ->
  (forall r, In r (jobs s') -> In r (jobs s) \/ r = nrec s) ->
  nfut s <= nfut s' -> jf rc < nfut s' -> ndel s <= ndel s' ->
  (forall d, d < ndel s -> dfor s' d = dfor s d /\ datt s' d = datt s d) ->
  (forall d, dcb s' d = false \/ dcb s' d = dcb s d) ->
  (forall d, ndel s <= d -> d < ndel s' -> dfor s' d < nfut s') ->
  (forall d, jdel rc = Some d -> d = ndel s /\ ndel s' = S (ndel s) /\ dfor s' d = jf rc /\
                                 datt s' d = jatt rc /\ 1 <= jatt rc) ->
  thr s' = upd (thr s) t (norm false p) ->
  Forall (wfi s') p ->
  wcount p <= wcount (thr s t) \/ (t = worker /\ wcount p <= 1) ->
  (forall r i, heldi r i -> In i p -> In i (thr s t) \/ ~ In r (jobs s')) ->
  (forall d, In (IAddCbD d) p -> dcb s' d = false) ->
  InvA s'.
Proof.
  intros I Hn Hrc Hj Hf Hjf Hd Hdf Hcb Hdn Hrd Ht Hwf Hwk Hh Ha.
  assert (Hin : forall t' i, In i (thr s' t') -> i = IDead \/ (t' = t /\ In i p) \/ (t' <> t /\ In i (thr s t'))).
  { intros t' i. rewrite Ht. unfold upd. destruct (Nat.eqb t' t) eqn:E.
    - apply Nat.eqb_eq in E. intros H. apply norm_in in H. tauto.
    - apply Nat.eqb_neq in E. tauto. }
  assert (Hw : forall t', wcount (thr s' t') <= wcount (thr s t') \/ (t' = worker /\ wcount (thr s' t') <= 1)).
  { intros t'. rewrite Ht. unfold upd. destruct (Nat.eqb t' t) eqn:E; [|lia].
    apply Nat.eqb_eq in E. subst t'. pose proof (wcount_norm false p). destruct Hwk as [Hwk|[-> Hwk]]; [left|right]; lia. }
  assert (Hro : forall r, r < nrec s -> recs s' r = recs s r).
  { intros r H. rewrite Hrc. apply upd_other. lia. }
  assert (Hrn : recs s' (nrec s) = rc) by (rewrite Hrc; apply upd_same).
  assert (Hlt : forall r, r < nrec s' -> r < nrec s \/ r = nrec s) by (intros; lia).
  destruct I as [A1 A2 A3 A4 A5 A6 A7 A8 A9 A10]. constructor.
  - intros r H. destruct (Hj r H) as [H1|H1]; [apply A1 in H1|]; lia.
  - intros r d Hr. destruct (Hlt r Hr) as [H| ->].
    + rewrite (Hro r H). intros E. destruct (A2 r d H E) as (B1 & B2 & B3 & B4).
      destruct (Hdf d B1) as (-> & ->). repeat split; auto; lia.
    + rewrite Hrn. intros E. destruct (Hrd d E) as (-> & B2 & B3 & B4 & B5). repeat split; auto; lia.
  - intros r1 r2 d H1 H2. destruct (Hlt r1 H1) as [G1| ->]; destruct (Hlt r2 H2) as [G2| ->];
      rewrite ?Hrn, ?(Hro r1), ?(Hro r2) by auto; eauto; intros E1 E2.
    + destruct (Hrd d E2) as (-> & _). destruct (A2 r1 _ G1 E1). lia.
    + destruct (Hrd d E1) as (-> & _). destruct (A2 r2 _ G2 E2). lia.
  - intros r Hr. destruct (Hlt r Hr) as [H| ->]; [rewrite (Hro r H); apply A4 in H; lia|rewrite Hrn; auto].
  - intros d H. destruct (Nat.lt_ge_cases d (ndel s)) as [G|G]; [|auto].
    destruct (Hdf d G) as (-> & _). apply A5 in G. lia.
  - intros t' i H. destruct (Hin t' i H) as [->|[[-> H1]|[H0 H1]]]; [exact Logic.I| |].
    + rewrite Forall_forall in Hwf. auto.
    + apply (wfi_mono s); auto; try lia. eapply A6; eauto.
  - intros t' H. specialize (Hw t'). rewrite (A7 t' H) in Hw. destruct Hw as [Hw|[Hw _]]; [lia|tauto].
  - specialize (Hw worker). lia.
  - intros r i Hi H.
    assert (Ho : In i (thr s worker) -> ~ In r (jobs s')).
    { intros H1 Hc. destruct (Hj r Hc) as [H2|H2]; [revert H2; eapply A9; eauto|].
      apply A6 in H1. destruct Hi; subst i; simpl in H1; lia. }
    destruct (Hin worker i H) as [->|[[<- H1]|[H0 H1]]]; auto.
    + destruct Hi; discriminate.
    + destruct (Hh r i Hi H1) as [H2|H2]; auto.
  - intros d H. destruct (Hin worker _ H) as [E|[[<- H1]|[H0 H1]]]; [discriminate|auto|].
    apply A10 in H1. destruct (Hcb d) as [E|E]; congruence.
Qed.

Lemma invA_addcb s s' t d l p :
  InvA s -> thr s t = IAddCbD d :: l ->
  jobs s' = jobs s -> recs s' = recs s -> nrec s' = nrec s -> nfut s' = nfut s -> ndel s' = ndel s ->
  dfor s' = dfor s -> datt s' = datt s ->
  thr s' = upd (thr s) t (norm false p) -> Forall (wfi s) p -> wcount p = 0 ->
  InvA s'.
Proof.
  intros I E E1 E2 E3 E4 E5 E6 E7 Ht Hwf Hwc.
  assert (t = worker) by (eapply wk_worker; eauto). subst t.
  assert (I1 : InvA (s <| thr := thr s' |>)).
  { eapply (invA_upd s _ worker p); try reflexivity; auto.
    - intros; apply same_rec_refl.
    - left. lia.
    - intros r i Hi H. apply (wcount0_in _ _ Hwc) in H. destruct Hi; subst i; discriminate.
    - intros d0 H. apply (wcount0_in _ _ Hwc) in H. discriminate. }
  destruct I1 as [A1 A2 A3 A4 A5 A6 A7 A8 A9 A10]. simpl in *.
  constructor; rewrite ?E1, ?E2, ?E3, ?E4, ?E5, ?E6, ?E7; auto.
  - intros t i H. apply A6 in H. destruct i; simpl in *; rewrite ?E2, ?E3, ?E5; auto.
  - intros d0 H. rewrite Ht, upd_same in H. apply norm_in in H. destruct H as [H|H]; [|discriminate].
    apply (wcount0_in _ _ Hwc) in H. discriminate.
Qed.

Lemma addcb_any s t d : InvA s -> In (IAddCbD d) (thr s t) -> dcb s d = false.
Proof.
  intros I H. destruct (Nat.eq_dec t worker) as [->|Hn]; [apply (a_addcb _ I); auto|].
  apply (wcount0_in _ _ (a_wk0 _ I t Hn)) in H. discriminate.
Qed.
Lemma Forall_wfi_mono s s' p : nrec s <= nrec s' -> ndel s <= ndel s' ->
  (forall r, r < nrec s -> recs s' r = recs s r) -> Forall (wfi s) p -> Forall (wfi s') p.
Proof. intros H1 H2 H3. apply Forall_impl. intros i. apply wfi_mono; auto. Qed.
Lemma upd_fresh_other {A} (f : nat -> A) n v r : r < n -> upd f n v r = f r.
Proof. intros H. apply upd_other. lia. Qed.

Ltac sv_dsubmit s I P E :=
  let Ph := fresh "Ph" in let Pt := fresh "Pt" in let G1 := fresh "G1" in let G2 := fresh "G2" in
  inversion P as [|? ? Ph Pt]; subst; simpl in Ph; destruct Ph as [G1 G2];
  eapply (invA_alloc _ _ _); [exact I|reflexivity|reflexivity|..|reflexivity| | | |]; simpl; auto; try lia;
  [ intros ? Hr; apply in_app_iff in Hr; simpl in Hr; intuition
  | apply (a_jf _ I); auto
  | intros d Hd; rewrite !upd_fresh_other by auto; auto
  | intros d; unfold upd; destruct (Nat.eqb d _); auto
  | intros d Hd1 Hd2; assert (d = ndel s) as -> by lia; rewrite upd_same; apply (a_jf _ I); auto
  | intros d Hd; inv_some Hd; rewrite !upd_same; repeat split; lia
  | repeat (apply Forall_cons; [simpl; auto|]);
    eapply Forall_wfi_mono; [| | |exact Pt]; simpl; auto; intros; apply upd_fresh_other; auto
  | left; rewrite E; unfold wcount; simpl; lia
  | intros r0 i Hi Hin; left; rewrite E; unfold heldi in Hi;
    intuition (subst; try discriminate; auto); right; auto
  | intros d Hin; unfold upd; destruct (Nat.eqb d _) eqn:Ed; auto;
    apply Nat.eqb_neq in Ed; eapply addcb_any; [exact I|]; rewrite E;
    intuition (try discriminate; try congruence); right; eauto ].

Lemma invA_step0 s e s' : InvA s -> step0 s e = Some s' -> InvA s'.
Proof.
  intros I H. unfold step0 in H. destruct e.
  all: step_cases H.
  all: clean.
  all: try exact I.
  all: try (eapply invA_same; [exact I|reflexivity..]).
  all: try match goal with E : thr _ ?t = _ |- _ =>
         assert (P := a_wf _ I t); rewrite E in P; apply Forall_forall in P end.
  all: try (eapply invA_upd; [exact I|reflexivity..| | | reflexivity | | | |]).
  all: try (sv_jobs; fail).
  all: try (sv_recs; fail).
  all: try (sv_wf P; fail).
  all: try match goal with E : thr _ ?t = _ |- _ => left; sv_wc E; fail end.
  all: try match goal with E : thr _ ?t = _ |- _ => sv_in E; fail end.
  all: try match goal with E : thr _ ?t = _ |- _ => sv_in2 E; fail end.
  all: try (destruct l as [|? l]; simpl; [|apply Forall_inv_tail in P]; sv_wf P; fail).
  - apply gnj_some in Heqo. destruct Heqo as [G1 G2]. apply (a_jobs _ I) in G1. sv_wf P.
  - eapply (invA_alloc s _ t l); [exact I|reflexivity|reflexivity|..|reflexivity| | | |]; simpl; auto; try lia.
    + intros r Hr. apply in_app_iff in Hr. simpl in Hr. intuition.
    + discriminate.
    + apply (Forall_wfi_mono s); simpl; auto. intros; apply upd_fresh_other; auto. inversion P; auto.
    + left. rewrite Heql. unfold wcount. simpl. lia.
    + intros r i Hi Hin. left. rewrite Heql. right; auto.
    + intros d Hin. apply (addcb_any s t); auto. rewrite Heql. right; auto.
  - simpl. intros r0. unfold upd. destruct (Nat.eqb r0 n) eqn:E; [apply Nat.eqb_eq in E; subst r0|]; simpl; repeat split.
  - apply find_fut_some in Heqo. destruct Heqo as [G1 G2]. apply (a_jobs _ I) in G1.
    destruct (a_rec _ I _ _ G1 Heqo0) as (G3 & _). sv_wf P.
  - inversion P as [|? ? Ph Pt]; subst. simpl in Ph. destruct Ph as [G1 G2].
    eapply (invA_alloc s _ t l); [exact I|reflexivity|reflexivity|..|reflexivity| | | |]; simpl; auto; try lia.
    + intros r0 Hr. apply in_app_iff in Hr. rewrite in_remove_id in Hr. simpl in Hr. intuition.
    + apply (a_jf _ I); auto.
    + discriminate.
    + apply (Forall_wfi_mono s); simpl; auto. intros; apply upd_fresh_other; auto.
    + left. rewrite Heql. unfold wcount. simpl. lia.
    + intros r0 i Hi Hin. left. rewrite Heql. right; auto.
    + intros d Hin. apply (addcb_any s t); auto. rewrite Heql. right; auto.
  - intros r0 i [->| ->] [Hi|Hi]; try discriminate.
    + inv_some Hi. right. simpl. rewrite in_remove_id. tauto.
    + left. rewrite Heql. right; auto.
    + left. rewrite Heql. right; auto.
  - intros r i Hi H. apply in_app_iff in H. destruct H as [H|H].
    + apply in_cbs_wk in H. destruct Hi; subst i; discriminate.
    + left. rewrite Heql. right; auto.
  - intros d H. apply in_app_iff in H. destruct H as [H|H].
    + apply in_cbs_wk in H. discriminate.
    + rewrite Heql. right; auto.
  - left. rewrite Heql. pose proof (wcount_tl l). unfold wcount in *. simpl. lia.
  - intros r i Hi [H|H]; [destruct Hi; subst i; discriminate|]. left. rewrite Heql. right. apply in_tl_in; auto.
  - intros d [H|H]; [discriminate|]. rewrite Heql. right. apply in_tl_in; auto.
  - assert (t = worker) by (eapply wk_worker; eauto). subst t.
    assert (Hn : ~ In r (jobs s)).
    { apply (a_held _ I r (IDoneW r)); [left; auto|rewrite Heql; left; auto]. }
    intros r0 i Hi [H|H]; [subst i; destruct Hi as [Hi|Hi]; inv_some Hi; right; exact Hn|left; rewrite Heql; right; auto].
  - apply find_del_some in Heqo. destruct Heqo as [G1 G2]. apply (a_jobs _ I) in G1. sv_wf P.
  - inversion P as [|? ? Ph Pt]; subst. simpl in Ph. destruct Ph as [G1 G2].
    apply Forall_cons; [simpl; split; [auto|congruence]|auto].
  - eapply (invA_addcb s _ t d0 l); [exact I|exact Heql|reflexivity..| |].
    + inversion P; subst. sv_wf P.
    + unfold wcount; simpl. eapply wk_rest0; eauto.
  - eapply (invA_addcb s _ t d0 l); [exact I|exact Heql|reflexivity..| |].
    + inversion P; subst. auto.
    + eapply wk_rest0; eauto.
  - sv_dsubmit s I P Heql.
  - sv_dsubmit s I P Heql.
  - sv_dsubmit s I P Heql.
  - sv_dsubmit s I P Heql.
Qed.

Lemma invA_init : InvA init.
Proof.
  constructor; simpl; try (intros; lia); try tauto; auto; try discriminate.
Qed.

Lemma invA_tick s ts : InvA s -> InvA (s <| clock := ts |>).
Proof. intros I. eapply invA_same; [exact I|reflexivity..]. Qed.
