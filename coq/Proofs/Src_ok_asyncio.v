(* source facts of more_executors/_impl/asyncio.py: what the translator finds now is what the models were written against *)
From Coq Require Import List String.
From ME Require Import Gen.Src_asyncio Model.SrcExpected.
Lemma src_asyncio_ok : Src_asyncio.facts = expected_asyncio.
Proof. reflexivity. Qed.
