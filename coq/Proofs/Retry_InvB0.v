(* Frame lemmas, step case analysis tactics, norm lemmas for the Retry machine. *)
From Coq Require Import List ZArith Bool Arith Lia PeanoNat.
From RecordUpdate Require Import RecordSet.
From ME Require Import Base.Machine Base.Fut Base.GenPrelude Gen.RetryGen Model.Retry.
Import ListNotations RecordSetNotations.

(* norm returns [], [IDead] or a suffix of its argument *)
Lemma norm_in b p i : In i (norm b p) -> In i p \/ i = IDead.
Proof.
  revert b; induction p as [|a r IH]; intros b; simpl.
  - destruct b; simpl; intuition.
  - destruct a; try (destruct b; [intros H; apply IH in H; tauto|simpl; tauto]);
      intros H; apply IH in H; tauto.
Qed.

(* generic step inversion *)
Ltac inv_some H := inversion H; subst; clear H.
Ltac dmatch H :=
  match type of H with
  | context [match ?x with _ => _ end] =>
      match x with
      | context [match _ with _ => _ end] => fail 1
      | _ => destruct x eqn:?
      end
  end.
Ltac step_cases H :=
  repeat (first [discriminate H | dmatch H]); try inv_some H.


#[global] Arguments norm : simpl never.
Lemma norm_nil : norm false [] = []. Proof. reflexivity. Qed.

(* ---- history predicates ---------------------------------------------------------------- *)
Definition R (l : list hev) (j : nat) : Prop :=
  (exists o t, In (HFinal j o t) l) \/ (exists t, In (HCancelled j t) l).
Lemma R_cons h l j : R l j -> R (h :: l) j.
Proof. intros [(o & t & H)|(t & H)]; [left; exists o, t|right; exists t]; right; exact H. Qed.
Lemma R_app l0 l j : R l j -> R (l0 ++ l) j.
Proof. induction l0; simpl; auto using R_cons. Qed.

Definition is_cb (h : hev) : Prop := match h with HCb _ _ _ => True | _ => False end.
Definition CbOK (l : list hev) : Prop :=
  forall l1 j c ts l2, l = l1 ++ HCb j c ts :: l2 -> R l2 j.
Lemma CbOK_other h l : ~ is_cb h -> CbOK l -> CbOK (h :: l).
Proof.
  intros Hn H l1 j c ts l2 E. destruct l1 as [|x l1]; simpl in E; inversion E; subst.
  - simpl in Hn. tauto.
  - eapply H; reflexivity.
Qed.
Lemma CbOK_cb j c ts l : R l j -> CbOK l -> CbOK (HCb j c ts :: l).
Proof.
  intros Hr H l1 j' c' ts' l2 E. destruct l1 as [|x l1]; simpl in E; inversion E; subst.
  - exact Hr.
  - eapply H; reflexivity.
Qed.

(* ---- program predicate: callbacks of j only after j was resolved ------------------------ *)
Fixpoint okp (Q : nat -> Prop) (b : bool) (w : list nat) (p : list instr) : Prop :=
  match p with
  | [] => True
  | ICatch :: r => okp Q false [] r
  | IThrow :: r => okp Q true w r
  | i :: r =>
      if b then okp Q true w r else
      match i with
      | IUserCb j _ => (Q j \/ In j w) /\ okp Q false w r
      | IRelMCbs j => (Q j \/ In j w) /\ okp Q false w r
      | IFSet j _ => match r with IRelMCbs _ :: _ => okp Q false (j :: w) r | _ => False end
      | IFCancel j => okp Q false (j :: w) r
      | _ => okp Q false w r
      end
  end.

Lemma okp_weaken Q Q' p : forall b w w',
  (forall j, Q j \/ In j w -> Q' j \/ In j w') -> (forall j, Q j -> Q' j) ->
  okp Q b w p -> okp Q' b w' p.
Proof.
  induction p as [|i r IH]; intros b w w' Hw HQ; simpl; auto.
  assert (Hc2 : forall j0 j, Q j \/ In j (j0 :: w) -> Q' j \/ In j (j0 :: w')).
  { simpl. intros j0 j [H|[H|H]]; [left; auto|right; left; auto|].
    destruct (Hw j) as [X|X]; [right; exact H|left; exact X|right; right; exact X]. }
  assert (H0 : forall j, Q j \/ In j [] -> Q' j \/ In j []) by (simpl; intros j [H|[]]; auto).
  destruct i; try (destruct b); simpl; try (apply IH; auto; fail);
    try (intros [A B]; split; [auto|eapply IH; eauto]; fail).
  destruct r as [|i' m]; auto. destruct i'; auto. eapply IH; eauto.
Qed.

Lemma okp_throw Q p : forall w w', okp Q false w p -> okp Q true w' p.
Proof.
  induction p as [|i r IH]; intros w w'; simpl; auto.
  destruct i; try (apply IH; fail); try (intros [_ B]; revert B; apply IH); auto.
  - destruct r as [|i' m]; [tauto|]. destruct i'; try tauto. apply IH.
  - clear. revert w w'. induction r as [|i r IH]; simpl; auto. destruct i; auto.
Qed.

Lemma okp_norm Q p : forall b w, okp Q b w p -> okp Q false w (norm b p).
Proof.
  induction p as [|i r IH]; intros b w H.
  - destruct b; simpl; auto.
  - destruct i; try (destruct b; [apply (IH true w); exact H|exact H]).
    + apply (okp_weaken Q Q (norm false r) false [] w); [simpl; tauto|auto|]. apply (IH false []). exact H.
    + apply (IH true w). exact H.
Qed.

Lemma okp_cbs Q j l rest w : Q j \/ In j w -> okp Q false w rest -> okp Q false w (cbs_prog j l ++ rest).
Proof.
  intros Hj Hr. unfold cbs_prog. induction l as [|c l IH]; simpl; auto.
  destruct c; simpl; auto.
Qed.

Lemma okp_upd Q (th : nat -> list instr) t p :
  (forall t', okp Q false [] (th t')) -> okp Q false [] p ->
  forall t', okp Q false [] (upd th t (norm false p) t').
Proof.
  intros H Hp t'. unfold upd. destruct (Nat.eqb t' t); [apply okp_norm; exact Hp|apply H].
Qed.

(* turn boolean test hypotheses into propositions *)
Ltac clean1 :=
  match goal with
  | E : negb _ = false |- _ => apply negb_false_iff in E
  | E : negb _ = true |- _ => apply negb_true_iff in E
  | E : _ || _ = false |- _ => apply orb_false_iff in E; destruct E
  | E : _ && _ = true |- _ => apply andb_true_iff in E; destruct E
  | E : fstate_eqb _ _ = true |- _ => apply fstate_eqb_eq in E
  | E : Nat.eqb _ _ = true |- _ => apply Nat.eqb_eq in E
  | E : Nat.eqb _ _ = false |- _ => apply Nat.eqb_neq in E
  | E : Nat.ltb _ _ = true |- _ => apply Nat.ltb_lt in E
  end.
Ltac clean := repeat clean1; subst.
