(* C12 / Throttle (part C): the events of the queue, of M_j and of the stdlib methods on the throttle future. *)
From Coq Require Import ZArith List Bool Arith Lia.
From RecordUpdate Require Import RecordSet.
From ME Require Import Base.Machine Base.Fut Base.GenPrelude Gen.ThrottleGen Model.Throttle
  Proofs.Throttle_Spec Proofs.Throttle_Inv Proofs.Throttle_Fifo Proofs.Keep_Throttle_A.
Import ListNotations RecordSetNotations.

(* every link-relevant instruction of r is still in q *)
Definition sub (r q : list instr) : Prop := forall x, rel x = true -> In x r -> In x q.
Lemma sub_refl r : sub r r. Proof. intros x _ Hin. exact Hin. Qed.
Lemma sub_cons i r q : sub r q -> sub r (i :: q). Proof. intros Hs x Hx Hin. right. auto. Qed.
Lemma sub_app l r q : sub r q -> sub r (l ++ q). Proof. intros Hs x Hx Hin. apply in_or_app. right. auto. Qed.
Lemma sub_drop i r q : rel i = false -> sub r q -> sub (i :: r) q.
Proof. intros Hi Hs x Hx [->|Hin]; [congruence|auto]. Qed.
Lemma sub_norm sn r q : sub r q -> sub r (norm sn q).
Proof. intros Hs x Hx Hin. apply in_norm_rel; auto. Qed.
Ltac to_sub := match goal with |- forall x, rel x = true -> In x ?r -> In x ?q => change (sub r q) end.
Ltac sub_tac :=
  repeat first [ apply sub_refl | apply sub_drop; [reflexivity|] | apply sub_cons | apply sub_app ].

(* a step that neither touches the links (mdel) nor the registered _delegate_resolved callbacks *)
Lemma invK_neutral s s' t sn q :
  InvK s -> kgrows s s' ->
  dsubs (hist s') = map (dfor s') (seq 0 (ndel s')) ->
  (forall u, thr s' u = upd (thr s) t (norm sn q) u) ->
  pok s' q ->
  (forall j, fdone (ms s' j) = true -> fdone (ms s j) = true \/ jd s' j) ->
  mdel s' = mdel s ->
  (forall d j, In (CbRes j) (dcbs s' d) <-> In (CbRes j) (dcbs s d)) ->
  sub (thr s t) q ->
  InvK s'.
Proof.
  intros IK G Hds Hthr Hq Hj Hm Hc Hs.
  apply (invK_step s s' t (norm sn q) IK G Hds Hthr); auto.
  - apply pok_norm. exact Hq.
  - intros d j Hin. left. apply Hc. exact Hin.
  - intros j d Hx. left. rewrite <- Hm. exact Hx.
  - intros d j Hin. left. apply Hc. exact Hin.
  - intros x Hx Hin. left. exact (sub_norm sn _ _ Hs x Hx Hin).
Qed.

(* ... and changes nothing else but the program of t, whose new obligations hold *)
Lemma invK_prog s s' t sn q :
  InvK s -> kv s' = kv s -> (forall u, thr s' u = upd (thr s) t (norm sn q) u) ->
  pok s q -> sub (thr s t) q -> InvK s'.
Proof.
  intros IK Ev Hthr Hq Hs. unfold kv in Ev. inversion Ev as [[E1 E2 E3 E4 E5 E6 E7 E8]].
  assert (G : kgrows s s') by (unfold kgrows; rewrite E3, E5, E6, E7; auto 6).
  apply (invK_neutral s s' t sn q IK G); auto.
  - rewrite E5, E6, E8. apply (k_ds _ IK).
  - eapply pok_grows; eauto.
  - intros j Hd. left. rewrite <- E1. exact Hd.
  - intros d j. rewrite E4. tauto.
Qed.

Ltac head_obl IK Et Hi Hr :=
  match type of Et with thr ?s ?t = _ :: _ =>
    let Hp := fresh "Hp" in pose proof (k_prog _ IK t) as Hp; rewrite Et in Hp; destruct Hp as [Hi Hr] end.

Lemma do_xsec_invK s t s' : InvK s -> do_xsec s t = Some s' -> InvK s'.
Proof.
  intros IK Hx. unfold do_xsec in Hx. brk Hx; inv_some Hx.
  - (* enqueue: a fresh, pending throttle future without a delegate *)
    match goal with E : thr s t = _ |- _ => rename E into Et end. head_obl IK Et Hi Hr. destruct Hr as [_ Hr].
    match goal with |- InvK (log (set_prog ?s1 t ?p) ?h) => apply (invK_step s _ t (norm s1 p) IK) end.
    + unfold kgrows. simpl. auto 6.
    + simpl. apply (k_ds _ IK).
    + intros u. reflexivity.
    + apply pok_norm. split; [exact Logic.I|]. eapply pok_grows; [|exact Hr]. unfold kgrows. simpl. auto 6.
    + intros j Hd. simpl in Hd. unfold upd in Hd. destruct (Nat.eqb j (nfut s)); [discriminate|left; exact Hd].
    + intros d j Hin. left. exact Hin.
    + intros j d Hm. simpl in Hm. unfold upd in Hm. destruct (Nat.eqb j (nfut s)); [discriminate|left; exact Hm].
    + intros d j Hin. left. exact Hin.
    + intros x Hxr Hin. left. revert x Hxr Hin. rewrite Et. to_sub. apply sub_norm. sub_tac.
  - (* cancel of a queued submission: logged, the future is going to be cancelled *)
    match goal with E : thr s t = _ |- _ => rename E into Et end. head_obl IK Et Hi Hr.
    match goal with |- InvK (log (set_prog ?s1 t ?p) ?h) => apply (invK_neutral s _ t s1 p IK) end.
    + unfold kgrows. simpl. split; [intros j0 Hj; apply in_or_app; left; exact Hj|auto 6].
    + simpl. apply (k_ds _ IK).
    + intros u. reflexivity.
    + split; [left; simpl; apply in_or_app; right; left; reflexivity|].
      split; [exact Logic.I|]. split; [exact Logic.I|]. split; [exact Logic.I|].
      eapply pok_grows; [|exact Hr]. unfold kgrows. simpl. split; [intros j0 Hj; apply in_or_app; left; exact Hj|auto 6].
    + intros j0 Hd. left. exact Hd.
    + reflexivity.
    + intros d j0. simpl. tauto.
    + rewrite Et. sub_tac.
  - kplain IK s.
Qed.

Lemma do_acq_m_invK s t j s' : InvK s -> do_acq_m s t j = Some s' -> InvK s'.
Proof.
  intros IK Hx. unfold do_acq_m in Hx. brk Hx; inv_some Hx; try solve [kplain IK s].
  match goal with E : thr s t = _ |- _ => rename E into Et end. head_obl IK Et Hi Hr.
  match goal with E : Nat.eqb j _ = true |- _ => apply Nat.eqb_eq in E; subst end.
  match goal with |- InvK (set_prog ?s1 t ?p) => apply (invK_step s _ t (norm s1 p) IK) end.
  - unfold kgrows. simpl. auto 6.
  - simpl. apply (k_ds _ IK).
  - intros u. reflexivity.
  - apply pok_norm. eapply pok_grows; [|exact Hr]. unfold kgrows. simpl. auto 6.
  - intros j Hd. left. exact Hd.
  - intros d j Hin. left. exact Hin.
  - intros j d Hm. simpl in Hm. unfold upd in Hm. destruct (Nat.eqb j j0) eqn:E; [|left; exact Hm].
    apply Nat.eqb_eq in E. subst. right. right. exists t. left. simpl. rewrite upd_same. apply in_norm_rel; [reflexivity|exact Hi].
  - intros d j Hin. left. exact Hin.
  - intros y Hy Hin. rewrite Et in Hin. destruct Hin as [<-|Hin].
    + right. right. destruct x; [discriminate|]. exists j0. split; [reflexivity|]. simpl. apply upd_same.
    + left. apply in_norm_rel; auto.
Qed.

Lemma pok_setres s j o r : jd s j -> pok s r -> pok s (setres_prog j o ++ r).
Proof. intros Hj Hr. destruct o; simpl; auto 10. Qed.

Lemma do_fm_invK s t op j p s' : InvK s -> do_fm s t op j p = Some s' -> InvK s'.
Proof.
  intros IK Hx. unfold do_fm in Hx.
  destruct (negb (fstate_eqb p (ms s j))) eqn:Ep; [discriminate|]. apply negb_false_iff, fstate_eqb_eq in Ep.
  destruct (thr s t) as [|i rest] eqn:Et; [discriminate|]. head_obl IK Et Hi Hr.
  destruct i; try discriminate; brk Hx; inv_some Hx;
    repeat match goal with E : negb (Nat.eqb _ _) = false |- _ => apply negb_false_iff, Nat.eqb_eq in E; subst
                         | E : _ || _ = false |- _ => apply orb_false_elim in E; destruct E end;
    simpl in Hi; try solve [kplain IK s].
  - (* IFSet: the outcome is set *)
    match goal with |- InvK (log (set_prog ?s1 t ?pp) ?h) => apply (invK_neutral s _ t s1 pp IK) end.
    + unfold kgrows. simpl. auto 6.
    + simpl. apply (k_ds _ IK).
    + intros u. reflexivity.
    + eapply pok_grows; [|exact Hr]. unfold kgrows. simpl. auto 6.
    + intros j Hd. simpl in Hd. unfold upd in Hd. destruct (Nat.eqb j j0) eqn:E; [|left; exact Hd].
      apply Nat.eqb_eq in E. subst. right. exact Hi.
    + reflexivity.
    + intros d j. simpl. tauto.
    + rewrite Et. sub_tac.
  - (* IDoneQ, not done: set_result(None) *)
    apply (invK_prog s _ t s (setres_prog j0 (Ok none_value) ++ rest) IK); try reflexivity.
    + apply pok_setres; assumption.
    + rewrite Et. sub_tac.
  - (* IFCancel *)
    match goal with |- InvK (log (set_prog ?s1 t ?pp) ?h) => apply (invK_neutral s _ t s1 pp IK) end.
    + unfold kgrows. simpl. auto 6.
    + simpl. apply (k_ds _ IK).
    + intros u. reflexivity.
    + eapply pok_grows; [|exact Hr]. unfold kgrows. simpl. auto 6.
    + intros j Hd. simpl in Hd. unfold upd in Hd. destruct (Nat.eqb j j0) eqn:E; [|left; exact Hd].
      apply Nat.eqb_eq in E. subst. right. exact Hi.
    + reflexivity.
    + intros d j. simpl. tauto.
    + rewrite Et. sub_tac.
  - (* IFSrnc *)
    match goal with |- InvK (set_prog ?s1 t ?pp) => apply (invK_neutral s _ t s1 pp IK) end.
    + unfold kgrows. simpl. auto 6.
    + simpl. apply (k_ds _ IK).
    + intros u. reflexivity.
    + eapply pok_grows; [|exact Hr]. unfold kgrows. simpl. auto 6.
    + intros j Hd. simpl in Hd. unfold upd in Hd. destruct (Nat.eqb j j0) eqn:E; [|left; exact Hd].
      apply Nat.eqb_eq in E. subst. left.
      destruct (ms s j0); simpl in *; try discriminate; try reflexivity;
        match goal with E2 : Some _ = Some _ |- _ => inversion E2; subst; discriminate end.
    + reflexivity.
    + intros d j. simpl. tauto.
    + rewrite Et. sub_tac.
Qed.
