(* The state change of Model/Poll.v's [step] for an instruction IS the composition of the effects (Model/PollIRSem.v: eff) of
   the items that instruction stands for (Model/PollIR.v: table): step_effect.  Together with step_cont_alt (Proofs/PollIR_Cont.v)
   this is the thread-local simulation between the generated terms' items and the machine's instructions, in both directions:
   same control (which items / which continuation) and same data (all shared fields; the ghost fields are not compared). *)
From Coq Require Import ZArith List Bool Arith Lia.
From RecordUpdate Require Import RecordSet.
From ME Require Import Base.Machine Base.Fut Base.GenPrelude Model.Poll Model.PollIR Model.PollIRSem Proofs.Poll_Inv Proofs.PollIR_Cont.
Import ListNotations RecordSetNotations.

Ltac deq := unfold data_eq, effs, items_of; simpl; rew; simpl; repeat split; reflexivity.
Ltac absurd_hyp :=
  match goal with
  | E : issome (Some _) = false |- _ => discriminate E
  | E : issome None = true |- _ => discriminate E
  end.
Ltac crunchE H := dmatch H; inversion H; subst; clear H; eqs; try absurd_hyp; simpl alt_of; rew; deq.

Lemma step1_effect s e s' t i rest :
  step1 s e = Some s' -> ev_thread e = Some t -> thr s t = i :: rest ->
  data_eq s' (effs (mkCtx t (instr_j (nfut s) i) (instr_v i) (instr_e i) (ev_pre e) (ev_inline e)) (items_of i (alt_of s e i)) s).
Proof.
  intros H Ht Hp.
  destruct e; simpl in Ht; try discriminate Ht; inversion Ht; subst; clear Ht;
    unfold step1 in H; try discriminate H; rewrite ?Hp in H.
  - (* EGAcq *) crunchE H.
  - (* EGRel *) crunchE H.
  - (* EDSubmit *) crunchE H.
  - (* EXSec *) destruct (xown s) eqn:Ex; [discriminate|]. simpl in H. rewrite ?Hp in H. crunchE H.
  - (* EXAcq *) destruct (xown s) eqn:Ex; [discriminate|]. simpl in H. rewrite ?Hp in H. crunchE H.
  - (* EXRel *) crunchE H.
  - (* EEvSet *) crunchE H.
  - (* ERet *) crunchE H.
  - (* EAcqM *) crunchE H.
  - (* ERelM *) crunchE H.
Qed.

Lemma step2_effect s e s' t i rest :
  step2 s e = Some s' -> ev_thread e = Some t -> thr s t = i :: rest ->
  data_eq s' (effs (mkCtx t (instr_j (nfut s) i) (instr_v i) (instr_e i) (ev_pre e) (ev_inline e)) (items_of i (alt_of s e i)) s).
Proof.
  intros H Ht Hp.
  destruct e; simpl in Ht; try discriminate Ht; inversion Ht; subst; clear Ht;
    unfold step2 in H; try discriminate H.
  - (* EFP *) destruct (negb (fstate_eqb pre (ps s j))); [discriminate|]. rewrite Hp in H. crunchE H.
  - (* EFD *) destruct (negb (fstate_eqb pre (ds s d))); [discriminate|]. rewrite Hp in H. crunchE H.
  - (* ECancelFn *) rewrite Hp in H. crunchE H.
Qed.

(* the clock is not a shared field of the data comparison *)
Lemma eff_clock c it s z : eff c it (s <| clock := z |>) = (eff c it s) <| clock := z |>.
Proof.
  destruct it as [o a]. destruct o; try reflexivity;
    try (destruct l; reflexivity);
    try (destruct a as [|[|a]]; reflexivity);
    try (simpl; destruct (f_srnc (a_pre c)) as [[n b]|]; reflexivity);
    try (destruct a as [|a]; simpl; [destruct (f_set (a_pre c)); reflexivity|reflexivity]).
Qed.

Lemma effs_clock c its s z : effs c its (s <| clock := z |>) = (effs c its s) <| clock := z |>.
Proof.
  unfold effs. revert s. induction its as [|it its IH]; intros s; simpl; [reflexivity|].
  rewrite eff_clock. apply IH.
Qed.

Lemma data_eq_clock a b z : data_eq a (b <| clock := z |>) -> data_eq a b.
Proof. unfold data_eq. simpl. tauto. Qed.

Theorem step_effect s te s' t i rest :
  step s te = Some s' -> ev_thread (snd te) = Some t -> thr s t = i :: rest ->
  data_eq s' (effs (mkCtx t (instr_j (nfut s) i) (instr_v i) (instr_e i) (ev_pre (snd te)) (ev_inline (snd te)))
                   (items_of i (alt_of s (snd te) i)) s).
Proof.
  destruct te as [ts e]. intros H Ht Hp. simpl in Ht. simpl snd.
  apply step_inv in H. destruct H as [s1 [Htk H]].
  assert (Hs : s1 = s \/ s1 = s <| clock := ts |>) by (apply tick_inv in Htk; destruct Htk as [[-> _]|[-> _]]; auto).
  apply step0_inv in H. destruct H as [[c [d [-> _]]]|[_ H]]; [discriminate Ht|].
  assert (Hgo : forall s0, thr s0 t = i :: rest -> step1 s0 e = Some s' \/ step2 s0 e = Some s' \/ step3 s0 e = Some s' ->
     data_eq s' (effs (mkCtx t (instr_j (nfut s0) i) (instr_v i) (instr_e i) (ev_pre e) (ev_inline e)) (items_of i (alt_of s0 e i)) s0)).
  { intros s0 Hp0 [H0|[H0|H0]].
    - exact (step1_effect _ _ _ _ _ _ H0 Ht Hp0).
    - exact (step2_effect _ _ _ _ _ _ H0 Ht Hp0).
    - destruct e; simpl in Ht; discriminate Ht || (unfold step3 in H0; discriminate H0). }
  destruct Hs as [->| ->].
  - apply Hgo; assumption.
  - assert (Hp2 : thr (s <| clock := ts |>) t = i :: rest) by exact Hp.
    specialize (Hgo _ Hp2 H).
    apply (data_eq_clock _ _ ts). rewrite <- effs_clock. exact Hgo.
Qed.

(* which items those are: the entry of [table] for the alternative taken (plus the early reset of IRelMCbs) *)
Lemma items_of_table i alt : (forall d, i <> IRetEnv d) -> alt < nalts i ->
  exists pat, In (pat, alt) (table i) /\ items_of i alt = pat ++ match i with IRelMCbs _ => [(WCbReset, 0)] | _ => [] end.
Proof.
  intros Hne H. unfold items_of.
  destruct i; simpl in H; try (exfalso; eapply Hne; reflexivity); try (match goal with b : bool |- _ => destruct b end);
    repeat (destruct alt as [|alt]; [eexists; split; [|reflexivity]; simpl; tauto|]); lia.
Qed.

(* non-vacuity of step_cont_alt / step_effect: a reachable state (the first 14 events of the implementation history w_cancel:
   the environment has just finished delegate 0 with result 100 in thread 2, whose program is the inlined _delegate_resolved)
   and the event delegate.cancelled() -> False; the alternative is 1 (result), the continuation _register_poll's program, and the
   data state is unchanged (the items are a test, a read and a local binding) *)
From ME Require Import Proofs.Poll_Refute.
Lemma cont_nonvacuous :
  let s := state_of (firstn 14 w_cancel) in
  let te := (0%Z, EFD 2 0 0 Finished) in
  accepted (firstn 14 w_cancel) = true /\
  thr s 2 = [IDCancelledQ 0; IRetEnv 0] /\ ev_thread (snd te) = Some 2 /\
  alt_of s (snd te) (IDCancelledQ 0) = 1 /\
  items_of (IDCancelledQ 0) 1 = [(ODCancelled, 0); (RDExc, 0); (WMkDescriptor, 0)] /\
  exists s', step s te = Some s' /\ thr s' 2 = register_prog 0 100 ++ [IRetEnv 0] /\ descs s' = descs s.
Proof.
  vm_compute. repeat split. eexists. split; [reflexivity|]. split; reflexivity.
Qed.
