(* C03 for the Retry machine, part 1: injectivity of delegate futures on job records; the only X-section
   popping an idle (between-retries) record is the worker's "discard a stop_retry job" path, whose whole
   program is known; witnesses of "future j is being taken care of". *)
From Coq Require Import List ZArith Bool Arith Lia.
From RecordUpdate Require Import RecordSet.
From ME Require Import Base.Machine Base.Fut Base.GenPrelude Gen.RetryGen Model.Retry Proofs.Retry_Spec.
From ME Require Proofs.Retry_InvB2 Proofs.Retry_InvB.
From ME Require Import Proofs.Retry_C0 Proofs.Retry_C1 Proofs.Retry_C2 Proofs.Retry_C3 Proofs.Retry_C4 Proofs.Retry_C5 Proofs.Retry_C6
  Proofs.Retry_C7 Proofs.Retry_C8 Proofs.Retry_C9 Proofs.Retry_C10 Proofs.Retry_C11 Proofs.Retry_C12 Proofs.Retry_N0.
Import ListNotations RecordSetNotations.
#[local] Arguments norm : simpl nomatch.

Lemma jdel_inj s : reachable_from step init s -> forall r1 r2 d, r1 < nrec s -> r2 < nrec s ->
  jdel (recs s r1) = Some d -> jdel (recs s r2) = Some d -> r1 = r2.
Proof. intros R. destruct (Retry_InvB.invAll_reach s R) as (IA & _). exact (Retry_InvB2.a_inj _ IA). Qed.

Definition INJ (s : st) : Prop := forall r1 r2 d, r1 < nrec s -> r2 < nrec s ->
  jdel (recs s r1) = Some d -> jdel (recs s r2) = Some d -> r1 = r2.

(* ---- IXPop of an idle record ---------------------------------------------------------------------- *)
Definition XP (s : st) : Prop := forall t r, In (IXPop r) (thr s t) -> jdel (recs s r) = None ->
  exists o, thr s t = [IXPop r; IAcqM (jf (recs s r)); IFSet (jf (recs s r)) o; IRelMCbs (jf (recs s r))].

Lemma pop_lt s t r : PI s -> In (IXPop r) (thr s t) -> r < nrec s.
Proof. intros HP H. pose proof (pi_thr s HP t) as Q. rewrite Forall_forall in Q. apply (Q _ H). Qed.

Lemma in_cbs_xpop r j l : ~ In (IXPop r) (cbs_prog j l).
Proof.
  induction l as [|c l IH]; simpl; [tauto|]. destruct c; simpl; intros [E|H]; try discriminate E; auto.
  destruct H as [E|H]; [discriminate E|auto].
Qed.

Lemma XP_step0 s e s' : XP s -> PI s -> RI s -> step0 s e = Some s' -> XP s'.
Proof.
  intros HX HP HR H. pose proof (MONO_step0 _ _ _ H) as HM. s0inv H; try exact HX.
  all: try (match goal with inl : option outcome |- _ => destruct inl end).
  all: bsplit; subst.
  all: intros u r0 Hin Hjd.
  all: assert (Hold : forall v, In (IXPop r0) (thr s v) ->
         exists o, thr s v = [IXPop r0; IAcqM (jf (recs s r0)); IFSet (jf (recs s r0)) o; IRelMCbs (jf (recs s r0))])
    by (intros v Hv; apply (HX v r0 Hv); rewrite <- (mo_jdel _ _ HM) by (eapply pop_lt; eassumption); exact Hjd).
  all: assert (Hjf : forall v, In (IXPop r0) (thr s v) -> jf (recs _ r0) = jf (recs s r0))
    by (intros v Hv; apply (mo_jf _ _ HM); eapply pop_lt; eassumption).
  all: unfold log, set_prog in Hin, Hjf |- *; simpl in Hin, Hjf |- *.
  all: match type of Hin with In _ (upd (thr _) ?t _ ?u) =>
         destruct (Nat.eq_dec u t) as [->|Nu];
         [rewrite upd_same in Hin |- *
         |rewrite (upd_other _ _ _ _ Nu) in Hin |- *; try rewrite (Hjf _ Hin); exact (Hold _ Hin)] end.
  all: try (match type of Hin with context[if dcb ?s ?d then _ else _] => destruct (dcb s d) end).
  all: try (apply in_norm in Hin; destruct Hin as [Hin|Hin]; [|discriminate Hin]).
  all: try (apply in_app_iff in Hin; destruct Hin as [Hin|Hin]; [exfalso; eapply in_cbs_xpop; exact Hin|]).
  all: try (apply in_tl in Hin).
  all: simpl in Hin; repeat (destruct Hin as [Hin|Hin]; [try discriminate Hin|]); try contradiction.
  all: try (apply in_tl in Hin).
  all: try (match goal with Hq : thr _ ?t = _ :: _ |- _ =>
         let Ho := fresh "Ho" in
         assert (Ho : In (IXPop r0) (thr s t)) by (rewrite Hq; right; exact Hin);
         destruct (Hold _ Ho) as [o' Ho']; rewrite Hq in Ho'; inversion Ho'; subst;
         simpl in Hin; repeat (destruct Hin as [Hin|Hin]; [discriminate Hin|]); contradiction end).
  all: try (inversion Hin; subst).
  all: try (exfalso; match goal with Hq : thr _ ?t = _ :: _ |- _ =>
         let Q := fresh "Q" in let Qi := fresh "Qi" in
         pose proof (pi_thr _ HP t) as Q; rewrite Hq in Q; inversion Q as [|? ? Qi _]; subst; simpl in Qi, Hjd;
         repeat match goal with H : _ /\ _ |- _ => destruct H | H : exists _, _ |- _ => destruct H end; congruence end).
  - eexists; reflexivity.
  - exfalso. apply next_job_in in Heqo. destruct Heqo as [A B].
    apply (ri_stop s HR _ (ri_jobs s HR _ A) Heqb1 B Heqo0).
Qed.

Lemma XP_reach s : reachable_from step init s -> XP s.
Proof.
  apply (invariant_rule_r step XP).
  - intros t r H. destruct H.
  - intros s0 e s' R IH H. apply step_split in H. destruct H as (s1 & Ht & H).
    apply tick_eq in Ht. subst s1. eapply XP_step0; [ | | |exact H].
    + exact IH.
    + apply PI_tick, PI_reach, R.
    + apply RI_tick, RI_reach, R.
Qed.

(* ---- witnesses: who takes care of a retry future that is not done ---------------------------------- *)
(* the _delegate_callback chain of delegate future d (record r): not yet registered (the worker is about to
   call add_done_callback), or running in some thread *)
Definition chainhd (d r : nat) (p : list instr) : bool :=
  match p with
  | IXRel :: IRelM _ :: IAddCbD d' :: _ => Nat.eqb d' d
  | IRelM _ :: IAddCbD d' :: _ => Nat.eqb d' d
  | IAddCbD d' :: _ => Nat.eqb d' d
  | IDCbDone d' :: _ => Nat.eqb d' d
  | IDCbCancelled d' r' :: _ => Nat.eqb d' d && Nat.eqb r' r
  | IPolSR r' :: _ | IPolST r' :: _ | IXRetry r' _ :: _ => Nat.eqb r' r
  | _ => false
  end.
(* about to resolve j: (acquire M_j;) set_result / set_exception *)
Definition finhd (j : nat) (p : list instr) : bool :=
  match p with
  | IAcqM _ :: IFSet j' _ :: _ => Nat.eqb j' j
  | IFSet j' _ :: _ => Nat.eqb j' j
  | _ => false
  end.
(* the worker inside _submit_now with record r taken off the queue *)
Definition subhd (r : nat) (p : list instr) : bool :=
  match p with IDoneW r' :: _ | IDSubmit r' :: _ => Nat.eqb r' r | _ => false end.

Definition W1 (s : st) (j : nat) : Prop :=
  exists r, In r (jobs s) /\ jf (recs s r) = j /\ jdel (recs s r) = None.
Definition W2 (s : st) (j : nat) : Prop :=
  exists r d, In r (jobs s) /\ jf (recs s r) = j /\ jdel (recs s r) = Some d /\ fdone (ds s d) = false.
Definition W3 (s : st) (j : nat) : Prop :=
  exists r d t, In r (jobs s) /\ jf (recs s r) = j /\ jdel (recs s r) = Some d /\ ds s d = Finished /\
                chainhd d r (thr s t) = true.
Definition W4 (s : st) (j : nat) : Prop := exists t, finhd j (thr s t) = true.
Definition W5 (s : st) (j : nat) : Prop := exists t r, subhd r (thr s t) = true /\ jf (recs s r) = j.
Definition W6 (s : st) (j : nat) : Prop := exists c, fcpre s j 0 (thr s c) = true.
(* ghost: delegate future d was cancelled by SOMEONE ELSE (EEnvCancel made its Pending -> Cancelled transition) *)
Definition envc (s : st) (d : nat) : Prop := exists ts, In (HEnvCancel d ts) (hist s).
(* the G1 situation: the record is in flight on a delegate future that somebody else cancelled; _delegate_callback
   returns silently for it, nobody takes care of j *)
Definition W7 (s : st) (j : nat) : Prop :=
  exists r d, In r (jobs s) /\ jf (recs s r) = j /\ jdel (recs s r) = Some d /\ fcancelled (ds s d) = true /\ envc s d.
Definition Wit (s : st) (j : nat) : Prop := W1 s j \/ W2 s j \/ W3 s j \/ W4 s j \/ W5 s j \/ W6 s j \/ W7 s j.

Lemma hist_step0 s e s' : step0 s e = Some s' -> forall h, In h (hist s) -> In h (hist s').
Proof.
  intros H. s0inv H; auto.
  all: try (match goal with inl : option outcome |- _ => destruct inl end).
  all: unfold log, set_prog; simpl; auto.
Qed.
Lemma envc_step0 s e s' d : step0 s e = Some s' -> envc s d -> envc s' d.
Proof. intros H [ts Hin]. exists ts. eapply hist_step0; eassumption. Qed.

Record SI (s : st) : Prop := {
  si_pi : PI s; si_ri : RI s; si_ui : UI s; si_ap : AP s; si_xp : XP s; si_inj : INJ s
}.

Lemma SI_reach s : reachable_from step init s -> SI s.
Proof.
  intros R. constructor.
  - apply PI_reach, R. - apply RI_reach, R. - apply UI_reach, R. - apply AP_reach, R. - apply XP_reach, R.
  - exact (jdel_inj s R).
Qed.
Lemma SI_tick s ts : reachable_from step init s -> SI (s <| clock := ts |>).
Proof.
  intros R. pose proof (SI_reach s R) as [A B C D E F]. constructor.
  - apply PI_tick, A. - apply RI_tick, B. - apply UI_tick, C. - exact D. - exact E. - exact F.
Qed.

Lemma head_ipr s t i l : PI s -> thr s t = i :: l -> ipr s i.
Proof. intros HP E. pose proof (pi_thr s HP t) as Q. rewrite E in Q. inversion Q; assumption. Qed.
