(* C12 on the MapFuture/FlatMapFuture machine, layer 2: the statements.
   What the library holds of a library future j: its user callback list (mcbs s j), its delegate link
   (mdel s j = MapFuture._delegate), and the registration of its bound method _delegate_resolved in the
   callback list of a delegate future (In j (ecbs s d)). *)
From Coq Require Import ZArith List Bool Arith Lia.
From RecordUpdate Require Import RecordSet.
From ME Require Import Base.Machine Base.Fut Base.GenPrelude Model.MapFut Model.MapLaw Proofs.MapFut_InvD
  Proofs.MapFut_E1 Proofs.MapFut_E2 Proofs.MapFut_E3 Proofs.MapFut_E4 Proofs.MapFut_E7 Proofs.MapFut_E8
  Proofs.MapFut_E9 Proofs.MapFut_E10 Proofs.Keep_MapFut1.
Import ListNotations RecordSetNotations.

Definition quiescent (s : st) : Prop := forall t, thr s t = [].

(* ---- helpers ---------------------------------------------------------------------------------- *)
Lemma live_in j : forall n p, length p <= n -> live j p = true -> In (IRelMCbs j) p.
Proof.
  induction n as [|n IH]; intros p L X.
  - destruct p; [discriminate X|simpl in L; lia].
  - destruct p as [|i r]; [discriminate X|]. simpl in L.
    assert (R : live j r = true -> In (IRelMCbs j) (i :: r)) by (intros Y; right; apply IH; [lia|exact Y]).
    assert (R2 : match r with [] => false | _ :: r' => live j r' end = true -> In (IRelMCbs j) (i :: r)).
    { destruct r as [|i2 r']; [discriminate|]. intros Y. right; right. apply IH; [simpl in L; lia|exact Y]. }
    destruct i; simpl in X; try (apply R; exact X); try (apply R2; exact X).
    apply orb_true_iff in X. destruct X as [X|X]; [apply Nat.eqb_eq in X; subst; left; reflexivity|apply R; exact X].
Qed.

Lemma bvb_in j d p : bvb j d p = true -> In (IAddCbE d j) p \/ exists fl, In (IAcqMSet j None fl) p.
Proof.
  intros X. apply existsb_exists in X. destruct X as (i & Hi & B). unfold bv in B.
  apply orb_true_iff in B. destruct B as [B|B].
  - destruct i; simpl in B; try discriminate B. apply andb_prop in B. destruct B as [B1 B2].
    apply Nat.eqb_eq in B1, B2. subst. left. exact Hi.
  - destruct i; simpl in B; try discriminate B. destruct x; [discriminate B|]. apply Nat.eqb_eq in B. subst.
    right. eexists. exact Hi.
Qed.

Lemma done_born s j : Ub s -> fdone (ms s j) = true -> j < nfut s.
Proof.
  intros U D. destruct (le_lt_dec (nfut s) j) as [L|L]; [|exact L]. rewrite (U j L) in D. discriminate D.
Qed.

(* ---- (a) the user callback list of a done future ------------------------------------------------ *)
(* In EVERY reachable state: a done future has an empty callback list, except while the thread that
   completed it is still on its way out of M_j (IRelMCbs j = leave the lock, then invoke the callbacks:
   the list is emptied at that very move) *)
Lemma keep_map_done_callbacks_window : forall s, reachable s -> forall j,
  fdone (ms s j) = true -> mcbs s j = [] \/ exists t, In (IRelMCbs j) (thr s t).
Proof.
  intros s R j D. destruct (invK_parts s (invK_reach s R)) as (I6 & _ & _ & _ & _ & _ & _ & _ & _ & U).
  assert (CF : Cf s) by apply I6.
  destruct (mcbs s j) as [|c l] eqn:EM; [left; reflexivity|right].
  destruct (cf_live _ CF j (done_born s j U D) D) as [t Lv]; [rewrite EM; discriminate|].
  exists t. eapply live_in; [apply Nat.le_refl|exact Lv].
Qed.

Lemma keep_map_done_callbacks_quiescent : forall s, reachable s -> quiescent s -> forall j,
  fdone (ms s j) = true -> mcbs s j = [].
Proof.
  intros s R Q j D. destruct (keep_map_done_callbacks_window s R j D) as [E|[t X]]; [exact E|].
  rewrite Q in X. destruct X.
Qed.

(* ---- (b) registrations on delegate futures ------------------------------------------------------ *)
(* stdlib: a done delegate future has dropped its callback list *)
Lemma keep_map_done_delegate_cbs_cleared : forall s, reachable s -> forall d,
  fdone (es s d) = true -> ecbs s d = [].
Proof. intros s R. destruct (invK_parts s (invK_reach s R)) as (_ & E & _). exact E. Qed.

(* the C12 content, in EVERY reachable state (no window): a library future whose _delegate_resolved is
   registered on a delegate is not done, neither is that delegate, and its _delegate field names it *)
Lemma keep_map_registered_not_done : forall s, reachable s -> forall d j, In j (ecbs s d) ->
  fdone (ms s j) = false /\ fdone (es s d) = false /\ mdel s j = Some d.
Proof.
  intros s R d j X. pose proof (invK_reach s R) as IK.
  destruct (invK_parts s IK) as (I6 & E & _ & _ & M & _).
  assert (ED : fdone (es s d) = false).
  { destruct (fdone (es s d)) eqn:ED; [|reflexivity]. rewrite (E d ED) in X. destruct X. }
  split; [|split; [exact ED|apply (m_ecbs _ M); exact X]].
  destruct (fdone (ms s j)) eqn:D; [|reflexivity].
  pose proof (done_tok_done s j d IK D (o_ecbs _ (inv6_ol _ I6) _ _ X)) as Y. congruence.
Qed.

(* ---- (c) the delegate link ---------------------------------------------------------------------- *)
(* every reachable state, every future: a non-empty _delegate field is backed by the registration on that
   delegate, or by a pending add_done_callback on it, or is about to be cleared (_clear_delegate) *)
Lemma keep_map_delegate_link_window : forall s, reachable s -> forall j d, mdel s j = Some d ->
  In j (ecbs s d) \/ exists t, In (IAddCbE d j) (thr s t) \/ exists fl, In (IAcqMSet j None fl) (thr s t).
Proof.
  intros s R j d X. destruct (invK_parts s (invK_reach s R)) as (_ & _ & _ & _ & _ & V & _).
  destruct (V j d X) as [Y|[t Y]]; [left; exact Y|right]. exists t. apply bvb_in. exact Y.
Qed.

(* a DONE future with a non-empty _delegate field: that delegate is done as well (so it retains nothing),
   the future is registered nowhere, and some thread is about to clear the field: either its pending
   add_done_callback (which will find the delegate done and run _delegate_resolved inline) or a pending
   _clear_delegate *)
Lemma keep_map_done_delegate_link_window : forall s, reachable s -> forall j d,
  fdone (ms s j) = true -> mdel s j = Some d ->
  fdone (es s d) = true /\ (forall d', ~ In j (ecbs s d')) /\
  exists t, In (IAddCbE d j) (thr s t) \/ exists fl, In (IAcqMSet j None fl) (thr s t).
Proof.
  intros s R j d D X. pose proof (invK_reach s R) as IK.
  destruct (invK_parts s IK) as (_ & _ & _ & _ & _ & _ & MS & _ & _ & U).
  assert (NR : forall d', ~ In j (ecbs s d')).
  { intros d' Y. destruct (keep_map_registered_not_done s R d' j Y) as [Z _]. congruence. }
  split; [|split; [exact NR|]].
  - apply (done_tok_done s j d IK D). apply (s_del _ MS); [apply (done_born s j U D)|exact X].
  - destruct (keep_map_delegate_link_window s R j d X) as [Y|Y]; [destruct (NR d Y)|exact Y].
Qed.

Lemma keep_map_done_delegate_link_quiescent : forall s, reachable s -> quiescent s -> forall j,
  fdone (ms s j) = true -> mdel s j = None.
Proof.
  intros s R Q j D. destruct (mdel s j) as [d|] eqn:X; [|reflexivity]. exfalso.
  destruct (keep_map_done_delegate_link_window s R j d D X) as (_ & _ & t & [Y|[fl Y]]); rewrite Q in Y; destruct Y.
Qed.

(* at quiescence everything the library retains links PENDING futures only: a registration or a delegate
   link j -> d implies that j and d are both not done (and the two coincide) *)
Lemma keep_map_retained_only_pending : forall s, reachable s -> quiescent s -> forall j d,
  In j (ecbs s d) \/ mdel s j = Some d ->
  fdone (ms s j) = false /\ fdone (es s d) = false /\ In j (ecbs s d) /\ mdel s j = Some d.
Proof.
  intros s R Q j d X.
  assert (Y : In j (ecbs s d)).
  { destruct X as [X|X]; [exact X|]. destruct (keep_map_delegate_link_window s R j d X) as [Y|[t [Y|[fl Y]]]]; [exact Y| |];
      rewrite Q in Y; destruct Y. }
  destruct (keep_map_registered_not_done s R d j Y) as (A & B & C). auto.
Qed.

(* a done future at quiescence: nothing of the three is left *)
Lemma keep_map_done_nothing_kept : forall s, reachable s -> quiescent s -> forall j,
  fdone (ms s j) = true -> mcbs s j = [] /\ mdel s j = None /\ (forall d, ~ In j (ecbs s d)).
Proof.
  intros s R Q j D. split; [apply keep_map_done_callbacks_quiescent; assumption|].
  split; [apply keep_map_done_delegate_link_quiescent; assumption|].
  intros d Y. destruct (keep_map_registered_not_done s R d j Y) as [Z _]. congruence.
Qed.
