(* source facts of more_executors/_impl/throttle.py: what the translator finds now is what the models were written against *)
From Coq Require Import List String.
From ME Require Import Gen.Src_throttle Model.SrcExpected.
Lemma src_throttle_ok : Src_throttle.facts = expected_throttle.
Proof. reflexivity. Qed.
