(* The IR machine running the GENERATED programs (Gen/CosSkel.v) and the hand-written acceptor Cos.v
   move in lockstep: definitions of the relation, and the per-event lemmas for the calls, the
   environment and the submit() side.  (shutdown() side: CosIR_Sim2.v; consequences: CosIR_Transfer.v) *)
From Coq Require Import List Arith Bool Lia PeanoNat.
From ME Require Import Base.Machine Base.Fut Model.Cos Model.CosIR Gen.CosSkel.
Import ListNotations.

Definition gstep : ist -> ev -> option ist := istep submit_prog shutdown_prog.

(* the generated programs never nest a with-block on a lock inside one on the same lock (kernel check of what
   the translator also checks): the IR semantics has no re-entrant acquisition *)
Lemma generated_programs_wf : wf_prog submit_prog = true /\ wf_prog shutdown_prog = true.
Proof. split; vm_compute; reflexivity. Qed.

(* ---- the continuation each program counter of Cos.v stands for --------------------------------- *)
Definition lvf (f : fid) (r : value) : locals := mkLv (Some f) [] r false false.
Definition lvh (todo : list fid) (c : bool) : locals := mkLv None todo (RBool true) c true.

Definition WX : item := IS (SWith LX [SDelegateSubmit; SSetAdd; SAddDoneCallbackDiscard]).
Definition RF : item := IS (SReturn EFuture).
Definition FC : item := IS (SForCancel [SIf CCancelled [] []]).
Definition hrest : list item :=
  [IS (SIf (CNot CRet) [SReturn ENone] []); IS (SWith LX [SSnapshot]); FC; IS SDelegateShutdown; KRet false].

(* c: the value of the local `cancel`, which the pc of Cos.v does not record *)
Definition conc (c : bool) (p : pc) : tstate :=
  match p with
  | Idle => TIdle
  | S0 => TRun [IS (SWith LG [SIf CFlag [SRaise] [];
                              SWith LX [SDelegateSubmit; SSetAdd; SAddDoneCallbackDiscard];
                              SReturn EFuture]); KRet false] lv0
  | S1 => TRun [WX; RF; KRel LG; KRet false] lv0
  | Cos.SRaise => TRun [KRel LG; KRet true] lv0
  | S2 => TRun [IS SDelegateSubmit; IS SSetAdd; IS SAddDoneCallbackDiscard; KRel LX; RF; KRel LG; KRet false] lv0
  | S3 f => TRun [IS SAddDoneCallbackDiscard; KRel LX; RF; KRel LG; KRet false] (lvf f RNone)
  | S4 f => TRun [KRel LX; RF; KRel LG; KRet false] (lvf f RNone)
  | S5 f => TRun [KRel LG; KRet false] (lvf f (RFut f))
  | S6 f => TRun [KRet false] (lvf f (RFut f))
  | SRaised => TRun [KRet true] lv0
  | H0 => TRun (IS (SWith LG [SIf CFlag [SReturn (EBool false)] []; SSetFlag; SReturn (EBool true)])
                :: KEndCall :: hrest) lv0
  | H1 => TRun (KRel LG :: hrest) (mkLv None [] (RBool true) false true)
  | HNoop => TRun (KRel LG :: hrest) (mkLv None [] (RBool false) false false)
  | HNoopRet => TRun [KRet false] lv0
  | H2 => TRun [IS (SWith LX [SSnapshot]); FC; IS SDelegateShutdown; KRet false]
               (mkLv None [] (RBool true) false true)
  | H3 todo => TRun [KRel LX; FC; IS SDelegateShutdown; KRet false] (lvh todo false)
  | H4 [] => TRun [IS SDelegateShutdown; KRet false] (lvh [] c)
  | H4 todo => TRun [FC; IS SDelegateShutdown; KRet false] (lvh todo c)
  | H5 => TRun [KRet false] (lvh [] c)
  end.

Record R (s : ist) (cs : st) : Prop := {
  r_gate : igate (sh s) = gate cs;
  r_lk : ilk (sh s) = lk cs;
  r_flag : iflag (sh s) = flag cs;
  r_tracked : itracked (sh s) = tracked cs;
  r_created : icreated (sh s) = created cs;
  r_fs : ifs (sh s) = fs cs;
  r_cancels : icancels (sh s) = cancels cs;
  r_dshut : idshut (sh s) = dshut cs;
  r_shut_ret : ishut_ret (sh s) = shut_ret cs;
  r_thr : forall t, exists c, ithr s t = conc c (thr cs t)
}.

(* both machines accept the event and stay related, or both reject it *)
Definition lock_ok (o1 : option ist) (o2 : option st) : Prop :=
  match o1, o2 with
  | Some s', Some cs' => R s' cs'
  | None, None => True
  | _, _ => False
  end.

Lemma R_init : R iinit init.
Proof. constructor; try reflexivity. intros t. exists false. reflexivity. Qed.

Lemma thr_upd (th : tid -> tstate) (cth : tid -> pc) t c p :
  (forall u, exists c, th u = conc c (cth u)) ->
  forall u, exists c', upd th t (conc c p) u = conc c' (upd cth t p u).
Proof.
  intros H u. unfold upd. destruct (Nat.eqb u t); [exists c; reflexivity|apply H].
Qed.

(* break both states into their fields and identify the shared ones *)
Ltac open_R HR s cs :=
  destruct s as [[g l fl tr cr ff cc ds sr] th];
  destruct cs as [g' l' fl' tr' cr' ff' cc' th' ds' sr'];
  destruct HR as [Hg Hl Hfl Htr Hcr Hff Hcc Hds Hsr Hth];
  simpl in Hg, Hl, Hfl, Htr, Hcr, Hff, Hcc, Hds, Hsr, Hth; subst g' l' fl' tr' cr' ff' cc' ds' sr'.

(* the successor states are related: shared fields syntactically equal, the moving thread at the continuation
   its new pc stands for, every other thread untouched *)
Ltac solve_R Hth t :=
  constructor; simpl; try reflexivity;
  let u := fresh "u" in
  intros u; unfold upd; destruct (Nat.eqb u t); [first [exists false; reflexivity | eexists; reflexivity] | apply Hth].

(* every pc of thread t, with the snapshot of H3 / H4 split into empty / non-empty *)
Ltac thread_cases Hth th' t :=
  let c := fresh "c" in let Ec := fresh "Ec" in let Ep := fresh "Ep" in
  destruct (Hth t) as [c Ec]; simpl in Ec;
  destruct (th' t) as [| | | | |fp|fp|fp|fp| | | | | | |todo|todo| ] eqn:Ep;
  [ | | | | | | | | | | | | | | |destruct todo as [|fq todo]|destruct todo as [|fq todo]| ];
  simpl in Ec; rewrite Ec; simpl.

Lemma ls_call_submit s cs t : R s cs -> lock_ok (gstep s (CallSubmit t)) (step cs (CallSubmit t)).
Proof.
  intros HR. open_R HR s cs.
  unfold gstep, istep, call, step, set_thr. simpl.
  thread_cases Hth th' t; try exact I. solve_R Hth t.
Qed.

Lemma ls_call_shutdown s cs t : R s cs -> lock_ok (gstep s (CallShutdown t)) (step cs (CallShutdown t)).
Proof.
  intros HR. open_R HR s cs.
  unfold gstep, istep, call, step, set_thr. simpl.
  thread_cases Hth th' t; try exact I. solve_R Hth t.
Qed.

Lemma ls_acq s cs t k : R s cs -> lock_ok (gstep s (Acq t k)) (step cs (Acq t k)).
Proof.
  intros HR. open_R HR s cs.
  unfold gstep, istep, step. simpl.
  destruct k; simpl.
  - destruct g; destruct fl; simpl; thread_cases Hth th' t; try exact I; solve_R Hth t.
  - destruct l; simpl; thread_cases Hth th' t; try exact I; solve_R Hth t.
Qed.

Lemma ls_rel s cs t k : R s cs -> lock_ok (gstep s (Rel t k)) (step cs (Rel t k)).
Proof.
  intros HR. open_R HR s cs.
  unfold gstep, istep, step. simpl.
  destruct k; simpl; thread_cases Hth th' t; try exact I; solve_R Hth t.
Qed.

Lemma ls_dsubmit s cs t f d : R s cs -> lock_ok (gstep s (DSubmit t f d)) (step cs (DSubmit t f d)).
Proof.
  intros HR. open_R HR s cs.
  unfold gstep, istep, step. simpl.
  thread_cases Hth th' t; try exact I.
  destruct (Nat.eqb f cr); simpl; [|exact I]. solve_R Hth t.
Qed.

Lemma ls_addcb s cs t f p : R s cs -> lock_ok (gstep s (AddCb t f p)) (step cs (AddCb t f p)).
Proof.
  intros HR. open_R HR s cs.
  unfold gstep, istep, step. simpl.
  thread_cases Hth th' t; try exact I.
  destruct (Nat.eqb f fp) eqn:Ef; simpl; [|exact I]. apply Nat.eqb_eq in Ef. subst fp.
  destruct (fstate_eqb p (ff f)); simpl; [|exact I]. solve_R Hth t.
Qed.

Lemma ls_env_run s cs f p : R s cs -> lock_ok (gstep s (EnvRun f p)) (step cs (EnvRun f p)).
Proof.
  intros HR. open_R HR s cs.
  unfold gstep, istep, env, step, settle, isettle. simpl.
  destruct ((f <? cr) && fstate_eqb p (ff f)); [|exact I].
  destruct (f_srnc p) as [[n b]|]; simpl; constructor; simpl; try reflexivity; exact Hth.
Qed.

Lemma ls_env_finish s cs f p : R s cs -> lock_ok (gstep s (EnvFinish f p)) (step cs (EnvFinish f p)).
Proof.
  intros HR. open_R HR s cs.
  unfold gstep, istep, env, step, settle, isettle. simpl.
  destruct ((f <? cr) && fstate_eqb p (ff f)); [|exact I].
  destruct (f_set p) as [n|]; simpl; constructor; simpl; try reflexivity; exact Hth.
Qed.

