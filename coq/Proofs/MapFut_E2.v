(* Layer E2 (C06): what a pending cancel step knows about the delegate: definitions, monotonicity,
   preservation of the per-instruction promise. *)
From Coq Require Import ZArith List Bool Arith Lia.
From RecordUpdate Require Import RecordSet.
From ME Require Import Base.Machine Base.Fut Base.GenPrelude Model.MapFut Model.MapLaw Proofs.MapFut_InvD Proofs.MapFut_E1.
Import ListNotations RecordSetNotations.

(* d is one of the delegates of j: the original one, or (flat_map) the future returned by fn / error_fn *)
Definition attH (k : kind) (l : list hev) (j d : nat) : Prop :=
  In (HNew j d) l \/ (k = KFlat /\ exists d0, In (HFn j d0 (ARetFut d)) l \/ In (HEfn j d0 (ARetFut d)) l).
Definition att (s : st) (j d : nat) : Prop :=
  (ncall s j = 0 -> In (HNew j d) (hist s)) /\ attH (mkind s j) (hist s) j d.
Definition cdel (s : st) (j : nat) : Prop :=
  ncall s j = 0 -> exists d, In (HNew j d) (hist s) /\ fcancelled (es s d) = true.

Definition okN (s : st) (i : instr) : Prop :=
  match i with
  | IAcqMSet j (Some d) false => In (HNew j d) (hist s)
  | IDCancel j d => att s j d
  | IFCancel j => cdel s j /\ exists d, In (HDCancel j d true) (hist s)
  | _ => True
  end.

Lemma attH_incl k l l' j d : (forall h, In h l -> In h l') -> attH k l j d -> attH k l' j d.
Proof. intros M [X|(K & d0 & [X|X])]; [left; auto|right; split; eauto|right; split; eauto]. Qed.

Lemma att_mono s e s0 j d : lstep s e = Some s0 -> j < nfut s -> att s j d -> att s0 j d.
Proof.
  intros H L [A1 A2]. pose proof (lstep_ncall_le _ _ _ j H) as NC. destruct (lstep_static _ _ _ H j L) as (S1 & _).
  split.
  - intros Z. eapply lstep_hist_mono; eauto. apply A1. lia.
  - rewrite S1. eapply attH_incl; [|exact A2]. eapply lstep_hist_mono; eauto.
Qed.
Lemma cdel_mono s e s0 j : lstep s e = Some s0 -> cdel s j -> cdel s0 j.
Proof.
  intros H C Z. pose proof (lstep_ncall_le _ _ _ j H) as NC. destruct C as (d & X1 & X2); [lia|].
  exists d. split; [eapply lstep_hist_mono; eauto|eapply lstep_es_canc; eauto].
Qed.
Lemma okN_mono s e s0 i : lstep s e = Some s0 -> okI (nfut s) i -> okN s i -> okN s0 i.
Proof.
  intros H O P. unfold okI in O. destruct i; simpl in *; auto.
  - destruct x; auto. destruct flat; auto. eapply lstep_hist_mono; eauto.
  - eapply att_mono; eauto.
  - destruct P as [P1 (d & P2)]. split; [eapply cdel_mono; eauto|exists d; eapply lstep_hist_mono; eauto].
Qed.

Lemma att_sil t s s' j d : sil t s s' -> att s j d -> att s' j d.
Proof. intros H. unfold att, ncall. sil_frame H. auto. Qed.
Lemma cdel_sil t s s' j : sil t s s' -> cdel s j -> cdel s' j.
Proof. intros H. unfold cdel, ncall. sil_frame H. auto. Qed.
Lemma okN_sil t s s' i : sil t s s' -> okN s i -> okN s' i.
Proof.
  intros H P. destruct i; simpl in *; auto.
  - destruct x; auto. destruct flat; auto. rewrite (sil_hist _ _ _ H). exact P.
  - eapply att_sil; eauto.
  - destruct P as [P1 P2]. split; [eapply cdel_sil; eauto|rewrite (sil_hist _ _ _ H); exact P2].
Qed.

Lemma flatok_att s j d : flatok s j d -> att s j d.
Proof.
  intros F. pose proof (flatok_ncall _ _ _ F) as N. destruct F as (K & d0 & din & _ & _ & _ & X).
  split; [intros Z; lia|]. right. split; [exact K|]. exists d0. destruct din; destruct X as [_ X]; auto.
Qed.

Record Cn (s : st) : Prop := {
  n_uniq : forall j d d', In (HNew j d) (hist s) -> In (HNew j d') (hist s) -> d = d';
  n_thr : forall t, Forall (okN s) (thr s t);
  n_del : forall j d, j < nfut s -> mdel s j = Some d -> att s j d;
  n_canc : forall j, fcancelled (ms s j) = true -> cdel s j
}.

Lemma okN_fires s0 s d r : Forall (okN s0) r -> Forall (okN s0) (fires s d r).
Proof.
  intros H; unfold fires. induction (ecbs s d); simpl; auto.
  repeat (constructor; [exact I|]). exact IHl.
Qed.
Lemma okN_on_mapped s0 s j x r : Forall (okN s0) r -> Forall (okN s0) (on_mapped s j x ++ r).
Proof.
  intros H; unfold on_mapped. destruct (mkind s j), (mflat s j), x; simpl;
    repeat (constructor; [exact I|]); exact H.
Qed.
Lemma okN_cbs s0 j l r : Forall (okN s0) r -> Forall (okN s0) (map (fun c => IUserCb j c false) l ++ r).
Proof. intros H; induction l; simpl; auto. constructor; [exact I|exact IHl]. Qed.

Lemma lstep_n_uniq s e s0 : lstep s e = Some s0 -> Bnd s -> Cn s ->
  forall j d d', In (HNew j d) (hist s0) -> In (HNew j d') (hist s0) -> d = d'.
Proof.
  intros H B I. pose proof (n_uniq _ I) as U. step_cases H; try exact U.
  all: intros j' d1 d2 X Y; simpl in *.
  all: in_hist X; in_hist Y; try (eapply U; eauto; fail); try reflexivity.
  all: try (fresh_neq B X; lia); try (fresh_neq B Y; lia).
Qed.

Lemma lstep_n_thr s e s0 : lstep s e = Some s0 -> Bnd s -> Ol s -> Cn s -> forall t, Forall (okN s0) (thr s0 t).
Proof.
  intros H B O CN. pose proof (n_thr _ CN) as I1. pose proof (b_thr _ B) as B1.
  assert (M : forall t', Forall (okN s0) (thr s t')).
  { intros t'. apply Forall_forall. intros i Hi. specialize (I1 t'). specialize (B1 t'). rewrite Forall_forall in I1, B1.
    eapply okN_mono; eauto. }
  pose proof (n_del _ CN) as I2.
  step_cases H; try exact M.
  all: match goal with E : thr _ ?t = _ |- _ => pose proof (M t) as It; pose proof (I1 t) as Jt; pose proof (B1 t) as Bt;
         rewrite E in It, Jt, Bt; try (inversion It; subst; inversion Jt; subst; inversion Bt; subst) end.
  all: simpl; apply Forall_upd; [exact M|].
  all: try (apply okN_on_mapped); try (apply okN_fires); try (apply okN_cbs).
  all: repeat (constructor; [first [exact I | assumption]|]); try assumption; try (constructor; fail).
  all: try (apply okN_on_mapped); try (apply Forall_tl); try assumption.
  - constructor; [simpl; left; reflexivity|repeat (constructor; [exact I|]); constructor].
  - constructor; [|assumption]. unfold okI in *; simpl in *. apply I2; assumption.
  - match goal with A : okN s (IDCancel _ _) |- _ => destruct A as [A1 A2] end.
    constructor; [|repeat (constructor; [exact I|]); assumption]. split.
    + intros Z. exists d0. split; [right; apply A1; exact Z|]. simpl. rewrite upd_same.
      destruct (es s d0); simpl in *; inv_eqs; reflexivity.
    + exists d0. left; reflexivity.
  - match goal with A : okN s (IDCancel _ _) |- _ => destruct A as [A1 A2] end.
    constructor; [|repeat (constructor; [exact I|]); assumption]. split.
    + intros Z. exists d0. split; [right; apply A1; exact Z|]. simpl. rewrite upd_same.
      destruct (es s d0); simpl in *; inv_eqs; reflexivity.
    + exists d0. left; reflexivity.
Qed.


Lemma lstep_n_del s e s0 : lstep s e = Some s0 -> Bnd s -> Ol s -> Cn s ->
  forall j d, j < nfut s0 -> mdel s0 j = Some d -> att s0 j d.
Proof.
  intros H B O CN. pose proof (n_del _ CN) as I2.
  assert (M : forall j d, j < nfut s -> mdel s j = Some d -> att s0 j d).
  { intros j d L X. eapply att_mono; eauto. }
  pose proof (n_thr _ CN) as I1. pose proof (o_thr _ O) as O1. pose proof (lstep_n_thr _ _ _ H B O CN) as N0.
  step_cases H; try exact M.
  all: intros j' d' L X; simpl in *.
  - usplit (nfut s); [discriminate X|]. apply M; [lia|exact X].
  - usplit j0; [|apply M; assumption]. subst x.
    specialize (I1 t). specialize (O1 t). rewrite Heql in I1, O1. inversion I1; subst. inversion O1; subst.
    destruct flat; simpl in *.
    + match goal with A : exists _, _ |- _ => destruct A as (d1 & E1 & F) end. inversion E1; subst.
      apply flatok_att in F. exact F.
    + split; [intros; assumption|left; assumption].
Qed.

Lemma lstep_n_canc s e s0 : lstep s e = Some s0 -> Cn s -> forall j, fcancelled (ms s0 j) = true -> cdel s0 j.
Proof.
  intros H CN. pose proof (n_canc _ CN) as I3.
  assert (M : forall j, fcancelled (ms s j) = true -> cdel s0 j).
  { intros j X. eapply cdel_mono; eauto. }
  pose proof (n_thr _ CN) as I1.
  step_cases H; try exact M.
  all: intros j' X; simpl in *.
  all: try (usplit (nfut s); [discriminate X|apply M; exact X]).
  all: usplit j0; try (apply M; exact X).
  all: fset_facts; try discriminate X.
  all: try (apply M; fcrush s j0; fail).
  specialize (I1 t). rewrite Heql in I1. inversion I1; subst. simpl in H1. destruct H1 as [C _].
  intros Z. destruct C as (d & C1 & C2); [exact Z|]. exists d. split; [right; exact C1|exact C2].
Qed.

Lemma sil_cn t s s' : sil t s s' -> Ol s -> Cn s -> Cn s'.
Proof.
  intros H O [I0 I1 I2 I3]. destruct (sil_thr _ _ _ H) as (i & r & Et & Ho & Hr).
  constructor.
  - rewrite (sil_hist _ _ _ H). exact I0.
  - intros t'. destruct (Nat.eq_dec t' t) as [->|N].
    + pose proof (I1 t) as It. rewrite Et in It. inversion It; subst.
      assert (R : Forall (okN s') r) by (eapply Forall_impl; [|eassumption]; intros; eapply okN_sil; eauto).
      destruct Hr as [->|(j0 & -> & ->)]; [exact R|apply okN_cbs; exact R].
    + rewrite Ho by exact N. eapply Forall_impl; [|apply I1]. intros; eapply okN_sil; eauto.
  - intros j d. rewrite (sil_nfut _ _ _ H). intros L X.
    assert (M : forall d, mdel s j = Some d -> att s' j d) by (intros; eapply att_sil; eauto).
    pose proof (I1 t) as It. pose proof (o_thr _ O t) as Ot.
    inversion H; subst; simpl in *; try (apply M; exact X).
    usplit j0; [|apply M; exact X]. subst x.
    rewrite (upd_eq_same _ _ _ _ H0) in It, Ot. inversion It; subst. inversion Ot; subst.
    destruct fl; simpl in *.
    + match goal with A : exists _, _ |- _ => destruct A as (d1 & E1 & F) end. inversion E1; subst.
      apply flatok_att in F. exact F.
    + split; [intros; assumption|left; assumption].
  - intros j. rewrite (sil_ms _ _ _ H). intros X. eapply cdel_sil; eauto.
Qed.

Lemma cn_init : Cn init.
Proof. constructor; simpl; intros; try contradiction; try constructor; try discriminate; lia. Qed.

Definition Inv7 (s : st) : Prop := Inv6 s /\ (Ecl s /\ Nl s /\ Cn s).
Lemma linv7 : linv Inv7.
Proof.
  apply linv_and; [apply linv6| | |].
  - split; [intros d _; reflexivity|]. split; [intros j L; simpl in L; lia|apply cn_init].
  - intros s e s0 I6 _ (E & N & C) H.
    pose proof (inv6_shape _ I6) as SH. pose proof (inv6_bnd _ I6) as B. pose proof (inv6_ol _ I6) as O.
    split; [eapply lstep_ecl; eauto|]. split; [eapply lstep_nl; eauto|].
    constructor.
    + eapply lstep_n_uniq; eauto.
    + eapply lstep_n_thr; eauto.
    + eapply lstep_n_del; eauto.
    + eapply lstep_n_canc; eauto.
  - intros t s s' I6 _ (E & N & C) H.
    split; [eapply sil_ecl; eauto|]. split; [eapply sil_nl; eauto|eapply sil_cn; eauto; apply (inv6_ol _ I6)].
Qed.
Lemma inv7_reach s : reachable s -> Inv7 s.
Proof. apply linv_reach; [apply linv7|]. intros s0 H; apply H. Qed.
