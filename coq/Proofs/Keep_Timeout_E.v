(* C12 / Timeout (part E): no job of a done future survives unnoticed.  Whenever _jobs holds a job whose future is
   done, the job thread is before (or inside) a partition that will see it, or a wake-up is on its way: the event is
   set, the blocked job thread has been notified, some program is about to call event.set(), or the thread that
   completed the future is about to run its callbacks (among them TimeoutExecutor._on_future_done). *)
From Coq Require Import List ZArith Bool Arith Lia.
From RecordUpdate Require Import RecordSet.
From ME Require Import Base.Machine Base.Fut Base.GenPrelude Gen.TimeoutGen Proofs.Timeout_Spec Model.Timeout Proofs.Timeout_Inv
  Proofs.Keep_Timeout_A Proofs.Keep_Timeout_B Proofs.Keep_Timeout_C Proofs.Keep_Timeout_D.
Import ListNotations RecordSetNotations.
Local Open Scope Z_scope.

Definition nd (s : st) (job : tjob) : Prop := fdone (rs s (tj_id job)) = false.
Definition cbwake (s : st) : Prop := exists j, In CbWake (rcbs s j) /\ cbw s j.
Definition evp (s : st) : Prop := (exists t, In IEvSet (thr s t)) \/ cbwake s.

(* phase of the job thread's loop, read off the LAST instruction of its program (control instructions are last) *)
Inductive cls := CTop | CPart | CWoke | CAfter.
Definition icls (i : instr) : cls :=
  match i with IXRelP => CPart | IWWoke => CWoke | IWaitCalc _ | IWWait _ | IWClear => CAfter | _ => CTop end.
Fixpoint lcls (p : list instr) : cls :=
  match p with [] => CTop | i :: r => match r with [] => icls i | _ :: _ => lcls r end end.
Definition gen (i : instr) : bool := match icls i with CTop => true | _ => false end.

Lemma lcls_cons i l : l <> [] -> lcls (i :: l) = lcls l.
Proof. destruct l; [congruence|reflexivity]. Qed.
Lemma lcls_app pre l : l <> [] -> lcls (pre ++ l) = lcls l.
Proof.
  intros Hl. induction pre as [|i r IH]; [reflexivity|]. simpl app. rewrite lcls_cons; [exact IH|].
  destruct r; simpl; [exact Hl|discriminate].
Qed.
Lemma lcls_gen pre : forallb gen pre = true -> lcls pre = CTop.
Proof.
  induction pre as [|i r IH]; [reflexivity|]. simpl. intros Hx. apply andb_true_iff in Hx. destruct Hx as [A B].
  destruct r; [|auto]. unfold gen in A. destruct (icls i); try discriminate A; reflexivity.
Qed.
(* a generic instruction is replaced by generic ones: same phase *)
Lemma lcls_step i pre l : gen i = true -> forallb gen pre = true -> lcls (pre ++ l) = lcls (i :: l).
Proof.
  intros Hi Hp. destruct l as [|x l].
  - rewrite app_nil_r, (lcls_gen pre Hp). simpl. unfold gen in Hi. destruct (icls i); try discriminate Hi; reflexivity.
  - rewrite lcls_app by congruence. rewrite (lcls_cons i (x :: l)) by congruence. reflexivity.
Qed.
Lemma lcls_stamp s p : lcls (stamp s p) = lcls p.
Proof. unfold stamp. destruct p as [|[] r]; try reflexivity. destruct e; reflexivity. Qed.

Lemma gen_ret_of t b : forallb gen (ret_of t b) = true.
Proof. unfold ret_of. destruct (Nat.eqb t jt); reflexivity. Qed.
Lemma gen_cb_prog j c : forallb gen (cb_prog j c) = true.
Proof. destruct c; reflexivity. Qed.
Lemma gen_cbs_prog j cs : forallb gen (cbs_prog j cs) = true.
Proof.
  unfold cbs_prog. apply forallb_forall. intros i Hi. apply in_flat_map in Hi.
  destruct Hi as [c [_ Hc]]. destruct c; simpl in Hc; destruct Hc as [<-|[]]; reflexivity.
Qed.
Lemma gen_map_tc l : forallb gen (map ITCancel l) = true.
Proof. apply forallb_forall. intros i Hi. apply in_map_iff in Hi. destruct Hi as [x [<- _]]. reflexivity. Qed.
Lemma gen_app p q : forallb gen p = true -> forallb gen q = true -> forallb gen (p ++ q) = true.
Proof. intros A B. rewrite forallb_app, A, B. reflexivity. Qed.

(* leading done() calls of a partition *)
Lemma pdh_gen i pre l : (match i with IPDone _ => false | _ => true end) = true ->
  (match pre ++ l with IPDone _ :: _ => false | _ => true end) = true -> pdh (pre ++ l) = pdh (i :: l).
Proof. intros Hi Hp. destruct i; try discriminate Hi; destruct (pre ++ l) as [|[] q]; try discriminate Hp; reflexivity. Qed.

Record InvW (s : st) : Prop := {
  w_after : lcls (thr s jt) = CAfter -> forall job, In job (jobs s) -> nd s job \/ evf s = true \/ evp s;
  w_woke : lcls (thr s jt) = CWoke ->
           wblock s <> None /\ (wnotif s = true -> evf s = true) /\
           forall job, In job (jobs s) -> nd s job \/ wnotif s = true \/ evp s;
  w_part : lcls (thr s jt) = CPart -> forall job, In job (jobs s) ->
           In (tj_id job) (pdh (thr s jt)) \/ pans s (tj_id job) = true \/ nd s job \/ evf s = true \/ evp s
}.

(* ---- event.set() pending / callbacks pending: stability ------------------------------------------------------ *)
Lemma in_evset_stamp s p : In IEvSet (stamp s p) <-> In IEvSet p.
Proof.
  unfold stamp. destruct p as [|[] r]; try tauto. destruct e; try tauto. simpl. split; intros [H|H]; auto; discriminate H.
Qed.

Lemma evp_keep s s' t s1 P :
  thr s' = upd (thr s) t (stamp s1 P) ->
  (In IEvSet (thr s t) -> In IEvSet P) ->
  (forall j, notwin (thr s t) j) ->
  (forall j, In CbWake (rcbs s j) -> In CbWake (rcbs s' j)) ->
  evp s -> evp s'.
Proof.
  intros ET HE HN HC [[tw Hw]|[j [Hc [tw [r Hw]]]]].
  - left. exists tw. rewrite ET. unfold upd. destruct (Nat.eqb tw t) eqn:E; [|exact Hw].
    apply Nat.eqb_eq in E. subst tw. apply in_evset_stamp. auto.
  - right. exists j. split; [auto|]. exists tw, r. rewrite ET. unfold upd. destruct (Nat.eqb tw t) eqn:E; [|exact Hw].
    apply Nat.eqb_eq in E. subst tw. exfalso. destruct (HN j r) as [N1 N2]. destruct Hw; contradiction.
Qed.

(* ---- the generic step: the phase of the job thread, the flags and the done() answers are unchanged ------------ *)
Lemma invw_gen s s' t s1 P :
  InvW s -> thr s' = upd (thr s) t (stamp s1 P) ->
  (t = jt -> lcls P = lcls (thr s jt) /\ forall x, In x (pdh (thr s jt)) -> In x (pdh P)) ->
  (forall job, In job (jobs s') -> In job (jobs s) \/ evp s') ->
  (forall job, In job (jobs s) -> nd s job -> nd s' job \/ evp s') ->
  (evp s -> evp s') -> evf s' = evf s -> wnotif s' = wnotif s -> wblock s' = wblock s -> pans s' = pans s ->
  InvW s'.
Proof.
  intros [WA WW WP] ET HT HJ HN HE E1 E2 E3 E4.
  assert (EC : lcls (thr s' jt) = lcls (thr s jt) /\ forall x, In x (pdh (thr s jt)) -> In x (pdh (thr s' jt))).
  { rewrite ET. unfold upd. destruct (Nat.eqb jt t) eqn:E; [|auto]. apply Nat.eqb_eq in E. subst t.
    rewrite lcls_stamp, pdh_stamp. apply HT. reflexivity. }
  destruct EC as [EC EP].
  split; rewrite EC.
  - intros Hc job Hin. rewrite E1. destruct (HJ job Hin) as [Hj|Hj]; [|auto].
    destruct (WA Hc job Hj) as [H|[H|H]]; [|auto|auto]. destruct (HN job Hj H) as [Hn'|Hv]; auto.
  - intros Hc. destruct (WW Hc) as [W1 [W2 W3]]. rewrite E1, E2, E3. split; [exact W1|]. split; [exact W2|].
    intros job Hin. destruct (HJ job Hin) as [Hj|Hj]; [|auto].
    destruct (W3 job Hj) as [H|[H|H]]; [|auto|auto]. destruct (HN job Hj H) as [Hn'|Hv]; auto.
  - intros Hc job Hin. rewrite E1, E4.
    destruct (HJ job Hin) as [Hj|Hj]; [|auto 6].
    destruct (WP Hc job Hj) as [H|[H|[H|[H|H]]]]; auto 6.
    destruct (HN job Hj H) as [Hn'|Hv]; auto 6.
Qed.

Lemma lcls_gen_cons x q : gen x = true -> lcls (x :: q) = lcls q.
Proof. intros Hx. destruct q; [|reflexivity]. simpl. unfold gen in Hx. destruct (icls x); try discriminate Hx; reflexivity. Qed.
Lemma lcls_gen_app pre q : forallb gen pre = true -> lcls (pre ++ q) = lcls q.
Proof.
  induction pre as [|i r IH]; [reflexivity|]. simpl. intros Hx. apply andb_true_iff in Hx. destruct Hx as [A B].
  rewrite <- (IH B). change (lcls (i :: (r ++ q)) = lcls (r ++ q)). apply lcls_gen_cons. exact A.
Qed.

Ltac cls_tac :=
  repeat first [ rewrite lcls_gen_cons by reflexivity
               | rewrite lcls_gen_app by (first [apply gen_ret_of | apply gen_cb_prog | apply gen_cbs_prog | apply gen_map_tc | reflexivity]) ];
  reflexivity.
Ltac in_tac Hx := repeat first [ exact Hx | right | (apply in_or_app; right) ].
