(* C12 / CancelOnShutdownExecutor: `_futures` (tracked) holds a done delegate future only in the window between
   delegate.submit() returning an already-done (or meanwhile completed-before-registration: impossible, see below)
   future and add_done_callback(discard) of the same submit() call: the stdlib runs the done-callbacks -- here
   set.discard -- inside the completing call (the model's `settle`), so a future that completes while tracked leaves
   the set in the same step. *)
From Coq Require Import List Arith Bool Lia PeanoNat.
From ME Require Import Base.Machine Base.Fut Model.Cos Proofs.Cos_Inv.
Import ListNotations.

Definition InvT (s : st) : Prop :=
  forall f, In f (tracked s) -> fdone (fs s f) = true -> exists t, thr s t = S3 f.

Lemma invt_thread s s' t : InvT s -> tracked s' = tracked s -> fs s' = fs s ->
  (forall u, u <> t -> thr s' u = thr s u) -> (forall f, thr s t <> S3 f) -> InvT s'.
Proof.
  intros I E1 E2 Ho Hn f Hin Hd. rewrite E1 in Hin. rewrite E2 in Hd. destruct (I f Hin Hd) as [tw Hw].
  exists tw. rewrite Ho; [exact Hw|]. intros ->. exact (Hn f Hw).
Qed.

Lemma invt_settle s f n : InvT s -> (fdone (fs s f) = true -> fdone n = true) -> InvT (settle s f n).
Proof.
  intros I Hm g Hin Hd. simpl in *. unfold upd in Hd. destruct (Nat.eqb g f) eqn:E.
  - apply Nat.eqb_eq in E. subst g. destruct (fdone (fs s f)) eqn:Ef.
    + rewrite andb_false_r in Hin. exact (I f Hin Ef).
    + rewrite Hd in Hin. simpl in Hin. apply in_remove in Hin. destruct Hin as [_ Hx]. contradiction Hx; reflexivity.
  - apply I; [|exact Hd]. destruct (fdone n && negb (fdone (fs s f))); [apply in_remove in Hin; tauto|exact Hin].
Qed.

Lemma invt_step s e s' : InvT s -> step s e = Some s' -> InvT s'.
Proof.
  intros I H.
  destruct e as [t|t|t l|t l|t f d|t f pre|t f pre|t|t raised|f pre|f pre]; simpl in H.
  - destruct (thr s t) eqn:Et; try discriminate. injection H as <-.
    apply (invt_thread s _ t I); try reflexivity; [intros u Hu; simpl; apply upd_other; exact Hu|rewrite Et; discriminate].
  - destruct (thr s t) eqn:Et; try discriminate. injection H as <-.
    apply (invt_thread s _ t I); try reflexivity; [intros u Hu; simpl; apply upd_other; exact Hu|rewrite Et; discriminate].
  - destruct l.
    + destruct (isnone (gate s)); [|discriminate]. destruct (thr s t) eqn:Et; try discriminate; injection H as <-;
        (apply (invt_thread s _ t I); try reflexivity; [intros u Hu; simpl; apply upd_other; exact Hu|rewrite Et; discriminate]).
    + destruct (isnone (lk s)); [|discriminate]. destruct (thr s t) eqn:Et; try discriminate; injection H as <-;
        (apply (invt_thread s _ t I); try reflexivity; [intros u Hu; simpl; apply upd_other; exact Hu|rewrite Et; discriminate]).
  - destruct l; destruct (thr s t) eqn:Et; try discriminate; injection H as <-;
      (apply (invt_thread s _ t I); try reflexivity; [intros u Hu; simpl; apply upd_other; exact Hu|rewrite Et; discriminate]).
  - (* delegate.submit: the new future is tracked, the submitter is about to register discard *)
    destruct (thr s t) eqn:Et; try discriminate. destruct (Nat.eqb f (created s)) eqn:Ef; [|discriminate]. injection H as <-.
    intros g Hin Hd. simpl in *. destruct (Nat.eq_dec g f) as [->|Hne].
    + exists t. apply upd_same.
    + rewrite upd_other in Hd by exact Hne. destruct Hin as [Hx|Hin]; [congruence|].
      destruct (I g Hin Hd) as [tw Hw]. exists tw. rewrite upd_other; [exact Hw|]. intros ->. congruence.
  - (* add_done_callback(discard): a done future is discarded at once *)
    destruct (thr s t) as [| | | | |g| | | | | | | | | | | |] eqn:Et; try discriminate.
    destruct (Nat.eqb f g && fstate_eqb pre (fs s f)) eqn:Eg; [|discriminate]. injection H as <-.
    apply andb_true_iff in Eg. destruct Eg as [E1 E2]. apply Nat.eqb_eq in E1. subst g. apply fstate_eqb_eq in E2. subst pre.
    intros g Hin Hd. simpl in *.
    assert (Hin0 : In g (tracked s)) by (destruct (fdone (fs s f)); [apply in_remove in Hin; tauto|exact Hin]).
    destruct (I g Hin0 Hd) as [tw Hw]. exists tw. rewrite upd_other; [exact Hw|]. intros ->.
    rewrite Et in Hw. injection Hw as <-. rewrite Hd in Hin. apply in_remove in Hin. destruct Hin as [_ Hx]. contradiction Hx; reflexivity.
  - (* cancel() by the sweep *)
    destruct (thr s t) eqn:Et; try discriminate. destruct (memb f todo && fstate_eqb pre (fs s f)) eqn:Eg; [|discriminate].
    injection H as <-. apply andb_true_iff in Eg. destruct Eg as [_ E2]. apply fstate_eqb_eq in E2. subst pre.
    assert (IS : InvT (settle s f (fst (f_cancel (fs s f))))) by (apply invt_settle; [exact I|apply f_cancel_done]).
    intros g Hin Hd. simpl in Hin, Hd. destruct (IS g Hin Hd) as [tw Hw]. simpl in Hw.
    exists tw. simpl. rewrite upd_other; [exact Hw|]. intros ->. congruence.
  - destruct (thr s t) eqn:Et; try discriminate. destruct todo; [|discriminate]. injection H as <-.
    apply (invt_thread s _ t I); try reflexivity; [intros u Hu; simpl; apply upd_other; exact Hu|rewrite Et; discriminate].
  - destruct (thr s t) eqn:Et; try discriminate; destruct raised; try discriminate; injection H as <-;
      (apply (invt_thread s _ t I); try reflexivity; [intros u Hu; simpl; apply upd_other; exact Hu|rewrite Et; discriminate]).
  - destruct ((f <? created s) && fstate_eqb pre (fs s f)) eqn:Eg; [|discriminate].
    apply andb_true_iff in Eg. destruct Eg as [_ E2]. apply fstate_eqb_eq in E2. subst pre.
    destruct (f_srnc (fs s f)) as [[n b]|] eqn:Es; injection H as <-; [|exact I].
    apply invt_settle; [exact I|]. intros Hd. destruct (fs s f); simpl in *; try discriminate; inversion Es; reflexivity.
  - destruct ((f <? created s) && fstate_eqb pre (fs s f)) eqn:Eg; [|discriminate].
    apply andb_true_iff in Eg. destruct Eg as [_ E2]. apply fstate_eqb_eq in E2. subst pre.
    destruct (f_set (fs s f)) as [n|] eqn:Es; injection H as <-; [|exact I].
    apply invt_settle; [exact I|]. intros Hd. destruct (fs s f); simpl in *; try discriminate.
Qed.

Theorem invt_reach s : reachable_from step init s -> InvT s.
Proof. apply invariant_rule; [intros f []|exact invt_step]. Qed.

(* the window future is one the delegate returned already Finished: it is never Cancelled (nobody had it yet) *)
Theorem cos_tracked_done_window s : reachable_from step init s -> forall f,
  In f (tracked s) -> fdone (fs s f) = true -> exists t, thr s t = S3 f.
Proof. exact (invt_reach s). Qed.

Definition cos_at_rest (s : st) : Prop := forall t f, thr s t <> S3 f.
Theorem cos_tracked_not_done_at_rest s : reachable_from step init s -> cos_at_rest s ->
  forall f, In f (tracked s) -> fdone (fs s f) = false.
Proof.
  intros R Hr f Hin. destruct (fdone (fs s f)) eqn:Hd; [|reflexivity].
  destruct (invt_reach s R f Hin Hd) as [t Ht]. exfalso. exact (Hr t f Ht).
Qed.
(* tracked = exactly the created futures that are not done (with Cos_Inv.i_trk) *)
Theorem cos_tracked_exact_at_rest s : reachable_from step init s -> cos_at_rest s ->
  forall f, f < created s -> (In f (tracked s) <-> fdone (fs s f) = false).
Proof.
  intros R Hr f Hlt. split; [apply cos_tracked_not_done_at_rest; assumption|].
  intros Hn. destruct (i_trk _ (reachable_inv s R) f Hlt) as [H|H]; [exact H|congruence].
Qed.

(* witnesses *)
Definition w_window : list ev := [CallSubmit 0; Acq 0 LG; Acq 0 LX; DSubmit 0 0 true].
Lemma cos_window_example : exists s, reachable_from step init s /\ tracked s = [0] /\ fs s 0 = Finished /\ thr s 0 = S3 0.
Proof. eexists. split; [exists w_window; vm_compute; reflexivity|]. repeat split; reflexivity. Qed.

Definition w_rest : list ev :=
  [ CallSubmit 0; Acq 0 LG; Acq 0 LX; DSubmit 0 0 false; AddCb 0 0 Pending; Rel 0 LX; Rel 0 LG; Ret 0 false;
    CallSubmit 0; Acq 0 LG; Acq 0 LX; DSubmit 0 1 false; AddCb 0 1 Pending; Rel 0 LX; Rel 0 LG; Ret 0 false;
    CallSubmit 0; Acq 0 LG; Acq 0 LX; DSubmit 0 2 true; AddCb 0 2 Finished; Rel 0 LX; Rel 0 LG; Ret 0 false;
    EnvFinish 0 Pending ].
Lemma cos_rest_example : exists s, reachable_from step init s /\ (forall t, thr s t = Idle) /\ created s = 3 /\
  tracked s = [1] /\ fs s 0 = Finished /\ fs s 1 = Pending /\ fs s 2 = Finished.
Proof.
  eexists. split; [exists w_rest; vm_compute; reflexivity|]. split; [|repeat split; reflexivity].
  intros t. destruct t; reflexivity.
Qed.
