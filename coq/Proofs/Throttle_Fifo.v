(* FIFO hand-over: the delegate receives the queued jobs in enqueue order, minus those cancelled while queued. *)
From Coq Require Import ZArith List Bool Arith Lia.
From RecordUpdate Require Import RecordSet.
From ME Require Import Base.Machine Base.Fut Base.GenPrelude Gen.ThrottleGen Model.Throttle Proofs.Throttle_Inv.
Import ListNotations RecordSetNotations.

(* projections of the ghost history, oldest first *)
Fixpoint enqs (h : list hev) : list nat :=
  match h with [] => [] | HEnq j _ :: r => enqs r ++ [j] | _ :: r => enqs r end.
Fixpoint pops (h : list hev) : list nat :=
  match h with [] => [] | HPop j _ :: r => pops r ++ [j] | _ :: r => pops r end.
Fixpoint dsubs (h : list hev) : list nat :=
  match h with [] => [] | HDSub j _ _ :: r => dsubs r ++ [j] | _ :: r => dsubs r end.
Fixpoint cancq (h : list hev) : list nat :=
  match h with [] => [] | HCancelQ j _ :: r => cancq r ++ [j] | _ :: r => cancq r end.

Definition ds_of (p : list instr) : list nat :=
  flat_map (fun i => match i with IDSubmit j => [j] | _ => [] end) p.
Definition inloop (s : st) : bool := owned (xown s) H.
(* popped, not yet given to the delegate: the local to_submit list, then the pending delegate.submit calls *)
Definition pend (s : st) : list nat := (if inloop s then hadm s else []) ++ ds_of (thr s H).
Definition live (cq en : list nat) : list nat := filter (fun j => negb (mem j cq)) en.

Record InvF (s : st) : Prop := {
  f_live : live (cancq (hist s)) (enqs (hist s)) = pops (hist s) ++ qu s;
  f_pops : pops (hist s) = dsubs (hist s) ++ pend s;
  f_loop : inloop s = true -> ds_of (thr s H) = [];
  f_nodup : NoDup (enqs (hist s));
  f_lt : forall j, In j (enqs (hist s)) -> (j < nfut s)%nat;
  f_canc : forall j, In j (cancq (hist s)) -> In j (enqs (hist s))
}.

Definition fview (s : st) :=
  (enqs (hist s), pops (hist s), dsubs (hist s), cancq (hist s), qu s, inloop s, hadm s, ds_of (thr s H), nfut s).

Lemma invF_view s s' : fview s' = fview s -> InvF s -> InvF s'.
Proof.
  unfold fview. intros E [F1 F2 F3 F4 F5 F6]. inversion E as [[E1 E2 E3 E4 E5 E6 E7 E8 E9]].
  constructor; unfold pend in *; rewrite ?E1, ?E2, ?E3, ?E4, ?E5, ?E6, ?E7, ?E8, ?E9; auto.
Qed.

Definition irrelevant (h : hev) : Prop :=
  match h with HEnq _ _ | HPop _ _ | HDSub _ _ _ | HCancelQ _ _ => False | _ => True end.
Lemma fview_log s h : irrelevant h -> fview (log s h) = fview s.
Proof. destruct h; simpl; intros Hx; try contradiction; reflexivity. Qed.

Lemma ds_of_app p q : ds_of (p ++ q) = ds_of p ++ ds_of q.
Proof. apply flat_map_app. Qed.
Lemma ds_of_norm s p : ds_of (norm s p) = ds_of p.
Proof.
  destruct p as [|i r]; [reflexivity|]. destruct i; try reflexivity.
  simpl. destruct (qu s); [reflexivity|]. destruct (hlim s); reflexivity.
Qed.
Lemma ds_of_map l : ds_of (map IDSubmit l) = l.
Proof. induction l; simpl; [reflexivity|]. f_equal. exact IHl. Qed.
Lemma ds_of_cb_prog d l : ds_of (flat_map (cb_prog d) l) = [].
Proof. induction l as [|c l IH]; [reflexivity|]. simpl. rewrite ds_of_app, IH. destruct c; reflexivity. Qed.
Lemma ds_of_cb_prog_held d l : ds_of (flat_map (cb_prog_held d) l) = [].
Proof. induction l as [|c l IH]; [reflexivity|]. simpl. rewrite ds_of_app, IH. destruct c; reflexivity. Qed.
Lemma ds_of_setres j o : ds_of (setres_prog j o) = [].
Proof. destruct o; reflexivity. Qed.
Lemma ds_of_tl p : ds_of p = [] -> ds_of (tl p) = [].
Proof. destruct p as [|i r]; [auto|]. simpl. intros Hx. apply app_eq_nil in Hx. tauto. Qed.

Lemma fview_set s1 t p : (t = H -> ds_of p = ds_of (thr s1 H)) -> fview (set_prog s1 t p) = fview s1.
Proof.
  intros Hd. unfold fview, set_prog, inloop. simpl. destruct (Nat.eq_dec t H) as [->|Hn].
  - rewrite upd_same, ds_of_norm, (Hd eq_refl). reflexivity.
  - rewrite upd_other by (intro; apply Hn; auto). reflexivity.
Qed.

Lemma fview_sub_check s1 t v rest :
  (t = H -> ds_of rest = ds_of (thr s1 H)) -> fview (sub_check s1 t v rest) = fview s1.
Proof.
  intros Hd. unfold sub_check.
  assert (Hd2 : forall pre, ds_of pre = [] -> t = H -> ds_of (pre ++ rest) = ds_of (thr s1 H)).
  { intros pre Hp E. rewrite ds_of_app, Hp. exact (Hd E). }
  destruct (blk s1 && negb (shut s1)); [destruct (block_ready (qlen s1) v) as [[|]|]|];
    rewrite ?fview_log by exact Logic.I; apply fview_set.
  - apply Hd2; reflexivity.
  - apply (Hd2 [IWait 30 (WSub v)]); reflexivity.
  - apply (Hd2 [IRelG; IRetRaise]); reflexivity.
  - apply Hd2; reflexivity.
Qed.
Lemma fview_after_wait s1 t k rest :
  (t = H -> ds_of rest = ds_of (thr s1 H)) -> fview (after_wait s1 t k rest) = fview s1.
Proof.
  intros Hd. destruct k; simpl; [apply fview_set; exact Hd|apply fview_sub_check; exact Hd].
Qed.
Lemma fview_start_iter s1 : ds_of (thr s1 H) = [] -> fview (start_iter s1 H) = fview s1.
Proof.
  intros Hd. unfold start_iter. destruct (shut s1); [|destruct (dyn s1)];
    (etransitivity; [apply fview_set; intros _; rewrite ?Hd; try reflexivity|]); try reflexivity.
  simpl. exact (eq_sym Hd).
Qed.

(* side condition: the new program of thread H has the same pending delegate.submit calls *)
Ltac ds_goal :=
  let E := fresh "E" in
  intros E; try subst; simpl;
  match goal with Et : thr _ H = _ :: _ |- _ => rewrite Et end;
  simpl; rewrite ?ds_of_app, ?ds_of_cb_prog, ?ds_of_cb_prog_held, ?ds_of_setres; simpl;
  rewrite ?ds_of_app, ?ds_of_setres; reflexivity.

Ltac fv_step :=
  first [ rewrite fview_log by exact Logic.I
        | etransitivity; [apply fview_set; ds_goal|]
        | etransitivity; [apply fview_sub_check; ds_goal|]
        | etransitivity; [apply fview_after_wait; ds_goal|] ].
Ltac fv s := apply (invF_view s); [repeat fv_step; reflexivity | assumption].
Ltac fhandler Hx s := brk Hx; inv_some Hx; fv s.

Lemma do_call_submit_invF s t s' : InvF s -> do_call_submit s t = Some s' -> InvF s'.
Proof.
  intros IF Hx. unfold do_call_submit in Hx. brk Hx. inv_some Hx. apply (invF_view s); [|assumption].
  apply fview_set. intros ->. unfold idle in *. rewrite Nat.eqb_refl, andb_false_r in *. discriminate.
Qed.
Lemma do_call_shutdown_invF s t w s' : InvF s -> do_call_shutdown s t w = Some s' -> InvF s'.
Proof.
  intros IF Hx. unfold do_call_shutdown in Hx. brk Hx. inv_some Hx. apply (invF_view s); [|assumption].
  apply fview_set. intros ->. unfold idle in *. rewrite Nat.eqb_refl, andb_false_r in *. discriminate.
Qed.
Lemma do_call_cancel_invF s t j s' : InvF s -> do_call_cancel s t j = Some s' -> InvF s'.
Proof.
  intros IF Hx. unfold do_call_cancel in Hx. brk Hx. inv_some Hx. apply (invF_view s); [|assumption].
  etransitivity; [apply fview_set|reflexivity]. intros ->. unfold idle in *. rewrite Nat.eqb_refl, andb_false_r in *. discriminate.
Qed.
Lemma do_ret_invF s t c s' : InvF s -> do_ret s t c = Some s' -> InvF s'.
Proof. intros IF Hx. unfold do_ret in Hx. fhandler Hx s. Qed.
Lemma do_acq_g_invF s t s' : InvF s -> do_acq_g s t = Some s' -> InvF s'.
Proof. intros IF Hx. unfold do_acq_g in Hx. fhandler Hx s. Qed.
Lemma do_rel_g_invF s t s' : InvF s -> do_rel_g s t = Some s' -> InvF s'.
Proof. intros IF Hx. unfold do_rel_g in Hx. fhandler Hx s. Qed.
Lemma do_rel_a_invF s t s' : InvF s -> do_rel_a s t = Some s' -> InvF s'.
Proof. intros IF Hx. unfold do_rel_a in Hx. fhandler Hx s. Qed.
Lemma do_acq_a_invF s t s' : InvF s -> do_acq_a s t = Some s' -> InvF s'.
Proof. intros IF Hx. unfold do_acq_a in Hx. fhandler Hx s. Qed.
Lemma do_rcread_invF s t x s' : InvF s -> do_rcread s t x = Some s' -> InvF s'.
Proof. intros IF Hx. unfold do_rcread in Hx. fhandler Hx s. Qed.
Lemma do_evset_invF s t s' : InvF s -> do_evset s t = Some s' -> InvF s'.
Proof. intros IF Hx. unfold do_evset in Hx. fhandler Hx s. Qed.
Lemma do_dshutdown_invF s t s' : InvF s -> do_dshutdown s t = Some s' -> InvF s'.
Proof. intros IF Hx. unfold do_dshutdown in Hx. fhandler Hx s. Qed.
Lemma do_acq_m_invF s t j s' : InvF s -> do_acq_m s t j = Some s' -> InvF s'.
Proof. intros IF Hx. unfold do_acq_m in Hx. fhandler Hx s. Qed.
Lemma do_rel_m_invF s t j s' : InvF s -> do_rel_m s t j = Some s' -> InvF s'.
Proof. intros IF Hx. unfold do_rel_m in Hx. fhandler Hx s. Qed.
Lemma do_wait_invF s t r s' : InvF s -> do_wait s t r = Some s' -> InvF s'.
Proof. intros IF Hx. unfold do_wait in Hx. fhandler Hx s. Qed.
Lemma do_woke_invF s t k s' : InvF s -> do_woke s t k = Some s' -> InvF s'.
Proof. intros IF Hx. unfold do_woke in Hx. fhandler Hx s. Qed.
Lemma do_fm_invF s t op j p s' : InvF s -> do_fm s t op j p = Some s' -> InvF s'.
Proof. intros IF Hx. unfold do_fm in Hx. fhandler Hx s. Qed.
Lemma do_count_invF s t a s' : InvF s -> do_count s t a = Some s' -> InvF s'.
Proof. intros IF Hx. unfold do_count in Hx. fhandler Hx s. Qed.
Lemma do_exit_invF s s' : InvF s -> do_exit s = Some s' -> InvF s'.
Proof. intros IF Hx. unfold do_exit in Hx. fhandler Hx s. Qed.
Lemma do_env_run_invF s t d p s' : InvF s -> do_env_run s t d p = Some s' -> InvF s'.
Proof. intros IF Hx. unfold do_env_run in Hx. brk Hx; inv_some Hx; auto. apply (invF_view s); [reflexivity|assumption]. Qed.
Lemma do_env_finish_invF s t d p o s' : InvF s -> do_env_finish s t d p o = Some s' -> InvF s'.
Proof.
  intros IF Hx. unfold do_env_finish in Hx. brk Hx; inv_some Hx; auto.
  apply (invF_view s); [|assumption]. rewrite fview_log by exact Logic.I.
  etransitivity; [apply fview_set|reflexivity]. intros ->. unfold idle in *. rewrite Nat.eqb_refl, andb_false_r in *. discriminate.
Qed.
Lemma do_new_invF s b dy v s' : InvF s -> do_new s b dy v = Some s' -> InvF s'.
Proof.
  intros IF Hx. unfold do_new in Hx. brk Hx. inv_some Hx.
  match goal with E : _ || _ = false |- _ => apply orb_false_elim in E; destruct E as [_ E]; apply negb_false_iff in E end.
  destruct (thr s H) eqn:Et; [|discriminate].
  apply (invF_view s); [|assumption]. unfold fview, inloop. simpl. rewrite ?upd_same, ?Et. reflexivity.
Qed.
Lemma do_hstart_invF s s' : InvF s -> do_hstart s = Some s' -> InvF s'.
Proof.
  intros IF Hx. unfold do_hstart in Hx. brk Hx. inv_some Hx.
  apply (invF_view s); [|assumption]. apply fview_start_iter.
  match goal with E : thr s H = _ |- _ => rewrite E end. reflexivity.
Qed.
Lemma do_clear_invF s t s' : InvF s -> do_clear s t = Some s' -> InvF s'.
Proof.
  intros IF Hx. unfold do_clear in Hx. brk Hx. inv_some Hx.
  match goal with E : Nat.eqb _ H = true |- _ => apply Nat.eqb_eq in E; subst end.
  apply (invF_view s); [|assumption]. etransitivity; [apply fview_start_iter|reflexivity].
  simpl. match goal with E : thr s H = _ |- _ => rewrite E end. reflexivity.
Qed.
Lemma clear_del_fview l : forall s, fview (clear_del s l) = fview s /\ thr (clear_del s l) = thr s.
Proof.
  unfold clear_del. induction l as [|c l IH]; intros s; simpl; [auto|].
  destruct (IH (match c with CbDone => s | CbRes j => s <| mdel := upd (mdel s) j None |> end)) as [A B].
  rewrite A, B. destruct c; simpl; auto.
Qed.
Lemma do_fd_invF s t op d p s' : InvF s -> do_fd s t op d p = Some s' -> InvF s'.
Proof.
  intros IF Hx. unfold do_fd in Hx. brk Hx; inv_some Hx; try solve [fv s].
  apply (invF_view s); [|assumption]. rewrite fview_log by exact Logic.I.
  match goal with |- fview (set_prog (clear_del ?x ?l) _ _) = _ => destruct (clear_del_fview l x) as [A B] end.
  etransitivity; [apply fview_set|].
  - rewrite B. ds_goal.
  - rewrite A. reflexivity.
Qed.

(* ---- the invariant as a predicate on the view; list lemmas ------------------------------------------ *)
Definition InvFv (v : list nat * list nat * list nat * list nat * list nat * bool * list nat * list nat * nat) : Prop :=
  let '(en, po, dsb, cq, q, lp, ha, dsp, nf) := v in
  live cq en = po ++ q /\ po = dsb ++ (if lp then ha else []) ++ dsp /\ (lp = true -> dsp = []) /\
  NoDup en /\ (forall j, In j en -> (j < nf)%nat) /\ (forall j, In j cq -> In j en).

Lemma invF_iff s : InvF s <-> InvFv (fview s).
Proof.
  unfold InvFv, fview. split.
  - intros [F1 F2 F3 F4 F5 F6]. unfold pend in F2. auto 7.
  - intros [F1 [F2 [F3 [F4 [F5 F6]]]]]. constructor; unfold pend; auto.
Qed.

Lemma mem_in x l : mem x l = true <-> In x l.
Proof.
  unfold mem. rewrite existsb_exists. split.
  - intros [y [Hin Hy]]. apply Nat.eqb_eq in Hy. subst. exact Hin.
  - intros Hin. exists x. split; [exact Hin|apply Nat.eqb_refl].
Qed.
Lemma mem_app x a b : mem x (a ++ b) = mem x a || mem x b.
Proof. unfold mem. apply existsb_app. Qed.
Lemma live_snoc cq en j : ~ In j cq -> live cq (en ++ [j]) = live cq en ++ [j].
Proof.
  intros Hn. unfold live. rewrite filter_app. simpl.
  destruct (mem j cq) eqn:E; [apply mem_in in E; contradiction|reflexivity].
Qed.
Lemma live_cancel cq en j : live (cq ++ [j]) en = remove_id j (live cq en).
Proof.
  unfold live, remove_id. induction en as [|x en IH]; [reflexivity|]. simpl.
  rewrite mem_app. simpl. rewrite orb_false_r.
  destruct (mem x cq) eqn:E1; simpl; [exact IH|].
  rewrite ?(Nat.eqb_sym x j). destruct (Nat.eqb j x); simpl; rewrite IH; reflexivity.
Qed.
Lemma remove_id_app j a b : remove_id j (a ++ b) = remove_id j a ++ remove_id j b.
Proof. apply filter_app. Qed.
Lemma remove_id_notin j a : ~ In j a -> remove_id j a = a.
Proof.
  induction a as [|x a IH]; [reflexivity|]. simpl. intros Hn.
  destruct (Nat.eqb x j) eqn:E; [apply Nat.eqb_eq in E; subst; exfalso; apply Hn; left; reflexivity|].
  simpl. f_equal. apply IH. intros Hx. apply Hn. right. exact Hx.
Qed.
Lemma nodup_app_disj (a b : list nat) x : NoDup (a ++ b) -> In x b -> ~ In x a.
Proof.
  induction a as [|y a IH]; simpl; [auto|]. intros Hn Hb [->|Ha].
  - inversion Hn as [|? ? Hni _]. apply Hni. apply in_or_app. right. exact Hb.
  - inversion Hn as [|? ? _ Hn2]. apply (IH Hn2 Hb Ha).
Qed.
Lemma nodup_snoc (a : list nat) x : NoDup a -> ~ In x a -> NoDup (a ++ [x]).
Proof.
  induction a as [|y a IH]; simpl; intros Hn Hx; [constructor; [intros []|constructor]|].
  inversion Hn as [|? ? Hy Hn2]. constructor.
  - intros Hin. apply in_app_or in Hin. destruct Hin as [Hin|[->|[]]]; [contradiction|apply Hx; left; reflexivity].
  - apply IH; [exact Hn2|intros Hin; apply Hx; right; exact Hin].
Qed.
Lemma live_nodup cq en : NoDup en -> NoDup (live cq en).
Proof. apply NoDup_filter. Qed.

Lemma do_xsec_invF s t s' : InvF s -> do_xsec s t = Some s' -> InvF s'.
Proof.
  intros IF Hx. unfold do_xsec in Hx. brk Hx; inv_some Hx; [| |fv s].
  - (* enqueue *)
    apply invF_iff.
    match goal with |- InvFv (fview (log (set_prog ?s1 t ?p) ?h)) =>
      assert (Ev : fview (log (set_prog s1 t p) h)
               = (enqs (hist s) ++ [nfut s], pops (hist s), dsubs (hist s), cancq (hist s), qu s ++ [nfut s], inloop s, hadm s,
                  ds_of (thr s H), S (nfut s))) end.
    { unfold fview at 1. simpl. unfold set_prog, inloop. simpl.
      destruct (Nat.eq_dec t H) as [->|Hn].
      - rewrite ?upd_same, ?ds_of_norm. match goal with E : thr s H = _ |- _ => rewrite E end. reflexivity.
      - rewrite upd_other by (intro; apply Hn; auto). reflexivity. }
    rewrite Ev. apply invF_iff in IF. unfold fview, InvFv in *. destruct IF as [F1 [F2 [F3 [F4 [F5 F6]]]]].
    assert (Hfresh : ~ In (nfut s) (enqs (hist s))) by (intros Hin; apply F5 in Hin; lia).
    repeat split; auto.
    + rewrite live_snoc by (intros Hin; apply Hfresh; auto). rewrite F1. rewrite app_assoc. reflexivity.
    + apply nodup_snoc; auto.
    + intros j Hin. apply in_app_or in Hin. destruct Hin as [Hin|[<-|[]]]; [apply F5 in Hin; lia|lia].
    + intros j Hin. apply in_or_app. left. auto.
  - (* cancel of a queued future *)
    apply invF_iff.
    match goal with |- InvFv (fview (log (set_prog ?s1 t ?p) ?h)) =>
      assert (Ev : fview (log (set_prog s1 t p) h)
                 = (enqs (hist s), pops (hist s), dsubs (hist s), cancq (hist s) ++ [j], remove_id j (qu s), inloop s, hadm s,
                    ds_of (thr s H), nfut s)) end.
    { unfold fview at 1. simpl. unfold set_prog, inloop. simpl.
      destruct (Nat.eq_dec t H) as [->|Hn].
      - rewrite ?upd_same, ?ds_of_norm. match goal with E : thr s H = _ |- _ => rewrite E end. reflexivity.
      - rewrite upd_other by (intro; apply Hn; auto). reflexivity. }
    rewrite Ev. apply invF_iff in IF. unfold fview, InvFv in *. destruct IF as [F1 [F2 [F3 [F4 [F5 F6]]]]].
    match goal with E : mem j (qu s) = true |- _ => apply mem_in in E; rename E into Hq end.
    assert (Hnp : ~ In j (pops (hist s))).
    { apply (nodup_app_disj _ (qu s)); [rewrite <- F1; apply live_nodup; exact F4|exact Hq]. }
    repeat split; auto.
    + rewrite live_cancel, F1, remove_id_app, (remove_id_notin _ _ Hnp). reflexivity.
    + intros j0 Hin. apply in_app_or in Hin. destruct Hin as [Hin|[<-|[]]]; [auto|].
      assert (Hl : In j (live (cancq (hist s)) (enqs (hist s)))) by (rewrite F1; apply in_or_app; right; exact Hq).
      unfold live in Hl. apply filter_In in Hl. tauto.
Qed.

Ltac t_is_H :=
  repeat match goal with
  | E : _ && _ = true |- _ => let A := fresh "Ha" in let B := fresh "Hb" in apply andb_prop in E; destruct E as [A B]
  | E : _ || _ = false |- _ => let A := fresh "Ha" in let B := fresh "Hb" in apply orb_false_elim in E; destruct E as [A B]
  | E : negb _ = false |- _ => apply negb_false_iff in E
  end;
  match goal with E : Nat.eqb ?t H = true |- _ => apply Nat.eqb_eq in E; subst t end.

Lemma do_xacq_invF s t s' : InvF s -> do_xacq s t = Some s' -> InvF s'.
Proof.
  intros IF Hx. unfold do_xacq in Hx. brk Hx. inv_some Hx. t_is_H.
  apply invF_iff. apply invF_iff in IF. unfold fview, InvFv, inloop, set_prog in *. simpl.
  match goal with E : thr s H = _ |- _ => rewrite E in IF end. simpl in IF.
  destruct IF as [F1 [F2 [F3 [F4 [F5 F6]]]]].
  match goal with E : free (xown s) = true |- _ => unfold free in E; destruct (xown s) eqn:Ex; [discriminate|] end.
  simpl in F2. rewrite upd_same. destruct (qu s); simpl; auto 7.
  destruct (hlim s); simpl; auto 7.
Qed.

Lemma do_relx_invF s t s' : InvF s -> do_relx s t = Some s' -> InvF s'.
Proof.
  intros IF Hx. unfold do_relx in Hx. brk Hx. inv_some Hx. t_is_H.
  apply invF_iff. apply invF_iff in IF. unfold fview, InvFv, inloop, set_prog in *. simpl.
  match goal with E : thr s H = _ |- _ => rewrite E in IF end.
  match goal with E : owned (xown s) H = true |- _ => rewrite E in IF end. simpl in IF.
  destruct IF as [F1 [F2 [F3 [F4 [F5 F6]]]]].
  rewrite upd_same, ds_of_norm, ds_of_app, ds_of_map. simpl. rewrite (F3 eq_refl) in *.
  repeat split; auto; discriminate.
Qed.

Lemma do_pop_invF s t s' : InvF s -> do_pop s t = Some s' -> InvF s'.
Proof.
  intros IF Hx. unfold do_pop in Hx. brk Hx. inv_some Hx. t_is_H.
  apply invF_iff. apply invF_iff in IF. unfold fview, InvFv, inloop, set_prog in *. simpl.
  match goal with E : thr s H = _ |- _ => rewrite E in IF end.
  match goal with E : owned (xown s) H = true |- _ => rewrite E in *  end.
  match goal with E : qu s = _ |- _ => rewrite E in IF end. simpl in IF.
  destruct IF as [F1 [F2 [F3 [F4 [F5 F6]]]]].
  rewrite upd_same, ds_of_norm. rewrite (F3 eq_refl) in *.
  repeat split; auto.
  - rewrite F1, <- app_assoc. reflexivity.
  - rewrite F2, !app_nil_r, app_assoc. reflexivity.
Qed.

Lemma do_dsubmit_invF s t d i s' : InvF s -> do_dsubmit s t d i = Some s' -> InvF s'.
Proof.
  intros IF Hx. unfold do_dsubmit in Hx.
  destruct (thr s t) as [|i0 rest] eqn:Et; [discriminate|]. destruct i0; try discriminate.
  destruct (negb (Nat.eqb d (ndel s)) || negb (Nat.eqb t H) || owned (xown s) t) eqn:Eg; [discriminate|].
  apply orb_false_elim in Eg. destruct Eg as [Eg Eo]. apply orb_false_elim in Eg. destruct Eg as [_ Eg].
  apply negb_false_iff in Eg. apply Nat.eqb_eq in Eg. subst t.
  apply invF_iff. apply invF_iff in IF. unfold fview, InvFv, inloop in *. rewrite Et, Eo in IF. simpl in IF.
  destruct IF as [F1 [F2 [F3 [F4 [F5 F6]]]]].
  destruct (issome i); inv_some Hx; unfold set_prog; simpl; rewrite ?upd_same, ?Eo; simpl;
    (repeat split; auto; [rewrite F2; simpl; rewrite <- app_assoc; reflexivity | discriminate]).
Qed.

Lemma step0_invF s e s' : InvF s -> step0 s e = Some s' -> InvF s'.
Proof.
  intros IF Hx. destruct e; cbn [step0] in Hx;
  [ eapply do_new_invF | eapply do_hstart_invF | eapply do_exit_invF | eapply do_call_submit_invF
  | eapply do_call_cancel_invF | eapply do_call_shutdown_invF | eapply do_ret_invF | eapply do_acq_g_invF
  | eapply do_rel_g_invF | eapply do_count_invF | eapply do_xsec_invF | eapply do_xacq_invF | eapply do_relx_invF
  | eapply do_rcread_invF | eapply do_pop_invF | eapply do_acq_a_invF | eapply do_rel_a_invF | eapply do_evset_invF
  | eapply do_wait_invF | eapply do_woke_invF | eapply do_clear_invF | eapply do_dsubmit_invF | eapply do_dshutdown_invF
  | eapply do_acq_m_invF | eapply do_rel_m_invF | eapply do_fm_invF | eapply do_fd_invF | eapply do_env_run_invF
  | eapply do_env_finish_invF ]; eassumption.
Qed.

Lemma invF_init : InvF init.
Proof. constructor; simpl; auto; try constructor; intros j []. Qed.

Lemma invF_reachable s : reachable_from step init s -> InvF s.
Proof.
  apply invariant_rule; [exact invF_init|].
  intros s0 [ts e] s' IF Hx. unfold step in Hx. simpl in Hx.
  destruct (tick s0 ts) as [s1|] eqn:Et; [|discriminate].
  eapply step0_invF; [|exact Hx].
  unfold tick in Et. destruct (Z.leb (clock s0) ts); inv_some Et. apply (invF_view s0); [reflexivity|exact IF].
Qed.

(* the delegate receives the queued jobs in enqueue order minus those cancelled while queued: the sequence of
   delegate.submit calls is a prefix of the live enqueue order, the rest being popped-but-pending, then the queue *)
Lemma fifo_handover_lemma s : reachable_from step init s ->
  live (cancq (hist s)) (enqs (hist s)) = dsubs (hist s) ++ pend s ++ qu s.
Proof.
  intros Hr. destruct (invF_reachable s Hr) as [F1 F2 _ _ _ _]. rewrite F1, F2, <- app_assoc. reflexivity.
Qed.
Lemma fifo_queue_lemma s : reachable_from step init s ->
  live (cancq (hist s)) (enqs (hist s)) = pops (hist s) ++ qu s /\ NoDup (enqs (hist s)).
Proof. intros Hr. destruct (invF_reachable s Hr) as [F1 _ _ F4 _ _]. auto. Qed.
