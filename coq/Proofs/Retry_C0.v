(* Frame lemmas and inversion tactics for the Retry machine. *)
From Coq Require Import List ZArith Bool Arith Lia.
From RecordUpdate Require Import RecordSet.
From ME Require Import Base.Machine Base.Fut Base.GenPrelude Gen.RetryGen Model.Retry.
Import ListNotations RecordSetNotations.

Lemma step_split s te s' : step s te = Some s' ->
  exists s1, tick s (fst te) = Some s1 /\ step0 s1 (snd te) = Some s'.
Proof. unfold step. destruct (tick s (fst te)) as [s1|]; [|discriminate]. intros H. eauto. Qed.

Lemma tick_eq s ts s1 : tick s ts = Some s1 -> s1 = s <| clock := ts |>.
Proof. unfold tick. destruct (Z.leb _ _); congruence. Qed.

Lemma thr_set_prog_same s t p : thr (set_prog s t p) t = norm false p.
Proof. unfold set_prog. simpl. apply upd_same. Qed.
Lemma thr_set_prog_other s t p u : u <> t -> thr (set_prog s t p) u = thr s u.
Proof. unfold set_prog. simpl. intros. apply upd_other; auto. Qed.

Lemma thr_set_prog s t p u : thr (set_prog s t p) u = if Nat.eqb u t then norm false p else thr s u.
Proof. reflexivity. Qed.

(* top-level case analysis of step0 *)
Ltac s0step H :=
  repeat match type of H with
  | (match ?x with _ => _ end) = Some _ => destruct x eqn:?; try discriminate H
  end.
Ltac s0inv H := unfold step0 in H; s0step H; inversion H; subst; clear H.

Lemma eqb_t a b : Nat.eqb a b = true -> a = b.
Proof. apply Nat.eqb_eq. Qed.

Lemma upd_lt {A} (f : nat -> A) n x r : r < n -> upd f n x r = f r.
Proof. intros H. apply upd_other. lia. Qed.
