(* C04 / Throttle, part 1: delegate-future ids mentioned in programs and in ThrottleFuture._delegate are allocated. *)
From Coq Require Import ZArith List Bool Arith Lia.
From RecordUpdate Require Import RecordSet.
From ME Require Import Base.Machine Base.Fut Base.GenPrelude Gen.ThrottleGen Model.Throttle Proofs.Throttle_Inv.
Import ListNotations RecordSetNotations.

Definition dok (n : nat) (i : instr) : bool :=
  match i with
  | IAddCb2 d _ | IDCancelledQ _ d | IDCancel _ d | IAcqMSet _ (Some d) => d <? n
  | _ => true
  end.
Definition dbound (n : nat) (p : list instr) : bool := forallb (dok n) p.

Record InvD (s : st) : Prop := {
  d_prog : forall t, dbound (ndel s) (thr s t) = true;
  d_mdel : forall j d, mdel s j = Some d -> d < ndel s
}.

Lemma dbound_app n p q : dbound n (p ++ q) = dbound n p && dbound n q.
Proof. apply forallb_app. Qed.
Lemma dok_mono n n' i : n <= n' -> dok n i = true -> dok n' i = true.
Proof.
  intros Hle. destruct i; simpl; auto; try (intros Hx; apply Nat.ltb_lt in Hx; apply Nat.ltb_lt; lia).
  destruct x; auto. intros Hx; apply Nat.ltb_lt in Hx; apply Nat.ltb_lt; lia.
Qed.
Lemma dbound_mono n n' p : n <= n' -> dbound n p = true -> dbound n' p = true.
Proof.
  intros Hle. induction p as [|i r IH]; simpl; auto. intros Hx. apply andb_prop in Hx. destruct Hx as [A B].
  rewrite (dok_mono n n' i Hle A), (IH B). reflexivity.
Qed.
Lemma dbound_norm n s p : dbound n p = true -> dbound n (norm s p) = true.
Proof.
  destruct p as [|i r]; [auto|]. destruct i; auto. simpl. intros Hx.
  destruct (qu s); [exact Hx|]. destruct (hlim s); exact Hx.
Qed.
Lemma dbound_map_dsubmit n l : dbound n (map IDSubmit l) = true.
Proof. induction l; simpl; auto. Qed.
Lemma dbound_cb_prog n d l : d < n -> dbound n (flat_map (cb_prog d) l) = true.
Proof.
  intros Hd. induction l as [|c l IH]; [reflexivity|]. simpl. rewrite dbound_app, IH.
  destruct c; simpl; [reflexivity|]. apply Nat.ltb_lt in Hd. rewrite Hd. reflexivity.
Qed.
Lemma dbound_cb_prog_held n d l : d < n -> dbound n (flat_map (cb_prog_held d) l) = true.
Proof.
  intros Hd. induction l as [|c l IH]; [reflexivity|]. simpl. rewrite dbound_app, IH.
  destruct c; simpl; [reflexivity|]. apply Nat.ltb_lt in Hd. rewrite Hd. reflexivity.
Qed.
Lemma dbound_setres n j o : dbound n (setres_prog j o) = true.
Proof. destruct o; reflexivity. Qed.

Lemma invD_log s h : InvD s -> InvD (log s h).
Proof. intros [D1 D2]. constructor; simpl; auto. Qed.
(* s1 differs from s outside thr, ndel, mdel *)
Lemma invD_set s s1 t p :
  InvD s -> thr s1 = thr s -> ndel s1 = ndel s -> (forall j d, mdel s1 j = Some d -> d < ndel s) -> dbound (ndel s) p = true -> InvD (set_prog s1 t p).
Proof.
  intros [D1 D2] Ht Hn Hm Hp. unfold set_prog. constructor; simpl; rewrite ?Hn; auto.
  intros u. rewrite Ht. destruct (Nat.eq_dec u t) as [->|Hne]; [rewrite upd_same; apply dbound_norm; exact Hp|].
  rewrite upd_other by exact Hne. apply D1.
Qed.
Lemma invD_sub_check s s1 t v rest :
  InvD s -> thr s1 = thr s -> ndel s1 = ndel s -> (forall j d, mdel s1 j = Some d -> d < ndel s) -> dbound (ndel s) rest = true -> InvD (sub_check s1 t v rest).
Proof.
  intros ID Ht Hn Hm Hp. unfold sub_check.
  destruct (blk s1 && negb (shut s1)); [destruct (block_ready (qlen s1) v) as [[|]|]|];
    repeat apply invD_log; apply (invD_set s); auto; simpl; rewrite ?dbound_app, ?Hp; reflexivity.
Qed.
Lemma invD_after_wait s s1 t k rest :
  InvD s -> thr s1 = thr s -> ndel s1 = ndel s -> (forall j d, mdel s1 j = Some d -> d < ndel s) -> dbound (ndel s) rest = true -> InvD (after_wait s1 t k rest).
Proof. intros ID Ht Hn Hm Hp. destruct k; simpl; [apply (invD_set s)|apply (invD_sub_check s)]; auto. Qed.
Lemma invD_start_iter s s1 t : InvD s -> thr s1 = thr s -> ndel s1 = ndel s -> (forall j d, mdel s1 j = Some d -> d < ndel s) -> InvD (start_iter s1 t).
Proof. intros ID Ht Hn Hm. unfold start_iter. destruct (shut s1); [|destruct (dyn s1)]; apply (invD_set s); auto. Qed.

Ltac dsplit Hs :=
  simpl in Hs;
  repeat match type of Hs with _ && _ = true => let A := fresh "Ha" in apply andb_prop in Hs; destruct Hs as [A Hs] end.
Ltac dgoal ID :=
  let Hs := fresh "Hs" in
  match goal with Et : thr _ ?t = _ :: _ |- _ => pose proof (d_prog _ ID t) as Hs; rewrite Et in Hs end;
  dsplit Hs;
  simpl; rewrite ?dbound_app, ?dbound_map_dsubmit, ?dbound_setres; simpl;
  repeat match goal with A : (_ <? _) = true |- _ => rewrite A; clear A end;
  rewrite ?dbound_app, ?dbound_setres, ?Hs; simpl; rewrite ?Hs; reflexivity.
Ltac dm_goal ID :=
  first [ exact (d_mdel _ ID)
        | let j0 := fresh in let d0 := fresh in let Hm := fresh in
          intros j0 d0; simpl; unfold upd; destruct (Nat.eqb j0 _); [discriminate|apply (d_mdel _ ID)] ].
Ltac dside ID := first [ exact ID | reflexivity | dm_goal ID | dgoal ID ].
Ltac dfin ID s :=
  repeat match goal with |- InvD (log _ _) => apply invD_log end;
  first [ apply (invD_set s) | apply (invD_sub_check s) | apply (invD_after_wait s) | apply (invD_start_iter s) ]; dside ID.
Ltac dhandler ID Hx s := brk Hx; inv_some Hx; dfin ID s.
Lemma do_hstart_invD s  s' : InvD s -> do_hstart s  = Some s' -> InvD s'.
Proof. intros ID Hx. unfold do_hstart in Hx. dhandler ID Hx s. Qed.
Lemma do_exit_invD s  s' : InvD s -> do_exit s  = Some s' -> InvD s'.
Proof. intros ID Hx. unfold do_exit in Hx. dhandler ID Hx s. Qed.
Lemma do_call_submit_invD s t s' : InvD s -> do_call_submit s t = Some s' -> InvD s'.
Proof. intros ID Hx. unfold do_call_submit in Hx. dhandler ID Hx s. Qed.
Lemma do_call_cancel_invD s t j s' : InvD s -> do_call_cancel s t j = Some s' -> InvD s'.
Proof. intros ID Hx. unfold do_call_cancel in Hx. dhandler ID Hx s. Qed.
Lemma do_call_shutdown_invD s t w s' : InvD s -> do_call_shutdown s t w = Some s' -> InvD s'.
Proof. intros ID Hx. unfold do_call_shutdown in Hx. dhandler ID Hx s. Qed.
Lemma do_ret_invD s t c s' : InvD s -> do_ret s t c = Some s' -> InvD s'.
Proof. intros ID Hx. unfold do_ret in Hx. dhandler ID Hx s. Qed.
Lemma do_acq_g_invD s t s' : InvD s -> do_acq_g s t = Some s' -> InvD s'.
Proof. intros ID Hx. unfold do_acq_g in Hx. dhandler ID Hx s. Qed.
Lemma do_rel_g_invD s t s' : InvD s -> do_rel_g s t = Some s' -> InvD s'.
Proof. intros ID Hx. unfold do_rel_g in Hx. dhandler ID Hx s. Qed.
Lemma do_count_invD s t a s' : InvD s -> do_count s t a = Some s' -> InvD s'.
Proof. intros ID Hx. unfold do_count in Hx. dhandler ID Hx s. Qed.
Lemma do_xsec_invD s t s' : InvD s -> do_xsec s t = Some s' -> InvD s'.
Proof. intros ID Hx. unfold do_xsec in Hx. dhandler ID Hx s. Qed.
Lemma do_xacq_invD s t s' : InvD s -> do_xacq s t = Some s' -> InvD s'.
Proof. intros ID Hx. unfold do_xacq in Hx. dhandler ID Hx s. Qed.
Lemma do_relx_invD s t s' : InvD s -> do_relx s t = Some s' -> InvD s'.
Proof. intros ID Hx. unfold do_relx in Hx. dhandler ID Hx s. Qed.
Lemma do_rcread_invD s t x s' : InvD s -> do_rcread s t x = Some s' -> InvD s'.
Proof. intros ID Hx. unfold do_rcread in Hx. dhandler ID Hx s. Qed.
Lemma do_pop_invD s t s' : InvD s -> do_pop s t = Some s' -> InvD s'.
Proof. intros ID Hx. unfold do_pop in Hx. dhandler ID Hx s. Qed.
Lemma do_acq_a_invD s t s' : InvD s -> do_acq_a s t = Some s' -> InvD s'.
Proof. intros ID Hx. unfold do_acq_a in Hx. dhandler ID Hx s. Qed.
Lemma do_rel_a_invD s t s' : InvD s -> do_rel_a s t = Some s' -> InvD s'.
Proof. intros ID Hx. unfold do_rel_a in Hx. dhandler ID Hx s. Qed.
Lemma do_evset_invD s t s' : InvD s -> do_evset s t = Some s' -> InvD s'.
Proof. intros ID Hx. unfold do_evset in Hx. dhandler ID Hx s. Qed.
Lemma do_clear_invD s t s' : InvD s -> do_clear s t = Some s' -> InvD s'.
Proof. intros ID Hx. unfold do_clear in Hx. dhandler ID Hx s. Qed.
Lemma do_dshutdown_invD s t s' : InvD s -> do_dshutdown s t = Some s' -> InvD s'.
Proof. intros ID Hx. unfold do_dshutdown in Hx. dhandler ID Hx s. Qed.
Lemma do_rel_m_invD s t j s' : InvD s -> do_rel_m s t j = Some s' -> InvD s'.
Proof. intros ID Hx. unfold do_rel_m in Hx. dhandler ID Hx s. Qed.
Lemma do_woke_invD s t k s' : InvD s -> do_woke s t k = Some s' -> InvD s'.
Proof. intros ID Hx. unfold do_woke in Hx. dhandler ID Hx s. Qed.
Lemma do_wait_invD s t r s' : InvD s -> do_wait s t r = Some s' -> InvD s'.
Proof. intros ID Hx. unfold do_wait in Hx. dhandler ID Hx s. Qed.
Lemma do_new_invD s b dy v s' : InvD s -> do_new s b dy v = Some s' -> InvD s'.
Proof.
  intros [D1 D2] Hx. unfold do_new in Hx. brk Hx. inv_some Hx. constructor; simpl; auto.
  intros u. destruct (Nat.eq_dec u H) as [->|Hn]; [rewrite upd_same; reflexivity|rewrite upd_other by exact Hn; apply D1].
Qed.
Lemma do_env_run_invD s t d p s' : InvD s -> do_env_run s t d p = Some s' -> InvD s'.
Proof. intros [D1 D2] Hx. unfold do_env_run in Hx. brk Hx; inv_some Hx; constructor; simpl; auto. Qed.
Lemma do_env_finish_invD s t d p o s' : InvD s -> do_env_finish s t d p o = Some s' -> InvD s'.
Proof.
  intros ID Hx. unfold do_env_finish in Hx. brk Hx; inv_some Hx; auto.
  match goal with E : _ && _ && _ = true |- _ => apply andb_prop in E; destruct E as [E _]; apply andb_prop in E; destruct E as [_ E]; apply Nat.ltb_lt in E end.
  apply invD_log. apply (invD_set s); try dside ID. apply dbound_cb_prog. assumption.
Qed.
Lemma do_acq_m_invD s t j s' : InvD s -> do_acq_m s t j = Some s' -> InvD s'.
Proof.
  intros ID Hx. unfold do_acq_m in Hx. brk Hx; inv_some Hx; [dfin ID s|].
  pose proof (d_prog _ ID t) as Hs. match goal with Et : thr _ t = _ :: _ |- _ => rewrite Et in Hs end.
  apply (invD_set s); try reflexivity; try exact ID.
  - intros jj dd. simpl. unfold upd. destruct (Nat.eqb jj j); [|apply (d_mdel _ ID)].
    intros Hq. rewrite Hq in Hs. simpl in Hs. apply andb_prop in Hs. destruct Hs as [Hs _]. apply Nat.ltb_lt in Hs. exact Hs.
  - simpl in Hs. apply andb_prop in Hs. tauto.
Qed.
Lemma do_fm_invD s t op j p s' : InvD s -> do_fm s t op j p = Some s' -> InvD s'.
Proof.
  intros ID Hx. unfold do_fm in Hx. brk Hx; inv_some Hx; try solve [dfin ID s].
  (* cancel() forwards to the delegate future recorded in _delegate *)
  match goal with E : mdel s _ = Some ?d |- _ => pose proof (d_mdel _ ID _ _ E) as Hd; apply Nat.ltb_lt in Hd end.
  apply (invD_set s); dside ID.
Qed.
Lemma clear_del_dview l : forall s,
  thr (clear_del s l) = thr s /\ ndel (clear_del s l) = ndel s /\ (forall j d, mdel (clear_del s l) j = Some d -> mdel s j = Some d).
Proof.
  unfold clear_del. induction l as [|c l IH]; intros s; simpl; [auto|].
  destruct (IH (match c with CbDone => s | CbRes j => s <| mdel := upd (mdel s) j None |> end)) as [A [B C]].
  rewrite A, B. destruct c; simpl in *; repeat split; auto.
  intros j0 d0 Hx. apply C in Hx. unfold upd in Hx. destruct (Nat.eqb j0 j); [discriminate|exact Hx].
Qed.
Lemma do_fd_invD s t op d p s' : InvD s -> do_fd s t op d p = Some s' -> InvD s'.
Proof.
  intros ID Hx. unfold do_fd in Hx.
  destruct (negb (fstate_eqb p (ds s d))); [discriminate|].
  destruct (thr s t) as [|i rest] eqn:Et; [discriminate|].
  pose proof (d_prog _ ID t) as Hs. rewrite Et in Hs.
  destruct i; try discriminate; destruct op as [|[|[|[|[|[|op]]]]]]; try discriminate;
    match type of Hx with (if negb (Nat.eqb d ?x) then _ else _) = _ => destruct (Nat.eqb d x) eqn:Ed; [apply Nat.eqb_eq in Ed; subst|discriminate] end;
    simpl in Hx; dsplit Hs; try match goal with A : (_ <? _) = true |- _ => pose proof A as Hlt; apply Nat.ltb_lt in Hlt end.
  - brk Hx; inv_some Hx; apply (invD_set s); try dside ID; simpl; rewrite ?Hs; reflexivity.
  - brk Hx; inv_some Hx; apply (invD_set s); try dside ID; simpl; rewrite ?Ha, ?Hs; reflexivity.
  - brk Hx; inv_some Hx; apply (invD_set s); try dside ID; rewrite ?dbound_app, ?dbound_setres, ?Hs; reflexivity.
  - brk Hx; inv_some Hx; try (apply (invD_set s); try dside ID; simpl; rewrite ?Hs; reflexivity).
    apply invD_log.
    match goal with |- InvD (set_prog (clear_del ?x ?l) _ _) => destruct (clear_del_dview l x) as [A [B C]] end.
    apply (invD_set s); [exact ID|rewrite A; reflexivity|rewrite B; reflexivity| |].
    + intros jj dd Hm. apply C in Hm. exact (d_mdel _ ID _ _ Hm).
    + rewrite dbound_app, dbound_cb_prog_held by exact Hlt. simpl. exact Hs.
Qed.
Lemma do_dsubmit_invD s t d i s' : InvD s -> do_dsubmit s t d i = Some s' -> InvD s'.
Proof.
  intros ID Hx. unfold do_dsubmit in Hx.
  destruct (thr s t) as [|i0 rest] eqn:Et; [discriminate|]. destruct i0; try discriminate.
  destruct (negb (Nat.eqb d (ndel s)) || negb (Nat.eqb t H) || owned (xown s) t) eqn:Eg; [discriminate|].
  apply orb_false_elim in Eg. destruct Eg as [Eg _]. apply orb_false_elim in Eg. destruct Eg as [Eg _].
  apply negb_false_iff in Eg. apply Nat.eqb_eq in Eg. subst d.
  pose proof (d_prog _ ID t) as Hs. rewrite Et in Hs. simpl in Hs.
  assert (Hrest : dbound (S (ndel s)) rest = true) by (apply (dbound_mono (ndel s)); auto).
  destruct ID as [D1 D2].
  destruct (issome i); inv_some Hx; unfold set_prog; constructor; simpl.
  all: try (intros u; destruct (Nat.eq_dec u t) as [->|Hne];
            [rewrite upd_same; simpl; rewrite Nat.ltb_irrefl || rewrite (proj2 (Nat.ltb_lt _ _) (Nat.lt_succ_diag_r _)); simpl; exact Hrest
            |rewrite upd_other by exact Hne; apply (dbound_mono (ndel s)); auto]).
  all: intros j0 d0 Hm; apply D2 in Hm; lia.
Qed.

Lemma step0_invD s e s' : InvD s -> step0 s e = Some s' -> InvD s'.
Proof.
  intros ID Hx. destruct e; cbn [step0] in Hx;
  [ eapply do_new_invD | eapply do_hstart_invD | eapply do_exit_invD | eapply do_call_submit_invD
  | eapply do_call_cancel_invD | eapply do_call_shutdown_invD | eapply do_ret_invD | eapply do_acq_g_invD
  | eapply do_rel_g_invD | eapply do_count_invD | eapply do_xsec_invD | eapply do_xacq_invD | eapply do_relx_invD
  | eapply do_rcread_invD | eapply do_pop_invD | eapply do_acq_a_invD | eapply do_rel_a_invD | eapply do_evset_invD
  | eapply do_wait_invD | eapply do_woke_invD | eapply do_clear_invD | eapply do_dsubmit_invD | eapply do_dshutdown_invD
  | eapply do_acq_m_invD | eapply do_rel_m_invD | eapply do_fm_invD | eapply do_fd_invD | eapply do_env_run_invD
  | eapply do_env_finish_invD ]; eassumption.
Qed.
Lemma invD_reachable s : reachable_from step init s -> InvD s.
Proof.
  apply invariant_rule; [constructor; simpl; auto; discriminate|].
  intros s0 [ts e] s' ID Hx. unfold step in Hx. simpl in Hx.
  destruct (tick s0 ts) as [s1|] eqn:Et; [|discriminate].
  eapply step0_invD; [|exact Hx].
  unfold tick in Et. destruct (Z.leb (clock s0) ts); inv_some Et. destruct ID as [D1 D2]. constructor; simpl; auto.
Qed.
