(* C02 / Throttle, part P1: InvP is preserved by the handlers that do not touch a throttle future's state. *)
From Coq Require Import ZArith List Bool Arith Lia.
From RecordUpdate Require Import RecordSet.
From ME Require Import Base.Machine Base.Fut Base.GenPrelude Gen.ThrottleGen Model.Throttle
  Proofs.Throttle_Inv Proofs.Throttle_L1b Proofs.Proto_Throttle_P.
Import ListNotations RecordSetNotations.

Ltac eqs :=
  repeat match goal with
         | E : Nat.eqb _ _ = true |- _ => apply Nat.eqb_eq in E; subst
         | E : negb (Nat.eqb _ _) = false |- _ => apply negb_false_iff in E; apply Nat.eqb_eq in E; subst
         | E : negb (Nat.eqb _ _) || _ = false |- _ => apply orb_false_elim in E; destruct E
         end.
Ltac pok_side :=
  let Hk := fresh "Hk" in
  intros Hk; simpl in Hk; simpl;
  repeat match type of Hk with _ && _ = true => let A := fresh "A" in apply andb_prop in Hk; destruct Hk as [A Hk] end;
  repeat match goal with A : (_ <? _) = true |- _ => rewrite A end; reflexivity.
Ltac prefix_of p rest :=
  match p with
  | rest => constr:(@nil instr)
  | ?a ++ rest => constr:(a)
  | ?a :: ?q => let r := prefix_of q rest in constr:(a :: r)
  end.
(* head outside every cancel program *)
Ltac nc_step IP s :=
  match goal with
  | Et : thr s ?t = ?i :: ?rest |- InvP (set_prog ?s1 ?t ?p) =>
      let pre := prefix_of p rest in
      change (InvP (set_prog s1 t (pre ++ rest)));
      apply (invP_nc s s1 t i rest pre IP); [reflexivity|reflexivity|exact Et|reflexivity|reflexivity|pok_side|reflexivity]
  | Et : thr s ?t = ?i :: ?rest |- InvP (sub_check ?s1 ?t ?v ?rest) =>
      apply (invP_sub_check s s1 t i v rest IP); [reflexivity|reflexivity|exact Et|reflexivity|reflexivity]
  | Et : thr s ?t = ?i :: ?rest |- InvP (after_wait ?s1 ?t ?k ?rest) =>
      apply (invP_after_wait s s1 t i k rest IP); [reflexivity|reflexivity|exact Et|reflexivity|reflexivity]
  | Et : thr s ?t = [?i] |- InvP (start_iter ?s1 ?t) =>
      apply (invP_start_iter s s1 t i IP); [reflexivity|reflexivity|exact Et|reflexivity|reflexivity]
  end.
(* neutral head *)
Ltac both_step IP s :=
  match goal with
  | Et : thr s ?t = ?i :: ?rest |- InvP (set_prog ?s1 ?t ?p) =>
      let pre := prefix_of p rest in
      change (InvP (set_prog s1 t (pre ++ rest)));
      apply (invP_both s s1 t [i] rest pre IP); [reflexivity|reflexivity|exact Et|discriminate|reflexivity|pok_side|reflexivity]
  end.
Ltac logs := repeat match goal with |- InvP (log _ _) => apply invP_log end.
Ltac nc_handler IP Hx s := brk Hx; inv_some Hx; eqs; logs; nc_step IP s.

Lemma idle_nil s t : idle s t = true -> thr s t = [].
Proof. unfold idle. intros Hx. destruct (thr s t); [reflexivity|]. rewrite andb_false_r in Hx. discriminate. Qed.

Lemma do_new_invP s b dy v s' : InvP s -> do_new s b dy v = Some s' -> InvP s'.
Proof.
  intros IP Hx. unfold do_new in Hx. brk Hx. inv_some Hx.
  match goal with E : _ || _ = false |- _ => apply orb_false_elim in E; destruct E as [_ E]; apply negb_false_iff in E end.
  assert (Et : thr s H = []) by (destruct (thr s H); [reflexivity|discriminate]).
  change (InvP (set_prog (s <| started := true |> <| blk := b |> <| dyn := dy |> <| last := v |>) H [IHStart])).
  apply (invP_idle s); auto.
Qed.
Lemma do_hstart_invP s s' : InvP s -> do_hstart s = Some s' -> InvP s'.
Proof. intros IP Hx. unfold do_hstart in Hx. nc_handler IP Hx s. Qed.
Lemma do_exit_invP s s' : InvP s -> do_exit s = Some s' -> InvP s'.
Proof. intros IP Hx. unfold do_exit in Hx. nc_handler IP Hx s. Qed.
Lemma do_call_submit_invP s t s' : InvP s -> do_call_submit s t = Some s' -> InvP s'.
Proof.
  intros IP Hx. unfold do_call_submit in Hx. brk Hx. inv_some Hx.
  apply (invP_idle s); auto. apply idle_nil. assumption.
Qed.
Lemma do_call_shutdown_invP s t w s' : InvP s -> do_call_shutdown s t w = Some s' -> InvP s'.
Proof.
  intros IP Hx. unfold do_call_shutdown in Hx. brk Hx. inv_some Hx.
  apply (invP_idle s); auto. apply idle_nil. assumption.
Qed.
Lemma do_acq_g_invP s t s' : InvP s -> do_acq_g s t = Some s' -> InvP s'.
Proof. intros IP Hx. unfold do_acq_g in Hx. brk Hx; inv_some Hx; eqs; logs; try nc_step IP s. Qed.
Lemma do_rel_g_invP s t s' : InvP s -> do_rel_g s t = Some s' -> InvP s'.
Proof. intros IP Hx. unfold do_rel_g in Hx. nc_handler IP Hx s. Qed.
Lemma do_count_invP s t a s' : InvP s -> do_count s t a = Some s' -> InvP s'.
Proof. intros IP Hx. unfold do_count in Hx. nc_handler IP Hx s. Qed.
Lemma do_xacq_invP s t s' : InvP s -> do_xacq s t = Some s' -> InvP s'.
Proof. intros IP Hx. unfold do_xacq in Hx. nc_handler IP Hx s. Qed.
Lemma do_rcread_invP s t x s' : InvP s -> do_rcread s t x = Some s' -> InvP s'.
Proof. intros IP Hx. unfold do_rcread in Hx. nc_handler IP Hx s. Qed.
Lemma do_pop_invP s t s' : InvP s -> do_pop s t = Some s' -> InvP s'.
Proof. intros IP Hx. unfold do_pop in Hx. nc_handler IP Hx s. Qed.
Lemma do_dshutdown_invP s t s' : InvP s -> do_dshutdown s t = Some s' -> InvP s'.
Proof. intros IP Hx. unfold do_dshutdown in Hx. nc_handler IP Hx s. Qed.
Lemma do_wait_invP s t r s' : InvP s -> do_wait s t r = Some s' -> InvP s'.
Proof. intros IP Hx. unfold do_wait in Hx. nc_handler IP Hx s. Qed.
Lemma do_woke_invP s t k s' : InvP s -> do_woke s t k = Some s' -> InvP s'.
Proof. intros IP Hx. unfold do_woke in Hx. nc_handler IP Hx s. Qed.
Lemma do_clear_invP s t s' : InvP s -> do_clear s t = Some s' -> InvP s'.
Proof. intros IP Hx. unfold do_clear in Hx. nc_handler IP Hx s. Qed.
Lemma do_dsubmit_invP s t d i s' : InvP s -> do_dsubmit s t d i = Some s' -> InvP s'.
Proof. intros IP Hx. unfold do_dsubmit in Hx. brk Hx; inv_some Hx; eqs; destruct i; simpl; logs; nc_step IP s. Qed.

Lemma do_relx_invP s t s' : InvB s -> InvP s -> do_relx s t = Some s' -> InvP s'.
Proof.
  intros IB IP Hx. unfold do_relx in Hx. brk Hx. inv_some Hx.
  match goal with Et : thr s t = ?i :: ?rest |- InvP (set_prog ?s1 _ _) =>
    replace (map IDSubmit (hadm s) ++ IRcRead RWait :: rest) with ((map IDSubmit (hadm s) ++ [IRcRead RWait]) ++ rest)
      by (rewrite <- app_assoc; reflexivity);
    apply (invP_nc s s1 t i rest _ IP); [reflexivity|reflexivity|exact Et|reflexivity|reflexivity| |]
  end.
  - intros _. rewrite forallb_app, (pok_map_dsubmit _ _ (b_hadm _ IB)). reflexivity.
  - rewrite forallb_app, nonc_map_dsubmit. reflexivity.
Qed.

(* neutral heads *)
Lemma do_evset_invP s t s' : InvP s -> do_evset s t = Some s' -> InvP s'.
Proof. intros IP Hx. unfold do_evset in Hx. brk Hx; inv_some Hx; eqs; both_step IP s. Qed.
Lemma do_rel_a_invP s t s' : InvP s -> do_rel_a s t = Some s' -> InvP s'.
Proof. intros IP Hx. unfold do_rel_a in Hx. brk Hx; inv_some Hx; eqs; both_step IP s. Qed.
Lemma do_acq_a_invP s t s' : InvP s -> do_acq_a s t = Some s' -> InvP s'.
Proof. intros IP Hx. unfold do_acq_a in Hx. brk Hx; inv_some Hx; eqs; logs; first [nc_step IP s|both_step IP s]. Qed.
Lemma do_acq_m_invP s t j s' : InvP s -> do_acq_m s t j = Some s' -> InvP s'.
Proof. intros IP Hx. unfold do_acq_m in Hx. brk Hx; inv_some Hx; eqs; first [both_step IP s|nc_step IP s]. Qed.
Lemma do_rel_m_invP s t j s' : InvP s -> do_rel_m s t j = Some s' -> InvP s'.
Proof. intros IP Hx. unfold do_rel_m in Hx. brk Hx; inv_some Hx; eqs; both_step IP s. Qed.

Lemma do_env_run_invP s t d p s' : InvP s -> do_env_run s t d p = Some s' -> InvP s'.
Proof. intros IP Hx. unfold do_env_run in Hx. brk Hx; inv_some Hx; auto. apply (invP_view s); auto. Qed.
Lemma do_env_finish_invP s t d p o s' : InvB s -> InvP s -> do_env_finish s t d p o = Some s' -> InvP s'.
Proof.
  intros IB IP Hx. unfold do_env_finish in Hx. brk Hx; inv_some Hx; auto. logs.
  apply (invP_idle s); auto.
  - apply idle_nil. match goal with E : _ && _ && _ = true |- _ => apply andb_prop in E; destruct E as [E _]; apply andb_prop in E; tauto end.
  - apply pok_cb_prog. exact (b_dcbs _ IB d).
  - apply nonc_cb_prog.
Qed.
