(* C07 / Throttle, token invariant (part 4: the invariant holds in every reachable state; the number of
   delegate futures in flight never exceeds the running count; consequence at the admission instants). *)
From Coq Require Import ZArith List Bool Arith Lia.
From RecordUpdate Require Import RecordSet.
From ME Require Import Base.Machine Base.Fut Base.GenPrelude Gen.ThrottleGen Model.Throttle
  Proofs.Throttle_Spec Proofs.Throttle_Inv Proofs.Throttle_Tok Proofs.Throttle_TokA Proofs.Throttle_TokB.
Import ListNotations RecordSetNotations.
Local Open Scope Z_scope.

(* the thread that performs the event *)
Definition ev_thr (e : ev) : nat :=
  match e with
  | ENew _ _ _ | EHStart | EExit => H
  | ECallSubmit t | ECallCancel t _ | ECallShutdown t _ | ERet t _ | EAcqG t | ERelG t | ECount t _ | EXSec t
  | EXAcq t | ERelX t | ERcRead t _ | EPop t | EAcqA t | ERelA t | EEvSet t | EWait t _ | EWoke t _ | EClear t
  | EDSubmit t _ _ | EDShutdown t | EAcqM t _ | ERelM t _ | EFM t _ _ _ | EFD t _ _ _ | EEnvRun t _ _
  | EEnvFinish t _ _ _ => t
  end.

Lemma step0_invN N s e s' : InvA s -> InvN N s -> (ev_thr e < N)%nat -> step0 s e = Some s' -> InvN N s'.
Proof.
  intros IA I Ht Hx. destruct e; cbn [step0] in Hx; cbn [ev_thr] in Ht;
  [ eapply do_new_invK | eapply do_hstart_invK | eapply do_exit_invK | eapply do_call_submit_invK
  | eapply do_call_cancel_invK | eapply do_call_shutdown_invK | eapply do_ret_invK | eapply do_acq_g_invK
  | eapply do_rel_g_invK | eapply do_count_invK | eapply do_xsec_invK | eapply do_xacq_invK
  | eapply (do_relx_invK N s t s' IA) | eapply do_rcread_invK | eapply do_pop_invK | eapply do_acq_a_invK
  | eapply do_rel_a_invK | eapply do_evset_invK | eapply do_wait_invK | eapply do_woke_invK | eapply do_clear_invK
  | eapply do_dsubmit_invK | eapply do_dshutdown_invK | eapply do_acq_m_invK | eapply do_rel_m_invK
  | eapply do_fm_invK | eapply do_fd_invK | eapply do_env_run_invK | eapply do_env_finish_invK ]; eassumption.
Qed.

Lemma tick_invN N s ts s1 : InvN N s -> tick s ts = Some s1 -> InvN N s1.
Proof.
  intros [S1 R1 L1 D1 F1] Hx. unfold tick in Hx. destruct (Z.leb (clock s) ts); inv_some Hx. constructor; auto.
Qed.

Lemma invN_init : InvN 0 init.
Proof.
  constructor; simpl; auto; try lia.
  intros t d Hp. unfold cP in Hp. simpl in Hp. lia.
Qed.

Lemma step_invK s te s' : InvA s -> InvK s -> step s te = Some s' -> InvK s'.
Proof.
  intros IA [N0 I0] Hx. destruct te as [ts e]. unfold step in Hx. simpl in Hx.
  destruct (tick s ts) as [s1|] eqn:Et; [|discriminate].
  exists (Nat.max N0 (S (ev_thr e))).
  apply (step0_invN (Nat.max N0 (S (ev_thr e))) s1 e s'); [eapply tick_invA; eauto| |lia|exact Hx].
  eapply tick_invN; [|exact Et]. eapply invN_mono; [exact I0|lia].
Qed.

Theorem invK_reachable s : reachable_from step init s -> InvK s.
Proof.
  apply invariant_rule_r; [exists 0%nat; exact invN_init|].
  intros s0 te s' Hr IK Hx. eapply step_invK; [apply invA_reachable; exact Hr|exact IK|exact Hx].
Qed.

(* ---- the theorem ------------------------------------------------------------------------------------ *)
(* delegate futures created and not yet done *)
Definition inflight (s : st) : Z :=
  Z.of_nat (length (filter (fun d => negb (fdone (ds s d))) (seq 0 (ndel s)))).
(* jobs the hand-over thread has committed to (running count incremented) and not yet handed to delegate.submit:
   its local list to_submit while it is in the admission loop (less the job popped but not yet counted), afterwards
   the pending delegate.submit calls *)
Definition committed (s : st) : Z := Q s.

Lemma committed_nonneg s : 0 <= committed s.
Proof. apply Q_nonneg. Qed.

Lemma invN_inflight N s : InvN N s -> inflight s + committed s <= running s.
Proof.
  intros [S1 R1 L1 D1 F1]. unfold inflight, committed.
  assert (Hc : Z.of_nat (length (filter (fun d => negb (fdone (ds s d))) (seq 0 (ndel s)))) <= sumT (ndel s) (tokN N s)).
  { apply filter_count_le.
    - intros d _. apply tokN_nonneg.
    - intros d Hd Hg. apply L1; [exact Hd|]. apply negb_true_iff in Hg. exact Hg. }
  lia.
Qed.

(* futures in flight + jobs committed but not yet submitted <= running count *)
Theorem inflight_committed_lemma s : reachable_from step init s -> inflight s + committed s <= running s.
Proof. intros Hr. destruct (invK_reachable s Hr) as [N I]. exact (invN_inflight N s I). Qed.

(* (1) the number of delegate futures created and not yet done never exceeds the running count.
   This is the literal statement of the TODO-PROOF c07_inflight_true in Props/C07.v; it holds as it stands in the
   model, no weakening is needed: the increment (IAcqA AIncr, in the X-section) precedes the delegate.submit of
   the same job, so a future is created only against a count already taken (the term `committed`); a future the
   delegate runs inline (EDSubmit with an outcome) is created done and is not counted on the left while its token
   (IAddCb1 d) still holds the count; a future the environment finishes or a canceller cancels before
   add_done_callback(_delegate_future_done) has run keeps its token in IAddCb1 d, and add_done_callback on a done
   future turns it into the pending decrement; the decrement itself (IAcqA (ADecr d)) is only ever pending for a
   done future (decr_only_when_done_lemma), so it never removes the token of a future still in flight. *)
Theorem inflight_true_lemma s : reachable_from step init s ->
  Z.of_nat (length (filter (fun d => negb (fdone (ds s d))) (seq 0 (ndel s)))) <= running s.
Proof.
  intros Hr. pose proof (inflight_committed_lemma s Hr) as P1. pose proof (committed_nonneg s) as P2.
  unfold inflight in P1. lia.
Qed.

(* every not-done delegate future still owns its decrement token, and a pending decrement belongs to a done
   future (the callback _delegate_future_done never runs early) *)
Theorem decr_only_when_done_lemma s : reachable_from step init s ->
  forall t d, In (IAcqA (ADecr d)) (thr s t) -> fdone (ds s d) = true.
Proof.
  intros Hr t d Hin. destruct (invK_reachable s Hr) as [N [S1 R1 L1 D1 F1]]. apply (D1 t d).
  clear -Hin. induction (thr s t) as [|i r IH]; [contradiction|]. unfold cP in *. cbn [msum].
  pose proof (wP_nonneg d i) as P1. pose proof (msum_nonneg (wP d) r (wP_nonneg d)) as P2.
  destruct Hin as [->|Hin]; [simpl; rewrite Nat.eqb_refl; lia|]. specialize (IH Hin). lia.
Qed.

(* ---- (2) at the admission instants ------------------------------------------------------------------- *)
(* The hand-over thread commits to a job by _running_count.incr() (history event HAdmit); in the state right
   after it, the delegate futures in flight plus the committed jobs not yet submitted -- the new one included --
   are within the limit of the current iteration. *)
Lemma acq_a_incr_effect s ts tid rest s' :
  step s (ts, EAcqA tid) = Some s' -> thr s tid = IAcqA AIncr :: rest ->
  tid = H /\ hist s' = HAdmit (List.last (hadm s) 0%nat) (running s') (hlim s) ts :: hist s /\
  running s' = running s + 1 /\ hlim s' = hlim s.
Proof.
  unfold step. simpl. unfold tick. destruct (Z.leb (clock s) ts); [|discriminate]. intros Hx Et.
  unfold do_acq_a in Hx. simpl in Hx. rewrite Et in Hx.
  destruct (negb (free (aown s))); [discriminate|].
  destruct (negb (Nat.eqb tid H)) eqn:Eh; [discriminate|]. apply negb_false_iff, Nat.eqb_eq in Eh.
  inv_some Hx. repeat split; auto.
Qed.

Theorem inflight_at_admit_lemma s ts tid rest s' :
  reachable_from step init s -> step s (ts, EAcqA tid) = Some s' -> thr s tid = IAcqA AIncr :: rest ->
  forall t, hlim s = Some t -> inflight s' + committed s' <= t.
Proof.
  intros Hr Hx Et t El.
  destruct (acq_a_incr_effect s ts tid rest s' Hx Et) as [_ [Eh [Er _]]].
  assert (Hr' : reachable_from step init s') by (eapply reachable_step; eauto).
  pose proof (inflight_committed_lemma s' Hr') as P1.
  assert (P2 : running s' <= t).
  { apply (inflight_le_count_lemma s' Hr' (List.last (hadm s) 0%nat) (running s') t ts). rewrite Eh, El. left. reflexivity. }
  lia.
Qed.
