(* C03 / C12 for the Retry machine, part 12: in a quiescent state every in-flight record in _jobs is legitimate
   (delegate future not done, callback registered, retry future not done) or its delegate future was cancelled by
   somebody else (EEnvCancel); hence the only records a done future could still have are idle records of a cancelled
   future, or in-flight records on a foreign-cancelled delegate future. *)
From Coq Require Import List ZArith Bool Arith Lia.
From ME Require Import Base.Machine Base.Fut Base.GenPrelude Gen.RetryGen Model.Retry.
From ME Require Proofs.Retry_InvB0 Proofs.Retry_InvB1 Proofs.Retry_InvB2 Proofs.Retry_InvB3 Proofs.Retry_InvB4
  Proofs.Retry_InvB7 Proofs.Retry_InvB8 Proofs.Retry_InvB.
From ME Require Import Proofs.Retry_C2 Proofs.Retry_C6 Proofs.Retry_C18.
From ME Require Import Proofs.Retry_N0 Proofs.Retry_N1 Proofs.Retry_N2 Proofs.Retry_N5 Proofs.Retry_N9 Proofs.Retry_N10 Proofs.Retry_N11.
Import ListNotations.

Lemma retry_inflight_at_quiescence s tau since : reachable_from step init s -> quiescent s tau since ->
  forall r d, In r (jobs s) -> jdel (recs s r) = Some d ->
  d < ndel s /\
  ((fdone (ds s d) = false /\ dcb s d = true /\ fdone (rs s (jf (recs s r))) = false) \/
   (fcancelled (ds s d) = true /\ envc s d)).
Proof.
  intros R Q r d Hin Hjd. pose proof (quiescent_prog s tau since R Q) as QP.
  assert (NC : forall d r t, chainhd d r (thr s t) = false) by (intros d0 r0 t; destruct (QP t) as [-> | ->]; reflexivity).
  assert (NW : forall r t, wpop r false (thr s t) = false) by (intros r0 t; destruct (QP t) as [-> | ->]; reflexivity).
  pose proof (PI_reach s R) as HP.
  assert (Hr : r < nrec s) by (apply (ri_jobs s (RI_reach s R)); exact Hin).
  destruct (pi_del s HP r d Hr Hjd) as [Hd Ef].
  destruct (R34_reach s R) as [H3 H4].
  split; [exact Hd|].
  destruct (fcancelled (ds s d)) eqn:Ecan.
  { right. split; [reflexivity|]. destruct (H4 r d Hin Hjd Ecan) as [[c W]|E]; [rewrite NW in W; discriminate|exact E]. }
  left.
  assert (Nd : fdone (ds s d) = false).
  { destruct (ds s d) eqn:E; try reflexivity; try discriminate Ecan; exfalso.
    destruct (H3 r d Hin Hjd E) as [t [C|W]]; [rewrite NC in C|rewrite NW in W]; discriminate. }
  split; [exact Nd|].
  assert (Hc : dcb s d = true).
  { destruct (dcb s d) eqn:Ec; [reflexivity|]. destruct (AP_reach s R d Hd Ec) as [t Ht].
    apply (addhd_chainhd d r) in Ht. rewrite NC in Ht. discriminate. }
  split; [exact Hc|].
  pose proof (pi_jf s HP r Hr) as Hj.
  destruct (rs s (jf (recs s r))) eqn:E; try reflexivity; exfalso.
  - assert (C : fcancelled (rs s (jf (recs s r))) = true) by (rewrite E; reflexivity).
    pose proof (D2_reach s R _ Hj C d Hd Ef) as X. congruence.
  - assert (C : fcancelled (rs s (jf (recs s r))) = true) by (rewrite E; reflexivity).
    pose proof (D2_reach s R _ Hj C d Hd Ef) as X. congruence.
  - destruct (Retry_InvB.invAll_reach s R) as (_ & _ & _ & _ & _ & _ & IF).
    destruct (Retry_InvB1.retry_finished_has_final s R _ E) as (o & ts & Hh & _).
    destruct (Retry_InvB8.f_hist _ IF _ o ts Hh) as (d0 & _ & (_ & Q2)).
    apply (Q2 d); [|exact Ef]. split; [exact Hd|]. left. unfold Retry_InvB3.started. rewrite Nd. apply andb_false_r.
Qed.

(* what a done future can still own at quiescence: at most idle records of a CANCELLED future, or an in-flight
   record whose delegate future somebody else cancelled *)
Lemma retry_done_job_residue s tau since : reachable_from step init s -> quiescent s tau since ->
  forall r, In r (jobs s) -> fdone (rs s (jf (recs s r))) = true ->
  (jdel (recs s r) = None /\ fcancelled (rs s (jf (recs s r))) = true) \/
  (exists d, jdel (recs s r) = Some d /\ fcancelled (ds s d) = true /\ envc s d).
Proof.
  intros R Q r Hin Hdn. destruct (jdel (recs s r)) as [d|] eqn:Ed.
  - destruct (retry_inflight_at_quiescence s tau since R Q r d Hin Ed) as (_ & [(_ & _ & X)|(X & Y)]); [congruence|].
    right. exists d. auto.
  - left. split; [reflexivity|]. destruct (rs s (jf (recs s r))) eqn:E; try discriminate Hdn; try reflexivity.
    exfalso. exact (retry_finished_no_idle_job s R _ E r Hin eq_refl Ed).
Qed.
