(* C12 for the Poll machine, part B: the delegate link PollFuture._delegate (field pdel).
   InvL: l_reg   once (j, descriptor) has been appended, _delegate of j is cleared -- or clearing it is the very next
                 step (IAcqMClr j at the head) of the thread that made the append and still holds X;
         l_snap  every future of the snapshot the poll thread works on has its link cleared (the snapshot is taken
                 under X, so outside any _register_poll);
         l_yield / l_raise   hence every future the poll function yielded for, or that a raising poll call had been
                 shown, has its link cleared;
         l_fin   a Finished poll future has an outcome. *)
From Coq Require Import ZArith List Bool Arith Lia.
From RecordUpdate Require Import RecordSet.
From ME Require Import Base.Machine Base.Fut Base.GenPrelude Model.Poll Proofs.Poll_Inv Proofs.Poll_Prov
     Proofs.Poll_Raise Proofs.Poll_NoDup Proofs.Poll_Snap Proofs.Poll_Thms Proofs.Poll_N1 Proofs.Poll_N2 Proofs.Poll_N3 Proofs.Poll_N8 Proofs.Keep_PollA.
Import ListNotations RecordSetNotations.

Definition clearing (s : st) (j : nat) : Prop :=
  exists t r, thr s t = IAcqMClr j :: r /\ xown s = Some t.

Record InvL (s : st) : Prop := {
  l_reg : forall j, 1 <= nreg j (hist s) -> pdel s j = false \/ clearing s j;
  l_snap : forall l, pmode s = PCall l \/ pmode s = PBody l ->
           forall j, In j (map fst l) -> pdel s j = false /\ j < nfut s;
  l_yield : forall j o ts, In (HYield j o ts) (hist s) -> pdel s j = false /\ j < nfut s;
  l_raise : forall e l ts, In (HPollRaise e l ts) (hist s) ->
            forall j, In j (map fst l) -> pdel s j = false /\ j < nfut s;
  l_fin : forall j, ps s j = Finished -> pout s j <> None
}.

Lemma invl_init : InvL init.
Proof.
  constructor; simpl; intros; try tauto; try discriminate; try lia.
  destruct H; discriminate.
Qed.

Lemma fresh_nreg s j : Inv7 s -> 1 <= nreg j (hist s) -> j < nfut s.
Proof.
  intros I7 Hn. destruct (Nat.lt_ge_cases j (nfut s)) as [Hl|Hl]; [exact Hl|].
  destruct (i7_fresh _ I7 j Hl) as [_ [_ Hz]]. lia.
Qed.

(* the program shape at the append *)
Ltac reg_shape IS :=
  try match goal with
  | E : thr ?s ?t = IXAcqReg ?j ?v :: ?rest |- _ =>
      let Hs := fresh "Hs" in let Hnx := fresh "Hnx" in
      pose proof (IS t) as Hs; rewrite E in Hs; simpl in Hs; destruct Hs as [Hnx _];
      destruct rest as [|ihd rest]; [contradiction|]; destruct ihd; try contradiction; simpl in Hnx; subst
  end.

Ltac old_clearing Hw :=
  (* Hw : pdel s j0 = false \/ clearing s j0 (old state) *)
  let Hp := fresh "Hp" in let tw := fresh "tw" in let rw := fresh "rw" in let Hx := fresh "Hx" in
  destruct Hw as [Hp|[tw [rw [Hp Hx]]]];
  [ left; solve [assumption | congruence | reflexivity]
  | try match goal with E : issome (xown _) = false |- _ => rewrite Hx in E; discriminate E end;
    first
    [ (* the thread that is about to clear is the moving thread *)
      match goal with
      | E : thr ?s ?t = _ |- _ =>
          destruct (Nat.eq_dec tw t) as [Heq|Hne];
          [ subst tw; rewrite E in Hp; try discriminate Hp; inversion Hp; subst;
            first [ left; rewrite ?upd_same; reflexivity | exfalso; congruence | contradiction ]
          | right; exists tw, rw; split;
            [ rewrite ?(upd_other _ t _ tw) by assumption; exact Hp
            | first [ exact Hx | exfalso; cleanup; congruence ] ] ]
      end
    | right; exists tw, rw; split; [exact Hp|exact Hx] ] ].

Ltac gL_reg Ir I7 IS :=
  let j0 := fresh "j0" in let Hn := fresh "Hn" in
  reg_shape IS; cleanup;
  intros j0 Hn; pose proof (Ir j0) as Hw; unfold clearing in *; simpl in *;
  try match type of Hn with context [Nat.eqb ?j j0] =>
        destruct (Nat.eq_dec j j0) as [Hjj|Hjj];
        [ subst; right; eexists; eexists; split; [rewrite upd_same; reflexivity|reflexivity]
        | rewrite (proj2 (Nat.eqb_neq j j0) Hjj) in Hn; simpl in Hn ]
      end;
  split_j j0;
  try solve [ exfalso; pose proof (fresh_nreg _ _ I7 Hn); lia
            | left; reflexivity
            | specialize (Hw Hn); old_clearing Hw ].

Ltac gL_snap Ir Is I3 I7 :=
  let l0 := fresh "l0" in let Hm := fresh "Hm" in let j0 := fresh "j0" in let Hj := fresh "Hj" in
  intros l0 Hm j0 Hj;
  try solve [ destruct Hm; discriminate
            | (* the snapshot: taken under X, nobody is inside _register_poll *)
              destruct Hm as [Hm|Hm]; inversion Hm; subst;
              match goal with Hd : descs ?s = descs_of (hist ?s) |- _ => rewrite Hd in Hj end;
              apply in_descs_nreg in Hj; split; [|eapply fresh_nreg; eassumption];
              destruct (Ir _ Hj) as [Hp|[tw [rw [_ Hx]]]]; [exact Hp|];
              match goal with E : issome (xown _) = false |- _ => rewrite Hx in E; discriminate E end
            | pose proof (fun pf => Is _ pf _ Hj) as Ho;
              destruct Ho as [Ho1 Ho2];
              [ first [ exact Hm | destruct Hm as [Hm|Hm]; inversion Hm; subst; auto ] | ];
              simpl in *; split_j j0;
              solve [ split; [first [assumption|reflexivity]|lia] | exfalso; lia ] ].

Ltac gL_yield Is Iy :=
  let j0 := fresh "j0" in let o0 := fresh "o0" in let ts0 := fresh "ts0" in let Hin := fresh "Hin" in
  intros j0 o0 ts0 Hin; simpl in Hin;
  repeat match goal with H : _ \/ _ |- _ => destruct H as [H|H]; try discriminate H end;
  try solve [ pose proof (Iy _ _ _ Hin) as Hold;
              destruct Hold as [Ho1 Ho2]; simpl in *; split_j j0;
              solve [ split; [first [assumption|reflexivity]|lia] | exfalso; lia ]
            | (* yielded just now: the future is in the snapshot *)
              inversion Hin; subst;
              match goal with E : _ && issome (lookup _ _) = true |- _ =>
                apply andb_prop in E; destruct E as [_ E]; apply lookup_some_in in E;
                eapply Is; [right; first [reflexivity|eassumption]|exact E] end ].

Ltac gL_raise Is Ix :=
  let e0 := fresh "e0" in let l0 := fresh "l0" in let ts0 := fresh "ts0" in let Hin := fresh "Hin" in
  let j0 := fresh "j0" in let Hj := fresh "Hj" in
  intros e0 l0 ts0 Hin j0 Hj; simpl in Hin;
  repeat match goal with H : _ \/ _ |- _ => destruct H as [H|H]; try discriminate H end;
  try solve [ pose proof (Ix _ _ _ Hin _ Hj) as Hold;
              destruct Hold as [Ho1 Ho2]; simpl in *; split_j j0;
              solve [ split; [first [assumption|reflexivity]|lia] | exfalso; lia ]
            | inversion Hin; subst; simpl; eapply Is; [right; first [reflexivity|eassumption]|exact Hj] ].

Ltac gL_fin If :=
  let j0 := fresh "j0" in let Hf := fresh "Hf" in
  fst_eqs; intros j0 Hf; pose proof (If j0) as Hold; simpl in *; split_j j0;
  try solve [ discriminate | congruence | auto
            | exfalso; ps_facts; congruence
            | exfalso;
              match goal with
              | E : f_cancel _ = (_, true) |- _ => apply fcancel_true_not_fin in E; destruct E; congruence
              | E : f_srnc _ = Some (_, _) |- _ => apply fsrnc_not_fin in E; destruct E; congruence
              end ].

Ltac invl_fin Ir Is Iy Ix If I3 I7 IS :=
  constructor; simpl in *;
  [ try solve [gL_reg Ir I7 IS] | try solve [gL_snap Ir Is I3 I7] | try solve [gL_yield Is Iy]
  | try solve [gL_raise Is Ix] | try solve [gL_fin If] ].

Lemma invl_step s e s' : Inv3 s -> Inv7 s -> InvS s -> InvL s -> step s e = Some s' -> InvL s'.
Proof.
  destruct e as [ts e]. intros I3 I7 IS I H. apply step_inv in H. destruct H as [s1 [Ht H]].
  assert (I1 : (descs s1 = descs_of (hist s1)) /\ Inv7 s1 /\ InvS s1 /\ InvL s1).
  { pose proof (i3_descs _ I3) as Hd.
    apply tick_inv in Ht. destruct Ht as [[-> _]|[-> _]]; [auto|].
    split; [exact Hd|]. split; [destruct I7; constructor; simpl; auto|]. split; [exact IS|].
    destruct I; constructor; simpl; auto. }
  clear I I3 I7 IS Ht s. destruct I1 as [I3 [I7 [IS [Ir Is Iy Ix If]]]].
  apply step0_inv in H. destruct H as [[c [d [Hev [_ Hs']]]]|[_ [H|[H|H]]]].
  - subst. constructor; simpl; auto.
  - open1 H; norm_eqs; invl_fin Ir Is Iy Ix If I3 I7 IS.
  - open2 H; norm_eqs; invl_fin Ir Is Iy Ix If I3 I7 IS.
  - open3 H; norm_eqs; invl_fin Ir Is Iy Ix If I3 I7 IS.
Qed.

Lemma reach_invl s : reachable s -> InvL s.
Proof.
  apply (invariant_rule_r step InvL init); [exact invl_init|].
  intros x e x' R IL H. eapply invl_step; [apply reach_inv3, R|apply reach_inv7, R|apply reach_invs, R|exact IL|exact H].
Qed.
