(* C12 / Timeout (part F): the wake-up invariant InvW is preserved by every step. *)
From Coq Require Import List ZArith Bool Arith Lia.
From RecordUpdate Require Import RecordSet.
From ME Require Import Base.Machine Base.Fut Base.GenPrelude Gen.TimeoutGen Proofs.Timeout_Spec Model.Timeout Proofs.Timeout_Inv
  Proofs.Keep_Timeout_A Proofs.Keep_Timeout_B Proofs.Keep_Timeout_C Proofs.Keep_Timeout_D Proofs.Keep_Timeout_E.
Import ListNotations RecordSetNotations.
Local Open Scope Z_scope.

Ltac w_generic :=
  match goal with I0 : InvW ?s0, E : thr ?s0 ?t = _ |- _ =>
    eapply (invw_gen s0 _ t);
    [ exact I0
    | simpl; reflexivity
    | intros Ejt; subst;
      first [ exfalso; match goal with E1 : Nat.eqb ?x ?x = false |- _ => rewrite Nat.eqb_refl in E1; discriminate E1 end
            | rewrite E; split; [cls_tac | simpl; intros ? HF; exact (False_ind _ HF)] ]
    | intros ? Hj; left; exact Hj
    | intros ? Hj Hn; left; exact Hn
    | eapply evp_keep;
      [ simpl; reflexivity
      | rewrite E; simpl; first [ intros Hx; exact (False_ind _ Hx) | intros Hx; repeat (destruct Hx as [Hx|Hx]; [discriminate Hx|]); in_tac Hx ]
      | intros ?; rewrite E; apply nb_notwin; reflexivity
      | intros ? Hc; exact Hc ]
    | reflexivity | reflexivity | reflexivity | reflexivity ]
  end.

Lemma evp_evset s t : In IEvSet (thr s t) -> evp s.
Proof. intros Hx. left. exists t. exact Hx. Qed.
Lemma in_cbs_wake j cs : In CbWake cs -> In IEvSet (cbs_prog j cs).
Proof. intros Hin. unfold cbs_prog. apply in_flat_map. exists CbWake. split; [exact Hin|left; reflexivity]. Qed.
Lemma ctl_nil s t i l : InvJS s -> thr s t = i :: l -> isctl i = true -> l = [].
Proof. intros JS E Hi. pose proof (JS t) as A. rewrite E in A. simpl in A. rewrite Hi in A. apply isnil_nil. exact A. Qed.
Lemma sh_next_setter s t j i l : InvSH s -> thr s t = i :: l -> setter j i -> exists r, l = IRelMCbs j :: r.
Proof. intros SH E Hs. destruct (sh_okhd s t _ _ SH E) as [Ho _]. eapply setter_next; eauto. Qed.
Lemma sh_next_cancel s t j l : InvSH s -> thr s t = IFCancel j :: l -> exists r, l = IFSrnc j :: IRelMCbs j :: r.
Proof.
  intros SH E. destruct (sh_okhd s t _ _ SH E) as [Ho Hs]. destruct (cancel_next j l Ho) as [r ->].
  simpl in Hs. apply andb_true_iff in Hs. destruct Hs as [Ho2 _].
  destruct (setter_next j (IFSrnc j) r eq_refl Ho2) as [r2 ->]. exists r2. reflexivity.
Qed.

(* the class of the job thread's program is the same in s' *)
Lemma cls_same s s' t s1 i P l : thr s t = i :: l -> thr s' = upd (thr s) t (stamp s1 P) ->
  lcls P = lcls (i :: l) -> lcls (thr s' jt) = lcls (thr s jt).
Proof.
  intros E ET HP. rewrite ET. unfold upd. destruct (Nat.eqb jt t) eqn:Ej; [|reflexivity].
  apply Nat.eqb_eq in Ej. subst t. rewrite lcls_stamp, HP, E. reflexivity.
Qed.

Lemma invw_step0 s e s' : InvJS s -> InvSH s -> InvRG s -> InvW s -> step0 s e = Some s' -> InvW s'.
Proof.
  intros JS SH RG I H. step0_cases H.
  all: try match goal with E : wait_view _ = _ |- _ => apply wait_view_inv in E; destruct E as [E|[E _]] end.
  all: try solve [ w_generic ].
  all: repeat match goal with E : negb (Nat.eqb _ _) = false |- _ => apply negb_false_iff, Nat.eqb_eq in E; subst end.
  all: try match goal with E : negb (fstate_eqb _ _) = false |- _ => apply pre_eq in E; subst end.
  all: repeat match goal with E : _ && _ = true |- _ =>
         let A := fresh "Ea" in let B := fresh "Eb" in apply andb_true_iff in E; destruct E as [A B] end.
  all: repeat match goal with E : _ || _ = false |- _ =>
         let A := fresh "Ea" in let B := fresh "Eb" in apply orb_false_iff in E; destruct E as [A B] end.
  all: repeat match goal with E : negb (Nat.eqb _ _) = false |- _ => apply negb_false_iff, Nat.eqb_eq in E; subst end.
  all: repeat match goal with E : Nat.eqb _ _ = true |- _ => apply Nat.eqb_eq in E; subst end.
  all: try match goal with I0 : InvW ?s0, E : thr ?s0 _ = _ |- _ => rename E into Et end.
  - (* 1. _jobs.append(job): event.set() follows *)
    eapply (invw_gen s _ t); [exact I|simpl; reflexivity| | | | |reflexivity|reflexivity|reflexivity|reflexivity].
    + intros Ejt. subst. rewrite Et. split; [cls_tac|simpl; intros ? HF; exact (False_ind _ HF)].
    + intros jb Hj. simpl in Hj. apply in_app_or in Hj. destruct Hj as [Hj|Hj]; [left; exact Hj|right].
      apply (evp_evset _ t). simpl. rewrite upd_same. left. reflexivity.
    + intros jb Hj Hn. left. exact Hn.
    + eapply evp_keep; [simpl; reflexivity| | |intros ? Hc; exact Hc].
      * rewrite Et. simpl. intros [Hx|Hx]; [discriminate Hx|auto].
      * intros ?. rewrite Et. apply nb_notwin. reflexivity.
  - (* 2. end of the partition: _jobs = pending *)
    assert (El : l = []) by (eapply (ctl_nil s jt); eauto). subst l.
    assert (Hc0 : lcls (thr s jt) = CPart) by (rewrite Et; reflexivity).
    assert (Hcls : lcls (thr (log (set_prog (s <| xown := None |> <| jobs := l0 |>) jt (map ITCancel l1 ++ [IWaitCalc None]))
                              (HPart (pnow s) l0 l1)) jt) = CAfter).
    { simpl. rewrite upd_same, lcls_stamp, lcls_gen_app by apply gen_map_tc. reflexivity. }
    split; intros Hc; rewrite Hcls in Hc; try discriminate Hc. intros jb Hj. simpl in Hj.
    match goal with E : partition s = (l0, l1) |- _ => unfold partition in E; apply (f_equal fst) in E; simpl in E; subst l0 end.
    apply partition_pending in Hj. destruct Hj as [Hj [Hp _]].
    destruct (w_part _ I Hc0 jb Hj) as [H|[H|[H|[H|H]]]].
    + rewrite Et in H. destruct H.
    + congruence.
    + left. exact H.
    + right. left. exact H.
    + right. right. revert H. eapply evp_keep; [simpl; reflexivity| | |intros ? Hc1; exact Hc1].
      * rewrite Et. simpl. intros [Hx|Hx]; [discriminate Hx|destruct Hx].
      * intros ?. rewrite Et. apply nb_notwin. reflexivity.
  - (* 3. event.set() *)
    assert (Hcls : lcls (thr (set_prog (s <| evf := true |> <| wnotif := issome (wblock s) || wnotif s |>) t l) jt) = lcls (thr s jt)).
    { eapply (cls_same s _ t); [exact Et|simpl; reflexivity|]. cls_tac. }
    split; rewrite Hcls; intros Hc.
    + intros jb Hj. right. left. reflexivity.
    + destruct (w_woke _ I Hc) as [W1 [W2 W3]]. simpl. split; [exact W1|]. split; [reflexivity|].
      intros jb Hj. right. left. destruct (wblock s); [reflexivity|contradiction W1; reflexivity].
    + intros jb Hj. right. right. right. left. reflexivity.
  - (* 4. leave M_j, run the callbacks *)
    match type of Et with thr s ?t0 = IRelMCbs ?jj :: _ => rename t0 into t; rename jj into j end.
    eapply (invw_gen s _ t); [exact I|simpl; reflexivity| | | | |reflexivity|reflexivity|reflexivity|reflexivity].
    + intros Ejt. subst. rewrite Et. split; [cls_tac|simpl; intros ? HF; exact (False_ind _ HF)].
    + intros jb Hj. left. exact Hj.
    + intros jb Hj Hn. left. exact Hn.
    + intros [[tw Hw]|[j' [Hc [tw [r Hw]]]]].
      * left. exists tw. simpl. unfold upd. destruct (Nat.eqb tw t) eqn:E; [|exact Hw].
        apply Nat.eqb_eq in E. subst tw. apply in_evset_stamp. rewrite Et in Hw. destruct Hw as [Hw|Hw]; [discriminate Hw|].
        apply in_or_app. right. exact Hw.
      * destruct (Nat.eq_dec j' j) as [->|Hne].
        -- left. exists t. simpl. rewrite upd_same. apply in_evset_stamp. apply in_or_app. left. apply in_cbs_wake. exact Hc.
        -- right. exists j'. split; [simpl; rewrite upd_other by exact Hne; exact Hc|].
           exists tw, r. simpl. unfold upd. destruct (Nat.eqb tw t) eqn:E; [|exact Hw].
           apply Nat.eqb_eq in E. subst tw. exfalso. rewrite Et in Hw. destruct Hw as [Hw|Hw]; inversion Hw. congruence.
  - (* 5. set_result *)
    match type of Et with thr s _ = IFSetRes ?jj _ :: _ => rename jj into j end.
    destruct (sh_next_setter s t j _ _ SH Et eq_refl) as [r ->].
    eapply (invw_gen s _ t); [exact I|simpl; reflexivity| | | | |reflexivity|reflexivity|reflexivity|reflexivity].
    + intros Ejt. subst. rewrite Et. split; [cls_tac|simpl; intros ? HF; exact (False_ind _ HF)].
    + intros jb Hj. left. exact Hj.
    + intros jb Hj Hn. destruct (Nat.eq_dec (tj_id jb) j) as [Ej|Hne].
      * right. right. exists j. split; [simpl; rewrite <- Ej; apply (g_jobs _ RG); assumption|].
        exists t, r. left. simpl. rewrite upd_same. reflexivity.
      * left. unfold nd. simpl. rewrite upd_other by exact Hne. exact Hn.
    + eapply evp_keep; [simpl; reflexivity| | |intros ? Hc; exact Hc].
      * rewrite Et. simpl. intros [Hx|Hx]; [discriminate Hx|exact Hx].
      * intros ?. rewrite Et. apply nb_notwin. reflexivity.
  - (* 6. set_exception *)
    match type of Et with thr s _ = IFSetExc ?jj _ :: _ => rename jj into j end.
    destruct (sh_next_setter s t j _ _ SH Et eq_refl) as [r ->].
    eapply (invw_gen s _ t); [exact I|simpl; reflexivity| | | | |reflexivity|reflexivity|reflexivity|reflexivity].
    + intros Ejt. subst. rewrite Et. split; [cls_tac|simpl; intros ? HF; exact (False_ind _ HF)].
    + intros jb Hj. left. exact Hj.
    + intros jb Hj Hn. destruct (Nat.eq_dec (tj_id jb) j) as [Ej|Hne].
      * right. right. exists j. split; [simpl; rewrite <- Ej; apply (g_jobs _ RG); assumption|].
        exists t, r. left. simpl. rewrite upd_same. reflexivity.
      * left. unfold nd. simpl. rewrite upd_other by exact Hne. exact Hn.
    + eapply evp_keep; [simpl; reflexivity| | |intros ? Hc; exact Hc].
      * rewrite Et. simpl. intros [Hx|Hx]; [discriminate Hx|exact Hx].
      * intros ?. rewrite Et. apply nb_notwin. reflexivity.
  - (* 7. add_done_callback registers *)
    match type of Et with thr s _ = IDoneA ?jj _ :: _ => rename jj into j end.
    eapply (invw_gen s _ t); [exact I|simpl; reflexivity| | | | |reflexivity|reflexivity|reflexivity|reflexivity].
    + intros Ejt. subst. rewrite Et. split; [cls_tac|simpl; intros ? HF; exact (False_ind _ HF)].
    + intros jb Hj. left. exact Hj.
    + intros jb Hj Hn. left. exact Hn.
    + eapply evp_keep; [simpl; reflexivity| | |].
      * rewrite Et. simpl. intros [Hx|Hx]; [discriminate Hx|auto].
      * intros ?. rewrite Et. apply nb_notwin. reflexivity.
      * intros j' Hc. simpl. unfold upd. destruct (Nat.eqb j' j) eqn:E; [|exact Hc].
        apply Nat.eqb_eq in E. subst j'. apply in_or_app. left. exact Hc.
  - (* 8. Future.cancel *)
    match type of Et with thr s _ = IFCancel ?jj :: _ => rename jj into j end.
    destruct (sh_next_cancel s t j _ SH Et) as [r ->].
    eapply (invw_gen s _ t); [exact I|simpl; reflexivity| | | | |reflexivity|reflexivity|reflexivity|reflexivity].
    + intros Ejt. subst. rewrite Et. split; [cls_tac|simpl; intros ? HF; exact (False_ind _ HF)].
    + intros jb Hj. left. exact Hj.
    + intros jb Hj Hn. destruct (Nat.eq_dec (tj_id jb) j) as [Ej|Hne].
      * right. right. exists j. split; [simpl; rewrite <- Ej; apply (g_jobs _ RG); assumption|].
        exists t, r. right. simpl. rewrite upd_same. reflexivity.
      * left. unfold nd. simpl. rewrite upd_other by exact Hne. exact Hn.
    + eapply evp_keep; [simpl; reflexivity| | |intros ? Hc; exact Hc].
      * rewrite Et. simpl. intros [Hx|Hx]; [discriminate Hx|exact Hx].
      * intros ?. rewrite Et. apply nb_notwin. reflexivity.
  - (* 9. set_running_or_notify_cancel *)
    match type of Et with thr s _ = IFSrnc ?jj :: _ => rename jj into j end.
    destruct (sh_next_setter s t j _ _ SH Et eq_refl) as [r ->].
    assert (Hdj : fdone (rs s j) = true) by (destruct (SH t) as [_ B]; rewrite Et in B; exact B).
    eapply (invw_gen s _ t); [exact I|simpl; reflexivity| | | | |reflexivity|reflexivity|reflexivity|reflexivity].
    + intros Ejt. subst. rewrite Et. split; [cls_tac|simpl; intros ? HF; exact (False_ind _ HF)].
    + intros jb Hj. left. exact Hj.
    + intros jb Hj Hn. left. unfold nd in *. simpl. unfold upd. destruct (Nat.eqb (tj_id jb) j) eqn:E; [|exact Hn].
      apply Nat.eqb_eq in E. rewrite E in Hn. congruence.
    + intros [[tw Hw]|[j' [Hc [tw [r' Hw]]]]].
      * left. exists tw. simpl. unfold upd. destruct (Nat.eqb tw t) eqn:E; [|exact Hw].
        apply Nat.eqb_eq in E. subst tw. rewrite Et in Hw. destruct Hw as [Hw|Hw]; [discriminate Hw|exact Hw].
      * right. exists j'. split; [exact Hc|]. destruct (Nat.eq_dec tw t) as [->|Hne].
        -- rewrite Et in Hw. destruct Hw as [Hw|Hw]; inversion Hw; subst. exists t, r'. left. simpl. rewrite upd_same. reflexivity.
        -- exists tw, r'. simpl. rewrite upd_other by exact Hne. exact Hw.
  - (* 10. the partition reads done() of one job *)
    match type of Et with thr s _ = IPDone ?jj :: _ => rename jj into j end.
    assert (Hcls : lcls (thr (set_prog (s <| pans := upd (pans s) j (fdone (rs s j)) |>) jt l) jt) = lcls (thr s jt)).
    { eapply (cls_same s _ jt); [exact Et|simpl; reflexivity|]. cls_tac. }
    assert (HE : evp s -> evp (set_prog (s <| pans := upd (pans s) j (fdone (rs s j)) |>) jt l)).
    { eapply evp_keep; [simpl; reflexivity| | |intros ? Hc; exact Hc].
      - rewrite Et. simpl. intros [Hx|Hx]; [discriminate Hx|exact Hx].
      - intros ?. rewrite Et. apply nb_notwin. reflexivity. }
    split; rewrite Hcls; intros Hc.
    + intros jb Hj. destruct (w_after _ I Hc jb Hj) as [H|[H|H]]; auto.
    + destruct (w_woke _ I Hc) as [W1 [W2 W3]]. split; [exact W1|]. split; [exact W2|].
      intros jb Hj. destruct (W3 jb Hj) as [H|[H|H]]; auto.
    + intros jb Hj. simpl thr. rewrite upd_same, pdh_stamp. simpl pans. unfold upd.
      destruct (w_part _ I Hc jb Hj) as [H|[H|[H|[H|H]]]]; auto 6.
      * rewrite Et in H. simpl in H. destruct H as [H|H]; [|auto]. subst j. rewrite Nat.eqb_refl.
        destruct (fdone (rs s (tj_id jb))) eqn:Ed; auto.
      * destruct (Nat.eqb (tj_id jb) j) eqn:E; [|auto]. apply Nat.eqb_eq in E. subst j.
        destruct (fdone (rs s (tj_id jb))) eqn:Ed; auto.
  - (* 11. the partition starts: every job is going to be asked *)
    assert (El : l = []) by (eapply (ctl_nil s jt); eauto). subst l.
    assert (Hcls : lcls (thr (set_prog (s <| pnow := w |>) jt (map (fun job : tjob => IPDone (tj_id job)) (jobs s) ++ [IXRelP])) jt) = CPart).
    { simpl. rewrite upd_same, lcls_stamp. rewrite lcls_app by discriminate. reflexivity. }
    split; intros Hc; rewrite Hcls in Hc; try discriminate Hc. intros jb Hj. left.
    simpl thr. rewrite upd_same, pdh_stamp, pdh_pd. apply in_map. exact Hj.
  - (* 12. the job thread blocks in wait(tau) *)
    assert (El : l = []) by (eapply (ctl_nil s jt); eauto). subst l.
    assert (Hc0 : lcls (thr s jt) = CAfter) by (rewrite Et; reflexivity).
    split; simpl thr; rewrite upd_same; intros Hc; try discriminate Hc.
    split; [discriminate|]. split; [discriminate|]. intros jb Hj.
    destruct (w_after _ I Hc0 jb Hj) as [H|[H|H]]; [left; exact H|congruence|right; right].
    revert H. eapply evp_keep; [simpl; reflexivity| | |intros ? Hc1; exact Hc1].
    + rewrite Et. simpl. intros [Hx|Hx]; [discriminate Hx|destruct Hx].
    + intros ?. rewrite Et. apply nb_notwin. reflexivity.
  - assert (El : l = []) by (eapply (ctl_nil s jt); eauto). subst l.
    assert (Hc0 : lcls (thr s jt) = CAfter) by (rewrite Et; reflexivity).
    split; simpl thr; rewrite upd_same; intros Hc; try discriminate Hc.
    split; [discriminate|]. split; [discriminate|]. intros jb Hj.
    destruct (w_after _ I Hc0 jb Hj) as [H|[H|H]]; [left; exact H|congruence|right; right].
    revert H. eapply evp_keep; [simpl; reflexivity| | |intros ? Hc1; exact Hc1].
    + rewrite Et. simpl. intros [Hx|Hx]; [discriminate Hx|destruct Hx].
    + intros ?. rewrite Et. apply nb_notwin. reflexivity.
  - (* 14. the job thread wakes: notified *)
    assert (El : l = []) by (eapply (ctl_nil s jt); eauto). subst l.
    assert (Hc0 : lcls (thr s jt) = CWoke) by (rewrite Et; reflexivity).
    destruct (w_woke _ I Hc0) as [W1 [W2 W3]].
    split; simpl thr; rewrite upd_same; intros Hc; try discriminate Hc.
    intros jb Hj. destruct (W3 jb Hj) as [H|[H|H]]; [left; exact H|right; left; exact (W2 H)|right; right].
    revert H. eapply evp_keep; [simpl; reflexivity| | |intros ? Hc1; exact Hc1].
    + rewrite Et. simpl. intros [Hx|Hx]; [discriminate Hx|destruct Hx].
    + intros ?. rewrite Et. apply nb_notwin. reflexivity.
  - (* 15. ... by timeout *)
    assert (El : l = []) by (eapply (ctl_nil s jt); eauto). subst l.
    assert (Hc0 : lcls (thr s jt) = CWoke) by (rewrite Et; reflexivity).
    destruct (w_woke _ I Hc0) as [W1 [W2 W3]].
    split; simpl thr; rewrite upd_same; intros Hc; try discriminate Hc.
    intros jb Hj. destruct (W3 jb Hj) as [H|[H|H]]; [left; exact H|right; left; exact (W2 H)|right; right].
    revert H. eapply evp_keep; [simpl; reflexivity| | |intros ? Hc1; exact Hc1].
    + rewrite Et. simpl. intros [Hx|Hx]; [discriminate Hx|destruct Hx].
    + intros ?. rewrite Et. apply nb_notwin. reflexivity.
  - (* 16. event.clear(): back at the top of the loop *)
    assert (El : l = []) by (eapply (ctl_nil s jt); eauto). subst l.
    split; simpl thr; rewrite upd_same; intros Hc; discriminate Hc.
  - (* 17. the environment starts a delegate future *)
    destruct I as [WA WW WP]. split; [exact WA|exact WW|exact WP].
Qed.

Lemma invw_init : InvW init.
Proof. split; simpl; intros Hc; discriminate Hc. Qed.

Lemma invw_reach s : reachable_from step init s -> InvW s.
Proof.
  apply invariant_rule_r; [exact invw_init|]. intros s0 e s1 R I H.
  apply step_split in H. destruct H as [_ H].
  eapply (invw_step0 (s0 <| clock := fst e |>)); [| | | |exact H].
  - intros t. exact (invjs_reach s0 R t).
  - intros t. exact (invsh_reach s0 R t).
  - destruct (invrg_reach s0 R) as [G1 G2]. split; [exact G1|exact G2].
  - destruct I as [WA WW WP]. split; [exact WA|exact WW|exact WP].
Qed.
