(* Lockstep of the IR machine (generated combinator programs) and Comb.v: calls, environment completions and EDied in the
   phase after construction. *)
From Coq Require Import List Arith Bool Lia PeanoNat ZArith.
From RecordUpdate Require Import RecordSet.
From ME Require Import Base.Machine Base.Fut Base.GenPrelude Gen.BoolGen Gen.ZipGen Model.Comb Model.CombIR Gen.CombSkel
  Proofs.CombIR_Sim Proofs.CombIR_Sim2 Proofs.CombIR_Sim3 Proofs.CombIR_Sim4 Proofs.CombIR_Sim5 Proofs.CombIR_Sim6.
Import ListNotations RecordSetNotations.

Lemma TR_idle cs p st : TR cs p st -> (p = [] <-> st = []).
Proof. intros [H _]. apply R_thr_idle with cs. exact H. Qed.

(* an environment completion of a pending input keeps every done input as it is *)
Lemma stable_finish cs cs' d n o : ck cs' = ck cs -> inputs cs' = inputs cs ->
  fdone (es cs d) = false ->
  es cs' = upd (es cs) d n -> eout cs' = upd (eout cs) d o -> stable cs cs'.
Proof.
  intros H1 H2 Hp H3 H4. split; [exact H1|]. split; [exact H2|]. intros d0 Hd0. rewrite H3, H4.
  unfold upd. destruct (Nat.eqb d0 d) eqn:E; [|auto]. apply Nat.eqb_eq in E. subst d0. congruence.
Qed.
Lemma f_set_pending pre n : f_set pre = Some n -> fdone pre = false /\ n = Finished.
Proof. destruct pre; simpl; intros H; inversion H; auto. Qed.

Lemma R_in_fires0 cs d l : fdone (es cs d) = true ->
  R_thr cs (flat_map (fun i => [IAcqL i d; ICatch]) l ++ []) (map (gframe_of (ck cs)) (map (fun i => CloHandle i d) l)).
Proof.
  intros Hd. rewrite <- (app_nil_r (map (gframe_of (ck cs)) (map (fun i => CloHandle i d) l))).
  apply R_in_fires; [exact Hd|constructor].
Qed.

Lemma ls2_call_new s cs t k ins : Rcore (sh s) cs -> R2 s cs ->
  lock_ok (ECallNew t k ins) (gstep s (ECallNew t k ins)) (step cs (ECallNew t k ins)).
Proof.
  intros Hc (Hb & Hf & Hr & Hall). destruct s as [h thr_i]. simpl in Hc.
  unfold gstep, istep, step. simpl. core_rw Hc. rewrite Hb. simpl.
  destruct (thr_i t); destruct (thr cs t); exact I.
Qed.

Lemma ls2_call_cancel s cs t : Rcore (sh s) cs -> R2 s cs ->
  lock_ok (ECallCancelOut t) (gstep s (ECallCancelOut t)) (step cs (ECallCancelOut t)).
Proof.
  intros Hc (Hb & Hf & Hr & Hall). destruct s as [h thr_i]. simpl in Hc, Hf, Hr, Hall.
  unfold gstep, istep, step. simpl. core_rw Hc.
  pose proof (TR_idle _ _ _ (Hall t)) as Hidle.
  destruct (thr cs t) as [|x p] eqn:Ep.
  - rewrite (proj1 Hidle eq_refl). destruct (ready cs); simpl; [|exact I].
    apply (assemble_o thr_i cs _ _ t [ICancelOut; IRetB true]).
    + solve_core Hc.
    + exact Hb.
    + exact Hf.
    + exact Hr.
    + reflexivity.
    + apply stable_same; reflexivity.
    + exact Hall.
    + apply RT_bot. apply SB_Q0.
  - destruct (thr_i t) as [|fr st] eqn:Ei; [|exact I].
    destruct Hidle as [_ Hidle]. discriminate (Hidle eq_refl).
Qed.

Lemma ls2_env_finish s cs t d pre o : Rcore (sh s) cs -> R2 s cs ->
  lock_ok (EEnvFinish t d pre o) (gstep s (EEnvFinish t d pre o)) (step cs (EEnvFinish t d pre o)).
Proof.
  intros Hc (Hb & Hf & Hr & Hall). destruct s as [h thr_i]. simpl in Hc, Hf, Hr, Hall.
  unfold gstep, istep, step. simpl. core_rw Hc.
  pose proof (TR_idle _ _ _ (Hall t)) as Hidle.
  destruct (thr cs t) as [|x p] eqn:Ep.
  - rewrite (proj1 Hidle eq_refl).
    destruct (fstate_eqb pre (es cs d)) eqn:Epre; simpl; [|exact I].
    apply fstate_eqb_eq in Epre. subst pre.
    destruct (f_set (es cs d)) as [n|] eqn:Es; simpl.
    + destruct (f_set_pending _ _ Es) as [Hpend ->].
      assert (St : forall cs', ck cs' = ck cs -> inputs cs' = inputs cs -> es cs' = upd (es cs) d Finished ->
                               eout cs' = upd (eout cs) d (Some o) -> stable cs cs').
      { intros cs' H1 H2 H3 H4. eapply stable_finish; eauto. }
      apply (assemble thr_i cs _ _ t (in_fires cs d [])).
      * solve_core Hc.
      * exact Hb.
      * unfold fsd_rel in *. simpl. exact Hf.
      * unfold rem_rel in *. simpl. exact Hr.
      * reflexivity.
      * apply St; reflexivity.
      * exact Hall.
      * unfold in_fires, in_clos. rewrite (rc_ecbs _ _ Hc).
        match goal with |- R_thr ?c _ _ => refine (R_in_fires0 c d (ecbs cs d) _) end.
        simpl. rewrite upd_same. reflexivity.
    + (* set_result / set_exception on a done future raises in the environment *)
      split; [exact Hc|]. right. right. repeat split; auto; apply Hall.
  - destruct (thr_i t) as [|fr st] eqn:Ei; [|exact I].
    destruct Hidle as [_ Hidle]. discriminate (Hidle eq_refl).
Qed.

Lemma ls2_env_cancel s cs t d pre : Rcore (sh s) cs -> R2 s cs ->
  lock_ok (EEnvCancel t d pre) (gstep s (EEnvCancel t d pre)) (step cs (EEnvCancel t d pre)).
Proof.
  intros Hc (Hb & Hf & Hr & Hall). destruct s as [h thr_i]. simpl in Hc, Hf, Hr, Hall.
  unfold gstep, istep, step. simpl. core_rw Hc.
  pose proof (TR_idle _ _ _ (Hall t)) as Hidle.
  destruct (thr cs t) as [|x p] eqn:Ep.
  - rewrite (proj1 Hidle eq_refl).
    destruct (fstate_eqb pre (es cs d)) eqn:Epre; simpl; [|exact I].
    apply fstate_eqb_eq in Epre. subst pre.
    destruct (f_cancel (es cs d)) as [n b] eqn:Ec. simpl.
    assert (En : n = fst (f_cancel (es cs d))) by (rewrite Ec; reflexivity).
    destruct (f_cancel_fires (es cs d)) eqn:Ef; simpl.
    + apply (assemble thr_i cs _ _ t (in_fires cs d [])).
      * solve_core Hc.
      * exact Hb.
      * unfold fsd_rel in *. simpl. exact Hf.
      * unfold rem_rel in *. simpl. exact Hr.
      * reflexivity.
      * apply (stable_cancel _ _ d); try reflexivity. simpl. rewrite En. reflexivity.
      * exact Hall.
      * unfold in_fires, in_clos. rewrite (rc_ecbs _ _ Hc).
        match goal with |- R_thr ?c _ _ => refine (R_in_fires0 c d (ecbs cs d) _) end.
        simpl. rewrite upd_same, En. apply fires_done. exact Ef.
    + (* cancel() of a future that is not pending: at most its state is re-read; no callback *)
      assert (St : stable cs (cs <| es := upd (es cs) d n |>)).
      { apply (stable_cancel _ _ d); try reflexivity. simpl. rewrite En. reflexivity. }
      split; [solve_core Hc|]. right. right. split; [exact Hb|]. split; [unfold fsd_rel in *; simpl; exact Hf|].
      split; [unfold rem_rel in *; simpl; exact Hr|].
      intros u. simpl. destruct (Hall u) as [Hu Tu]. split; [eapply R_thr_stable; eassumption|exact Tu].
  - destruct (thr_i t) as [|fr st] eqn:Ei; [|exact I].
    destruct Hidle as [_ Hidle]. discriminate (Hidle eq_refl).
Qed.

Lemma ls2_died s cs t : Rcore (sh s) cs -> R2 s cs -> lock_ok (EDied t) (gstep s (EDied t)) (step cs (EDied t)).
Proof.
  intros Hc (Hb & Hf & Hr & Hall). destruct s as [h thr_i]. simpl in Hall.
  unfold gstep, istep, step. simpl.
  destruct (Hall t) as [HRt Htop].
  destruct (thr_i t) as [|fr st] eqn:Ei.
  - rewrite (proj2 (R_thr_idle _ _ _ HRt) eq_refl). exact I.
  - destruct (R_thr_head _ _ _ HRt Htop ltac:(discriminate)) as (x & r & -> & Hx).
    destruct x; try exact I. discriminate Hx.
Qed.

(* every event, in the phase after construction *)
Lemma lockstep2 s cs e : Rcore (sh s) cs -> R2 s cs -> lock_ok e (gstep s e) (step cs e).
Proof.
  intros Hc H2. destruct e.
  - apply ls2_call_new; assumption.
  - apply ls2_call_cancel; assumption.
  - apply ls2_ret; assumption.
  - apply ls2_acq; assumption.
  - apply ls2_rel; assumption.
  - apply ls2_fo; assumption.
  - apply ls2_fi; assumption.
  - apply ls2_env_finish; assumption.
  - apply ls2_env_cancel; assumption.
  - apply ls2_died; assumption.
Qed.
