(* source facts of more_executors/_impl/timeout.py: what the translator finds now is what the models were written against *)
From Coq Require Import List String.
From ME Require Import Gen.Src_timeout Model.SrcExpected.
Lemma src_timeout_ok : Src_timeout.facts = expected_timeout.
Proof. reflexivity. Qed.
