"""C19: bind / flat_bind chains vs. the executor chain (paired programs) and name propagation,
on real executor stacks (sync or the real ThreadPoolExecutor) under the scheduler."""
import random, functools
import detsched as det
import lib

PROP = "C19"
MACHINE = None
NEEDS_POOL = True
N_QUICK = 800
N_THOROUGH = 20000
LAYERS = ["map", "flat_map", "retry", "throttle", "timeout", "cancel_on_shutdown", "poll"]
THREAD_PREFIX = {"retry": "RetryExecutor-", "throttle": "ThrottleExecutor-", "timeout": "TimeoutExecutor-", "poll": "PollExecutor-"}


def gen(rng):
    def chain(n):
        out = []
        for _ in range(n):
            l = rng.choice(LAYERS)
            out.append([l, rng.choice([None, None, None, "n%d" % rng.randrange(3)])])
        return out
    return {"base": rng.choice(["sync", "sync", "pool"]), "base_name": rng.choice([None, "mine", "other"]),
            "before": chain(rng.randint(0, 2)), "after": chain(rng.randint(0, 3)),
            "callable": rng.choice(["function", "partial", "object", "future", "object_attrs", "bound"]),
            "args": [rng.randrange(10) for _ in range(rng.randint(0, 2))],
            "script": [rng.choice(["ok", "ok", "err"]) for _ in range(3)] + ["ok"], "flat": rng.random() < 0.3,
            # the FIRST calls of the bound callable / the first submits come from two threads at once (fault-free script then,
            # so that the two outcomes do not depend on which attempt of which call consumes which script entry)
            "calls": rng.choice([1, 1, 1, 2, 2]),
            # afterwards the whole chain is shut down and the same call is made once more: both forms refuse alike
            "after_shutdown": rng.random() < 0.3}


def apply_layer(x, layer, log, tag):
    from more_executors.futures import f_return
    kind, name = layer
    kw = {} if name is None else {"name": name}
    if kind == "map":
        return x.with_map(lambda v: (log.append((tag, "map", v)), ("m", v))[1], **kw)
    if kind == "flat_map":
        return x.with_flat_map(lambda v: (log.append((tag, "flat", v)), f_return(("f", v)))[1], **kw)
    if kind == "retry":
        return x.with_retry(max_attempts=3, sleep=1, **kw)
    if kind == "throttle":
        return x.with_throttle(2, **kw)
    if kind == "timeout":
        return x.with_timeout(1000, **kw)
    if kind == "cancel_on_shutdown":
        return x.with_cancel_on_shutdown(**kw)
    if kind == "poll":
        def poll_fn(ds):
            for d in ds:
                d.yield_result(("p", d.result))
        return x.with_poll(poll_fn, default_interval=1, **kw)
    raise AssertionError(kind)


def expected_names(p):
    """the name each thread-owning layer must carry"""
    cur = p["base_name"] if p["base_name"] is not None else "default"
    out = []
    for (kind, name) in p["before"] + p["after"]:
        if name is not None:
            cur = name
        if kind in THREAD_PREFIX:
            out.append(THREAD_PREFIX[kind] + cur)
    return sorted(out)


def execute(p, chooser):
    from more_executors import Executors
    from more_executors.futures import f_return
    obs = {"params": p, "res": {}, "names": {}}
    ncalls = p.get("calls", 1)

    def build(tag, log):
        kw = {} if p["base_name"] is None else {"name": p["base_name"]}
        with det.atomic():
            base = Executors.sync(**kw) if p["base"] == "sync" else Executors.thread_pool(max_workers=2, **kw)
            ex = base
            for l in p["before"]:
                ex = apply_layer(ex, l, log, tag)
        return base, ex

    def mkcallable(tag, log):
        st = {"k": 0}

        def body(*a):
            k = st["k"]
            st["k"] += 1
            log.append((tag, "fn", a, k))
            if ncalls == 1 and p["script"][min(k, 3)] == "err":
                raise KeyError("attempt%d" % k)
            return f_return(("r", a)) if p["callable"] == "future" else ("r", a)
        if p["callable"] == "partial":
            return functools.partial(body)
        if p["callable"] == "object":
            class C(object):
                def __call__(self, *a):
                    return body(*a)
            return C()
        if p["callable"] == "object_attrs":
            # a callable object with attributes of its own, named like things a wrapper might keep
            class D(object):
                def __init__(self):
                    self._fn = lambda *a: ("inner-fn", a)
                    self._executor = Executors.sync()
                    self.fn = self._fn
                    self.executor = self._executor
                    self.__wrapped__ = self._fn

                def __call__(self, *a):
                    return body(*a)
            return D()
        if p["callable"] == "bound":
            # a callable that is itself bound to another executor (with a layer that marks what went through it)
            other = Executors.sync(name="elsewhere").with_map(lambda v: (log.append((tag, "other-map", canon(v))), ("o", v))[1])
            return other.bind(body)
        return body

    def outcome(f):
        try:
            return ("ok", f.result(10 ** 6))
        except BaseException as e:
            if isinstance(e, det.Abort):
                raise
            return ("err", type(e).__name__, str(e).split("\n")[0][:60])

    def main():
        det.emit("case", None, sorted((k, str(v)) for k, v in p.items()))
        flat = p["callable"] == "future" or p["flat"]
        for tag in ("bind", "submit"):
            log = []
            before = set(t.tid for t in det.S.threads.values())
            base, ex = build(tag, log)
            fn = mkcallable(tag, log)
            if tag == "bind":
                with det.atomic():
                    b = ex.flat_bind(fn) if flat else ex.bind(fn)
                    for l in p["after"]:
                        b = apply_layer(b, l, log, tag)
                call = lambda: b(*p["args"])
                top = None
            else:
                with det.atomic():
                    top = ex
                    if flat:
                        top = top.with_flat_map(lambda x: x)
                    for l in p["after"]:
                        top = apply_layer(top, l, log, tag)
                call = lambda: top.submit(fn, *p["args"])
            if ncalls == 1:
                obs["res"][tag] = (outcome(call()), [e[1:] for e in log])
            else:
                outs = []
                ts = [det.spawn("%s%d" % (tag[0], k), lambda: outs.append(outcome(call()))) for k in range(ncalls)]
                for t in ts:
                    t.join()
                obs["res"][tag] = (sorted(outs, key=repr), sorted((e[1:] for e in log), key=repr))
            if p.get("after_shutdown"):
                # the executor a bound callable submits to is its (name-mangled) private attribute: shut the SAME thing down in both forms
                tgt = top if tag == "submit" else getattr(b, "_BoundCallable__executor", None)
                if tgt is None:
                    raise AssertionError("the bound callable has no _BoundCallable__executor")
                tgt.shutdown(True)
                try:
                    f2 = call()
                    late = ("returned", outcome(f2))
                except BaseException as e:
                    if isinstance(e, det.Abort):
                        raise
                    late = ("raised", type(e).__name__, str(e)[:60])
                obs["res"][tag] = obs["res"][tag] + (late,)
            obs["names"][tag] = sorted(t.name for t in det.S.threads.values()
                                       if t.tid not in before and any(t.name.startswith(x) for x in THREAD_PREFIX.values()))

    r = det.run(chooser, main)
    return r, obs


def encode(log):
    import zlib
    for (th, op, obj, val, ts) in log:
        if op == "case":
            return [[zlib.crc32(repr(val).encode()) & 0xffffff]], []
    return [[len(log)]], []


def canon(v):
    from concurrent.futures import Future
    if isinstance(v, Future):
        if v._state == "FINISHED":
            return ("future", canon(v._result) if v._exception is None else type(v._exception).__name__)
        return ("future", v._state)
    if isinstance(v, (tuple, list)):
        return tuple(canon(x) for x in v)
    return v


def monitor(r, obs):
    p = obs["params"]
    if r.deadlock or r.hang:
        return [{"what": "deadlock", "detail": str(p) + str(r.deadlock), "pattern": "bind:deadlock"}]
    if r.exc is not None:
        return [{"what": "harness-exception", "detail": getattr(r, "tb", repr(r.exc))[-500:], "pattern": "bind:harness-exc"}]
    out = []
    a, b = canon(obs["res"].get("bind")), canon(obs["res"].get("submit"))
    if a != b:
        out.append({"what": "bind form gives %r, submit form gives %r" % (a, b), "detail": str(p), "pattern": "bind:differs"})
    want = expected_names(p)
    for tag in ("bind", "submit"):
        if obs["names"].get(tag) != want:
            out.append({"what": "%s form: threads %r, expected %r" % (tag, obs["names"].get(tag), want), "detail": str(p),
                        "pattern": "bind:names:" + tag})
    return out


def nontrivial(r, obs, events):
    p = obs["params"]
    return len(p["after"]) >= 1


def describe(p):
    return ["base=" + p["base"], "before=%d" % len(p["before"]), "after=%d" % len(p["after"]), "callable=" + p["callable"]]
