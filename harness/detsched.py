"""Deterministic baton scheduler + virtual clock + instrumented threading primitives.

Exactly one logical thread runs at a time; it hands the baton back at every *visible operation*
(lock acquire/release, Event set/clear/wait, thread start/join, every stdlib Future method, every
user-code hook).  A chooser (seeded PRNG, script, ...) decides who runs next, so a run is a pure
function of (scenario, chooser).  Virtual time advances only when every logical thread is blocked
(or when a scenario calls sleep()).  Every visible operation is appended to S.log as
(thread_name, op, object_role, value) *when it takes effect*.

Installed from outside by monkey-patching module globals of more_executors._impl.* and of
concurrent.futures._base / .thread (no source hooks).
"""
import threading as _t
import itertools, types, sys, random, collections

_real_Thread = _t.Thread


class Abort(BaseException):
    """Raised inside logical threads when a run is torn down."""


class LT(object):
    __slots__ = ("s", "tid", "name", "sem", "blocked_on", "wake_at", "done", "timed_out", "daemon",
                 "real", "exc", "quiet_held")

    def __init__(self, s, name, daemon=False):
        self.s = s
        self.tid = next(s.nexttid)
        self.name = name
        self.sem = _t.Semaphore(0)
        self.blocked_on = None
        self.wake_at = None
        self.done = False
        self.timed_out = False
        self.daemon = daemon
        self.real = None
        self.exc = None
        self.quiet_held = 0      # quiet locks held: sections the harness treats as free of scheduling points (line mode too)

    def ready(self):
        if self.blocked_on is None:
            return True
        if self.blocked_on():
            return True
        return self.wake_at is not None and self.wake_at <= self.s.now


class Sched(object):
    def __init__(self, chooser):
        self.threads = collections.OrderedDict()
        self.now = 0
        self.chooser = chooser
        self.sched = []          # chosen tid at each decision point with >1 candidate
        self.npoints = 0
        self.log = []            # visible events
        self.nexttid = itertools.count()
        self.aborting = False
        self.fin = _t.Event()
        self.deadlock = None
        self.roles = {}
        self.keep = []           # keeps named objects alive so id() stays unique
        self.counters = collections.Counter()
        self.preempts = 0
        self.quiet = 0
        self.waiting = {}
        self.tracebacks = []
        self.max_points = 40000
        # line-level preemption (chooser kinds ending in "+line"): with probability line_p the running logical thread
        # offers the baton before a LINE of library code, not only before a visible operation
        self.line_p = getattr(chooser, "line_p", 0.0)
        self.line_rng = random.Random(getattr(chooser, "line_seed", 0)) if self.line_p else None
        self.line_switches = 0
        if self.line_p:
            self.max_points = 400000

    # ---- naming --------------------------------------------------------------------------
    def name(self, obj, role):
        self.roles[id(obj)] = role
        if KEEP_NAMED:
            self.keep.append(obj)
        return obj

    def role(self, obj, kind="o"):
        r = self.roles.get(id(obj))
        if r is None:
            r = "%s%d" % (kind, self.counters[kind])
            self.counters[kind] += 1
            self.name(obj, r)
        return r

    def emit(self, op, obj=None, val=None):
        cur = me()
        self.log.append((cur.name if cur else "-", op, obj, val, self.now))

    # ---- scheduling ----------------------------------------------------------------------
    def pick(self, cur):
        if self.npoints > self.max_points and not self.fin.is_set():
            # periodic timers keep firing but nothing else makes progress: treat as a hang
            self.deadlock = ["<step limit>"] + [t.name for t in self.threads.values() if not t.done and t.blocked_on is not None]
            self.fin.set()
            return None
        while True:
            cand = [t for t in self.threads.values() if not t.done and t.ready()]
            if cand:
                if len(cand) == 1:
                    t = cand[0]
                else:
                    t = self.chooser(self, cand, cur)
                    self.sched.append(t.tid)
                self.npoints += 1
                if cur is not None and t is not cur and not cur.done and cur.blocked_on is None:
                    self.preempts += 1
                if t.blocked_on is not None:
                    t.timed_out = not t.blocked_on()
                    t.blocked_on = None
                    t.wake_at = None
                return t
            timers = [t.wake_at for t in self.threads.values() if not t.done and t.wake_at is not None]
            if not timers:
                live = [t.name for t in self.threads.values() if not t.done and not t.daemon]
                if live:
                    self.deadlock = [t.name for t in self.threads.values() if not t.done]
                self.fin.set()
                return None
            # a timed wait returns at or after its deadline: TIMER_EPS > 0 models "strictly after"
            self.now = max(self.now, min(timers) + TIMER_EPS)


S = None
KEEP_NAMED = True    # False: named objects are not kept alive by the scheduler (reference-retention checks)
TIMER_EPS = 0        # modules whose code compares `deadline < now` set a small positive value
_local = _t.local()


def me():
    lt = getattr(_local, "lt", None)
    if lt is not None and lt.s is not S:
        # a logical thread left over from an earlier run (its tear-down did not finish in time, e.g. on a loaded
        # machine) must never take part in the current one: it ends here
        raise Abort()
    return lt


_LIB_DIR = None


def _lib_dir():
    global _LIB_DIR
    if _LIB_DIR is None:
        import os, more_executors._impl as _p
        _LIB_DIR = os.path.dirname(os.path.abspath(_p.__file__)) + os.sep
    return _LIB_DIR


def _line_tracer(frame, event, arg):
    if event == "line":
        s = S
        if frame.f_code.co_name == "__init__":
            # a library future is named (r<k> / M<k>) inside _Future.__init__, and the scenario that constructs it has
            # already announced the index it will get: no baton offer between the announcement and the naming
            me_ = frame.f_locals.get("self")
            if me_ is not None and hasattr(type(me_), "_me_invoke_callbacks") and "_verif_id" not in getattr(me_, "__dict__", {}):
                return _line_tracer
        if s is not None and s.line_rng is not None and not s.aborting and not s.quiet:
            cur = getattr(_local, "lt", None)
            if cur is not None and cur.s is s and cur.blocked_on is None and not cur.quiet_held and s.line_rng.random() < s.line_p:
                s.line_switches += 1
                switch("line")
    return _line_tracer


def _call_tracer(frame, event, arg):
    # only frames of the library under test are traced line by line (the scheduler, the scenario code, the stdlib and
    # the instrumented primitives are not)
    if frame.f_code.co_filename.startswith(_lib_dir()):
        return _line_tracer
    return None


def _trace_on(s):
    if s.line_rng is not None:
        sys.settrace(_call_tracer)


def switch(op=None):
    """Yield point: the current logical thread offers the baton."""
    cur = me()
    if cur is None:
        return
    s = cur.s
    if s.aborting:
        return
    if s.quiet:
        return
    nxt = s.pick(cur)
    if nxt is cur:
        return
    if nxt is not None:
        nxt.sem.release()
    cur.sem.acquire()
    if s.aborting:
        raise Abort()


def block(cond, timeout=None):
    """Caller has already yielded.  Wait until cond() (or virtual timeout). Returns cond()."""
    cur = me()
    if cur is None:
        if not cond():
            raise RuntimeError("blocking outside the scheduler")
        return True
    s = cur.s
    if s.aborting:
        raise Abort()
    if cond():
        return True
    if s.quiet:
        raise RuntimeError("blocking inside an atomic section")
    cur.timed_out = False
    cur.blocked_on = cond
    if timeout is not None and timeout <= 0 and TIMER_EPS:
        timeout = TIMER_EPS      # a zero-length timed wait still lets the clock tick
    cur.wake_at = None if timeout is None else s.now + timeout
    nxt = s.pick(cur)
    if nxt is not cur:
        if nxt is not None:
            nxt.sem.release()
        cur.sem.acquire()
        if s.aborting:
            raise Abort()
    if cur.timed_out:
        cur.timed_out = False
        return cond()
    return True


def sleep(dt):
    """Scenario helper: block this logical thread for dt units of virtual time."""
    switch("sleep")
    block(lambda: False, dt)


def wait_until(cond):
    """Scenario helper: block until cond() holds (no timeout)."""
    switch("wait_until")
    block(cond)


def user(site, val=None):
    """Hook placed in scenario-supplied user code: a visible operation of kind V5."""
    switch("user")
    if S is not None and me() is not None and not S.quiet:
        S.emit("user:" + site, None, val)


def emit(op, obj=None, val=None):
    if S is not None:
        S.emit(op, obj, val)


def now():
    return S.now if S is not None else 0


def monotonic():
    """patched time.monotonic: virtual time; every read is logged (not a yield point)"""
    if S is None:
        return 0
    if me() is not None and not S.aborting and not S.quiet:
        S.emit("clock", None, S.now)
    return S.now


# ---- primitives ----------------------------------------------------------------------------
class DLock(object):
    kind = "L"
    reentrant = False

    def __init__(self):
        self.owner = None
        self.count = 0
        self.quiet = False

    def _role(self):
        return S.role(self, self.kind) if S is not None else None

    def acquire(self, blocking=True, timeout=-1):
        cur = me()
        if cur is None or S is None or S.aborting:
            self.owner = cur
            self.count += 1
            return True
        if self.reentrant and self.owner is cur:
            self.count += 1
            return True
        if self.quiet:
            if self.owner is not None:
                raise RuntimeError("contention on a quiet lock")
            self.owner = cur
            self.count = 1
            cur.quiet_held += 1
            return True
        switch("acq")
        if self.owner is not None:
            if not blocking:
                S.emit("tryacq", self._role(), 0)
                return False
            S.waiting["%s#%d" % (cur.name, cur.tid)] = (self._role(), "%s#%d" % (self.owner.name, self.owner.tid) if self.owner is not None else None)
            block(lambda: self.owner is None)
            S.waiting.pop("%s#%d" % (cur.name, cur.tid), None)
        self.owner = cur
        self.count = 1
        S.emit("acq", self._role())
        return True

    def release(self):
        if S is None or S.aborting or me() is None:
            self.count = max(0, self.count - 1)
            if self.count == 0:
                self.owner = None
            return
        self.count -= 1
        if self.count == 0:
            self.owner = None
            if not self.quiet:
                S.emit("rel", self._role())
                switch("rel")
            else:
                cur = me()
                if cur is not None and cur.quiet_held > 0:
                    cur.quiet_held -= 1

    def locked(self):
        return self.owner is not None

    def __enter__(self):
        self.acquire()
        return True

    def __exit__(self, *a):
        self.release()


class DRLock(DLock):
    kind = "R"
    reentrant = True

    def _is_owned(self):
        return self.owner is me()


class DEvent(object):
    def __init__(self):
        self.flag = False
        self.gen = 0

    def _role(self):
        return S.role(self, "E")

    def set(self):
        if S is None or S.aborting or me() is None:
            self.flag = True
            self.gen += 1
            return
        switch("set")
        self.flag = True
        self.gen += 1
        S.emit("ev.set", self._role())

    def clear(self):
        if S is None or S.aborting or me() is None:
            self.flag = False
            return
        switch("clear")
        self.flag = False
        S.emit("ev.clear", self._role())

    def is_set(self):
        return self.flag

    isSet = is_set

    def wait(self, timeout=None):
        if S is None or S.aborting or me() is None:
            return self.flag
        switch("wait")
        if self.flag:
            S.emit("ev.wait", self._role(), "set")
            return True
        g = self.gen
        S.emit("ev.wait", self._role(), "block")
        r = block(lambda: self.gen != g, timeout)
        S.emit("ev.woke", self._role(), "notified" if r else "timeout")
        return r


class QuietEvent(object):
    """Event used inside stdlib waiters (concurrent.futures.wait / as_completed): not a visible
    operation of the library; blocking still goes through the scheduler."""

    def __init__(self):
        self.flag = False
        self.gen = 0

    def set(self):
        self.flag = True
        self.gen += 1

    def clear(self):
        self.flag = False

    def is_set(self):
        return self.flag

    def wait(self, timeout=None):
        if self.flag:
            return True
        if S is None or me() is None or S.aborting:
            return self.flag
        g = self.gen
        return block(lambda: self.gen != g, timeout)


class QuietLock(object):
    """Lock used inside stdlib waiters: only ever held across code without yield points."""

    def __init__(self):
        self.held = False

    def acquire(self, blocking=True, timeout=-1):
        if self.held and S is not None and me() is not None and not S.aborting:
            raise RuntimeError("contention on a quiet lock")
        self.held = True
        return True

    def release(self):
        self.held = False

    def __enter__(self):
        self.acquire()
        return True

    def __exit__(self, *a):
        self.release()


class DCondition(object):
    """Condition used inside stdlib Future / waiters.  Its lock is quiet: Future methods are
    atomic visible operations in their own right (see patch_future)."""

    def __init__(self, lock=None):
        if lock is None:
            lock = DRLock()
            lock.quiet = True
        self.lock = lock
        self.gen = 0
        self.acquire = self.lock.acquire
        self.release = self.lock.release

    def __enter__(self):
        self.lock.acquire()
        return self

    def __exit__(self, *a):
        self.lock.release()

    def wait(self, timeout=None):
        g = self.gen
        cnt = self.lock.count
        own = self.lock.owner
        self.lock.count = 0
        self.lock.owner = None
        try:
            r = block(lambda: self.gen != g, timeout)
        finally:
            self.lock.owner = own
            self.lock.count = cnt
        return r

    def wait_for(self, pred, timeout=None):
        while not pred():
            if not self.wait(timeout):
                return pred()
        return True

    def notify_all(self):
        self.gen += 1

    def notify(self, n=1):
        self.gen += 1


class DSemaphore(object):
    def __init__(self, v=1):
        self.v = v

    def acquire(self, blocking=True, timeout=None):
        switch("sem")
        if self.v > 0:
            self.v -= 1
            return True
        if not blocking or timeout == 0:
            return False
        block(lambda: self.v > 0)
        self.v -= 1
        return True

    def release(self, n=1):
        self.v += n


class DQueue(object):
    def __init__(self):
        self.q = collections.deque()

    def put(self, x):
        switch("qput")
        self.q.append(x)

    def get(self, block_=True, timeout=None, block=None):
        import queue
        if block is not None:
            block_ = block
        switch("qget")
        if not self.q:
            if not block_:
                raise queue.Empty
            globals()["block"](lambda: len(self.q) > 0)
        return self.q.popleft()

    def get_nowait(self):
        return self.get(block_=False)

    def qsize(self):
        return len(self.q)

    def empty(self):
        return not self.q


class DThread(object):
    def __init__(self, group=None, target=None, name=None, args=(), kwargs=None, daemon=None):
        self.target = target
        self.args = args
        self.kwargs = kwargs or {}
        self.name = name or "T"
        self.daemon = bool(daemon)
        self.lt = None
        self._started = False

    def start(self):
        s = S
        lt = LT(s, self.name, daemon=self.daemon)
        self.lt = lt
        s.threads[lt.tid] = lt
        self._started = True
        target, args, kwargs = self.target, self.args, self.kwargs
        # like threading.Thread.run(): drop references so a dead/blocked thread object keeps nothing alive
        self.target = self.args = self.kwargs = None

        def run():
            lt.sem.acquire()
            _local.lt = lt
            try:
                _trace_on(s)
                if not s.aborting:
                    target(*args, **kwargs)
            except Abort:
                pass
            except BaseException as e:  # a logical thread died with an exception
                if not s.aborting:
                    # (while the run is being torn down every thread is ended by Abort; a `finally:` of the library that trips over
                    # the half-executed try block - `monotonic() - now` with `now` unbound - replaces it by another exception: that is
                    # the tear-down, not a death of the thread)
                    lt.exc = e
                if not s.aborting:
                    import traceback
                    s.tracebacks.append((lt.name, traceback.format_exc()))
                    s.log.append((lt.name, "thread.died", None, type(e).__name__, s.now))
            finally:
                lt.done = True
                if not s.aborting:
                    s.log.append((lt.name, "thread.exit", None, None, s.now))
                    nxt = s.pick(lt)
                    if nxt is not None:
                        nxt.sem.release()
                else:
                    s.abort_step.set()

        rt = _real_Thread(target=run, daemon=True)
        lt.real = rt
        rt.start()
        if me() is not None:
            switch("spawn")

    def join(self, timeout=None):
        if self.lt is not None and self.lt is me():
            raise RuntimeError("cannot join current thread")      # as threading.Thread.join does
        switch("join")
        lt = self.lt
        block(lambda: lt.done, timeout)

    def is_alive(self):
        return self.lt is not None and not self.lt.done

    isAlive = is_alive

    @property
    def ident(self):
        return self.lt.tid if self.lt else None


def spawn(name, fn, daemon=False):
    th = DThread(target=fn, name=name, daemon=daemon)
    th.start()
    return th


# ---- stdlib Future instrumentation ---------------------------------------------------------
_FUT_PATCHED = False
_ST = {"PENDING": 0, "RUNNING": 1, "CANCELLED": 2, "CANCELLED_AND_NOTIFIED": 3, "FINISHED": 4}


def fstate(f):
    return _ST[f._state]


def patch_future():
    """Make every stdlib Future method a visible operation: yield, then log
    (thread, 'F.<method>', role, state-before) and run the original atomically."""
    global _FUT_PATCHED
    if _FUT_PATCHED:
        return
    _FUT_PATCHED = True
    import concurrent.futures._base as base
    F = base.Future

    def wrap(name):
        orig = getattr(F, name)

        def w(self, *a, **k):
            if S is None or me() is None or S.aborting or S.quiet:
                return orig(self, *a, **k)
            switch("F." + name)
            S.emit("F." + name, S.role(self, "f"), fstate(self))
            r = orig(self, *a, **k)
            if name in ("cancelled", "running", "done") and str(S.role(self, "f")).startswith(("r", "M")):
                # a second scheduling point AFTER a state read of a LIBRARY future: the caller is about to act on what
                # it saw (check-then-act under the future's lock); another thread may get in between unless the lock
                # really excludes it.  (Not after reads of delegate futures: Model/Retry.v evaluates the unlocked
                # look-ups of _delegate_callback at the read that precedes them - see DESIGN.md section 12.)
                switch("F." + name + ".after")
            return r

        w.__name__ = name
        w._orig = orig
        setattr(F, name, w)

    for n in ("cancel", "cancelled", "running", "done", "add_done_callback",
              "set_running_or_notify_cancel", "set_result", "set_exception"):
        wrap(n)

    def wrapwait(name):
        orig = getattr(F, name)

        def w(self, timeout=None):
            if S is None or me() is None or S.aborting or S.quiet:
                return orig(self, timeout)
            switch("F." + name)
            S.emit("F." + name, S.role(self, "f"), fstate(self))
            return orig(self, timeout)

        w.__name__ = name
        w._orig = orig
        setattr(F, name, w)

    wrapwait("result")
    wrapwait("exception")


def patch_me_future():
    """Name every library future and its _me_lock at construction, in creation order: r<k> / M<k>."""
    from more_executors._impl import common
    if getattr(common._Future.__init__, "_verif", False):
        return
    orig = common._Future.__init__

    def init(self):
        orig(self)
        if S is not None:
            k = S.counters["mefut"]
            S.counters["mefut"] += 1
            S.name(self, "r%d" % k)
            S.name(self._me_lock, "M%d" % k)
            self._verif_id = k

    init._verif = True
    common._Future.__init__ = init
    orig_cancel = common._Future.cancel

    def cancel(self):
        r = orig_cancel(self)
        if type(r) is not bool and S is not None and not S.aborting:
            # C02: cancel() returns a bool (drive.py turns this entry into a verdict for the properties that state it)
            S.log.append((getattr(me(), "name", "-"), "lib.cancel-nonbool", S.role(self, "f"), repr(r)[:40], S.now))
        return r

    cancel._verif = True
    common._Future.cancel = cancel

    class CbList(list):
        """_Future._me_done_callbacks: the end of a delivery loop is a scheduling point (the list is reset only AFTER the loop,
        outside the future's lock: whatever another thread appends in between is dropped with the old list)"""

        def __iter__(self):
            i = 0
            while i < len(self):
                x = self[i]
                i += 1
                yield x
            if S is not None and me() is not None and not S.quiet and not S.aborting:
                switch("cbs.end")

    def _get(self):
        return self.__dict__.get("_verif_cbs")

    def _set(self, v):
        self.__dict__["_verif_cbs"] = CbList(v)
    common._Future._me_done_callbacks = property(_get, _set)


class atomic(object):
    """with atomic(): no yield points inside (used by scenario/env code for its own bookkeeping)."""

    def __enter__(self):
        if S is not None:
            S.quiet += 1

    def __exit__(self, *a):
        if S is not None:
            S.quiet -= 1


# ---- installation ----------------------------------------------------------------------------
_INSTALLED = False
_GLOBALS = []


def install(pool=False):
    global _INSTALLED
    if _INSTALLED:
        return
    _INSTALLED = True
    import logging
    logging.disable(logging.CRITICAL)
    import concurrent.futures._base as base
    shim = types.SimpleNamespace(Condition=DCondition, Event=QuietEvent, Lock=QuietLock, RLock=DRLock)
    base.threading = shim
    import time as _real_time
    base.time = types.SimpleNamespace(monotonic=lambda: (S.now if S is not None else _real_time.monotonic()))   # as_completed's deadline
    patch_future()
    patch_me_future()
    from more_executors._impl import retry, poll, throttle, timeout, event, common, helpers, \
        cancel_on_shutdown, metrics
    from more_executors._impl.futures import bool as fbool, zip as fzip, timeout as ftimeout
    for m in (retry, poll):
        m.RLock = DRLock
        m.Thread = DThread
        m.monotonic = monotonic
    throttle.Thread = DThread
    throttle.Lock = DLock
    timeout.Thread = DThread
    timeout.Lock = DLock
    timeout.monotonic = monotonic
    metrics.monotonic = monotonic
    event.Event = DEvent
    event.RLock = DRLock
    event.GLOBAL_HANDLER.lock = _QuietRLock()
    # the exit flag is a plain attribute written by the exit hook and read by every worker loop without a
    # lock: its write has to be a scheduling point like any other shared access
    class _ExitFlag(object):
        def __get__(self, obj, typ=None):
            return self if obj is None else obj.__dict__.get("_verif_shutdown", False)

        def __set__(self, obj, v):
            if v:
                switch("exitflag.write")
            obj.__dict__["_verif_shutdown"] = v
    event.GLOBAL_HANDLER.__dict__.pop("shutdown", None)
    event.ShutdownAwareEventHandler.shutdown = _ExitFlag()
    common.RLock = DRLock
    helpers.RLock = DRLock
    helpers.Lock = DLock
    cancel_on_shutdown.RLock = DRLock
    fbool.Lock = DLock
    fzip.Lock = DLock
    # Zipper.count_remaining: `self.count_remaining -= 1` is a read and a write; outside the operation's own lock the update can be preempted in
    # between (never the case in the unchanged code, where the counter is only touched under `self.lock`)
    if hasattr(fzip, "Zipper") and not isinstance(fzip.Zipper.__dict__.get("count_remaining"), property):
        def _cr_get(self):
            v = self.__dict__.get("_verif_cr", 0)
            lk = self.__dict__.get("lock")
            if S is not None and me() is not None and not S.aborting and not S.quiet and not (lk is not None and getattr(lk, "owner", None) is me()):
                switch("zip.counter")
            return v

        def _cr_set(self, v):
            self.__dict__["_verif_cr"] = v
        fzip.Zipper.count_remaining = property(_cr_get, _cr_set)
    ftimeout.LOCK = DLock()
    ftimeout.EXECUTOR_REF = None
    # the process-wide sync executor behind wrap()/f_map/... was created at import time with a real Lock
    from more_executors._impl.futures import base as fbase
    fbase.EXECUTOR._shutdown._lock = DRLock()
    _GLOBALS.append(fbase.EXECUTOR._shutdown._lock)
    # whatever else a module of the library binds to a real threading primitive (a changed import, a different lock type)
    # is replaced too: a real Lock would block the carrier thread for real and the scheduler could neither see nor
    # report the deadlock
    import pkgutil, importlib, more_executors._impl as _impl_pkg
    real = {"Lock": (_t.Lock, DLock), "RLock": (_t.RLock, DRLock), "Event": (_t.Event, DEvent), "Thread": (_t.Thread, DThread),
            "Condition": (_t.Condition, DCondition), "Semaphore": (_t.Semaphore, DSemaphore)}
    shim_threading = _ThreadingShim()
    for info in pkgutil.walk_packages(_impl_pkg.__path__, _impl_pkg.__name__ + "."):
        try:
            m = importlib.import_module(info.name)
        except Exception:       # noqa  (asyncio / prometheus variants that cannot be imported here)
            continue
        for nm, (r, d) in real.items():
            if m.__dict__.get(nm) is r:
                setattr(m, nm, d)
        if m.__dict__.get("threading") is _t:
            m.threading = shim_threading
    if pool:
        install_pool()


class _ThreadingShim(object):
    """stands in for the `threading` module inside library modules that use it qualified"""
    Lock = None
    RLock = None

    def __getattr__(self, n):
        return getattr(_t, n)


class _QuietRLock(DRLock):
    def __init__(self):
        DRLock.__init__(self)
        self.quiet = True


def install_pool():
    """Run the real ThreadPoolExecutor under the scheduler."""
    import concurrent.futures.thread as cft
    import queue as real_queue
    cft.threading = types.SimpleNamespace(
        Thread=DThread, Lock=DLock, Semaphore=DSemaphore,
        _register_atexit=lambda *a, **k: None, current_thread=_t.current_thread)
    cft.queue = types.SimpleNamespace(SimpleQueue=DQueue, Empty=real_queue.Empty)
    lk = DLock()
    lk.quiet = True
    cft._global_shutdown_lock = lk


_ThreadingShim.Lock = DLock
_ThreadingShim.RLock = DRLock
_ThreadingShim.Event = DEvent
_ThreadingShim.Thread = DThread
_ThreadingShim.Condition = DCondition
_ThreadingShim.Semaphore = DSemaphore


# ---- running ---------------------------------------------------------------------------------
class Result(object):
    pass


def run(chooser, main_fn, real_timeout=180.0):
    """Run main_fn as logical thread 'main' under chooser.  Returns a Result with
    .log .sched .deadlock .hang .now .exc .npoints .preempts"""
    global S
    s = Sched(chooser)
    s.abort_step = _t.Event()
    S = s
    for g in _GLOBALS:
        g.owner = None
        g.count = 0
        s.name(g, "Gsync")
    lt = LT(s, "main")
    s.threads[lt.tid] = lt
    res = Result()
    res.exc = None

    def body():
        lt.sem.acquire()
        _local.lt = lt
        try:
            _trace_on(s)
            main_fn()
        except Abort:
            pass
        except BaseException as e:
            res.exc = e
            import traceback
            res.tb = traceback.format_exc()
        finally:
            lt.done = True
            if not s.aborting:
                s.fin.set()
            else:
                s.abort_step.set()

    rt = _real_Thread(target=body, daemon=True)
    lt.real = rt
    rt.start()
    lt.sem.release()
    res.hang = not s.fin.wait(real_timeout)
    # tear down whatever is left, one logical thread at a time
    s.aborting = True
    res.teardown_incomplete = []
    for t in list(s.threads.values()):
        if not t.done:
            s.abort_step.clear()
            t.sem.release()
            if not s.abort_step.wait(20.0):
                res.teardown_incomplete.append(t.name)
    res.log = s.log
    res.sched = s.sched
    res.deadlock = s.deadlock
    res.waiting = dict(s.waiting)
    res.tracebacks = list(s.tracebacks)
    res.now = s.now
    res.npoints = s.npoints
    res.line_switches = s.line_switches
    res.preempts = s.preempts
    res.threads = [(t.name, t.done, type(t.exc).__name__ if t.exc is not None else None) for t in s.threads.values()]
    S = None
    return res


# ---- choosers ----------------------------------------------------------------------------------
def random_chooser(seed):
    rng = random.Random(seed)

    def ch(s, cand, cur):
        return rng.choice(cand)

    return ch


def sticky_chooser(seed, p_switch=0.2):
    """Keeps running the current thread with probability 1-p_switch: long runs, few preemptions."""
    rng = random.Random(seed)

    def ch(s, cand, cur):
        if cur in cand and rng.random() >= p_switch:
            return cur
        return rng.choice(cand)

    return ch


def pct_chooser(seed, depth=3, horizon=400):
    """PCT: random static priorities, `depth` priority-change points."""
    rng = random.Random(seed)
    prio = {}
    change = sorted(rng.randrange(1, horizon) for _ in range(depth))
    state = {"n": 0, "low": 0}

    def ch(s, cand, cur):
        state["n"] += 1
        for t in cand:
            if t.tid not in prio:
                prio[t.tid] = rng.random() + 1.0
        best = max(cand, key=lambda t: prio[t.tid])
        if change and state["n"] >= change[0]:
            change.pop(0)
            state["low"] -= 1
            prio[best.tid] = state["low"]
            best = max(cand, key=lambda t: prio[t.tid])
        return best

    return ch


def script_chooser(script, fallback=None):
    """Replay a recorded list of tids; when exhausted (or the tid is not runnable) fall back."""
    it = iter(script)
    fb = fallback or (lambda s, cand, cur: cand[0])

    def ch(s, cand, cur):
        try:
            want = next(it)
        except StopIteration:
            return fb(s, cand, cur)
        for t in cand:
            if t.tid == want:
                return t
        return fb(s, cand, cur)

    return ch


LINE_P = 0.03


def make_chooser(kind, seed):
    if kind.endswith("+line"):
        base = make_chooser(kind[:-5], seed)

        def ch(s, cand, cur):
            return base(s, cand, cur)
        ch.line_p = LINE_P
        ch.line_seed = seed ^ 0x5bd1e995
        return ch
    if kind == "random":
        return random_chooser(seed)
    if kind == "sticky":
        return sticky_chooser(seed)
    if kind == "pct":
        return pct_chooser(seed)
    raise ValueError(kind)


def chooser_for(i, seed):
    """The default mix of strategies for the i-th schedule of a batch."""
    k = ("random", "sticky", "pct")[i % 3]
    return k, make_chooser(k, seed)
