"""C06 (poll): cancel() of a future in the polling stage consults the cancel function with the delegate's result, a veto keeps it pending, True means cancelled and deregistered; scenario family and lockstep of C08 on Model/Poll.v.
Only the verdicts of that family's monitor that belong to this property count here; every history is still
replayed on the component machine."""
import p_c08 as base

PROP = "C06"
MACHINE = base.MACHINE
N_QUICK = 1200
N_THOROUGH = 40000
KEEP = ("poll:cancelfn-wrong-arg", "poll:cancelfn-outside-polling", "poll:veto-ignored", "poll:cancelfn-twice", "poll:cancel-true-not-cancelled", "poll:stale-descriptor", "poll:descriptor-leak", "poll:deadlock", "poll:thread-died:poller", "poll:thread-died:other", "poll:harness-exc")
if hasattr(base, "setup"):
    setup = base.setup
if hasattr(base, "expected_verdict"):
    expected_verdict = base.expected_verdict

gen = base.gen
execute = base.execute
encode = base.encode


def monitor(r, obs):
    return [v for v in base.monitor(r, obs) if v["pattern"] in KEEP]


nontrivial = base.nontrivial
describe = base.describe
