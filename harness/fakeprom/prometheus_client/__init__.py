"""Stand-in for prometheus_client (not installed in the test environment): just enough for
more_executors._impl.metrics.prometheus.  Values are kept per (metric name, label tuple)."""
import threading

REGISTRY = {}
_LOCK = threading.Lock()
HOOK = None      # optional observer: HOOK(kind, key, delta) before the registry is updated (harness/p_c20q.py)


class _Child(object):
    def __init__(self, kind, key):
        self.kind = kind
        self.key = key

    def inc(self, v=1):
        if HOOK is not None:
            HOOK(self.kind, self.key, v)
        with _LOCK:
            REGISTRY[self.key] = REGISTRY.get(self.key, 0) + v

    def dec(self, v=1):
        if self.kind != "gauge":
            raise AttributeError("dec on a counter")
        if HOOK is not None:
            HOOK(self.kind, self.key, -v)
        with _LOCK:
            REGISTRY[self.key] = REGISTRY.get(self.key, 0) - v
            HISTORY.append((self.key, REGISTRY[self.key]))


HISTORY = []


class _Metric(object):
    kind = None

    def __init__(self, name, doc, labelnames=(), namespace=""):
        self.name = (namespace + "_" if namespace else "") + name
        self.labelnames = tuple(labelnames)

    def labels(self, **kw):
        if tuple(sorted(kw)) != tuple(sorted(self.labelnames)):
            raise ValueError("labels %r for %r" % (sorted(kw), self.labelnames))
        return _Child(self.kind, (self.name,) + tuple(kw[k] for k in self.labelnames))


class Counter(_Metric):
    kind = "counter"


class Gauge(_Metric):
    kind = "gauge"


def reset():
    with _LOCK:
        REGISTRY.clear()
        del HISTORY[:]


def value(name, *labels):
    return REGISTRY.get(("more_executors_" + name,) + tuple(labels), 0)
