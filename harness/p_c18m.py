"""C18 (map / flat_map futures): faults in fn / error_fn / done-callbacks stay with their own future.
Same scenario family and lockstep as C02/C13 on Model/MapFut.v (a thread that dies is an event the machine
rejects); only the fault-related verdicts of the two monitors count here."""
import p_c02m as base
import p_c13 as law

PROP = "C18"
MACHINE = base.MACHINE
N_QUICK = 1200
N_THOROUGH = 50000
KEEP = ("proto:callback-count", "proto:thread-died", "proto:cancel-raised", "proto:deadlock", "proto:harness-exc",
        "proto:outcome-changed", "map:thread-died", "map:wrong-outcome", "map:deadlock", "map:harness-exc")

gen = base.gen
execute = base.execute
encode = base.encode


def monitor(r, obs):
    vs = base.monitor(r, obs) + law.monitor(r, obs)
    seen, out = set(), []
    for v in vs:
        if v["pattern"] in KEEP and (v["pattern"], str(v["detail"])) not in seen:
            seen.add((v["pattern"], str(v["detail"])))
            out.append(v)
    return out


def nontrivial(r, obs, events):
    p = obs["params"]
    faulty = any(any(f["cbs"]) or any(f["late_cbs"]) or f["fn"][0] == "raise" or f["efn"][0] in ("raise", "same") for f in p["futs"])
    return faulty and r.preempts > 0


describe = base.describe
