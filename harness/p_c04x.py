"""C04 (retry): a finished attempt wakes the submit thread and the retry is handed over; result() and shutdown(wait=True) never wait for ever on the internal thread; scenario family and lockstep of C06 (cancel() calls racing with the submit thread, incl. a cancel at policy time followed by a second one) on Model/Retry.v.
Only the verdicts of that family's monitor that belong to this property count here; every history is still
replayed on the component machine."""
import p_c06r as base

PROP = "C04"
MACHINE = base.MACHINE
N_QUICK = 600
N_THOROUGH = 40000
KEEP = ("retry:late", "retry:pending", "retry:deadlock", "retry:thread-died:worker", "retry:thread-died:other", "retry:worker-dead", "retry:harness-exc")
if hasattr(base, "setup"):
    setup = base.setup
if hasattr(base, "expected_verdict"):
    expected_verdict = base.expected_verdict

gen = base.gen
execute = base.execute
encode = base.encode


def monitor(r, obs):
    return [v for v in base.monitor(r, obs) if v["pattern"] in KEEP]


nontrivial = base.nontrivial
describe = base.describe
