"""Generic driver: runs a property module's scenario family on /repo under the deterministic
scheduler, feeds each implementation trace to the extracted Coq model (correspondence) and to the
property's monitor (search oracle).  Prints one @@RESULT@@ JSON line.

  drive.py p_c10 --tier quick --seed 1 [--n 2000] [--shards 8]
  drive.py p_c10 --replay file.json
"""
import sys, os, json, argparse, subprocess, random, time, importlib, glob

LINE_EVERY = int(os.environ.get("VERIF_LINE_EVERY", "5"))
HERE = os.path.dirname(os.path.abspath(__file__))
VERIF = os.path.dirname(HERE)
sys.path.insert(0, HERE)


def child_env():
    env = dict(os.environ)
    env["PYTHONPATH"] = os.environ.get("VERIF_REPO", "/repo") + os.pathsep + HERE
    env["PYTHONHASHSEED"] = "0"
    env.setdefault("MORE_EXECUTORS_PROMETHEUS", "0")
    return env


def load_known(prop):
    p = os.path.join(VERIF, "known_findings.json")
    if not os.path.exists(p):
        return []
    return [k for k in json.load(open(p)) if k.get("property") == prop and k.get("status") == "known"]


def one(mod, runner, stats, p, kind, cseed, origin, known_patterns, use_model=True):
    import detsched as det
    import lib
    chooser = det.make_chooser(kind, cseed)
    if kind.endswith("+line"):
        # interleavings finer than the machines' atomic steps (an executor-lock section is ONE model event): such runs are
        # judged by the property's monitor only, the event-by-event correspondence is claimed at visible-operation granularity
        use_model = False
    r, obs = mod.execute(p, chooser)
    lib.between()
    events, bad = mod.encode(r.log)
    case = {"params": p, "chooser": kind, "cseed": cseed, "origin": origin}
    nt = bool(mod.nontrivial(r, obs, events))
    sample = {"params": p, "chooser": kind, "cseed": cseed, "trace_head": events[:40], "trace_len": len(events)}
    tags = list(mod.describe(p)) + ["chooser=" + kind, "preempts>0" if r.preempts else "preempts=0"]
    stats.add(events, nt, sample, tags)
    stats.dist["yield_points"] += r.npoints
    if kind.endswith("+line"):
        stats.dist["line_mode_runs"] += 1
        stats.dist["line_mode_switch_offers"] += getattr(r, "line_switches", 0)
    if r.exc is not None:
        stats.divergences.append(dict(case, kind="harness-exception", detail=getattr(r, "tb", repr(r.exc))[-600:]))
    if bad and kind.endswith("+line"):
        pass      # the adapters' merging of lock sections into single model events does not apply to line-mode runs
    elif bad:
        stats.divergences.append(dict(case, kind="unmodelled-operation", detail=[list(map(str, b)) for b in bad[:5]]))
    elif use_model and runner is not None and getattr(mod, "MACHINE", None):
        verdict = runner.ask(mod.MACHINE, events)
        exp = mod.expected_verdict(r, obs, events) if hasattr(mod, "expected_verdict") else [-1]
        if verdict != exp:
            i = verdict[0] if verdict else None
            stats.divergences.append(dict(case, kind="model-rejects-impl-trace", index=i, expected=exp, got=verdict,
                                          around=events[max(0, (i or 0) - 4):(i or 0) + 2] if i is not None and i >= 0 else None))
    verdicts = list(mod.monitor(r, obs))
    if getattr(mod, "PROP", None) in ("C02", "C06"):
        for e in r.log:
            if e[1] == "lib.cancel-nonbool":
                verdicts.append({"what": "cancel() of library future %s returned %s, not a bool" % (e[2], e[3]), "detail": str(e), "pattern": "proto:cancel-nonbool"})
                break
    for v in verdicts:
        if v.get("pattern") in known_patterns:
            if v["pattern"] not in stats.known:
                stats.known[v["pattern"]] = dict(v, case=case)
        else:
            stats.violations.append(dict(v, case=case))
    return r, obs, events


def run_shard(modname, tier, seed, n, shard, nshards, use_model):
    import detsched as det
    import lib
    mod = importlib.import_module(modname)
    det.install(pool=getattr(mod, "NEEDS_POOL", False))
    if hasattr(mod, "setup"):
        mod.setup()
    runner = lib.RunnerProc() if (use_model and getattr(mod, "MACHINE", None)) else None
    stats = lib.Stats()
    known_patterns = set(k["pattern"] for k in load_known(mod.PROP))
    t0 = time.time()
    # 1. corpus (directed cases; always all of them, on shard 0)
    if shard == 0:
        for path in sorted(glob.glob(os.path.join(VERIF, "corpus", mod.PROP, "*.json"))):
            c = json.load(open(path))
            if c.get("module") not in (None, modname):
                continue
            one(mod, runner, stats, c["params"], c.get("chooser", "random"), c.get("cseed", 0),
                "corpus:" + os.path.basename(path), known_patterns, use_model)
        if hasattr(mod, "directed"):
            for (p, kind, cseed, tag) in mod.directed(tier):
                one(mod, runner, stats, p, kind, cseed, "directed:" + tag, known_patterns, use_model)
    # 2. seeded random scenarios x schedules
    nhang = 0
    for i in range(shard, n, nshards):
        rng = random.Random(seed * 1000003 + i)
        p = mod.gen(rng)
        kind = ("random", "sticky", "pct")[i % 3]
        if LINE_EVERY and i % LINE_EVERY == LINE_EVERY - 1 and getattr(mod, "LINE_PREEMPT", True):
            # every LINE_EVERY-th scenario also offers the baton between LINES of library code (detsched line mode)
            kind += "+line"
        r, obs, events = one(mod, runner, stats, p, kind, rng.randrange(1 << 30), "seeded:%d" % i, known_patterns, use_model)
        if getattr(r, "hang", False):
            # a scenario that blocks for real (outside the scheduler's view) costs its whole real-time limit: after a few
            # of them the shard stops exploring and reports what it has (each hang is a monitor verdict already)
            nhang += 1
            if nhang >= 2:
                stats.dist["aborted_after_hangs"] += 1
                break
    if shard == 0 and hasattr(mod, "extra"):
        mod.extra(stats, tier, seed)
    if runner:
        runner.close()
    s = stats.summary()
    s["wall_s"] = time.time() - t0
    s["keys"] = sorted(stats.keys)
    s["nt_keys"] = sorted(stats.nontrivial_keys)
    return s


def merge(parts):
    out = {"evaluations": 0, "events": 0, "samples": [], "distribution": {}, "divergences": [],
           "n_divergences": 0, "violations": [], "n_violations": 0, "known": []}
    keys, nt = set(), set()
    seen_known = set()
    for s in parts:
        out["evaluations"] += s["evaluations"]
        out["events"] += s["events"]
        out["samples"] = (out["samples"] + s["samples"])[:3]
        for k, v in s["distribution"].items():
            out["distribution"][k] = out["distribution"].get(k, 0) + v
        out["divergences"] = (out["divergences"] + s["divergences"])[:20]
        out["n_divergences"] += s["n_divergences"]
        out["violations"] = (out["violations"] + s["violations"])[:20]
        out["n_violations"] += s["n_violations"]
        for k in s["known"]:
            if k["pattern"] not in seen_known:
                seen_known.add(k["pattern"])
                out["known"].append(k)
        keys.update(s["keys"])
        nt.update(s["nt_keys"])
    out["distinct"] = len(keys)
    out["distinct_nontrivial"] = len(nt)
    return out


def main():
    ap = argparse.ArgumentParser()
    ap.add_argument("module")
    ap.add_argument("--tier", default="quick")
    ap.add_argument("--seed", type=int, default=0)
    ap.add_argument("--n", type=int, default=None)
    ap.add_argument("--shards", type=int, default=8)
    ap.add_argument("--shard", default=None)
    ap.add_argument("--replay", default=None)
    ap.add_argument("--no-model", action="store_true")
    a = ap.parse_args()
    if a.replay:
        import detsched as det
        import lib
        mod = importlib.import_module(a.module)
        det.install(pool=getattr(mod, "NEEDS_POOL", False))
        if hasattr(mod, "setup"):
            mod.setup()
        c = json.load(open(a.replay))
        case = c.get("case", c)
        runner = lib.RunnerProc() if (getattr(mod, "MACHINE", None) and os.path.exists(lib.RUNNER)) else None
        stats = lib.Stats()
        r, obs, events = one(mod, runner, stats, case["params"], case.get("chooser", "random"),
                             case.get("cseed", 0), "replay", set(), not a.no_model)
        print(json.dumps({"violations": stats.violations, "divergences": stats.divergences,
                          "trace_len": len(events)}, indent=1, default=str))
        for e in r.log[-60:]:
            print("  ", e)
        print("waiting:", getattr(r, "waiting", None), "deadlock:", r.deadlock)
        sys.exit(1 if (stats.violations or stats.divergences) else 0)
    mod = importlib.import_module(a.module) if False else None
    if a.shard is not None:
        k, nsh = [int(x) for x in a.shard.split("/")]
        n = a.n
        s = run_shard(a.module, a.tier, a.seed, n, k, nsh, not a.no_model)
        sys.stdout.write("@@RESULT@@" + json.dumps(s, default=str) + "\n")
        return
    # parent: fan out
    sys.path.insert(0, os.environ.get("VERIF_REPO", "/repo"))
    spec = importlib.import_module(a.module)
    n = a.n if a.n is not None else (spec.N_THOROUGH if a.tier == "thorough" else spec.N_QUICK)
    nsh = max(1, min(a.shards, n // 50 or 1))
    procs = []
    for k in range(nsh):
        cmd = ["/venv/bin/python", os.path.abspath(__file__), a.module, "--tier", a.tier, "--seed", str(a.seed),
               "--n", str(n), "--shard", "%d/%d" % (k, nsh)] + (["--no-model"] if a.no_model else [])
        procs.append(subprocess.Popen(cmd, stdout=subprocess.PIPE, stderr=subprocess.PIPE,
                                      universal_newlines=True, env=child_env()))
    parts = []
    errs = []
    for p in procs:
        o, e = p.communicate()
        got = [l for l in o.splitlines() if l.startswith("@@RESULT@@")]
        if p.returncode != 0 or not got:
            errs.append((p.returncode, e[-1500:]))
        else:
            parts.append(json.loads(got[-1][len("@@RESULT@@"):]))
    out = merge(parts)
    out["shard_errors"] = errs
    sys.stdout.write("@@RESULT@@" + json.dumps(out, default=str) + "\n")


if __name__ == "__main__":
    main()
