"""C08: PollExecutor -- lockstep with Model/Poll.v + monitors (see poll_mon.py)."""
import poll_common as pc

PROP = "C08"
MACHINE = "poll"
N_QUICK = 2400
N_THOROUGH = 90000


def gen(rng):
    return pc.gen(rng, faults=True)


setup = pc.setup
execute = pc.execute
encode = pc.encode


def monitor(r, obs):
    import poll_mon
    # a poll future lost because its delegate was cancelled by someone else is C03's business (known finding G1 there)
    return [v for v in poll_mon.monitor(r, obs) if not v["pattern"].startswith("lost:")]


def nontrivial(r, obs, events):
    # a poll call saw a descriptor and another thread was scheduled in between
    return any(e[1] == 16 and len(e) > 3 for e in events) and r.preempts > 0


def describe(p):
    return ["subs=%d" % len(p["subs"]), "cfn=%d" % p["cfn"],
            "cancels=%d" % sum(1 for o in p["ops"] if o["op"] == "cancel"),
            "notifies=%d" % sum(1 for o in p["ops"] if o["op"] == "notify"),
            "sync=%d" % sum(1 for s in p["subs"] if s["sync"]),
            "raises=%d" % sum(1 for s in p["poll"] if s["end"][0] == "raise")]
