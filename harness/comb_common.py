"""Scenario family + adapter for f_or / f_and / f_zip against Model/Comb.v."""
import random
import detsched as det
import lib
from concurrent.futures import Future

MACHINE = "comb"
DONE = ("CANCELLED", "CANCELLED_AND_NOTIFIED", "FINISHED")
TRUTHY = [5, [1], "x", True, 2.5]
FALSY = [0, [], "", False, None]


class XE(Exception):
    pass


class BXE(BaseException):
    pass


class FXE(XE):
    """an exception object that is falsy (as error aggregates with __len__ == 0 are): the library must test
    `is not None`, never truthiness"""

    def __bool__(self):
        return False


def gen(rng, kinds=(0, 1, 2), dups=True):
    kind = rng.choice(kinds)
    npos = rng.randint(2, 5)
    pool = rng.randint(2, npos) if dups else npos
    if dups and rng.random() < 0.7:
        ins = list(range(npos))
        pool = npos
    else:
        ins = [rng.randrange(pool) for _ in range(npos)]
    env = []
    for d in range(pool):
        r = rng.random()
        if r < 0.4:
            env.append([d, "ok", 1, rng.randrange(len(TRUTHY))])
        elif r < 0.7:
            env.append([d, "ok", 0, rng.randrange(len(FALSY))])
        elif r < 0.82:
            env.append([d, "err", 0, 200 + d])
        elif r < 0.92:
            env.append([d, "cancel", 0, 0])
    rng.shuffle(env)
    return {"kind": kind, "ins": ins, "pool": pool, "env": env,
            "pre_done": [rng.random() < 0.3 for _ in range(pool)],
            "out_cancels": rng.choice([0, 0, 0, 1, 2]), "cancel_delay": rng.choice([0, 0, 1]),
            "env_threads": rng.randint(1, 3)}


def execute(p, chooser):
    from more_executors.futures import f_or, f_and, f_zip
    obs = {"params": p, "excs": {}, "out": None, "cancel_req": {}}

    def exc(e):
        if e not in obs["excs"]:
            from concurrent.futures import CancelledError
            # besides ordinary exceptions: falsy ones, and types the future / iteration machinery gives a meaning of its own
            # ... and a BaseException that is not an Exception (what a pool stores for a callable that called sys.exit())
            cls = FXE if e % 3 == 0 else CancelledError if e % 7 == 1 else StopIteration if e % 7 == 2 else BXE if e % 7 == 4 else XE
            obs["excs"][e] = cls("e%d" % e)
        return obs["excs"][e]

    def main():
        with det.atomic():
            ext = []
            for d in range(p["pool"]):
                f = Future()
                det.S.name(f, "d%d" % d)
                ext.append(f)
            obs["ext"] = ext
        envops = list(p["env"])

        def do_env(op):
            d, kind, truthy, v = op
            f = ext[d]
            try:
                if kind == "cancel":
                    det.emit("env.cancel", None, d)
                    f.cancel()
                elif kind == "ok":
                    det.emit("env.outcome", None, (0, v, truthy))
                    f.set_result((TRUTHY if truthy else FALSY)[v])
                else:
                    det.emit("env.outcome", None, (1, v, 0))
                    f.set_exception(exc(v))
            except Exception:
                pass

        for op in [o for o in envops if p["pre_done"][o[0]]]:
            do_env(op)
            envops.remove(op)
        fn = (f_or, f_and, f_zip)[p["kind"]]
        det.emit("call", "new", (p["kind"], list(p["ins"])))
        try:
            out = fn(*[ext[d] for d in p["ins"]])
        except Exception as e:
            det.emit("ret", "new", 9)
            obs["ctor_exc"] = repr(e)
            out = None
        else:
            det.emit("ret", "new", 0)
        obs["out"] = out

        def canceller():
            if out is None:
                return
            for _ in range(p["out_cancels"]):
                if p["cancel_delay"]:
                    det.sleep(p["cancel_delay"])
                det.emit("call", "cancel", None)
                r = out.cancel()
                det.emit("ret", "cancel", 2 if r else 1)

        def env(k):
            def run():
                while envops:
                    det.switch("env")
                    if not envops:
                        break
                    do_env(envops.pop(0))
            return run

        ts = [det.spawn("c0", canceller)] + [det.spawn("e%d" % k, env(k)) for k in range(p["env_threads"])]
        ws = []
        for wi, wkind in enumerate(p.get("waiters", [])):
            def waiter(wkind=wkind):
                import concurrent.futures as cf
                if out is None:
                    return
                t0 = det.now()
                try:
                    if wkind == "result":
                        r = ("value", out.result(50))
                    elif wkind == "wait":
                        d, nd = cf.wait([out], timeout=50)
                        r = ("wait", out in d)
                    else:
                        r = ("as_completed", [x is out for x in cf.as_completed([out], timeout=50)])
                except BaseException as e:
                    if isinstance(e, det.Abort):
                        raise
                    r = ("raised", type(e).__name__)
                obs.setdefault("waits", []).append((wkind, r, det.now()))
            ws.append(det.spawn("w%d" % wi, waiter))
        for t in ts:
            t.join()
        obs["t_done"] = det.now()
        for t in ws:
            t.join()
        det.emit("endscen")
        with det.atomic():
            obs["ext_states"] = [f._state for f in ext]
            if out is not None:
                if out._state in DONE:
                    if out.cancelled():
                        obs["outcome"] = ("cancelled",)
                    elif out._exception is not None:
                        obs["outcome"] = ("err", out._exception)
                    else:
                        obs["outcome"] = ("ok", out._result)
                else:
                    obs["outcome"] = ("pending",)
                obs["out_state"] = out._state

    r = det.run(chooser, main)
    return r, obs


FO = {"F.cancelled": 0, "F.cancel": 2, "F.set_running_or_notify_cancel": 3, "F.set_result": 4, "F.add_done_callback": 5, "F.set_exception": 6}
FI = {"F.cancelled": 0, "F.cancel": 2, "F.add_done_callback": 5}
DROP = {"thread.exit", "F.exception", "F.result", "F.done", "clock"}


def encode(log):
    tids = lib.Tids()
    ev, bad = [], []
    pend_out = {}
    pend_cancel = {}
    for (th, op, obj, val, ts) in log:
        if op == "endscen":
            break
        if op in DROP:
            continue
        t = tids(th)
        if op == "env.outcome":
            pend_out[th] = val
            continue
        if op == "env.cancel":
            pend_cancel[th] = val
            continue
        if op == "call":
            if obj == "new":
                ev.append([0, t, val[0]] + list(val[1]))
            else:
                ev.append([1, t])
            continue
        if op == "ret":
            ev.append([7, t, val])
            continue
        if op in ("acq", "rel") and str(obj).startswith("L"):
            ev.append([8 if op == "acq" else 9, t])
            continue
        if str(obj).startswith("f") and op in FO:
            ev.append([10, t, FO[op], val])
            continue
        if str(obj).startswith("d"):
            d = int(obj[1:])
            if op in ("F.set_result", "F.set_exception") and th in pend_out:
                o = pend_out.pop(th)
                ev.append([21, t, d, val, o[0], o[1], o[2]])
                continue
            if op == "F.cancel" and pend_cancel.get(th) == d:
                pend_cancel.pop(th)
                ev.append([23, t, d, val])
                continue
            if op in FI:
                ev.append([11, t, FI[op], d, val])
                continue
        if op == "thread.died":
            ev.append([22, t])
            continue
        bad.append((th, op, obj, val))
    return ev, bad
