"""C11 (chain): the shutdown chain of whole stacks in lockstep with coq/Model/Chain.v, plus the monitor
that decides C11 on the implementation history (call frames of every layer's submit/shutdown)."""
from chain_common import gen, execute, encode, frames, propagated, WORKER, MSG, BIG, KWS
PROP = "C11"
MACHINE = "chain"
NEEDS_POOL = True
N_QUICK = 2000
N_THOROUGH = 40000


def V(what, detail, pattern):
    return {"what": what, "detail": str(detail)[:600], "pattern": pattern}


def monitor(r, obs):
    p = obs["params"]
    if r.deadlock or r.hang or r.now >= BIG:
        return [V("a shutdown()/submit() never returned (deadlock %s, waiting %s)" % (r.deadlock, getattr(r, "waiting", None)), p, "chain:hang")]
    if r.exc is not None:
        return [V("harness-exception", getattr(r, "tb", repr(r.exc))[-600:], "chain:harness-exc")]
    out = []
    for (nm, dn, e) in r.threads:
        if e is not None:
            out.append(V("thread %s died with %s" % (nm, e), p, "chain:thread-died"))
    for e in obs["errors"]:
        out.append(V("nested submit raised %r" % (e,), p, "chain:racer"))
    n = len(p["layers"])
    fs, exits = frames(r.log)
    sd = [f for f in fs if f["kind"] == "sd"]
    sub = [f for f in fs if f["kind"] == "sub"]
    for f in fs:
        if f["kind"] == "orphan" or (f["kind"] == "sd" and f["ok"] is False):
            out.append(V("shutdown() raised / unmatched return on layer %s" % f["k"], f, "chain:harmless"))
        if f["kind"] == "sub" and f["ok"] == 2:
            out.append(V("submit() on layer %d raised something other than RuntimeError(%r)" % (f["k"], MSG), f, "chain:racer"))
    for s in obs["subs"]:
        if s["res"] not in ("ok", "raise"):
            out.append(V("racing submit() raised %r" % (s["res"],), s, "chain:racer"))
    first_ret = {}
    for f in sd:
        if f["end"] is not None:
            first_ret[f["k"]] = min(first_ret.get(f["k"], f["end"]), f["end"])
    # once each, same arguments
    for k in range(1, n + 1):
        down = [f for f in sd if f["k"] == k - 1 and propagated(fs, f)]
        if len(down) > 1:
            out.append(V("layer %d called its delegate's shutdown() %d times" % (k, len(down)), [(f["th"], f["args"]) for f in down], "chain:once-each"))
        for f in down:
            if fs[f["parent"]]["args"] != f["args"]:
                out.append(V("layer %d passed %r down, was called with %r" % (k, f["args"], fs[f["parent"]]["args"]), p, "chain:args"))
    for f in sub:
        k = f["k"]
        if p["base"] == "manual" and k == 0:
            continue
        # submit after a shutdown of that layer returned: raises at that layer
        if k in first_ret and f["start"] > first_ret[k] and f["end"] is not None:
            if f["ok"] != 0:
                out.append(V("submit() on layer %d started after shutdown() had returned and did not raise" % k, f, "chain:submit-after"))
            if f["children"]:
                out.append(V("submit() on layer %d after shutdown() reached the layer below" % k, f, "chain:submit-after"))
    for f in sd:
        k = f["k"]
        kids = [c for c in f["children"] if fs[c]["kind"] == "sd" and fs[c]["k"] == k - 1]
        # idempotent: a call that starts after an earlier one returned does nothing
        if k in first_ret and f["start"] > first_ret[k] and kids:
            out.append(V("a further shutdown() on layer %d propagated again" % k, f, "chain:idempotent"))
        if k == 0 or f["end"] is None or not kids:
            continue
        # f performed the shutdown of layer k and has returned
        kind = p["layers"][k - 1]
        if f["args"][0] and kind in WORKER:
            w = WORKER[kind] + "L%d" % k
            if exits.get(w, 1 << 60) > f["end"]:
                out.append(V("shutdown(wait=True) on layer %d (%s) returned before its worker thread exited" % (k, kind), f, "chain:not-joined"))
        others = [g for g in sd if g["th"] != f["th"] and g["k"] < k and g["start"] < f["end"] and (g["end"] is None or g["end"] > f["end"])]
        if others:
            continue    # an inner layer is being shut down by another thread right now (losing calls return at once)
        for j in range(k):
            got = [g for g in sd if g["k"] == j and propagated(fs, g) and g["start"] < f["end"]]
            if len(got) != 1 or got[0]["end"] is None or got[0]["end"] > f["end"]:
                out.append(V("when the shutdown() of layer %d returned, layer %d had received %d completed shutdown() calls from above"
                             % (k, j, len([g for g in got if g["end"] is not None and g["end"] < f["end"]])), f, "chain:propagated"))
    for s in obs["shuts"]:
        k = s["k"]
        if k >= 1 and not s["flags"][k]:
            out.append(V("layer %d not marked shut down when its shutdown() returned" % k, s, "chain:flag"))
    return out


def nontrivial(r, obs, events):
    fs, _ = frames(r.log)
    sd = [f for f in fs if f["kind"] == "sd" and f["parent"] is None]
    for f in sd:
        for g in fs:
            if g["th"] != f["th"] and g["end"] is not None and f["end"] is not None and g["start"] < f["end"] and f["start"] < g["end"]:
                return r.preempts > 0
    return False


def describe(p):
    n = len(p["layers"])
    ops = [op for c in p["clients"] for op in c]
    sh = [op for op in ops if op[0] == "shut"]
    tags = ["base=" + p["base"], "depth=%d" % n, "clients=%d" % len(p["clients"]), "shutdowns=%d" % min(len(sh), 4)]
    tags += ["has_" + k for k in sorted(set(p["layers"]))]
    if any(op[1] < n for op in sh):
        tags.append("inner_shutdown")
    if any(op[2] for op in sh) and any(not op[2] for op in sh):
        tags.append("wait_mixed")
    if any(op[0] == "sub" and op[2] in ("nest", "nshut") for op in ops):
        tags.append("callable_calls_back")
    if any(op[0] == "sub" and op[1] < n for op in ops):
        tags.append("inner_submit")
    return tags


def directed(tier):
    """the history of coq/Props/C11_Chain.v's non-vacuity example (depth 3: map, retry, poll; shutdown
    callers on layers 3 and 2, a racing submit) under many schedules, for each base"""
    out = []
    for base in ("sync", "pool", "manual"):
        p = {"base": base, "layers": ["map", "retry", "poll"],
             "clients": [[["shut", 3, True, 0]], [["shut", 2, False, 1]], [["sub", 3, "quick", 0]]],
             "env": [1, 4], "poll_resolves": True, "throttle": 1, "final_shutdown": True}
        for cs in range(20 if tier == "quick" else 200):
            out.append((p, ("random", "sticky", "pct")[cs % 3], cs, "example-%s" % base))
    return out
