"""C06 (derived futures): cancel() on a MapFuture / FlatMapFuture forwards to the innermost pending
work (the delegate, or the flattened inner future); True means neither fn nor error_fn runs afterwards.
Lockstep with Model/MapFut.v + monitor."""
import random
import detsched as det
import lib
import map_common as mc

PROP = "C06"
MACHINE = "mapfut"
N_QUICK = 1500
N_THOROUGH = 60000


def gen(rng):
    p = mc.gen(rng, cancels=True, envcancel=False, cbraise=False)
    for f in p["futs"]:
        f["cancels"] = rng.choice([1, 1, 2])
    return p


execute = mc.execute
encode = mc.encode


def monitor(r, obs):
    out = []
    if r.deadlock or r.hang:
        return [{"what": "deadlock %s" % (r.deadlock,), "detail": str(getattr(r, "waiting", None)), "pattern": "mapcancel:deadlock"}]
    if r.exc is not None:
        return [{"what": "harness-exception", "detail": getattr(r, "tb", repr(r.exc))[-600:], "pattern": "mapcancel:harness-exc"}]
    p = obs["params"]
    log = r.log
    # per cancel() call on library future j: the stdlib cancel() calls on delegates made by that thread inside the call
    calls = []
    open_ = {}
    for idx, (th, op, obj, val, ts) in enumerate(log):
        if op == "call" and obj == "cancel":
            open_[th] = {"j": val, "start": idx, "dcancels": [], "pre_done": None, "had_delegate": None}
        elif op == "ret" and obj == "cancel" and th in open_:
            c = open_.pop(th)
            c["ret"] = val
            c["end"] = idx
            calls.append(c)
        elif th in open_:
            c = open_[th]
            if op == "F.done" and obj == "r%d" % c["j"] and c["pre_done"] is None:
                c["pre_done"] = val in (2, 3, 4)
            if op == "F.cancel" and str(obj).startswith("d"):
                c["dcancels"].append((int(obj[1:]), val))
    fn_events = [(idx, th) for idx, (th, op, obj, val, ts) in enumerate(log) if op in ("user:fn", "user:efn")]
    for c in calls:
        j = c["j"]
        i, f = obs["futs"][j]
        if c["ret"] == 2:       # True
            if obs["outs"][j] != ("cancelled",):
                out.append({"what": "cancel() returned True, future ended %r" % (obs["outs"][j][0],), "detail": j, "pattern": "mapcancel:true-not-cancelled"})
            if c["pre_done"] is False and not c["dcancels"]:
                out.append({"what": "cancel() returned True on a pending derived future without asking its delegate", "detail": j,
                            "pattern": "mapcancel:not-forwarded"})
        if c["pre_done"] is False and c["dcancels"]:
            d, pre = c["dcancels"][0]
            if pre == 0 and c["ret"] != 2:
                out.append({"what": "the delegate accepted the cancel but cancel() returned False", "detail": j, "pattern": "mapcancel:accepted-but-false"})
    # after a True return no user function of that future runs: user functions are keyed by thread order; use call logs
    for c in calls:
        if c["ret"] != 2:
            continue
        i, f = obs["futs"][c["j"]]
        # any fn/efn invocation for spec i logged after the return?
        late = [idx for (idx, th) in fn_events if idx > c["end"] and owner_of(log, idx) == c["j"]]
        if late:
            out.append({"what": "fn/error_fn of the future ran after cancel() had returned True", "detail": c["j"], "pattern": "mapcancel:fn-after-cancel"})
    return out


def owner_of(log, idx):
    """the library future whose _delegate_resolved is running the user function at log[idx]:
    the latest 'acq M<j>' by the same thread before it"""
    th = log[idx][0]
    for k in range(idx - 1, -1, -1):
        if log[k][0] == th and log[k][1] == "acq" and str(log[k][2]).startswith("M"):
            return int(log[k][2][1:])
    return None


def nontrivial(r, obs, events):
    return r.preempts > 0 and any(e[0] == 1 for e in events)


def describe(p):
    return ["futs=%d" % len(p["futs"]), "flat=%d" % sum(1 for f in p["futs"] if f["kind"] == 1)]
