"""C09 monitor: decides the property on the implementation history (log + virtual timestamps).

For every returned future j (deadline D = virtual time at which the future was created, i.e. when the
delegate's submit() returned, + its timeout):
  early    a cancel() attempt by the job thread at a clock reading <= D
  twice    more than one cancel() attempt by the job thread
  late     j is not done by the end of instant B = max(D + TICK, time its job was appended) and the
           job thread made no attempt within (D, B]   (first timer expiry after the deadline)
  stale    j was done strictly before D and still received an attempt
  outcome  the wrapped future finished before D but j does not carry that outcome
An attempt = the job thread's `self.cancelled()` at the start of _Future.cancel() on j."""
import timeout_common as tc

TICK = tc.TICK


def scan(r, obs):
    """-> per-future facts from the log"""
    js = set(obs["futs"].keys())
    attempts = {j: [] for j in js}
    done = {}
    calls = {}       # thread -> (sub index, ts) of the submit call in progress
    call_ts = {}     # sub index -> ts
    append_ts = {}   # sub index -> ts of the X-section
    src_done = {}    # d -> ts
    observed = {j: [] for j in js}   # partition observations (now, state)
    in_x = False
    now = None
    for idx, (th, op, obj, val, ts) in enumerate(r.log):
        if op == "endscen":
            break
        o = obj if isinstance(obj, str) else ""
        if op == "call" and obj == "submit":
            calls[th] = val[0]
            call_ts[val[0]] = ts
        elif op == "ret" and obj == "submit":
            calls.pop(th, None)
        elif op == "acq" and obj == "X" and th in calls:
            append_ts[calls[th]] = ts
        elif op == "deleg.submit" and th in calls:
            # the returned future is created right after the delegate's submit() returns: its creation time
            call_ts[calls[th]] = ts
        if o.startswith("r") and o[1:].isdigit() and int(o[1:]) in js:
            j = int(o[1:])
            if op in ("F.set_result", "F.set_exception") and val in (0, 1) and j not in done:
                done[j] = (ts, idx, th)
            elif op == "F.cancel" and val == 0 and j not in done:
                done[j] = (ts, idx, th)
            if th.startswith(tc.TNAME):
                if op == "F.cancelled":
                    attempts[j].append((ts, idx))
                elif op == "F.done" and in_x:
                    observed[j].append((now, val))
        if o.startswith("d") and o[1:].isdigit() and op in ("F.set_result", "F.set_exception") and val in (0, 1):
            src_done.setdefault(int(o[1:]), ts)
        if th.startswith(tc.TNAME):
            if op == "acq" and obj == "X":
                in_x = True
            elif op == "rel" and obj == "X":
                in_x = False
            elif op == "clock" and in_x:
                now = val
    return attempts, done, call_ts, append_ts, src_done, observed


def monitor(r, obs):
    out = []
    if r.deadlock or r.hang:
        return [{"what": "deadlock", "detail": r.deadlock or "hang", "pattern": "timeout:deadlock"}]
    if r.exc is not None:
        return [{"what": "harness-exception", "detail": getattr(r, "tb", repr(r.exc))[-500:], "pattern": "timeout:harness-exc"}]
    for (nm, dn, e) in r.threads:
        if e is not None:
            out.append({"what": "thread %s died with %s" % (nm, e), "detail": nm, "pattern": "timeout:thread-died"})
    if not obs.get("thread_alive", True):
        out.append({"what": "the job thread is dead", "detail": None, "pattern": "timeout:thread-dead"})
    attempts, done, call_ts, append_ts, src_done, observed = scan(r, obs)
    for i, info in sorted(obs["sub"].items()):
        j = info["j"]
        D = call_ts[i] + info["eff"]
        att = attempts[j]
        for (ts, idx) in att:
            if ts <= D:
                out.append({"what": "cancel attempt at %s, deadline %s" % (ts, D), "detail": (i, j), "pattern": "timeout:early"})
        if len(att) > 1:
            out.append({"what": "%d cancel attempts" % len(att), "detail": (i, j), "pattern": "timeout:twice"})
        if i in append_ts:
            B = max(D + TICK, append_ts[i])
            timely = any(D < ts <= B for (ts, idx) in att)
            d = done.get(j)
            if not timely and (d is None or d[0] > B):
                out.append({"what": "not done and no cancel attempt within (%s, %s]; attempts at %s, done at %s"
                                    % (D, B, [a[0] for a in att], d and d[0]), "detail": (i, j), "pattern": "timeout:late"})
        d = done.get(j)
        if d is not None and d[0] < D and att:
            out.append({"what": "done at %s before deadline %s but cancel attempted at %s" % (d[0], D, att[0][0]),
                        "detail": (i, j), "pattern": "timeout:stale-attempt"})
        so = obs["src_outs"].get(i)
        sd = src_done.get(info["d"])
        if so is not None and so[0] in ("ok", "err") and sd is not None and sd < D:
            if obs["outs"].get(j) != so:
                out.append({"what": "wrapped future finished at %s (deadline %s) with %r but the returned future is %r"
                                    % (sd, D, so, obs["outs"].get(j)), "detail": (i, j), "pattern": "timeout:outcome"})
    return out


def nontrivial(r, obs, events):
    attempts = scan(r, obs)[0]
    return any(attempts.values()) and r.preempts > 0
