"""C14: f_and / f_or as folds over completion order.  Lockstep with Model/Comb.v + fold monitor."""
import random
import detsched as det
import lib
import comb_common as cc

PROP = "C14"
MACHINE = "comb"
N_QUICK = 2500
N_THOROUGH = 100000


def gen(rng):
    return cc.gen(rng, kinds=(0, 1))


execute = cc.execute
encode = cc.encode


def ext_outcome(f):
    st = f._state
    if st == "FINISHED":
        if f._exception is not None:
            return ("err", f._exception)
        return ("ok", f._result)
    if st in ("CANCELLED", "CANCELLED_AND_NOTIFIED"):
        return ("cancelled",)
    return ("pending",)


def intervals(r, p):
    """For every distinct input: the interval of log indices during which the combinator may have
    observed its completion.  Inputs already done when their callback is registered: the
    registration call; others: the environment's completing call (its end over-approximated by the
    completing thread's next own action).  Also: did a user cancel of the output take effect before
    the output was set?"""
    iv = {}
    log = r.log
    n = len(log)
    ctor = "main"
    user_cancel_first = None
    for idx, (th, op, obj, val, ts) in enumerate(log):
        if op == "endscen":
            n = idx
            break
    for idx in range(n):
        th, op, obj, val, ts = log[idx]
        so = str(obj)
        if so.startswith("f") and op == "F.cancel" and val == 0 and th == "c0" and user_cancel_first is None:
            user_cancel_first = True
        elif so.startswith("f") and op in ("F.set_result", "F.set_exception") and val == 0 and user_cancel_first is None:
            user_cancel_first = False
        if not so.startswith("d"):
            continue
        d = int(so[1:])
        if d in iv:
            continue
        if th == ctor and op == "F.add_done_callback" and val in (2, 3, 4):
            e = n
            for k in range(idx + 1, n):
                if log[k][0] == ctor and ((log[k][1] == "F.add_done_callback" and str(log[k][2]).startswith("f")) or log[k][1] == "ret"):
                    e = k
                    break
            iv[d] = (idx, e)
        elif th != ctor and op in ("F.set_result", "F.set_exception", "F.cancel") and val in (0, 1):
            # a state-changing call (by the environment, or a cancel() issued by the library itself)
            e = n
            for k in range(idx + 1, n):
                if log[k][0] == th and log[k][1] in ("env.outcome", "env.cancel", "thread.exit", "ret"):
                    e = k
                    break
            iv[d] = (idx, e)
    return iv, bool(user_cancel_first)


def linearisations(ds, iv):
    """all orders of ds consistent with a.end < b.start => a before b"""
    import itertools
    out = []
    for perm in itertools.permutations(ds):
        pos = {d: i for i, d in enumerate(perm)}
        ok = True
        for a in ds:
            for b in ds:
                if a != b and iv[a][1] < iv[b][0] and pos[a] > pos[b]:
                    ok = False
        if ok:
            out.append(perm)
    return out


def fold(kind, ins, order, obs):
    remaining = []
    for d in ins:
        if d not in remaining:
            remaining.append(d)
    for d in order:
        if d in remaining:
            remaining.remove(d)
        o = ext_outcome(obs["ext"][d])
        if kind == 0:
            if (o[0] == "ok" and bool(o[1])) or not remaining:
                return o
        else:
            if o[0] == "cancelled" or o[0] == "err" or (o[0] == "ok" and not bool(o[1])) or not remaining:
                return o
    return ("pending",)


def same(a, b):
    if a[0] != b[0]:
        return False
    if a[0] == "err":
        return a[1] is b[1]
    if a[0] == "ok":
        return a[1] is b[1] or a[1] == b[1]
    return True


def monitor(r, obs):
    out = []
    if r.deadlock or r.hang:
        return [{"what": "deadlock", "detail": r.deadlock or "hang", "pattern": "comb:deadlock"}]
    if r.exc is not None:
        return [{"what": "harness-exception", "detail": getattr(r, "tb", repr(r.exc))[-500:], "pattern": "comb:harness-exc"}]
    for (nm, dn, e) in r.threads:
        if e is not None:
            out.append({"what": "thread %s died with %s" % (nm, e), "detail": nm, "pattern": "comb:thread-died"})
    p = obs["params"]
    if obs.get("ctor_exc"):
        out.append({"what": "f_or/f_and raised " + obs["ctor_exc"], "detail": p["ins"], "pattern": "comb:ctor-raised"})
        return out
    iv, user_cancel_first = intervals(r, p)
    got = obs["outcome"]
    finished = [d for d in dict.fromkeys(p["ins"]) if d in iv]
    if user_cancel_first:
        exps = [("cancelled",)]
    else:
        exps = []
        for perm in linearisations(finished, iv):
            e = fold(p["kind"], p["ins"], perm, obs)
            if not any(same(e, x) for x in exps):
                exps.append(e)
    if not any(same(got, e) for e in exps):
        out.append({"what": "output %r; folds over every admissible completion order give %r" % (got, exps),
                    "detail": p["ins"], "pattern": "comb:wrong-fold"})
    if got[0] != "pending":
        left = [d for d in set(p["ins"]) if obs["ext"][d]._state == "PENDING"]
        if left:
            out.append({"what": "output is done but inputs %s are still pending and never received cancel()" % left,
                        "detail": p["ins"], "pattern": "comb:loser-not-cancelled"})
    return out


def nontrivial(r, obs, events):
    # at least two inputs completed after construction, from different threads
    th = set(e[1] for e in events if e[0] in (21, 23))
    return len(th) >= 2 and r.preempts > 0


def describe(p):
    return ["kind=%s" % ("or", "and", "zip")[p["kind"]], "npos=%d" % len(p["ins"]),
            "dups" if len(set(p["ins"])) < len(p["ins"]) else "nodups", "outcancel=%d" % min(p["out_cancels"], 1)]


def extra(stats, tier, seed):
    """API-level part that is not a race: a single input is returned as is (the very object), whatever its kind/state."""
    from concurrent.futures import Future
    from more_executors.futures import f_or, f_and, f_return, f_return_error, f_nocancel, f_map
    import drive
    known_patterns = set(k["pattern"] for k in drive.load_known(PROP))

    def viol(what, pattern, detail=None):
        v = {"what": what, "pattern": pattern, "detail": detail,
             "case": {"params": {}, "chooser": "none", "cseed": 0, "origin": "api"}}
        if pattern in known_patterns:
            stats.known.setdefault(pattern, v)
        else:
            stats.violations.append(v)
    with det.atomic():
        running = Future()
        running.set_running_or_notify_cancel()
        cancelled = Future()
        cancelled.cancel()
        inputs = [("pending", Future()), ("running", running), ("done", f_return(0)), ("failed", f_return_error(KeyError("k"))),
                  ("cancelled", cancelled), ("nocancel", f_nocancel(Future())), ("mapped", f_map(Future(), lambda x: x))]
        for nm, x in inputs:
            for op, f in (("f_or", f_or), ("f_and", f_and)):
                got = f(x)
                stats.add([[1, 14, len(nm)]], True, None, ["api:single-input"])
                if got is not x:
                    viol("%s(x) with a single %s input returned a different object (%s) instead of x itself" % (op, nm, type(got).__name__),
                         "comb:single-input-not-returned", nm)
        # inputs that react to the loser's cancel(): (a) an input whose cancel() raises, (b) a loser whose done-callback cancels
        # the output, (c) the output combined with one of its own inputs (f_zip(b, out) / f_and(b, out): chain_cancel leads back to
        # the output).  Whatever the losers do, the deciding input's outcome is the output's and every pending loser gets a cancel().
        rng = random.Random(seed + 14)

        class Grumpy(Future):
            ncancel = 0

            def cancel(self):
                self.ncancel += 1
                raise RuntimeError("this future does not like to be cancelled")

        class Counting(Future):
            ncancel = 0

            def cancel(self):
                self.ncancel += 1
                return Future.cancel(self)

        from more_executors.futures import f_zip
        for trial in range(40 if tier == "quick" else 1000):
            for op, f, decider in (("f_or", f_or, rng.choice([1, "yes", [0]])), ("f_and", f_and, rng.choice([0, "", None]))):
                shape = rng.choice(["grumpy", "cb-cancels-out", "zip-with-out", "and-with-out"])
                a = Future()
                losers = [Grumpy() if shape == "grumpy" and k == 0 else Counting() for k in range(rng.randint(1, 3))]
                ins = [a] + losers
                rng.shuffle(ins)
                out = f(*ins)
                extra_out = None
                if shape == "cb-cancels-out":
                    losers[0].add_done_callback(lambda _f, out=out: out.cancel())
                elif shape == "zip-with-out":
                    extra_out = f_zip(losers[0], out)
                elif shape == "and-with-out":
                    extra_out = f_and(losers[0], out)
                try:
                    a.set_result(decider)
                except Exception:
                    pass
                stats.add([[14, 15, len(ins), len(shape)]], True, None, ["api:loser-reacts:" + shape])
                st = out._state
                if st != "FINISHED" or out._exception is not None or out._result != decider or type(out._result) is not type(decider):
                    viol("%s decided by %r with losers that react to cancel (%s): output is %s / %r" % (op, decider, shape, st, getattr(out, "_result", None)),
                         "comb:decided-but-" + ("pending" if st == "PENDING" else "cancelled" if st.startswith("CANCELLED") else "wrong"), shape)
                missed = [k for k, l in enumerate(losers) if l.ncancel < 1]      # (a second request may arrive through f_zip / f_and built on the loser)
                if missed and shape != "grumpy":
                    viol("%s decided: losers %s received %s cancel() calls, expected a request (%s)" % (op, missed, [losers[k].ncancel for k in missed], shape),
                         "comb:loser-cancel-count", shape)
