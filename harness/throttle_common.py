"""Scenario family + adapter for ThrottleExecutor / ThrottleFuture (C07) against Model/Throttle.v."""
import random, itertools, collections
import detsched as det
import lib
from lib import Manual

MACHINE = "throttle"
HNAME = "ThrottleExecutor-default"
DONE = ("CANCELLED", "CANCELLED_AND_NOTIFIED", "FINISHED")
T_END = 200


class XE(Exception):
    pass


class DequeV(collections.deque):
    """_to_submit with a logged popleft (the blocking submitter reads len() without the lock)"""

    def popleft(self):
        x = collections.deque.popleft(self)
        det.emit("q.pop", "Q", None)
        return x


def setup():
    """Instrumentation added from outside (no source hooks):
    - AtomicInt.value becomes a logged read ('rc.read'): the hand-over thread reads it without the lock
    - the hand-over thread logs 'loop.start' when it first runs (its first silent reads happen there)"""
    from more_executors._impl import throttle
    if getattr(throttle, "_verif", False):
        return
    throttle._verif = True
    base = throttle.AtomicInt

    class AtomicIntV(base):
        @property
        def value(self):
            v = self.__dict__["_v"]
            if det.S is not None and det.me() is not None and not det.S.aborting and not det.S.quiet:
                det.S.emit("rc.read", "A", v)
                import sys as _sys
                lk = getattr(self, "lock", None)
                if _sys._getframe(1).f_code.co_name in ("incr", "decr") and not (lk is not None and getattr(lk, "owner", None) is det.me()):
                    # `self.value += 1` is a read and a write: outside the counter's own lock the update can be preempted
                    # in between (never the case in the unchanged code, where incr / decr hold the lock)
                    det.switch("rc.rmw")
            return v

        @value.setter
        def value(self, v):
            self.__dict__["_v"] = v

    throttle.AtomicInt = AtomicIntV
    orig_loop = throttle._submit_loop

    def loop(ref):
        det.emit("loop.start")
        return orig_loop(ref)

    throttle._submit_loop = loop


def gen_count(rng, dyn=None):
    if dyn is None:
        dyn = rng.random() < 0.45
    if not dyn:
        return {"kind": "static", "v": rng.choice([0, 1, 1, 2, 2, 3, None])}
    n = rng.randint(2, 6)
    sc = []
    for k in range(n):
        r = rng.random()
        if r < 0.2 and k > 0:
            sc.append(["raise"])
        elif r < 0.32:
            sc.append(["none"])
        else:
            sc.append(["v", rng.choice([0, 1, 1, 2, 2, 3])])
    return {"kind": "dyn", "script": sc}


def gen(rng, block=None, dyn=None, shutdown=True, cancels=True):
    if block is None:
        block = rng.random() < 0.4
    nclients = rng.randint(1, 3)
    nsub = 0
    clients = []
    for c in range(nclients):
        prog = []
        for _ in range(rng.randint(1, 3)):
            if rng.random() < 0.25:
                prog.append(["sleep", rng.choice([1, 2, 3, 5])])
            prog.append(["submit", nsub])
            nsub += 1
        if shutdown and rng.random() < 0.08:
            prog.append(["shutdown", rng.random() < 0.5])
        clients.append(prog)
    env = []
    for k in range(nsub):
        env.append({"delay": rng.choice([0, 0, 1, 1, 2, 3, 5, 8]), "out": rng.choice([["ok", k], ["ok", k], ["err", 100 + k]]),
                    "run_first": rng.random() < 0.7, "sync": rng.random() < 0.12,
                    "never": rng.random() < 0.05})
    if rng.random() < 0.3:
        # burst: every delegate future takes equally long, so the slots of one batch free up at the SAME virtual instant and
        # completions race with each other's wake-up of the hand-over thread while work is still queued
        d = rng.choice([0, 1, 2])
        for e in env:
            e["delay"], e["never"], e["sync"] = d, False, False
    cs = []
    if cancels:
        for i in range(nsub):
            for _ in range(rng.choice([0, 0, 0, 1, 1, 2])):
                cs.append({"i": i, "delay": rng.choice([0, 0, 1, 2, 4]), "after": rng.choice([0, 0, 1, 2])})
    return {"count": gen_count(rng, dyn), "block": block, "clients": clients, "env": env, "cancels": cs,
            "tail": rng.choice([0, 0, 3, 35, 65])}


def fair(chooser, k=3):
    """Weak fairness for the one busy-wait in the component: a blocking submitter whose event.wait()
    keeps returning at once (flag still set) spins until the hand-over thread clears the flag.  A thread
    whose last k log entries are such wait-returns is not chosen again while another thread can run."""
    def w(s, cand, cur):
        tail = s.log[-k:]
        if len(tail) == k and all(e[1] == "ev.wait" and e[3] == "set" and e[0] == tail[0][0] for e in tail):
            c2 = [t for t in cand if t.name != tail[0][0]]
            if len(c2) == 1:
                return c2[0]
            if c2:
                return chooser(s, c2, cur)
        return chooser(s, cand, cur)
    w.line_p = getattr(chooser, "line_p", 0.0)
    w.line_seed = getattr(chooser, "line_seed", 0)
    return w


def execute(p, chooser):
    chooser = fair(chooser)
    from more_executors._impl.throttle import ThrottleExecutor
    setup()
    obs = {"params": p, "futs": {}, "subfut": {}, "outs": {}, "cancel_rets": [], "submit_rets": [], "count_calls": [],
           "deleg_sub": {}, "init_last": None}

    def main():
        m = Manual(sync_script=[e["sync"] for e in p["env"]])
        cnt = p["count"]
        if cnt["kind"] == "static":
            count = cnt["v"]
        else:
            st = {"k": 0}
            sc = cnt["script"]

            def count():
                a = sc[min(st["k"], len(sc) - 1)]
                st["k"] += 1
                if a[0] == "raise":
                    det.user("count", (2, 0))
                    raise RuntimeError("count fault")
                if a[0] == "none":
                    det.user("count", (1, 0))
                    return None
                det.user("count", (0, a[1]))
                return a[1]
        m.inline_hook = lambda idx: det.emit("inline.outcome", None, obs["last_out"])
        with det.atomic():
            ex = ThrottleExecutor(m, count, block=p["block"])
            det.S.name(ex._lock, "X")
            det.S.name(ex._shutdown._lock, "G")
            det.S.name(ex._event, "E")
            if getattr(ex._running_count, "lock", None) is not None:
                det.S.name(ex._running_count.lock, "A")
            ex._to_submit = DequeV()
            obs["init_last"] = ex._last_throttle
        lt = ex._last_throttle
        det.emit("new", None, (1 if p["block"] else 0, 1 if cnt["kind"] == "dyn" else 0, 1 if lt is None else 0, lt or 0))
        obs["ex"] = ex
        futs = obs["subfut"]

        def mkfn(i):
            def fn():
                k = fn.deleg if fn.deleg is not None else len(m.fs) - 1
                kind, v = p["env"][k]["out"]
                obs["last_out"] = (1 if kind == "err" else 0, v)
                if kind == "err":
                    raise XE("e%d" % v)
                return ("v", v)
            fn.sub = i
            fn.deleg = None
            return fn

        def do_submit(i):
            det.emit("call", "submit", i)
            try:
                f = ex.submit(mkfn(i))
            except BaseException as e:
                if isinstance(e, det.Abort):
                    raise
                det.emit("ret", "submit", 9)
                obs["submit_rets"].append((i, type(e).__name__, det.now()))
                return
            with det.atomic():
                futs[i] = f
                obs["futs"][f._verif_id] = f
            det.emit("ret", "submit", 0)
            obs["submit_rets"].append((i, f._verif_id, det.now()))

        def do_shutdown(wait):
            det.emit("call", "shutdown", 1 if wait else 0)
            ex.shutdown(wait=wait)
            det.emit("ret", "shutdown", 0)

        def client(k):
            def run():
                for op in p["clients"][k]:
                    if op[0] == "sleep":
                        det.sleep(op[1])
                    elif op[0] == "submit":
                        do_submit(op[1])
                    elif op[0] == "shutdown":
                        do_shutdown(op[1])
            return run

        def canceller(c):
            def run():
                det.wait_until(lambda: c["i"] in futs and len(m.fs) >= c["after"])
                if c["delay"]:
                    det.sleep(c["delay"])
                f = futs[c["i"]]
                j = f._verif_id
                det.emit("call", "cancel", j)
                try:
                    r = f.cancel()
                except BaseException as e:
                    if isinstance(e, det.Abort):
                        raise
                    det.emit("ret", "cancel", 9)
                    obs["cancel_rets"].append((j, type(e).__name__, len(det.S.log)))
                    return
                det.emit("ret", "cancel", 2 if r else 1)
                obs["cancel_rets"].append((j, bool(r), len(det.S.log)))
            return run

        def env(k):
            spec = p["env"][k]

            def run():
                det.wait_until(lambda: len(m.fs) > k)
                m.fs[k][1].deleg = k
                if spec["sync"] or spec["never"]:
                    return
                if spec["delay"]:
                    det.sleep(spec["delay"])
                try:
                    if spec["run_first"]:
                        if not m.start(k):
                            return
                    kind, v = spec["out"]
                    det.emit("env.outcome", None, (1 if kind == "err" else 0, v))
                    m.finish(k)
                except Exception:
                    pass
            return run

        ts = [det.spawn("c%d" % k, client(k)) for k in range(len(p["clients"]))]
        cs = [det.spawn("x%d" % i, canceller(c), daemon=True) for i, c in enumerate(p["cancels"])]
        es = [det.spawn("e%d" % k, env(k), daemon=True) for k in range(len(p["env"]))]

        def settled():
            s = det.S
            for t in s.threads.values():
                if t.done or t.name == "main":
                    continue
                if t.name == HNAME:
                    if t.blocked_on is None or t.blocked_on():
                        return False
                    continue
                if t.name[0] in "xe" and t.blocked_on is not None and not t.blocked_on() and t.wake_at is None:
                    continue      # a canceller/env thread whose trigger never came
                return False
            return True

        det.switch("main.wait")
        det.block(settled, T_END)
        if p["tail"]:
            det.sleep(p["tail"])
        det.emit("endscen")
        with det.atomic():
            for j, f in obs["futs"].items():
                if f._state in DONE:
                    if f.cancelled():
                        obs["outs"][j] = ("cancelled",)
                    elif f.exception() is not None:
                        obs["outs"][j] = ("err", str(f.exception()))
                    else:
                        obs["outs"][j] = ("ok", f.result())
                else:
                    obs["outs"][j] = ("pending",)
            obs["queue_left"] = [job.future._verif_id for job in ex._to_submit]
            obs["running_end"] = ex._running_count.__dict__["_v"]
            obs["h_alive"] = ex._thread.is_alive()
            obs["deleg_sub"] = dict((k, e[1].sub) for k, e in enumerate(m.fs))
            obs["end_time"] = det.now()

    r = det.run(chooser, main)
    obs.pop("ex", None)
    return r, obs


FOPS_M = {"F.cancelled": 0, "F.done": 1, "F.cancel": 2, "F.set_running_or_notify_cancel": 3, "F.set_result": 4, "F.set_exception": 6}
FOPS_D = {"F.cancelled": 0, "F.cancel": 2, "F.add_done_callback": 5}
DROP = {"F.exception", "F.result", "clock"}
SIMPLE = {("acq", "G"): 12, ("rel", "G"): 13, ("acq", "A"): 27, ("rel", "A"): 28, ("ev.set", "E"): 29, ("ev.clear", "E"): 18}


def encode(log):
    """impl log -> wire events for Throttle.accept.  Fail-closed: anything unexpected is reported in bad."""
    tids = lib.Tids({HNAME: 0})
    ev, bad = [], []
    in_submit, ctor, holds_a, envout = {}, {}, {}, {}
    pending_inline = []
    n = len(log)
    i = 0
    while i < n:
        th, op, obj, val, ts = log[i]
        i += 1
        if op == "endscen":
            break
        if op in DROP:
            continue
        if th == "main":
            if op == "new":
                ev.append([ts, 0, val[0], val[1], val[2], val[3]])
            else:
                bad.append((th, op, obj, val))
            continue
        t = tids(th)
        sobj = obj if isinstance(obj, str) else ""
        if op == "thread.exit":
            if th == HNAME:
                ev.append([ts, 2])
            continue
        if op == "loop.start":
            ev.append([ts, 1])
        elif op == "call":
            if obj == "submit":
                in_submit[th] = True
                ctor[th] = []
                ev.append([ts, 3, t])
            elif obj == "cancel":
                ev.append([ts, 4, t, val])
            elif obj == "shutdown":
                ev.append([ts, 5, t, val])
        elif op == "ret":
            if obj == "submit":
                in_submit[th] = False
                c = ctor.pop(th, [])
                if c:
                    k = c[0][1][1:]
                    want = [("acq", "M" + k, None), ("rel", "M" + k, None), ("acq", "M" + k, None), ("F.done", "r" + k, 0), ("rel", "M" + k, None)]
                    if c != want:
                        bad.append((th, "ctor", None, c))
            ev.append([ts, 7, t, val])
        elif in_submit.get(th) and (sobj.startswith("M") or sobj.startswith("r")):
            ctor[th].append((op, obj, val))      # constructor of the not yet published ThrottleFuture
        elif (op, obj) in SIMPLE:
            if obj == "A":
                holds_a[th] = (op == "acq")
            ev.append([ts, SIMPLE[(op, obj)], t])
        elif op == "rc.read":
            if not holds_a.get(th):
                ev.append([ts, 26, t, val])
        elif op == "q.pop":
            ev.append([ts, 31, t])
        elif op == "acq" and obj == "X":
            if th == HNAME:
                ev.append([ts, 24, t])
            elif i < n and log[i][0] == th and log[i][1] == "rel" and log[i][2] == "X":
                ev.append([ts, 23, t])
                i += 1
            else:
                bad.append((th, op, obj, "X-section with inner operation"))
        elif op == "rel" and obj == "X" and th == HNAME:
            ev.append([ts, 25, t])
        elif op in ("acq", "rel") and sobj.startswith("M"):
            ev.append([ts, 8 if op == "acq" else 9, t, int(obj[1:])])
        elif op in FOPS_M and sobj.startswith("r"):
            ev.append([ts, 10, t, FOPS_M[op], int(obj[1:]), val])
        elif op == "env.outcome":
            envout[th] = val
        elif th.startswith("e") and op == "F.set_running_or_notify_cancel" and sobj.startswith("d"):
            ev.append([ts, 19, t, int(obj[1:]), val])
        elif th.startswith("e") and op in ("F.set_result", "F.set_exception") and sobj.startswith("d"):
            o = envout.get(th, (0, 0))
            ev.append([ts, 21, t, int(obj[1:]), val, o[0], o[1]])
        elif op in FOPS_D and sobj.startswith("d"):
            ev.append([ts, 11, t, FOPS_D[op], int(obj[1:]), val])
        elif op == "user:count":
            ev.append([ts, 14, t, val[0], val[1]])
        elif op == "deleg.submit":
            ev.append([ts, 15, t, val[0], val[1], 0, 0])
            if val[1]:
                pending_inline.append(len(ev) - 1)
        elif op == "inline.outcome":
            kk = pending_inline.pop()
            ev[kk][5], ev[kk][6] = val
        elif op == "deleg.shutdown":
            ev.append([ts, 30, t])
        elif op == "ev.wait" and obj == "E":
            ev.append([ts, 16, t, 0 if val == "set" else 1])
        elif op == "ev.woke" and obj == "E":
            ev.append([ts, 17, t, 0 if val == "notified" else 1])
        else:
            bad.append((th, op, obj, val))
    return ev, bad
