"""C18 (poll): a raising poll function fails exactly the futures it was shown and the poll thread goes on;
a raising cancel function vetoes; no InvalidStateError from a yield that lost a race with cancel() escapes.
Same scenario family and lockstep as C08 on Model/Poll.v; only the fault-related verdicts count here."""
import p_c08 as base

PROP = "C18"
MACHINE = base.MACHINE
N_QUICK = 1200
N_THOROUGH = 50000
KEEP = ("poll:deadlock", "poll:harness-exc", "poll:thread-died:poller", "poll:thread-died:other", "poll:poller-dead",
        "poll:wrong-outcome", "poll:raise-left-pending", "poll:raise-hit-unshown", "poll:veto-ignored", "poll:cancel-true-not-cancelled")

if hasattr(base, "setup"):
    setup = base.setup

gen = base.gen
execute = base.execute
encode = base.encode


def monitor(r, obs):
    return [v for v in base.monitor(r, obs) if v["pattern"] in KEEP]


def nontrivial(r, obs, events):
    p = obs["params"]
    return any(s["end"][0] == "raise" for s in p["poll"]) and r.preempts > 0


describe = base.describe
