"""Scenario family + adapter for RetryExecutor (used by C05, C06, C18, C20 ...) against Model/Retry.v."""
import random, sys, itertools
import detsched as det
import lib
from lib import Manual

MACHINE = "retry"
DONE = ("CANCELLED", "CANCELLED_AND_NOTIFIED", "FINISHED")

# exception classes used by outcome scripts; index = class id on the wire
class E0(Exception): pass
class E1(ValueError): pass
class E2(KeyError): pass
class E3(E1):
    def __bool__(self):        # a falsy exception object: must be treated like any other
        return False
class B0(BaseException): pass
EXC = [E0, E1, E2, E3]
BASES = [Exception, ValueError, LookupError, E1, OSError]


def _bases_arg(pol):
    bs = [BASES[b] for b in pol["bases"]]
    form = pol.get("bases_form", "list")
    if form == "single" and len(bs) == 1:
        return bs[0]
    return tuple(bs) if form == "tuple" else bs


def gen(rng, cancels=False, faults=False, env_cancels=False):
    nsub = rng.randint(1, 3)
    subs = []
    for i in range(nsub):
        natt = rng.randint(1, 4)
        script = []
        for a in range(natt):
            if rng.random() < 0.6:
                script.append(["err", rng.randrange(len(EXC))])
            else:
                script.append(["ok", rng.randrange(100)])
        script.append(["ok", 1000 + i])
        subs.append({"script": script, "cbs": rng.randint(0, 2), "late_cb": rng.random() < 0.5})
    if rng.random() < 0.6:
        pol = {"kind": "exc", "max_attempts": rng.randint(1, 4), "sleep": rng.randint(0, 3), "exponent": rng.randint(1, 3),
               "max_sleep": rng.randint(1, 10), "bases": sorted(rng.sample(range(len(BASES)), rng.choice([0, 1, 1, 1, 2, 2]))),
               # how exception_base is spelled: a list, a tuple, or (for one class) the class itself
               "bases_form": rng.choice(["list", "list", "tuple", "single"])}
    else:
        pol = {"kind": "script",
               "sr": [rng.choice([1, 1, 1, 0, 2]) if (faults or rng.random() < 0.8) else 1 for _ in range(12)],
               "st": [rng.choice([0, 1, 2, 5, -1]) if (faults or rng.random() < 0.3) else rng.randint(0, 4) for _ in range(12)]}
        if not faults:
            pol["sr"] = [x if x != 2 or rng.random() < 0.5 else 1 for x in pol["sr"]]
    p = {"subs": subs, "policy": pol, "nclients": rng.randint(1, 2),
         "sync": [rng.random() < 0.15 for _ in range(16)],
         "env_delay": [rng.choice([0, 0, 0, 1, 2]) for _ in range(16)],
         "env_threads": rng.randint(1, 2), "cancels": []}
    if cancels:
        for i in range(nsub):
            for _ in range(rng.choice([0, 1, 1, 2])):
                p["cancels"].append({"j": i, "delay": rng.choice([0, 0, 1, 2, 3, 5]), "after_dsub": rng.choice([0, 0, 1, 2])})
            if rng.random() < 0.35:
                # a cancel() that lands while the policy is being consulted (it returns False and sets stop_retry on the job that is
                # about to be re-queued), followed at once by a second one, which then races with the submit thread's discard of that job
                p["cancels"].append({"j": i, "delay": 0, "after_dsub": 0, "at_sr": rng.randint(1, 2), "twice": True, "gap": rng.randint(0, 10)})
    if env_cancels:
        # (drawn last, so the scenario streams of the families without environment cancels are unchanged)
        # delegate future i (mod 16) is cancelled by SOMEONE ELSE -- the environment thread that would have run it calls
        # cancel() on it instead (a user holding the delegate executor's future, an outer layer, a shutdown sweep):
        # RetryExecutor._delegate_callback returns silently, the retry future stays pending for ever (known finding G1;
        # Model/Retry.v EEnvCancel, wire code 23).  "then_run": the delegate executor's worker afterwards picks the
        # cancelled future up (set_running_or_notify_cancel() answers False).
        p["env_cancel"] = [rng.random() < 0.15 for _ in range(16)]
        p["env_cancel_then_run"] = [rng.random() < 0.5 for _ in range(16)]
    return p


def execute(p, chooser):
    from more_executors._impl.retry import RetryExecutor, RetryPolicy, ExceptionRetryPolicy
    obs = {"futs": {}, "outs": {}, "cancel_rets": [], "calls": {}, "worker_dead": False, "params": p, "subidx": {}}

    def main():
        m = Manual(sync_script=p["sync"])
        pol = p["policy"]
        if pol["kind"] == "exc":
            class P(ExceptionRetryPolicy):
                def should_retry(self, attempt, future):
                    ans = ExceptionRetryPolicy.should_retry(self, attempt, future)
                    obs["nsr"] = obs.get("nsr", 0) + 1
                    det.user("should_retry", (attempt, 1 if ans else 0))
                    return ans

                def sleep_time(self, attempt, future):
                    ans = ExceptionRetryPolicy.sleep_time(self, attempt, future)
                    det.user("sleep_time", (attempt, 0, ans))
                    return ans
            policy = P(max_attempts=pol["max_attempts"], sleep=pol["sleep"], exponent=pol["exponent"],
                       max_sleep=pol["max_sleep"], exception_base=_bases_arg(pol))
        else:
            cnt = {"sr": 0, "st": 0}

            class P(RetryPolicy):
                def should_retry(self, attempt, future):
                    a = pol["sr"][cnt["sr"]] if cnt["sr"] < len(pol["sr"]) else 0
                    cnt["sr"] += 1
                    obs["nsr"] = obs.get("nsr", 0) + 1
                    det.user("should_retry", (attempt, a))
                    if a == 2:
                        raise RuntimeError("policy fault")
                    return bool(a)

                def sleep_time(self, attempt, future):
                    a = pol["st"][cnt["st"] % len(pol["st"])]
                    cnt["st"] += 1
                    det.user("sleep_time", (attempt, 1 if a < 0 else 0, a))
                    if a < 0:
                        raise RuntimeError("policy fault")
                    return a
            policy = P()
        m.inline_hook = lambda idx: det.emit("inline.outcome", None, obs["last_fn"])
        with det.atomic():        # the submit thread must not run before the locks/events are named
            ex = RetryExecutor(m, retry_policy=policy)
        det.S.name(ex._lock, "X")
        det.S.name(ex._shutdown._lock, "G")
        det.S.name(ex._submit_event, "E")
        obs["ex"] = ex
        counter = itertools.count()
        futs = {}

        def mkfn(j, script):
            # j = index of the submission in the scenario (not the future id)
            st = {"k": 0}

            def fn():
                k = st["k"]
                st["k"] += 1
                obs["calls"].setdefault(j, []).append(det.now())
                kind, v = script[min(k, len(script) - 1)]
                code = j * 100 + k
                obs["last_fn"] = (1 if kind == "err" else 0, code)
                det.user("fn", (j, k, 1 if kind == "err" else 0))
                if kind == "err":
                    e = EXC[v]("a%d" % k)
                    obs.setdefault("raised", {}).setdefault(j, []).append(e)
                    raise e
                return ("v", v)
            return fn

        def do_submit(i):
            det.emit("call", "submit", i)
            f = ex.submit(mkfn(i, p["subs"][i]["script"]))
            with det.atomic():
                j = f._verif_id
                futs[j] = f
                obs["futs"][j] = f
                obs["subidx"][j] = i
            det.emit("ret", "submit", 0)
            return j, f

        def do_addcb(j, f, c):
            det.emit("call", "addcb", (j, c))

            def cb(fut, j=j, c=c):
                det.user("cb", (j, c))
            f.add_done_callback(cb)
            det.emit("ret", "addcb", 0)

        def client(k):
            def run():
                mine = []
                for i in range(len(p["subs"])):
                    if i % p["nclients"] != k:
                        continue
                    j, f = do_submit(i)
                    mine.append((i, j, f))
                    if not p["subs"][i]["late_cb"]:
                        for c in range(p["subs"][i]["cbs"]):
                            do_addcb(j, f, c)
                for (i, j, f) in mine:
                    if p["subs"][i]["late_cb"]:
                        det.sleep(2)
                        for c in range(p["subs"][i]["cbs"]):
                            do_addcb(j, f, c)
            return run

        def canceller(c, idx):
            def run():
                det.wait_until(lambda: stop["v"] or (c["j"] in futs and len(m.fs) >= c["after_dsub"] and obs.get("nsr", 0) >= c.get("at_sr", 0)))
                if stop["v"]:
                    return
                if c["delay"]:
                    det.sleep(c["delay"])
                f = futs[c["j"]]
                for rep in range(2 if c.get("twice") else 1):
                    if rep:
                        for _ in range(c.get("gap", 0)):
                            det.switch("gap")       # let the re-queue and the submit thread's wake-up get under way
                    det.emit("call", "cancel", c["j"])
                    try:
                        r = f.cancel()
                    except BaseException as e:
                        if isinstance(e, det.Abort):
                            raise
                        det.emit("ret", "cancel", 9)
                        obs["cancel_rets"].append((c["j"], type(e).__name__, len(det.S.log)))
                        return
                    det.emit("ret", "cancel", 2 if r else 1)
                    obs["cancel_rets"].append((c["j"], r, len(det.S.log)))
            return run

        stop = {"v": False}
        taken = set()

        def env(k):
            def run():
                while True:
                    det.wait_until(lambda: stop["v"] or any(i not in taken and not (p["sync"][i % 16]) for i in range(len(m.fs))))
                    cand = [i for i in range(len(m.fs)) if i not in taken and not p["sync"][i % 16]]
                    if not cand:
                        if stop["v"]:
                            return
                        continue
                    i = cand[0]
                    taken.add(i)
                    d = p["env_delay"][i % 16]
                    if p.get("env_cancel") and p["env_cancel"][i % 16]:
                        # somebody else cancels the delegate future (the stdlib runs its done-callbacks inline, here)
                        m.fs[i][0].cancel()
                        obs.setdefault("env_cancelled", []).append(i)
                        if p["env_cancel_then_run"][i % 16]:
                            try:
                                m.start(i)
                            except Exception:
                                pass
                        continue
                    if d:
                        det.sleep(d)
                    try:
                        m.run(i)
                    except Exception:
                        pass
            return run

        ts = [det.spawn("c%d" % k, client(k)) for k in range(p["nclients"])]
        cs = [det.spawn("x%d" % i, canceller(c, i)) for i, c in enumerate(p["cancels"])]
        es = [det.spawn("e%d" % k, env(k), daemon=True) for k in range(p["env_threads"])]
        for t in ts:
            t.join()
        # let everything quiesce: every retry future done, or nothing can move any more
        det.wait_until(lambda: quiescent(m, futs))
        det.emit("endscen")
        with det.atomic():
            for j, f in futs.items():
                if f.done():
                    if f.cancelled():
                        obs["outs"][j] = ("cancelled",)
                    elif f.exception() is not None:
                        obs["outs"][j] = ("err", f.exception())
                    else:
                        obs["outs"][j] = ("ok", f.result())
                else:
                    obs["outs"][j] = ("pending",)
            obs["jobs_left"] = [(det.S.role(j.future), j.attempt, j.delegate_future is not None) for j in ex._jobs]
            obs["worker_alive"] = ex._submit_thread.is_alive()
        stop["v"] = True
        ex.shutdown(wait=False)

    def quiescent(m, futs):
        s = det.S
        # nothing runnable besides main and no timers pending
        others = [t for t in s.threads.values() if not t.done and t.name != "main"]
        return all((t.blocked_on is not None and not t.blocked_on() and t.wake_at is None) for t in others)

    r = det.run(chooser, main)
    return r, obs


FOPS_R = {"F.cancelled": 0, "F.done": 1, "F.cancel": 2, "F.set_running_or_notify_cancel": 3, "F.set_result": 4, "F.set_exception": 4}
FOPS_D = {"F.cancelled": 0, "F.done": 1, "F.cancel": 2, "F.add_done_callback": 5}
DROP = {"thread.exit", "F.exception", "F.result"}


def encode(log):
    """impl log -> wire events for Retry.accept.  Fail-closed: anything unexpected is reported."""
    tids = lib.Tids({"RetryExecutor-default": 0})
    ev, bad = [], []
    lastfn = {}
    pending_inline = []
    in_submit = {}
    lastclock = {}
    exc_ids = {}
    n = len(log)
    i = 0
    envthreads = set()
    while i < n:
        th, op, obj, val, ts = log[i]
        i += 1
        if op == "endscen":
            break
        if th == "main":
            continue
        t = tids(th)
        if op == "clock":
            lastclock[th] = val
            continue
        if op in DROP:
            continue
        if op == "call":
            if obj == "submit":
                in_submit[th] = True
                ev.append([ts, 0, t])
            elif obj == "cancel":
                ev.append([ts, 1, t, val])
            elif obj == "addcb":
                ev.append([ts, 2, t, val[0], val[1]])
            continue
        if op == "ret":
            if obj == "submit":
                in_submit[th] = False
            ev.append([ts, 7, t, val])
            continue
        if in_submit.get(th) == "ctor" and op == "rel" and obj.startswith("M"):
            in_submit[th] = True
            continue
        if in_submit.get(th) == "ctor":
            continue    # the constructor of the not yet published future (add_done_callback(_clear_executor))
        if in_submit.get(th) and op == "acq" and obj == "G":
            in_submit[th] = "ctor"      # next: RetryFuture() constructor: acq M, F.done, rel M
            continue
        if op in ("acq", "rel") and obj == "G":
            continue
        if op == "acq" and obj == "X":
            # X-section without inner visible operation?  (next log entries: optional clock, then rel X by the same thread)
            k = i
            while k < n and log[k][0] == th and log[k][1] == "clock":
                lastclock[th] = log[k][2 + 1]
                k += 1
            if k < n and log[k][0] == th and log[k][1] == "rel" and log[k][2] == "X":
                ev.append([ts, 3, t, lastclock.get(th, 0)])
                i = k + 1
            else:
                ev.append([ts, 4, t])
            continue
        if op == "rel" and obj == "X":
            ev.append([ts, 5, t])
            continue
        if op == "ev.set" and obj == "E":
            ev.append([ts, 6, t])
            continue
        if op in ("acq", "rel") and obj.startswith("M"):
            ev.append([ts, 8 if op == "acq" else 9, t, int(obj[1:])])
            continue
        if op in FOPS_R and obj.startswith("r"):
            ev.append([ts, 10, t, FOPS_R[op], int(obj[1:]), val])
            continue
        if th.startswith("e") and obj is not None and isinstance(obj, str) and obj.startswith("d") and op == "F.set_running_or_notify_cancel":
            ev.append([ts, 19, t, int(obj[1:]), val])
            continue
        if th.startswith("e") and op in ("F.set_result", "F.set_exception") and obj.startswith("d"):
            # outcome: find it from the preceding user:fn of this thread
            oc = lastfn.get(th, (0, 0))
            ev.append([ts, 21, t, int(obj[1:]), val, oc[0], oc[1]])
            continue
        if th.startswith("e") and op == "F.cancel" and obj.startswith("d"):
            # cancel() on a delegate future by an environment thread = by somebody else: EEnvCancel (val = state before)
            ev.append([ts, 23, t, int(obj[1:]), val])
            continue
        if op in FOPS_D and obj.startswith("d"):
            ev.append([ts, 11, t, FOPS_D[op], int(obj[1:]), val])
            continue
        if op == "user:fn":
            # the callable runs in an env thread for delegate future d = the one this thread started last
            d = None
            for kk in range(len(ev) - 1, -1, -1):
                if ev[kk][1] == 19 and ev[kk][2] == t:
                    d = ev[kk][3]
                    break
            ev.append([ts, 20, t, d if d is not None else 0])
            lastfn[th] = (val[2], val[0] * 100 + val[1])
            continue
        if op == "user:cb":
            ev.append([ts, 12, t, val[0], val[1]])
            continue
        if op == "user:should_retry":
            ev.append([ts, 13, t, val[1]])
            continue
        if op == "user:sleep_time":
            ev.append([ts, 14, t, val[1], int(val[2]) if val[1] == 0 else 0])
            continue
        if op == "deleg.submit":
            ev.append([ts, 15, t, val[0], val[1], 0, 0])
            if val[1]:
                pending_inline.append(len(ev) - 1)
            continue
        if op == "inline.outcome":
            kk = pending_inline.pop()
            ev[kk][5], ev[kk][6] = val
            continue
        if op == "ev.wait" and obj == "E":
            ev.append([ts, 16, 0 if val == "set" else 1])
            continue
        if op == "ev.woke" and obj == "E":
            ev.append([ts, 17, 0 if val == "notified" else 1])
            continue
        if op == "ev.clear" and obj == "E":
            ev.append([ts, 18])
            continue
        if op == "thread.died":
            ev.append([ts, 22, t])
            continue
        bad.append((th, op, obj, val))
    return ev, bad


