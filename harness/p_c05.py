"""C05: Retry — attempt accounting, sequential attempts, exact back-off.
Lockstep correspondence with coq/Model/Retry.v (no cancels in this family) + monitor."""
import random
import detsched as det
import lib
import retry_common as rc

PROP = "C05"
MACHINE = "retry"
N_QUICK = 1500
N_THOROUGH = 60000


def gen(rng):
    return rc.gen(rng, cancels=False, faults=True)


execute = rc.execute
encode = rc.encode


def expected_exc_policy(pol, script):
    """sequential reference: how often the callable runs under ExceptionRetryPolicy, the delays, the outcome index"""
    n = 0
    delays = []
    while True:
        kind, v = script[min(n, len(script) - 1)]
        n += 1
        if kind == "ok":
            return n, delays
        if n >= pol["max_attempts"]:
            return n, delays
        exc_cls = rc.EXC[v]
        if not any(issubclass(exc_cls, rc.BASES[b]) for b in pol["bases"]):
            return n, delays
        delays.append(min(pol["sleep"] * (pol["exponent"] ** (n - 1)), pol["max_sleep"]))


def monitor(r, obs):
    out = []
    if r.deadlock or r.hang:
        return [{"what": "deadlock", "detail": r.deadlock or "hang", "pattern": "retry:deadlock"}]
    if r.exc is not None:
        return [{"what": "harness-exception", "detail": getattr(r, "tb", repr(r.exc))[-500:], "pattern": "retry:harness-exc"}]
    for (nm, dn, e) in r.threads:
        if e is not None:
            out.append({"what": "thread %s died with %s" % (nm, e), "detail": nm, "pattern": "retry:thread-died:" + ("worker" if nm.startswith("Retry") else "other")})
    p = obs["params"]
    # walk the history
    dsub = {}        # j -> list of (d, ts)
    ddone = {}       # d -> ts
    dfor = {}
    pol = {}         # j -> list of (attempt, ans, ts)
    slp = {}         # j -> list of (attempt, value, ts)
    cbts = {}
    final_ts = {}
    fn_of_thread = {}
    cur_pol_j = {}
    last_started = {}
    for idx, (th, op, obj, val, ts) in enumerate(r.log):
        if op == "endscen":
            break
        if op == "deleg.submit":
            # which retry future?  the worker holds M_j: find the latest 'acq M<j>' by this thread
            j = None
            for k in range(idx - 1, -1, -1):
                if r.log[k][0] == th and r.log[k][1] == "acq" and str(r.log[k][2]).startswith("M"):
                    j = int(r.log[k][2][1:])
                    break
            d = val[0]
            dfor[d] = j
            prev = dsub.setdefault(j, [])
            for (pd, pts) in prev:
                if pd not in ddone:
                    out.append({"what": "attempt submitted while the previous attempt of the same future is still in flight",
                                "detail": (j, pd, d), "pattern": "retry:overlap"})
            prev.append((d, ts))
            if val[1]:
                ddone[d] = ts
        elif op in ("F.set_result", "F.set_exception") and str(obj).startswith("d") and val in (0, 1):
            ddone[int(obj[1:])] = ts
        elif op == "F.cancel" and str(obj).startswith("d") and val == 0:
            ddone[int(obj[1:])] = ts
        elif op == "user:should_retry":
            # the delegate whose callback this is: last F.done on a d future by this thread
            d = None
            for k in range(idx - 1, -1, -1):
                if r.log[k][0] == th and r.log[k][1] == "F.done" and str(r.log[k][2]).startswith("d"):
                    d = int(r.log[k][2][1:])
                    break
            j = dfor.get(d)
            pol.setdefault(j, []).append((val[0], val[1], ts, d))
        elif op == "user:sleep_time":
            d = None
            for k in range(idx - 1, -1, -1):
                if r.log[k][0] == th and r.log[k][1] == "F.done" and str(r.log[k][2]).startswith("d"):
                    d = int(r.log[k][2][1:])
                    break
            j = dfor.get(d)
            slp.setdefault(j, []).append((val[0], val[1], val[2], ts, d))
        elif op == "user:cb":
            cbts.setdefault(val[0], []).append((val[1], ts, idx))
        elif op in ("F.set_result", "F.set_exception") and str(obj).startswith("r") and val in (0, 1):
            final_ts[int(obj[1:])] = (ts, idx)
    for j, f in obs["futs"].items():
        sub = p["subs"][obs["subidx"][j]]
        script = sub["script"]
        ds = dsub.get(j, [])
        pl = pol.get(j, [])
        # policy consulted once per finished attempt, numbered 1,2,3...
        nums = [a for (a, _, _, _) in pl]
        if nums != list(range(1, len(nums) + 1)):
            out.append({"what": "policy consulted with attempt numbers %s" % nums, "detail": j, "pattern": "retry:policy-numbering"})
        # back-off: attempt k+1 is submitted exactly sleep_time after the policy asked for the retry
        sl = slp.get(j, [])
        rt = [(a, v, ts) for (a, raised, v, ts, d) in sl if not raised]
        for (a, v, ts0) in rt:
            if a < len(ds):
                d2, ts2 = ds[a]
                if ts2 < ts0 + v:
                    out.append({"what": "attempt %d submitted %s after attempt %d finished; policy delay %s" % (a + 1, ts2 - ts0, a, v),
                                "detail": j, "pattern": "retry:early"})
                elif ts2 > ts0 + v:
                    out.append({"what": "attempt %d submitted late: %s after attempt %d finished; policy delay %s (no contention in virtual time)" % (a + 1, ts2 - ts0, a, v),
                                "detail": j, "pattern": "retry:late"})
        # callbacks only after the final attempt ended, each exactly once
        o = obs["outs"].get(j)
        ncalls = len(obs["calls"].get(obs["subidx"][j], []))
        if o is None or o[0] == "pending":
            out.append({"what": "retry future never completed", "detail": j, "pattern": "retry:pending"})
            continue
        last_d = ds[-1][0] if ds else None
        for (c, ts, idx) in cbts.get(j, []):
            if j not in final_ts or idx < final_ts[j][1]:
                out.append({"what": "done-callback ran before the future was resolved", "detail": (j, c), "pattern": "retry:early-callback"})
        seen = [c for (c, _, _) in cbts.get(j, [])]
        if sorted(seen) != list(range(sub["cbs"])):
            out.append({"what": "done-callbacks ran %s, registered %d" % (sorted(seen), sub["cbs"]), "detail": j, "pattern": "retry:callback-count"})
        # outcome = the last attempt's outcome (identity for exceptions)
        kind, v = script[min(ncalls - 1, len(script) - 1)] if ncalls else (None, None)
        if kind == "ok":
            if o != ("ok", ("v", v)):
                out.append({"what": "final outcome %r is not the last attempt's result" % (o,), "detail": j, "pattern": "retry:wrong-outcome"})
        elif kind == "err":
            last_exc = obs.get("raised", {}).get(obs["subidx"][j], [None])[-1]
            if o[0] != "err" or o[1] is not last_exc:
                out.append({"what": "final exception is not the very object the last attempt raised", "detail": j, "pattern": "retry:wrong-outcome"})
        # ExceptionRetryPolicy accounting
        if p["policy"]["kind"] == "exc":
            exp_n, exp_delays = expected_exc_policy(p["policy"], script)
            if ncalls != exp_n:
                out.append({"what": "callable ran %d times, sequential evaluation says %d" % (ncalls, exp_n), "detail": j, "pattern": "retry:attempt-count"})
            got = [v for (a, v, ts0) in rt]
            if [float(x) for x in got] != [float(x) for x in exp_delays]:
                out.append({"what": "delays %s, formula says %s" % (got, exp_delays), "detail": j, "pattern": "retry:delays"})
        else:
            # scripted policy: a raising policy ends retrying with the callable's own outcome -- covered by wrong-outcome;
            # the number of attempts is one more than the number of retries granted
            grants = len(rt)
            if ncalls != grants + 1:
                out.append({"what": "callable ran %d times after %d granted retries" % (ncalls, grants), "detail": j, "pattern": "retry:attempt-count"})
    if not obs.get("worker_alive", True):
        out.append({"what": "submit thread is dead", "detail": None, "pattern": "retry:worker-dead"})
    return out


def nontrivial(r, obs, events):
    # some future needed at least one retry and a context switch happened inside a delegate callback / X-section
    return any(e[1] == 14 for e in events) and r.preempts > 0


def describe(p):
    return ["policy=" + p["policy"]["kind"], "subs=%d" % len(p["subs"]), "clients=%d" % p["nclients"],
            "sync" if any(p["sync"][:4]) else "nosync"]


def extra(stats, tier, seed):
    """Kernel differential: the regenerated Gallina kernels against the Python functions they were
    translated from (validates the translator's vocabulary on concrete inputs)."""
    from fractions import Fraction
    from concurrent.futures import Future
    import types
    from more_executors._impl import retry as R
    rng = random.Random(seed + 77)
    runner = lib.RunnerProc()
    n = 400 if tier == "quick" else 20000
    table = [[1 if issubclass(e, b) else 0 for b in rc.BASES] for e in rc.EXC]
    flat = [x for row in table for x in row]
    saved = R.monotonic
    try:
        for i in range(n):
            kind = i % 3
            if kind == 0:
                mx = rng.randint(0, 5); att = rng.randint(1, 6); exc = rng.choice([-1, 0, 1, 2, 3])
                bases = sorted(rng.sample(range(len(rc.BASES)), rng.randint(0, 3)))
                eb = [rc.BASES[b] for b in bases]
                pol = R.ExceptionRetryPolicy(max_attempts=mx, exception_base=tuple(eb) if i % 2 else eb)
                f = Future()
                with det.atomic():
                    if exc < 0:
                        f.set_result(1)
                    else:
                        f.set_exception(rc.EXC[exc]("x"))
                    py = [1 if pol.should_retry(att, f) else 0]
                q = [0, mx, att, exc, len(rc.BASES), len(bases)] + bases + flat
            elif kind == 1:
                vals = [0, 0.5, 1, 1.5, 2, 3, 10, 0.25]
                sl, ex, ms = rng.choice(vals), rng.choice(vals[1:]), rng.choice(vals + [120])
                att = rng.randint(1, 6)
                pol = R.ExceptionRetryPolicy(sleep=sl, exponent=ex, max_sleep=ms)
                if i % 2:
                    # the policy object is shared by all submissions of an executor: earlier questions must not change later answers
                    for a0 in [rng.randint(1, 6) for _ in range(rng.randint(1, 5))]:
                        pol.sleep_time(a0, None)
                r = Fraction(pol.sleep_time(att, None))
                py = [r.numerator, r.denominator]
                fs, fe, fm = Fraction(sl), Fraction(ex), Fraction(ms)
                q = [1, fs.numerator, fs.denominator, fe.numerator, fe.denominator, fm.numerator, fm.denominator, att]
            else:
                now = rng.randint(0, 10)
                jobs = []
                enc = []
                for k in range(rng.randint(0, 6)):
                    d = rng.random() < 0.3; st = rng.random() < 0.15; w = rng.randint(0, 15)
                    jobs.append(types.SimpleNamespace(delegate_future=(object() if d else None), stop_retry=st, when=(None if d else w), k=k))
                    enc += [1 if d else 0, 1 if st else 0, 0 if d else w]
                R.monotonic = lambda now=now: now
                got = R.RetryExecutor._get_next_job(types.SimpleNamespace(_jobs=jobs))
                R.monotonic = saved
                py = [got.k if got is not None else -1]
                q = [2, now] + enc
            out = runner.ask("retry_kernel", [q])
            stats.add([q], True, {"kernel_query": q, "python": py, "coq": out} if i < 3 else None, ["kernel=%d" % kind])
            if out != py:
                stats.divergences.append({"kind": "kernel-differs", "query": q, "python": py, "coq": out,
                                          "params": {}, "chooser": "none", "cseed": 0, "origin": "kernel:%d" % i})
    finally:
        R.monotonic = saved
        runner.close()
