"""C02 (chains): protocol through chains of map / flat_map stages (done-callbacks on intermediate futures, concurrent cancel, callbacks that need another thread); scenario family of p_c13x (monitor only)."""
import p_c13x as base

PROP = "C02"
MACHINE = None
N_QUICK = 600
N_THOROUGH = 20000
gen = base.gen
execute = base.execute
encode = base.encode
monitor = base.monitor
nontrivial = base.nontrivial
describe = base.describe
