"""Monitors for C08, evaluated on the implementation history (the scheduler log + final outcomes).
Positions are log indices (a total order of the visible operations); times are the virtual timestamps."""
import poll_common as pc

POLLER = pc.POLLER


def parse(r, obs):
    log = r.log
    jm = pc.submap(log)                    # i -> j
    ij = {j: i for i, j in jm.items()}
    H = {"jm": jm, "ij": ij, "sub_ret": {}, "d_ok": {}, "d_err": {}, "d_ret": {}, "res": {}, "polls": [], "yields": [],
         "cancels": [], "sets": [], "notifies": [], "ok_ts": {}, "foreign": [], "overlap": [], "end": len(log), "raise_hits": []}
    cur_sub, cur_cancel, last_x, last_env = {}, {}, {}, {}
    poll, yld = None, None
    inline_d = None
    for pos, (th, op, obj, val, ts) in enumerate(log):
        if op == "endscen":
            H["end"] = pos
            break
        if th == "main":
            continue
        if op == "call" and obj == "submit":
            cur_sub[th] = val
        elif op == "ret" and obj == "submit":
            H["sub_ret"][jm[cur_sub.pop(th)]] = pos
        elif op == "deleg.submit" and val[1]:
            inline_d = val[0]
        elif op == "inline.outcome":
            (H["d_err"] if val[0] else H["d_ok"])[inline_d] = pos
            H["d_ret"][inline_d] = pos
            H["ok_ts"][inline_d] = ts
        elif op in ("F.set_result", "F.set_exception") and str(obj).startswith("d") and val in (0, 1):
            d = int(obj[1:])
            (H["d_ok"] if op == "F.set_result" else H["d_err"])[d] = pos
            H["ok_ts"][d] = ts
            last_env[th] = d
        elif op == "F.cancel" and str(obj).startswith("d") and th.startswith("e"):
            # the environment cancels a delegate future behind the poll future's back (known finding G1 when it was pending)
            if val == 0:
                H.setdefault("d_envcancel", {})[int(obj[1:])] = pos
            last_env[th] = None
        elif op == "ret" and obj == "env":
            if last_env.get(th) is not None:
                H["d_ret"][last_env[th]] = pos
        elif op == "call" and obj == "notify":
            H["notifies"].append((pos, ts))
        elif op == "call" and obj == "cancel":
            cur_cancel[th] = {"j": val, "call": pos, "ret": None, "val": None, "cfn": [], "th": th}
        elif op == "ret" and obj == "cancel":
            c = cur_cancel.pop(th)
            c["ret"], c["val"] = pos, (val == 2)
            H["cancels"].append(c)
        elif op == "user:cancelfn":
            c = cur_cancel.get(th)
            if c is None:
                H["foreign"].append((pos, th, "cancelfn outside cancel()"))
            else:
                c["cfn"].append((pos, val[0], val[1]))
        elif op == "acq" and obj == "X":
            last_x[th] = pos
        elif op == "ev.set" and obj == "E":
            H["sets"].append((pos, ts, th))
        elif op in ("F.set_result", "F.set_exception", "F.cancel") and str(obj).startswith("r") and val in (0, 1):
            j = int(obj[1:])
            if j not in H["res"]:
                src = ("cancel",) if op == "F.cancel" else ("other", th)
                if th == POLLER and yld is not None and yld["j"] == j:
                    src = ("yield", yld["kind"], yld["v"])
                    yld["won"] = True
                elif th == POLLER and poll is not None and poll.get("raise_pos") is not None:
                    src = ("raise", poll["raise_e"])
                    H["raise_hits"].append((poll, j))
                H["res"][j] = {"pos": pos, "src": src, "th": th, "ts": ts}
        elif op.startswith("user:poll") or op == "user:yield":
            if th != POLLER:
                H["foreign"].append((pos, th, op))
                continue
            if op == "user:poll":
                if poll is not None and poll["end"] is None:
                    H["overlap"].append(pos)
                poll = {"begin": pos, "ts": ts, "vals": tuple(val), "snap": last_x.get(th, -1), "end": None,
                        "raise_pos": None, "raise_e": None, "wait": None}
                H["polls"].append(poll)
            elif poll is None or poll["end"] is not None:
                H["overlap"].append(pos)
            elif op == "user:yield":
                yld = {"pos": pos, "j": jm.get(val[0] - 100), "kind": val[1], "v": val[2], "ret": None, "won": False, "poll": poll}
                H["yields"].append(yld)
            elif op == "user:pollret":
                poll["end"] = pos
            elif op == "user:pollraise":
                poll["end"] = pos
                poll["raise_pos"], poll["raise_e"] = pos, val
        elif op == "yielded" and yld is not None:
            yld["ret"] = pos
            yld = None
        elif op == "ev.wait" and th == POLLER and poll is not None and poll["wait"] is None:
            poll["wait"] = pos
    # position at which the call that resolved j had returned
    H["rret"] = {}
    for y in H["yields"]:
        if y["won"] and y["ret"] is not None:
            H["rret"][y["j"]] = y["ret"]
    for c in H["cancels"]:
        if c["val"] and c["j"] in H["res"] and H["res"][c["j"]]["src"] == ("cancel",) and c["j"] not in H["rret"]:
            # the resolving call is the cancel() whose own thread performed the cancellation (a concurrent second
            # cancel() that merely observes "already cancelled" may return True earlier: it resolved nothing)
            if c["call"] < H["res"][c["j"]]["pos"] < c["ret"] and H["res"][c["j"]]["th"] == c["th"]:
                H["rret"][c["j"]] = c["ret"]
    for (pl, j) in H["raise_hits"]:
        if pl["wait"] is not None:
            H["rret"][j] = pl["wait"]
    return H


def V(what, detail, pattern):
    return {"what": what, "detail": detail, "pattern": pattern}


def expected_outcome(src, i, excs):
    if src[0] == "yield":
        return ("ok", src[2]) if src[1] == 0 else ("err", excs.get(src[2]))
    if src[0] == "raise":
        return ("err", excs.get(src[1]))
    if src[0] == "cancel":
        return ("cancelled",)
    return ("err", excs.get(3000 + i))          # the delegate's own failure


def same(a, b):
    if a[0] != b[0]:
        return False
    if a[0] == "err":
        return a[1] is b[1]
    return a[1:] == b[1:]


def monitor(r, obs):
    if r.deadlock or r.hang:
        return [V("deadlock", r.deadlock or "hang", "poll:deadlock")]
    if r.exc is not None:
        return [V("harness-exception", getattr(r, "tb", repr(r.exc))[-500:], "poll:harness-exc")]
    out = []
    for (nm, dn, e) in r.threads:
        if e is not None:
            out.append(V("thread %s died with %s" % (nm, e), nm, "poll:thread-died:" + ("poller" if nm == POLLER else "other")))
    if not obs.get("poller_alive", True):
        out.append(V("poll thread is dead", None, "poll:poller-dead"))
    H = parse(r, obs)
    ij, res, rret = H["ij"], H["res"], H["rret"]
    # --- a delegate cancelled by someone else leaves its poll future pending for ever (C03's known finding G1) -------
    for d, pos in sorted(H.get("d_envcancel", {}).items()):
        o = obs.get("outs", {}).get(d)
        if o is not None and o[0] == "pending":
            out.append(V("poll future %d is still pending at the end although its delegate future was cancelled (by someone else) at %d: "
                         "it ends neither cancelled nor failed" % (d, pos), pos, "lost:delegate-cancelled-behind-back:PollFuture:lockstep"))
    # --- single poller ---------------------------------------------------------------------------
    for (pos, th, op) in H["foreign"]:
        out.append(V("%s on thread %s" % (op, th), pos, "poll:foreign-thread"))
    for pos in H["overlap"]:
        out.append(V("poll function entered/used while another call was open", pos, "poll:overlap"))
    # --- exact descriptor set --------------------------------------------------------------------
    elig = {}
    for j, p_ok in H["d_ok"].items():
        if j in H["d_ret"] and j in H["sub_ret"]:
            elig[j] = max(H["d_ret"][j], H["sub_ret"][j])
    for P in H["polls"]:
        b, sp, vals = P["begin"], P["snap"], P["vals"]
        if len(set(vals)) != len(vals):
            out.append(V("duplicate descriptor in %r" % (vals,), b, "poll:duplicate-descriptor"))
        shown = set()
        for x in vals:
            j = H["jm"].get(x - 100)
            if j is None or j not in H["d_ok"] or H["d_ok"][j] > b:
                out.append(V("descriptor with result %r: no delegate had finished with it" % (x,), b, "poll:descriptor-wrong-result"))
                continue
            shown.add(j)
            if j in rret and rret[j] < b:
                w = rret[j] > sp
                out.append(V("descriptor for future %d whose resolving call returned at %d, poll began at %d (snapshot %d)"
                             % (j, rret[j], b, sp), (j, b), "poll:window-stale" if w else "poll:stale-descriptor"))
        for j, e in elig.items():
            if e < b and (j not in res or res[j]["pos"] > b) and j not in shown:
                w = e > sp
                out.append(V("future %d eligible since %d missing from the poll that began at %d (snapshot %d)" % (j, e, b, sp),
                             (j, b), "poll:window-missing" if w else "poll:missing-descriptor"))
    left = [x for x in obs.get("descs_left", []) if H["jm"].get(x - 100) in res]
    if left:
        out.append(V("descriptors of resolved futures still registered at the end: %r" % (left,), left, "poll:descriptor-leak"))
    # --- first yield wins ------------------------------------------------------------------------
    for j, o in obs["outs"].items():
        i = obs["futs"][j][0]
        exp = expected_outcome(res[j]["src"], i, obs["excs"]) if j in res else ("pending",)
        if not same(o, exp):
            out.append(V("future %d ended %r; its first resolving operation (%r) says %r" % (j, o, res.get(j, {}).get("src"), exp),
                         j, "poll:wrong-outcome"))
    for y in H["yields"]:
        j = y["j"]
        if y["ret"] is None or j is None:
            continue
        pending_before = j not in res or res[j]["pos"] > y["pos"]
        if pending_before and not y["won"] and not (j in res and res[j]["pos"] < y["ret"]):
            out.append(V("yield for pending future %d had no effect" % j, (j, y["pos"]), "poll:yield-dropped"))
    # --- a raising poll function fails exactly what it was shown ------------------------------------
    for P in H["polls"]:
        if P["raise_pos"] is None or P["wait"] is None:
            continue
        shown = set(H["jm"].get(x - 100) for x in P["vals"])
        for j in shown:
            if j is not None and (j not in res or res[j]["pos"] > P["wait"]):
                out.append(V("future %d was shown to the raising poll call but is still pending" % j, (j, P["begin"]), "poll:raise-left-pending"))
    for (P, j) in H["raise_hits"]:
        if j not in set(H["jm"].get(x - 100) for x in P["vals"]):
            out.append(V("future %d failed by a poll call that was not shown it" % j, (j, P["begin"]), "poll:raise-hit-unshown"))
    # --- prompt polls ----------------------------------------------------------------------------
    # a poll call must begin after each trigger, at the same virtual instant (no timer expiry in between)
    trig = [(pos, ts, "event set by " + th) for (pos, ts, th) in H["sets"]]
    trig += [(pos, ts, "notify()") for (pos, ts) in H["notifies"]]
    trig += [(p_ok, H["ok_ts"][j], "delegate of future %d finished" % j) for j, p_ok in H["d_ok"].items()]
    for (pos, ts, why) in trig:
        nxt = [P for P in H["polls"] if P["begin"] > pos]
        if not nxt or nxt[0]["ts"] != ts:
            out.append(V("%s at t=%s but the next poll call began at t=%s" % (why, ts, nxt[0]["ts"] if nxt else None),
                         pos, "poll:late-poll"))
    # --- cancel function --------------------------------------------------------------------------
    for c in H["cancels"]:
        j = c["j"]
        i = ij.get(j)
        for (pos, x, ans) in c["cfn"]:
            if i is None or x != 100 + i:
                out.append(V("cancel function got %r for future %d" % (x, j), pos, "poll:cancelfn-wrong-arg"))
            if j not in H["d_ok"] or H["d_ok"][j] > pos or (j in res and res[j]["pos"] < pos):
                out.append(V("cancel function consulted for future %d outside its polling stage" % j, pos, "poll:cancelfn-outside-polling"))
            if ans != 1 and c["val"]:
                out.append(V("cancel function vetoed (%d) but cancel() returned True" % ans, pos, "poll:veto-ignored"))
        if len(c["cfn"]) > 1:
            out.append(V("cancel function called %d times in one cancel()" % len(c["cfn"]), c["call"], "poll:cancelfn-twice"))
        if c["val"] and obs["outs"].get(j) != ("cancelled",):
            out.append(V("cancel() returned True but future %d ended %r" % (j, obs["outs"].get(j)), j, "poll:cancel-true-not-cancelled"))
    return out
