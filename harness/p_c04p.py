"""C04 (PollExecutor: submit / cancel / poll thread never wait on one another for ever).  Scenario family and lockstep of C08 (p_c08) on the component machine; only the verdicts of that
family's monitor that belong to this property count here; every history is still replayed on the component machine."""
import p_c08 as base

PROP = "C04"
MACHINE = base.MACHINE
N_QUICK = 600
N_THOROUGH = 20000
KEEP = ('poll:deadlock', 'poll:harness-exc', 'poll:thread-died', 'poll:poller-dead')
if hasattr(base, "setup"):
    setup = base.setup
if hasattr(base, "expected_verdict"):
    expected_verdict = base.expected_verdict
if hasattr(base, "directed"):
    directed = base.directed

gen = base.gen
execute = base.execute
encode = base.encode


def monitor(r, obs):
    return [v for v in base.monitor(r, obs) if v["pattern"].startswith(KEEP)]


nontrivial = base.nontrivial
describe = base.describe
