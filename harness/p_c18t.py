"""C18 (throttle): a raising count callable keeps the last limit and never surfaces in an unrelated caller's submit();
the hand-over thread survives.  Scenario family and lockstep of C07 (static / dynamic / raising counts, blocking mode,
cancels) on Model/Throttle.v; only the fault-related verdicts count here."""
import p_c07 as base
LINE_PREEMPT = False     # the Throttle monitor reconstructs queue / counter state from the ADJACENCY of log entries of one thread:
#                          runs with line-level preemption (drive.py) would be misread by it

PROP = "C18"
MACHINE = base.MACHINE
N_QUICK = 1000
N_THOROUGH = 40000
KEEP = ("throttle:deadlock", "throttle:thread-died:handover", "throttle:thread-died:other", "throttle:harness-exc",
        "throttle:submit-raised")
if hasattr(base, "setup"):
    setup = base.setup
if hasattr(base, "expected_verdict"):
    expected_verdict = base.expected_verdict

gen = base.gen
execute = base.execute
encode = base.encode


def monitor(r, obs):
    return [v for v in base.monitor(r, obs) if v["pattern"].startswith(KEEP)]


nontrivial = base.nontrivial
describe = base.describe
