"""C02 (library futures: MapFuture / FlatMapFuture and every subclass): the Future protocol under
concurrent cancel / add_done_callback / result / wait / as_completed.  Lockstep with Model/MapFut.v
(waiting calls are reads) + protocol monitor."""
import random
import detsched as det
import lib
import map_common as mc

det.TIMER_EPS = 0.001     # stdlib as_completed() spins at the exact deadline otherwise

PROP = "C02"
MACHINE = "mapfut"
N_QUICK = 2000
N_THOROUGH = 80000
DONE = mc.DONE


def gen(rng):
    p = mc.gen(rng, cancels=True, envcancel=True, cbraise=True)
    p["waiters"] = [[rng.randrange(len(p["futs"])), rng.choice(["result", "exception", "wait", "as_completed"])]
                    for _ in range(rng.randint(0, 3))]
    return p


execute = mc.execute
encode = mc.encode


def monitor(r, obs):
    out = []
    if r.deadlock or r.hang:
        return [{"what": "deadlock %s" % (r.deadlock,), "detail": str(getattr(r, "waiting", None)), "pattern": "proto:deadlock"}]
    if r.exc is not None:
        return [{"what": "harness-exception", "detail": getattr(r, "tb", repr(r.exc))[-600:], "pattern": "proto:harness-exc"}]
    for (nm, dn, e) in r.threads:
        if e is not None:
            out.append({"what": "thread %s died with %s" % (nm, e), "detail": nm, "pattern": "proto:thread-died"})
    p = obs["params"]
    for j, (i, f) in obs["futs"].items():
        spec = p["futs"][i]
        final = obs["outs"][j]
        # cancel(): a bool, never raises; True => cancelled for good; False on a normally finished future
        for (jj, ret, pos) in obs["cancel_rets"]:
            if jj != j:
                continue
            if ret not in (True, False):
                out.append({"what": "cancel() raised %s" % ret, "detail": j, "pattern": "proto:cancel-raised"})
            elif ret is True and final != ("cancelled",):
                out.append({"what": "cancel() returned True but the future ended %r" % (final[0],), "detail": j, "pattern": "proto:cancel-true-not-cancelled"})
            elif ret is False and final == ("cancelled",) and not any(r2 is True for (j2, r2, _) in obs["cancel_rets"] if j2 == j):
                out.append({"what": "cancel() only ever returned False but the future ended cancelled", "detail": j, "pattern": "proto:cancel-false-cancelled"})
        # callbacks: exactly once each, only when done, and all see the final outcome
        calls = obs["cb_calls"].get(j, [])
        ids = [c for (c, st, res, exc) in calls]
        registered = list(range(len(spec["cbs"]))) + [10 + k for k in range(len(spec["late_cbs"]))]
        if final[0] != "pending":
            if sorted(ids) != sorted(registered):
                out.append({"what": "callbacks ran %s, registered %s" % (sorted(ids), sorted(registered)), "detail": j, "pattern": "proto:callback-count"})
        elif ids:
            out.append({"what": "callbacks %s ran on a future that never finished" % ids, "detail": j, "pattern": "proto:callback-early"})
        for (c, st, res, exc) in calls:
            if st not in DONE:
                out.append({"what": "callback %d ran while the future was %s" % (c, st), "detail": j, "pattern": "proto:callback-early"})
            seen = ("cancelled",) if st in ("CANCELLED", "CANCELLED_AND_NOTIFIED") else (("err", exc) if exc is not None else ("ok", res))
            if seen[0] != final[0] or (seen[0] == "err" and seen[1] is not final[1]) or (seen[0] == "ok" and seen[1] != final[1]):
                out.append({"what": "a callback saw outcome %r, the final outcome is %r" % (seen, final), "detail": j, "pattern": "proto:outcome-changed"})
    # waiters are released by every kind of completion (at the virtual instant of completion, not by their timeout)
    tdone = {}
    for (th, op, obj, val, ts) in r.log:
        if str(obj).startswith("r") and op in ("F.set_result", "F.set_exception", "F.cancel") and val in (0, 1) and obj not in tdone:
            tdone[obj] = ts
    for (j, kind, rr, tret, st) in obs.get("waits", []):
        final = obs["outs"][j]
        if final[0] == "pending":
            continue
        dt = tret - tdone.get("r%d" % j, 0)
        if dt > 0.01:
            out.append({"what": "%s() on a future that became %s was only released after %s (its timeout)" % (kind, final[0], dt), "detail": j,
                        "pattern": "proto:waiter-not-released:" + kind})
            continue
        ok = True
        if kind == "result":
            ok = (rr[0] == "value" and final[0] == "ok" and rr[1] == final[1]) or \
                 (rr[0] == "raised" and ((final[0] == "err" and rr[2] is final[1]) or (final[0] == "cancelled" and rr[1] == "CancelledError"))) or \
                 (rr == ("value", None) and final[0] == "err" and not final[1])
            # last case: the stdlib's own Future.result() tests the stored exception for truthiness; a falsy exception
            # object reads as "result None" there - the stdlib's behaviour, inherited, not the library's
        elif kind == "exception":
            ok = (rr[0] == "exc" and ((final[0] == "err" and rr[1] is final[1]) or (final[0] == "ok" and rr[1] is None))) or \
                 (rr[0] == "raised" and final[0] == "cancelled" and rr[1] == "CancelledError")
        elif kind == "wait":
            ok = rr == ("wait", True)
        else:
            ok = rr == ("as_completed", [True])
        if not ok:
            out.append({"what": "%s() returned %r for a future that ended %r" % (kind, rr, final), "detail": j, "pattern": "proto:waiter-wrong:" + kind})
    return out


def nontrivial(r, obs, events):
    return r.preempts > 0 and any(e[0] in (1, 2) for e in events)


def describe(p):
    return ["futs=%d" % len(p["futs"]), "waiters=%d" % len(p.get("waiters", [])), "flat=%d" % sum(1 for f in p["futs"] if f["kind"] == 1)]
