"""C12 (worker-loop reference protocol in lockstep): the four real worker loops (retry / poll / throttle / timeout) against
Model/Refs.v.  Observed from outside: every `executor_ref()` of the loop with its result, whether the loop's frames
still hold the executor when it goes to wait, every set / wait / wake-up / clear of the loop's event, and the
finalisation of the executor (the weak reference's callback).  Scenarios: those of p_c12 that end by dropping the last
user reference (no shutdown, no exit hook)."""
import sys, weakref as _weakref
import detsched as det
import p_c12
from p_c12 import monitor, nontrivial, describe, PROP, NEEDS_POOL      # noqa: F401

MACHINE = "refs"
N_QUICK = 600
N_THOROUGH = 20000
PREFIXES = tuple(p_c12.PREFIX.values())


def gen(rng):
    p = p_c12.gen(rng)
    p["end"] = "drop"
    p["cos"] = False
    return p


class LRef(_weakref.ref):
    """weakref.ref whose calls and whose callback are logged"""
    __slots__ = ("_verif_tag",)

    def __new__(cls, ob, callback=None):
        def cb(r, callback=callback):
            det.emit("wref.final", None, None)
            if callback is not None:
                callback(r)
            det.emit("wref.final.end", None, None)
        return _weakref.ref.__new__(cls, ob, cb)

    def __init__(self, ob, callback=None):
        super(LRef, self).__init__(ob)

    def __call__(self):
        r = _weakref.ref.__call__(self)
        cur = det.me()
        if cur is not None and det.S is not None and cur.name.startswith(PREFIXES):
            det.emit("wref.deref", None, r is not None)
        return r


class _Shim(object):
    """stands in for the `weakref` module inside the four executor modules"""

    def __init__(self, real):
        self.__dict__["_real"] = real

    ref = LRef

    def __getattr__(self, n):
        return getattr(self._real, n)


def _holds_executor():
    """does a library frame of the current thread still refer to its executor?"""
    from more_executors._impl import retry, poll, throttle, timeout
    classes = (retry.RetryExecutor, poll.PollExecutor, throttle.ThrottleExecutor, timeout.TimeoutExecutor)
    f = sys._getframe(1)
    held = False
    while f is not None:
        if "more_executors" in f.f_code.co_filename:
            for v in list(f.f_locals.values()):
                if isinstance(v, classes):
                    held = True
        f = f.f_back
    return held


def setup():
    from more_executors._impl import retry, poll, throttle, timeout
    if getattr(retry, "_verif_refs", False):
        return
    retry._verif_refs = True
    for m in (retry, poll, throttle, timeout):
        m.weakref = _Shim(_weakref)
    orig_wait = det.DEvent.wait

    def wait(self, timeout=None):
        cur = det.me()
        if cur is not None and det.S is not None and not det.S.aborting and cur.name.startswith(PREFIXES):
            det.emit("wref.atwait", None, _holds_executor())
        return orig_wait(self, timeout)
    det.DEvent.wait = wait


execute = p_c12.execute


def encode(log):
    """[0] UserDrop  [1;alive] WorkerDeref  [2] WorkerRelease  [3;set] WorkerWait  [4] WorkerWoke  [5] WorkerClear
    [6] OtherSet  [7] WorkerLoop  [8] WorkerTimeout"""
    ev, bad = [], []
    worker = None
    for e in log:
        if e[0].startswith(PREFIXES):
            worker = e[0]
            break
    if worker is None:
        return [[9]], []
    wev = None                # the loop's event = the one the worker waits on
    for (th, op, obj, val, ts) in log:
        if th == worker and op == "ev.wait":
            wev = obj
            break
    holding = False           # the loop holds its temporary strong reference
    released = False          # WorkerRelease already emitted for this iteration
    collected = False
    in_final = None           # thread currently inside the weak reference's callback
    for (th, op, obj, val, ts) in log:
        if op == "wref.final":
            in_final = th
            collected = True
            if th == worker and holding:
                # the user's drop came while the loop held its reference: the loop's own `del executor` finalises
                ev.append([0])
                ev.append([2])
                holding = False
                released = True
            else:
                ev.append([0])
        elif op == "wref.final.end":
            in_final = None
        elif op == "wref.deref" and th == worker:
            if val:
                if holding:
                    ev.append([7])
                else:
                    ev.append([1, 1])
                holding = True
                released = False
            else:
                ev.append([1, 0])
        elif op == "wref.atwait" and th == worker:
            if val:
                pass                  # still held at the wait: no release to report (the model refuses the wait)
            elif not released:
                ev.append([2])
            holding = False
            released = False
        elif obj is not None and obj == wev and op.startswith("ev."):
            if op == "ev.set":
                if in_final == th:
                    continue          # the finalisation's own event.set(): part of UserDrop / WorkerRelease in the model
                ev.append([6])
            elif th == worker and op == "ev.wait":
                ev.append([3, 1 if val == "set" else 0])
            elif th == worker and op == "ev.woke":
                ev.append([4] if val == "notified" else [8])
            elif th == worker and op == "ev.clear":
                ev.append([5])
            else:
                bad.append((th, op, obj, val, ts))
    return ev, bad
