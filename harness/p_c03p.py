"""C03 (poll): registration / notify() wakes the poll thread, a yield resolves its future, a raising poll leaves nothing pending; scenario family and lockstep of C08 on Model/Poll.v.
Only the lost-future / lost-wake-up verdicts of that family's monitor count here; every history is still
replayed on the component machine."""
import p_c08 as base

PROP = "C03"
MACHINE = base.MACHINE
N_QUICK = 1000
N_THOROUGH = 40000
KEEP = ("lost:delegate-cancelled-behind-back:PollFuture:lockstep", "poll:late-poll", "poll:yield-dropped", "poll:raise-left-pending", "poll:deadlock", "poll:thread-died:poller", "poll:thread-died:other", "poll:poller-dead", "poll:harness-exc")
if hasattr(base, "setup"):
    setup = base.setup
if hasattr(base, "expected_verdict"):
    expected_verdict = base.expected_verdict

gen = base.gen
execute = base.execute
encode = base.encode


def monitor(r, obs):
    import poll_mon
    return [v for v in poll_mon.monitor(r, obs) if v["pattern"] in KEEP]


nontrivial = base.nontrivial
describe = base.describe
