"""C03 (retry, environment cancel): the lockstep scenario family of C06 (attempts, retries, cancel() calls) plus
environment threads that CANCEL a delegate future instead of running it (somebody else cancels it: a user holding the
delegate executor's future, an outer layer, a shutdown sweep) -- Model/Retry.v EEnvCancel, wire code 23.
RetryExecutor._delegate_callback returns silently for such a future: the job stays in _jobs, the retry future stays
pending for ever unless cancel() is called on it.  That verdict is C03's KNOWN finding G1
(Props/C03_retry.v c03_retry_lost_after_foreign_cancel_refuted, c03_retry_lost_for_ever), not a new violation; every
other pending future is one.  Every history is replayed on the component machine."""
import p_c06r as base
import retry_common as rc

PROP = "C03"
MACHINE = base.MACHINE
N_QUICK = 800
N_THOROUGH = 40000
G1 = "lost:delegate-cancelled-behind-back:RetryFuture:lockstep"
KEEP = (G1, "retry:pending", "retry:deadlock", "retry:thread-died:worker", "retry:thread-died:other", "retry:worker-dead",
        "retry:harness-exc")


def gen(rng):
    return rc.gen(rng, cancels=True, faults=False, env_cancels=True)


execute = base.execute
encode = base.encode


def foreign_cancelled(r):
    """retry future j -> position of the environment cancel() that made the Pending -> Cancelled transition of the
    delegate future of j's LATEST attempt"""
    dfor, last, envc = {}, {}, {}
    for idx, (th, op, obj, val, ts) in enumerate(r.log):
        if op == "endscen":
            break
        if op == "deleg.submit":
            j = None
            for k in range(idx - 1, -1, -1):
                if r.log[k][0] == th and r.log[k][1] == "acq" and str(r.log[k][2]).startswith("M"):
                    j = int(r.log[k][2][1:])
                    break
            dfor[val[0]] = j
            last[j] = val[0]
        elif op == "F.cancel" and str(th).startswith("e") and str(obj).startswith("d") and val == 0:
            envc[int(obj[1:])] = idx
    return dict((j, envc[d]) for j, d in last.items() if d in envc)


def monitor(r, obs):
    out = []
    fc = None
    for v in base.monitor(r, obs):
        if v["pattern"] == "retry:pending":
            if fc is None:
                fc = foreign_cancelled(r)
            j = v["detail"]
            if j in fc:
                v = {"what": "retry future %d is still pending at the end although the delegate future of its latest attempt was "
                             "cancelled (by someone else) at %d: it ends neither cancelled nor failed" % (j, fc[j]),
                     "detail": j, "pattern": G1}
        if v["pattern"] in KEEP:
            out.append(v)
    return out


def nontrivial(r, obs, events):
    # somebody else cancelled a delegate future while it was pending, and a preemption occurred
    return any(e[1] == 23 and e[4] == 0 for e in events) and r.preempts > 0


def describe(p):
    return base.describe(p) + ["envcancel=%d" % sum(1 for x in p.get("env_cancel", []) if x)]
