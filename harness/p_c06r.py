"""C06 (retry part): cancel semantics on RetryExecutor — lockstep with Model/Retry.v + monitor."""
import random
import detsched as det
import lib
import retry_common as rc

PROP = "C06"
MACHINE = "retry"
N_QUICK = 1500
N_THOROUGH = 60000


def gen(rng):
    return rc.gen(rng, cancels=True, faults=False)


execute = rc.execute
encode = rc.encode


def monitor(r, obs):
    out = []
    if r.deadlock or r.hang:
        return [{"what": "deadlock", "detail": r.deadlock or "hang", "pattern": "retry:deadlock"}]
    if r.exc is not None:
        return [{"what": "harness-exception", "detail": getattr(r, "tb", repr(r.exc))[-500:], "pattern": "retry:harness-exc"}]
    for (nm, dn, e) in r.threads:
        if e is not None:
            out.append({"what": "thread %s died with %s" % (nm, e), "detail": nm,
                        "pattern": "retry:thread-died:" + ("worker" if nm.startswith("Retry") else "other")})
    # positions
    dsub = []          # (log idx, j, d)
    starts = []        # (log idx, d)
    dfor = {}
    for idx, (th, op, obj, val, ts) in enumerate(r.log):
        if op == "endscen":
            break
        if op == "deleg.submit":
            j = None
            for k in range(idx - 1, -1, -1):
                if r.log[k][0] == th and r.log[k][1] == "acq" and str(r.log[k][2]).startswith("M"):
                    j = int(r.log[k][2][1:])
                    break
            dfor[val[0]] = j
            dsub.append((idx, j, val[0]))
        elif op == "F.set_running_or_notify_cancel" and str(obj).startswith("d") and val == 0:
            starts.append((idx, int(obj[1:])))
    for (j, ret, pos) in obs["cancel_rets"]:
        if ret not in (True, False):
            out.append({"what": "cancel() raised %s" % ret, "detail": j, "pattern": "retry:cancel-raised:" + str(ret)})
            continue
        late = [d for (idx, jj, d) in dsub if jj == j and idx >= pos]
        if late:
            out.append({"what": "delegate.submit for a future after cancel() on it had returned %s" % ret, "detail": (j, late),
                        "pattern": "retry:submit-after-cancel"})
        if ret is True:
            st = [d for (idx, d) in starts if dfor.get(d) == j and idx >= pos]
            if st:
                out.append({"what": "callable started after cancel() returned True", "detail": (j, st), "pattern": "retry:start-after-cancel-true"})
            o = obs["outs"].get(j)
            if o != ("cancelled",):
                out.append({"what": "cancel() returned True but the future ended %r" % (o,), "detail": j, "pattern": "retry:cancel-true-not-cancelled"})
    for j, o in obs["outs"].items():
        if o == ("pending",):
            out.append({"what": "retry future never completed", "detail": j, "pattern": "retry:pending"})
    if not obs.get("worker_alive", True):
        out.append({"what": "submit thread is dead", "detail": None, "pattern": "retry:worker-dead"})
    return out


def nontrivial(r, obs, events):
    # a cancel() call overlapped other threads' activity on the same executor
    return any(e[1] == 1 for e in events) and r.preempts > 0


def describe(p):
    return ["policy=" + p["policy"]["kind"], "subs=%d" % len(p["subs"]), "cancels=%d" % len(p["cancels"])]


def extra(stats, tier, seed):
    """Directed (composition): cancel() on the OUTER future of poll-over-retry / map-over-retry / timeout-over-retry while an attempt runs, and between
    two attempts.  Whatever the outer cancel() answers, the request reaches the retry layer: no further attempt is submitted to the delegate."""
    import drive
    from lib import Manual
    from more_executors import Executors
    from more_executors._impl.retry import RetryExecutor
    known_patterns = set(k["pattern"] for k in drive.load_known(PROP))

    def viol(what, pattern, detail=None):
        v = {"what": what, "pattern": pattern, "detail": detail, "case": {"params": {}, "chooser": "none", "cseed": 0, "origin": "directed"}}
        if pattern in known_patterns:
            stats.known.setdefault(pattern, v)
        else:
            stats.violations.append(v)
    outers = [("poll", lambda ex: ex.with_poll(lambda ds: [d.yield_result(d.result) for d in ds] and None, default_interval=1)),
              ("map", lambda ex: ex.with_map(lambda v: v)), ("timeout", lambda ex: ex.with_timeout(10 ** 6)),
              ("flat_map", lambda ex: ex.with_flat_map(lambda v: __import__("more_executors").futures.f_return(v)))]
    ntr = 12 if tier == "quick" else 160
    for trial in range(ntr):
        nm, mk = outers[trial % len(outers)]
        when = ("running", "between")[(trial // len(outers)) % 2]
        res = {}

        def main(mk=mk, when=when, res=res):
            m = Manual()
            with det.atomic():
                top = mk(RetryExecutor(m, max_attempts=4, sleep=3))
            f = top.submit(lambda: 1)
            det.wait_until(lambda: len(m.fs) >= 1)
            d0 = m.fs[0][0]
            if when == "running":
                d0.set_running_or_notify_cancel()
                res["answer"] = f.cancel()
                d0.set_exception(KeyError("attempt 1 fails"))
            else:
                d0.set_running_or_notify_cancel()
                d0.set_exception(KeyError("attempt 1 fails"))
                det.sleep(1)                    # the back-off (3) has not elapsed: the job sleeps between two attempts
                res["answer"] = f.cancel()
            n0 = len(m.fs)
            det.sleep(20)
            res["later_submissions"] = len(m.fs) - n0
            res["state"] = f._state
            top.shutdown(False)
        r = det.run(det.make_chooser(("random", "sticky", "pct")[trial % 3], seed * 13 + trial), main)
        stats.add([[6, 11, trial % len(outers), 0 if when == "running" else 1]], True, None, ["directed:outer-cancel-over-retry:" + nm])
        if r.exc is not None or r.deadlock or r.hang:
            viol("%s over retry, cancel %s: %s" % (nm, when, ("deadlock %s" % (r.deadlock,)) if (r.deadlock or r.hang) else getattr(r, "tb", "")[-300:]),
                 "retry:deadlock", nm)
            continue
        if res.get("later_submissions"):
            viol("%s over retry: cancel() on the outer future (%s; it answered %r) did not end retrying: %d further submission(s) to the delegate, future %s"
                 % (nm, "while attempt 1 was running" if when == "running" else "between two attempts", res.get("answer"), res["later_submissions"], res.get("state")),
                 "retry:submit-after-cancel", nm)
