"""C06 (retry part): cancel semantics on RetryExecutor — lockstep with Model/Retry.v + monitor."""
import random
import detsched as det
import lib
import retry_common as rc

PROP = "C06"
MACHINE = "retry"
N_QUICK = 1500
N_THOROUGH = 60000


def gen(rng):
    return rc.gen(rng, cancels=True, faults=False)


execute = rc.execute
encode = rc.encode


def monitor(r, obs):
    out = []
    if r.deadlock or r.hang:
        return [{"what": "deadlock", "detail": r.deadlock or "hang", "pattern": "retry:deadlock"}]
    if r.exc is not None:
        return [{"what": "harness-exception", "detail": getattr(r, "tb", repr(r.exc))[-500:], "pattern": "retry:harness-exc"}]
    for (nm, dn, e) in r.threads:
        if e is not None:
            out.append({"what": "thread %s died with %s" % (nm, e), "detail": nm,
                        "pattern": "retry:thread-died:" + ("worker" if nm.startswith("Retry") else "other")})
    # positions
    dsub = []          # (log idx, j, d)
    starts = []        # (log idx, d)
    dfor = {}
    for idx, (th, op, obj, val, ts) in enumerate(r.log):
        if op == "endscen":
            break
        if op == "deleg.submit":
            j = None
            for k in range(idx - 1, -1, -1):
                if r.log[k][0] == th and r.log[k][1] == "acq" and str(r.log[k][2]).startswith("M"):
                    j = int(r.log[k][2][1:])
                    break
            dfor[val[0]] = j
            dsub.append((idx, j, val[0]))
        elif op == "F.set_running_or_notify_cancel" and str(obj).startswith("d") and val == 0:
            starts.append((idx, int(obj[1:])))
    for (j, ret, pos) in obs["cancel_rets"]:
        if ret not in (True, False):
            out.append({"what": "cancel() raised %s" % ret, "detail": j, "pattern": "retry:cancel-raised:" + str(ret)})
            continue
        late = [d for (idx, jj, d) in dsub if jj == j and idx >= pos]
        if late:
            out.append({"what": "delegate.submit for a future after cancel() on it had returned %s" % ret, "detail": (j, late),
                        "pattern": "retry:submit-after-cancel"})
        if ret is True:
            st = [d for (idx, d) in starts if dfor.get(d) == j and idx >= pos]
            if st:
                out.append({"what": "callable started after cancel() returned True", "detail": (j, st), "pattern": "retry:start-after-cancel-true"})
            o = obs["outs"].get(j)
            if o != ("cancelled",):
                out.append({"what": "cancel() returned True but the future ended %r" % (o,), "detail": j, "pattern": "retry:cancel-true-not-cancelled"})
    for j, o in obs["outs"].items():
        if o == ("pending",):
            out.append({"what": "retry future never completed", "detail": j, "pattern": "retry:pending"})
    if not obs.get("worker_alive", True):
        out.append({"what": "submit thread is dead", "detail": None, "pattern": "retry:worker-dead"})
    return out


def nontrivial(r, obs, events):
    # a cancel() call overlapped other threads' activity on the same executor
    return any(e[1] == 1 for e in events) and r.preempts > 0


def describe(p):
    return ["policy=" + p["policy"]["kind"], "subs=%d" % len(p["subs"]), "cancels=%d" % len(p["cancels"])]
