"""Scenario family + adapter for TimeoutExecutor / f_timeout (C09) against Model/Timeout.v.

Virtual time: integers.  TICK: a timed wait of 0 on the executor's event is given one tick of
virtual time (in real time the zero-wait busy loop `deadline < now` false / wait 0 makes progress
because the monotonic clock advances while it spins; under the baton scheduler time only advances
when every thread is blocked, so the spin has to be made a 1-tick block)."""
import random, sys, itertools
import detsched as det
import lib
from lib import Manual
from concurrent.futures import Future

MACHINE = "timeout"
DONE = ("CANCELLED", "CANCELLED_AND_NOTIFIED", "FINISHED")
TICK = 1
TNAME = "TimeoutExecutor-"


class E0(Exception): pass
class E1(ValueError): pass
EXC = [E0, E1]


class TEvent(det.DEvent):
    def wait(self, timeout=None):
        det.emit("ev.arg", "E", timeout)      # the argument of the timed wait (log only, no yield)
        if timeout is not None and timeout <= 0 and not self.flag:
            timeout = TICK
        return det.DEvent.wait(self, timeout)


def setup():
    from more_executors._impl import timeout as T
    T.get_event = TEvent


class TManual(Manual):
    """Manual delegate; inline (synchronous) completion decided per submission (fn.sub)."""

    def __init__(self, inline_of):
        Manual.__init__(self)
        self.inline_of = inline_of
        self.by_sub = {}
        self.delay_of = None

    def submit(self, fn, *a, **k):
        det.switch("deleg.submit")
        d = self.delay_of(fn.sub) if self.delay_of else 0
        if d:
            det.sleep(d)          # a delegate whose submit() takes time (e.g. a bounded executor waiting for a slot)
        idx = len(self.fs)
        with det.atomic():
            f = Future()
            det.S.name(f, "d%d" % idx)
            self.fs.append((f, fn, a, k))
            self.by_sub[fn.sub] = idx
            inl = self.inline_of(fn.sub)
        det.emit("deleg.submit", "d", (idx, 1 if inl else 0))
        if inl:
            with det.atomic():
                f.set_running_or_notify_cancel()
                try:
                    r = fn(*a, **k)
                except Exception as e:
                    f.set_exception(e)
                    oc = (1, fn.sub)
                else:
                    f.set_result(r)
                    oc = (0, fn.sub)
            det.emit("inline.outcome", None, oc)
        return f


def gen(rng, kind=None):
    if kind is None:
        kind = "ftimeout" if rng.random() < 0.25 else "exec"
    nsub = rng.choice([1, 2, 2, 3, 3, 4, 5])
    ncl = rng.randint(1, min(3, nsub))
    default = rng.choice([0, 1, 2, 3, 4, 6])
    subs = []
    for i in range(nsub):
        tmo = None if (kind == "exec" and rng.random() < 0.4) else rng.choice([-1, 0, 0, 1, 1, 2, 3, 4, 5, 7])
        eff = default if tmo is None else tmo
        mode = rng.choice(["never", "never", "finish", "finish", "finish", "start", "start_finish"])
        s = {"client": rng.randrange(ncl), "gap": rng.choice([0, 0, 0, 1, 2, 3]), "timeout": tmo,
             "mode": mode,
             # completion time relative to the deadline: before / at / just after / well after
             "delta": rng.choice([-3, -2, -1, -1, 0, 0, 1, 1, 2, 3]),
             "start_delta": rng.choice([-2, -1, 0, 1]),
             "outcome": rng.choice(["ok", "ok", "err"]),
             "inline": kind == "exec" and rng.random() < 0.1,
             "cbs": rng.choice([0, 0, 1, 2]), "cb_raise": rng.random() < 0.2, "late_cb": rng.random() < 0.4,
             "pre_done": kind == "ftimeout" and rng.random() < 0.1,
             "slow_submit": rng.choice([0, 0, 0, 0, 1, 2]) if kind == "exec" else 0}
        subs.append(s)
    cancels = []
    for i in range(nsub):
        if rng.random() < 0.25:
            cancels.append({"sub": i, "delta": rng.choice([-2, -1, 0, 1, 1, 2])})
    return {"kind": kind, "default": default, "nclients": ncl, "subs": subs, "cancels": cancels}


def eff_timeout(p, i):
    t = p["subs"][i]["timeout"]
    return p["default"] if t is None else t


def execute(p, chooser):
    from more_executors._impl.timeout import TimeoutExecutor
    from more_executors._impl.futures import timeout as FT
    obs = {"futs": {}, "outs": {}, "cancel_rets": [], "params": p, "sub": {}, "src": {}}
    ft = p["kind"] == "ftimeout"

    def main():
        det.emit("kind", None, p["kind"])
        by_sub = {}
        if ft:
            FT.EXECUTOR_REF = None
            with det.atomic():
                ex = FT.timeout_executor()
            m = None
        else:
            m = TManual(lambda i: p["subs"][i]["inline"])
            m.delay_of = lambda i: p["subs"][i].get("slow_submit", 0)
            with det.atomic():      # the job thread must not run before the locks/events are named
                ex = TimeoutExecutor(m, p["default"])
            by_sub = m.by_sub
        det.S.name(ex._jobs_lock, "X")
        det.S.name(ex._shutdown._lock, "G")
        det.S.name(ex._jobs_write, "E")
        obs["ex"] = ex
        srcs = []

        def mkfn(i):
            def fn():
                if p["subs"][i]["outcome"] == "err":
                    raise EXC[i % 2]("inline%d" % i)
                return ("v", i)
            fn.sub = i
            return fn

        def src_future(i):
            return srcs[by_sub[i]] if ft else m.fs[by_sub[i]][0]

        def do_submit(i):
            s = p["subs"][i]
            eff = eff_timeout(p, i)
            det.emit("call", "submit", (i, eff))
            if ft:
                with det.atomic():
                    src = Future()
                    det.S.name(src, "d%d" % len(srcs))
                    if s["pre_done"]:
                        src.set_result(("v", i))
                    srcs.append(src)
                    by_sub[i] = len(srcs) - 1
                f = FT.f_timeout(src, eff)
            elif s["timeout"] is None:
                f = ex.submit(mkfn(i))
            else:
                f = ex.submit_timeout(s["timeout"], mkfn(i))
            with det.atomic():
                j = f._verif_id
                obs["futs"][j] = f
                obs["sub"][i] = {"j": j, "t": det.now(), "eff": eff, "d": by_sub[i]}
                obs["src"][i] = src_future(i)
            det.emit("ret", "submit", 0)
            return j, f

        def do_addcb(i, j, f, c):
            raises = 1 if (p["subs"][i]["cb_raise"] and c == 0) else 0
            det.emit("call", "addcb", (j, c))

            def cb(fut):
                det.user("cb", (j, c, raises))
                if raises:
                    raise E0("cb")
            f.add_done_callback(cb)
            det.emit("ret", "addcb", 0)

        def client(k):
            def run():
                mine = []
                for i, s in enumerate(p["subs"]):
                    if s["client"] != k:
                        continue
                    if s["gap"]:
                        det.sleep(s["gap"])
                    j, f = do_submit(i)
                    mine.append((i, j, f))
                    if not s["late_cb"]:
                        for c in range(s["cbs"]):
                            do_addcb(i, j, f, c)
                for (i, j, f) in mine:
                    if p["subs"][i]["late_cb"] and p["subs"][i]["cbs"]:
                        det.sleep(2)
                        for c in range(p["subs"][i]["cbs"]):
                            do_addcb(i, j, f, c)
            return run

        def sleep_to(t):
            dt = t - det.now()
            if dt > 0:
                det.sleep(dt)

        def env(i):
            s = p["subs"][i]

            def run():
                det.wait_until(lambda: i in by_sub)
                t0 = det.now()
                if s["mode"] == "never" or s["inline"] or s["pre_done"]:
                    return
                f = src_future(i)
                dl = t0 + eff_timeout(p, i)
                if s["mode"] in ("start", "start_finish"):
                    sleep_to(dl + s["start_delta"])
                    if not f.set_running_or_notify_cancel():
                        return
                    if s["mode"] == "start":
                        return
                    sleep_to(dl + s["delta"])
                else:
                    sleep_to(dl + s["delta"])
                    if not f.set_running_or_notify_cancel():
                        return
                err = 1 if s["outcome"] == "err" else 0
                det.emit("env.outcome", None, (err, i))
                if err:
                    f.set_exception(EXC[i % 2]("env%d" % i))
                else:
                    f.set_result(("v", i))
            return run

        def canceller(c):
            def run():
                i = c["sub"]
                det.wait_until(lambda: i in obs["sub"])
                info = obs["sub"][i]
                sleep_to(info["t"] + info["eff"] + c["delta"])
                det.emit("call", "cancel", info["j"])
                r = obs["futs"][info["j"]].cancel()
                det.emit("ret", "cancel", 2 if r else 1)
                obs["cancel_rets"].append((info["j"], r, det.now()))
            return run

        ts = [det.spawn("c%d" % k, client(k)) for k in range(p["nclients"])]
        xs = [det.spawn("x%d" % n, canceller(c)) for n, c in enumerate(p["cancels"])]
        es = [det.spawn("e%d" % i, env(i)) for i in range(len(p["subs"]))]
        for t in ts + xs + es:
            t.join()
        det.wait_until(lambda: quiescent())
        det.emit("endscen")
        with det.atomic():
            for j, f in obs["futs"].items():
                obs["outs"][j] = outcome_of(f)
            obs["src_outs"] = {i: outcome_of(f) for i, f in obs["src"].items()}
            obs["jobs_left"] = [det.S.role(job.future) for job in ex._jobs]
            obs["thread_alive"] = ex._job_thread.is_alive()
            obs["end"] = det.now()

    def quiescent():
        s = det.S
        others = [t for t in s.threads.values() if not t.done and t.name != "main"]
        return all((t.blocked_on is not None and not t.blocked_on() and t.wake_at is None) for t in others)

    r = det.run(chooser, main)
    return r, obs


def outcome_of(f):
    st = f._state
    if st in ("CANCELLED", "CANCELLED_AND_NOTIFIED"):
        return ("cancelled",)
    if st == "FINISHED":
        if f._exception is not None:
            return ("err", type(f._exception).__name__, str(f._exception))
        return ("ok", f._result)
    return ("pending", st)


FOPS_R = {"F.cancelled": 0, "F.done": 1, "F.cancel": 2, "F.set_running_or_notify_cancel": 3, "F.set_result": 4, "F.set_exception": 6}
FOPS_D = {"F.cancelled": 0, "F.cancel": 2, "F.add_done_callback": 5}
DROP = {"thread.exit", "F.exception", "F.result"}


def log_kind(log):
    for (th, op, obj, val, ts) in log:
        if op == "kind":
            return val
    return None


def encode(log):
    """impl log -> wire events for Timeout.accept (kind 'exec').  Fail-closed.
    For kind 'ftimeout' (not modelled in Coq) only a coarse projection is produced, see encode_ft."""
    if log_kind(log) == "ftimeout":
        return encode_ft(log)
    tids = lib.Tids({"JT": 0})
    ev, bad = [], []
    envout = {}
    pending_inline = []
    waitarg = {}
    n = len(log)
    i = 0
    while i < n:
        th, op, obj, val, ts = log[i]
        i += 1
        if op == "endscen":
            break
        if th == "main" or op in DROP:
            continue
        if th.startswith(TNAME):
            th = "JT"
        t = tids(th)
        obj_s = obj if isinstance(obj, str) else ""
        if op == "clock":
            ev.append([ts, 24, t, val])
        elif op == "call":
            if obj == "submit":
                ev.append([ts, 0, t, val[1]])
            elif obj == "cancel":
                ev.append([ts, 1, t, val])
            elif obj == "addcb":
                ev.append([ts, 2, t, val[0], val[1]])
            else:
                bad.append((th, op, obj, val))
        elif op == "ret":
            ev.append([ts, 7, t, val])
        elif op == "acq" and obj == "X":
            if t == 0:
                ev.append([ts, 4, t])
            elif i < n and log[i][0] == th and log[i][1] == "rel" and log[i][2] == "X":
                ev.append([ts, 3, t])
                i += 1
            else:
                bad.append((th, op, obj, "X-section with inner operation"))
        elif op == "rel" and obj == "X":
            ev.append([ts, 5, t])
        elif op in ("acq", "rel") and obj == "G":
            ev.append([ts, 13 if op == "acq" else 14, t])
        elif op in ("acq", "rel") and obj_s.startswith("M"):
            ev.append([ts, 8 if op == "acq" else 9, t, int(obj[1:])])
        elif op == "ev.set" and obj == "E":
            ev.append([ts, 6, t])
        elif op == "ev.wait" and obj == "E":
            a = waitarg.pop(th, None)
            ev.append([ts, 16, 0 if val == "set" else 1, 0 if a is None else 1, 0 if a is None else int(a)])
            if a is not None and a != int(a):
                bad.append((th, op, obj, ("non-integer wait", a)))
        elif op == "ev.arg" and obj == "E":
            waitarg[th] = val
        elif op == "ev.woke" and obj == "E":
            ev.append([ts, 17, 0 if val == "notified" else 1])
        elif op == "ev.clear" and obj == "E":
            ev.append([ts, 18])
        elif op in FOPS_R and obj_s.startswith("r"):
            ev.append([ts, 10, t, FOPS_R[op], int(obj[1:]), val])
        elif th.startswith("e") and op == "env.outcome":
            envout[th] = val
        elif th.startswith("e") and op == "F.set_running_or_notify_cancel" and obj_s.startswith("d"):
            ev.append([ts, 19, t, int(obj[1:]), val])
        elif th.startswith("e") and op in ("F.set_result", "F.set_exception") and obj_s.startswith("d"):
            o = envout.get(th, (0, 0))
            ev.append([ts, 21, t, int(obj[1:]), val, o[0], o[1]])
        elif op in FOPS_D and obj_s.startswith("d"):
            ev.append([ts, 11, t, FOPS_D[op], int(obj[1:]), val])
        elif op == "user:cb":
            ev.append([ts, 12, t, val[0], val[1], val[2]])
        elif op == "deleg.submit":
            ev.append([ts, 15, t, val[0], val[1], 0, 0])
            if val[1]:
                pending_inline.append(len(ev) - 1)
        elif op == "inline.outcome":
            k = pending_inline.pop()
            ev[k][5], ev[k][6] = val
        else:
            bad.append((th, op, obj, val))
    return ev, bad


def encode_ft(log):
    """coarse projection of an f_timeout history (monitor-only kind): what the job thread and the
    clients did to the returned futures, for trace statistics; never fed to the Coq model."""
    ev = []
    for (th, op, obj, val, ts) in log:
        if op == "endscen":
            break
        if op in ("call", "ret"):
            ev.append([ts, 90, 0 if op == "call" else 1])
        elif th.startswith(TNAME) and op in ("F.cancelled", "ev.wait", "ev.woke"):
            ev.append([ts, 91, {"F.cancelled": 0, "ev.wait": 1, "ev.woke": 2}[op]])
    return ev, []


def describe(p):
    subs = p["subs"]
    tags = ["kind=" + p["kind"], "subs=%d" % len(subs), "clients=%d" % p["nclients"],
            "cancels=%d" % len(p["cancels"])]
    for m in sorted(set(s["mode"] for s in subs)):
        tags.append("mode:" + m)
    if any(s["timeout"] is None for s in subs):
        tags.append("default-timeout")
    if any(s["timeout"] is not None for s in subs):
        tags.append("per-call-timeout")
    if any(eff_timeout(p, i) <= 0 for i in range(len(subs))):
        tags.append("timeout<=0")
    if any(s["inline"] for s in subs):
        tags.append("inline")
    for s in subs:
        if s["mode"] in ("finish", "start_finish"):
            tags.append("finish:" + ("before" if s["delta"] < 0 else "at" if s["delta"] == 0 else "after"))
    return sorted(set(tags))
