"""C18: faults in user code stay with their own future; worker threads survive.
Real stacks under the scheduler; every user-code call site can raise at a chosen call index;
liveness is probed by a fresh submission after the faults."""
import random
import detsched as det
import lib

det.TIMER_EPS = 0.001

PROP = "C18"
MACHINE = None
NEEDS_POOL = True
N_QUICK = 1500
N_THOROUGH = 60000
KINDS = ["map", "flat_map", "poll", "retry", "throttle", "timeout", "cancel_on_shutdown"]
SITES = ["callable", "map_fn", "error_fn", "poll_fn", "cancel_fn", "should_retry", "sleep_time", "count_fn", "callback"]
DONE = ("CANCELLED", "CANCELLED_AND_NOTIFIED", "FINISHED")
PREFIX = ("RetryExecutor-", "ThrottleExecutor-", "TimeoutExecutor-", "PollExecutor-")


class Fault(Exception):
    pass


def gen(rng):
    depth = rng.randint(1, 4)
    layers = [rng.choice(KINDS) for _ in range(depth)]
    faults = {}
    for site in SITES:
        if rng.random() < 0.4:
            faults[site] = rng.choice(["first", "second", "every", "third"])
    return {"base": rng.choice(["sync", "pool", "pool"]), "layers": layers, "faults": faults, "nsub": rng.randint(1, 4),
            "cancel_at": rng.choice([None, None, 0, 1]), "efn": rng.random() < 0.5,
            # another thread keeps asking the returned futures (and the library futures below them) for their status
            "observer": rng.random() < 0.5}


def should_fault(mode, k):
    return mode == "every" or (mode == "first" and k == 0) or (mode == "second" and k == 1) or (mode == "third" and k == 2)


def execute(p, chooser):
    from more_executors import Executors
    from more_executors.futures import f_return
    from more_executors._impl.retry import RetryPolicy
    obs = {"params": p, "outs": {}, "probe": None, "escaped": [], "workers_alive": None, "counts": {},
           "witness": {}, "results": {}}
    cnt = {}

    def hit(site):
        k = cnt.get(site, 0)
        cnt[site] = k + 1
        m = p["faults"].get(site)
        if m and (not probing["v"]) and should_fault(m, k):
            raise Fault(site)
    probing = {"v": False}

    def main():
        det.emit("case", None, repr(p))
        with det.atomic():
            ex = Executors.sync() if p["base"] == "sync" else Executors.thread_pool(max_workers=2)
            for k in p["layers"]:
                if k == "map":
                    def mfn(v):
                        hit("map_fn")
                        return v

                    def efn(e):
                        hit("error_fn")
                        raise e
                    ex = ex.with_map(mfn, error_fn=efn if p["efn"] else None)
                elif k == "flat_map":
                    def ffn(v):
                        hit("map_fn")
                        return f_return(v)
                    ex = ex.with_flat_map(ffn)
                elif k == "poll":
                    def poll_fn(ds):
                        hit("poll_fn")
                        for d in ds:
                            d.yield_result(d.result)

                    def cancel_fn(x):
                        hit("cancel_fn")
                        return True
                    ex = ex.with_poll(poll_fn, cancel_fn, default_interval=1)
                elif k == "retry":
                    class P(RetryPolicy):
                        def should_retry(self, attempt, future):
                            hit("should_retry")
                            return future.exception() is not None and attempt < 3

                        def sleep_time(self, attempt, future):
                            hit("sleep_time")
                            return 1
                    ex = ex.with_retry(retry_policy=P())
                elif k == "throttle":
                    def count():
                        hit("count_fn")
                        return 2
                    with_fault = "count_fn" in p["faults"]
                    saved = p["faults"].pop("count_fn", None)      # the constructor calls it once, unguarded
                    ex = ex.with_throttle(count)
                    if saved:
                        p["faults"]["count_fn"] = saved
                elif k == "timeout":
                    ex = ex.with_timeout(10 ** 6)
                else:
                    ex = ex.with_cancel_on_shutdown()
        top = ex
        futs = {}

        def mk(s):
            st = {"k": 0}

            def fn():
                k = st["k"]
                st["k"] += 1
                if k == 0:
                    hit("callable")
                return s
            return fn

        def cb(f):
            hit("callback")

        def wit(s):
            def w(f):
                obs["witness"][s] = obs["witness"].get(s, 0) + 1
            return w
        for s in range(p["nsub"]):
            try:
                futs[s] = top.submit(mk(s))
            except Fault as e:
                obs["escaped"].append(("submit", str(e)))
                continue
            try:
                futs[s].add_done_callback(cb)
            except Fault as e:
                obs["escaped"].append(("add_done_callback", str(e)))
            # a second callback registered after the (possibly raising) one: it must still run, once
            futs[s].add_done_callback(wit(s))
        stop = {"v": False}

        def observer():
            def chain(f):
                out, seen = [], set()
                while f is not None and id(f) not in seen and len(out) < 8:
                    seen.add(id(f))
                    out.append(f)
                    f = getattr(f, "delegate_future", None) or getattr(f, "_delegate", None)
                return out
            rounds = 0
            while not stop["v"] and rounds < 12:
                rounds += 1
                for s0, f0 in list(futs.items()):
                    for f in chain(f0):
                        for meth in ("running", "done", "cancelled"):
                            try:
                                getattr(f, meth)()
                            except BaseException as e:
                                if isinstance(e, det.Abort):
                                    raise
                                obs["escaped"].append((meth, type(e).__name__ + ":" + str(e)))
                det.switch("observe")
        obst = det.spawn("obs", observer) if p.get("observer") else None
        if p["cancel_at"] is not None:
            det.sleep(p["cancel_at"])
            for s, f in futs.items():
                if s % 2 == 0:
                    try:
                        f.cancel()
                    except BaseException as e:
                        if isinstance(e, det.Abort):
                            raise
                        obs["escaped"].append(("cancel", type(e).__name__ + ":" + str(e)))
        det.wait_until(lambda: all(f._state in DONE for f in futs.values()) or quiescent() or det.S.now > 80)
        stop["v"] = True
        if obst is not None:
            obst.join()
        for s, f in futs.items():
            obs["outs"][s] = f._state
            if f._state == "FINISHED":
                e = f._exception
                obs["results"][s] = ("ok", f._result) if e is None else ("err", type(e).__name__, str(e))
        # probe: the executor must still serve a fresh, fault-free submission
        probing["v"] = True
        try:
            pf = top.submit(lambda: "probe")
            t0 = det.S.now
            det.wait_until(lambda: pf._state in DONE or det.S.now > t0 + 60)
            obs["probe"] = (pf._state, pf._result if pf._state == "FINISHED" else None)
        except BaseException as e:
            if isinstance(e, det.Abort):
                raise
            obs["probe"] = ("submit-raised", type(e).__name__ + ":" + str(e))
        # let every thread that is in the middle of something (callbacks of a future that just finished) get there
        det.wait_until(lambda: idle())
        with det.atomic():
            obs["workers_alive"] = [(t.name, not t.done) for t in det.S.threads.values() if t.name.startswith(PREFIX)]
            obs["counts"] = dict(cnt)
        top.shutdown(False)

    def idle():
        s = det.S
        return all((t.blocked_on is not None and not t.blocked_on()) for t in s.threads.values() if not t.done and t.name != "main")

    def quiescent():
        s = det.S
        others = [t for t in s.threads.values() if not t.done and t.name != "main"]
        return all((t.blocked_on is not None and not t.blocked_on() and t.wake_at is None) for t in others)

    r = det.run(chooser, main)
    return r, obs


def encode(log):
    import zlib
    for (th, op, obj, val, ts) in log:
        if op == "case":
            return [[zlib.crc32(val.encode()) & 0xffffff, len(log) % 997]], []
    return [[len(log)]], []


def monitor(r, obs):
    p = obs["params"]
    if r.exc is not None:
        return [{"what": "harness-exception", "detail": getattr(r, "tb", repr(r.exc))[-700:], "pattern": "fault:harness-exc"}]
    if r.deadlock or r.hang:
        w = getattr(r, "waiting", {}) or {}
        pat = "fault:deadlock"
        for th, (lock, owner) in w.items():
            if str(owner).startswith("RetryExecutor") and owner in w:
                pat = "deadlock:retry-submit-thread-holds-locks-across-delegate-submit"
        return [{"what": "deadlock %s %s" % (r.deadlock, w), "detail": str(p), "pattern": pat}]
    out = []
    for (nm, dn, e) in r.threads:
        if e is not None and nm != "main":
            tb = [t for (n2, t) in getattr(r, "tracebacks", []) if n2 == nm]
            out.append({"what": "thread %s died with %s: %s" % (nm, e, (tb[0][-300:] if tb else "")), "detail": str(p),
                        "pattern": "fault:thread-died:" + ("worker" if nm.startswith(PREFIX) else "pool" if nm.startswith("ThreadPool") else "other")})
    for (where, what) in obs["escaped"]:
        out.append({"what": "an exception escaped from %s(): %s" % (where, what), "detail": str(p), "pattern": "fault:escaped:" + where})
    for (nm, alive) in obs.get("workers_alive") or []:
        if not alive:
            out.append({"what": "worker thread %s is dead" % nm, "detail": str(p), "pattern": "fault:worker-dead"})
    for s, st in obs["outs"].items():
        n = obs["witness"].get(s, 0)
        if st in DONE and n != 1:
            out.append({"what": "future %d is %s but the callback registered after the raising one ran %d times" % (s, st, n),
                        "detail": str(p), "pattern": "fault:callback-skipped"})
        res = obs["results"].get(s)
        if res is not None and res[0] == "ok" and res[1] != s:
            out.append({"what": "future %d finished with %r, its callable returns %d" % (s, res[1], s), "detail": str(p), "pattern": "fault:wrong-result"})
        if res is not None and res[0] == "err" and res[1] != "Fault":
            out.append({"what": "future %d failed with %s(%s): not a fault of user code" % (s, res[1], res[2]), "detail": str(p),
                        "pattern": "fault:internal-exception:" + res[1]})
    pr = obs.get("probe")
    if pr is not None and pr != ("FINISHED", "probe"):
        # a probe that cannot finish because an earlier future was lost behind a cancelled delegate is C03's G1
        out.append({"what": "a fresh submission after the faults ended %r" % (pr,), "detail": str(p), "pattern": "fault:probe:" + str(pr[0])})
    return out


def nontrivial(r, obs, events):
    return bool(obs["params"]["faults"]) and r.preempts > 0


def describe(p):
    return ["base=" + p["base"], "depth=%d" % len(p["layers"]), "faults=%d" % len(p["faults"])] + ["f_" + s for s in sorted(p["faults"])]
