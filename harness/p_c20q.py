"""C20 (queue gauges in lockstep): the real stacks of p_c20, with the queue containers of every
RetryExecutor / ThrottleExecutor, their executor locks and the RETRY_QUEUE / THROTTLE_QUEUE gauge
updates logged from outside; the projection of every implementation history onto these operations is
replayed on Model/QGauge.v (extracted), whose theorems turn the local pairing discipline into
"gauge = queue length whenever the lock is free, never negative" (Props/C20.v)."""
import collections
import detsched as det
import p_c20
from p_c20 import gen, monitor, nontrivial, describe, PROP, NEEDS_POOL      # noqa: F401

MACHINE = "qgauge"
N_QUICK = 600
N_THOROUGH = 20000
QG = {"more_executors_retry_queue": "retry", "more_executors_throttle_queue": "throttle"}


def _eid(x):
    s = det.S
    if s is None:
        return 0
    m = s.__dict__.setdefault("_qg_ids", {})
    return m.get(id(x))


def _new_eid(x):
    s = det.S
    if s is None:
        return 0
    m = s.__dict__.setdefault("_qg_ids", {})
    k = s.__dict__.get("_qg_next", 0)
    s._qg_next = k + 1
    m[id(x)] = k
    s.__dict__.setdefault("_qg_keep", []).append(x)      # ids stay unique for the run
    return k


class ListV(list):
    """RetryExecutor._jobs with logged mutations"""
    _inst = None

    def append(self, x):
        list.append(self, x)
        det.emit("q.app", self._inst, _new_eid(x))

    def pop(self, idx=-1):
        x = list.pop(self, idx)
        det.emit("q.pop", self._inst, _eid(x))
        return x

    def remove(self, x):
        list.remove(self, x)
        det.emit("q.pop", self._inst, _eid(x))

    def _unmodelled(self, *a, **k):
        det.emit("q.other", self._inst, None)
        raise AssertionError("unmodelled list mutation")
    insert = extend = clear = sort = reverse = __delitem__ = __setitem__ = __iadd__ = __imul__ = _unmodelled


class DequeQ(collections.deque):
    """ThrottleExecutor._to_submit with logged mutations"""
    _inst = None

    def append(self, x):
        collections.deque.append(self, x)
        det.emit("q.app", self._inst, _new_eid(x))

    def popleft(self):
        x = collections.deque.popleft(self)
        det.emit("q.pop", self._inst, _eid(x))
        return x

    def pop(self):
        x = collections.deque.pop(self)
        det.emit("q.pop", self._inst, _eid(x))
        return x

    def remove(self, x):
        # deque.remove compares with ==; the jobs are plain objects (identity)
        for y in self:
            if y is x or y == x:
                x = y
                break
        collections.deque.remove(self, x)
        det.emit("q.pop", self._inst, _eid(x))

    def _unmodelled(self, *a, **k):
        det.emit("q.other", self._inst, None)
        raise AssertionError("unmodelled deque mutation")
    appendleft = extend = extendleft = clear = insert = rotate = reverse = __delitem__ = __setitem__ = __iadd__ = _unmodelled


def _instance(kind):
    s = det.S
    k = s.__dict__.get("_qg_inst", 0)
    s._qg_inst = k + 1
    return "%s%d" % (kind, k)


def setup():
    import prometheus_client as pc
    from more_executors._impl import retry, throttle
    if getattr(retry, "_verif_qg", False):
        return
    retry._verif_qg = True

    def hook(kind, key, delta):
        if kind == "gauge" and key[0] in QG and det.S is not None and det.me() is not None:
            det.emit("g.inc" if delta > 0 else "g.dec", QG[key[0]], abs(delta))
    pc.HOOK = hook
    r_init = retry.RetryExecutor.__init__

    def retry_init(self, *a, **k):
        r_init(self, *a, **k)
        if det.S is not None:
            inst = _instance("retry")
            det.S.name(self._lock, "XQ:" + inst)
            old = self._jobs
            self._jobs = ListV(old)
            self._jobs._inst = inst
    retry.RetryExecutor.__init__ = retry_init
    t_init = throttle.ThrottleExecutor.__init__

    def throttle_init(self, *a, **k):
        t_init(self, *a, **k)
        if det.S is not None:
            inst = _instance("throttle")
            det.S.name(self._lock, "XQ:" + inst)
            old = self._to_submit
            self._to_submit = DequeQ(old)
            self._to_submit._inst = inst
    throttle.ThrottleExecutor.__init__ = throttle_init


def execute(p, chooser):
    return p_c20.execute(p, chooser)


def encode(log):
    """projection onto [0 acq|1 rel|2 app|3 pop|4 inc|5 dec ; instance ; thread (; element)]

    The gauges are labelled by executor NAME only, so an update does not say which instance it belongs to.  It is
    attributed to the instance of the adjacent container operation of the same thread (the one just before it, else
    the one just after it, when that operation is of the matching direction, of the matching executor kind and not
    yet claimed); failing that to the innermost executor of that kind whose lock the thread holds; failing that to
    nobody (instance 99, which the machine rejects)."""
    ev, bad = [], []
    inst_no, th_no = {}, {}
    held = {}            # thread -> stack of instances whose XQ lock it holds

    def I(name):
        return inst_no.setdefault(name, len(inst_no))

    def T(name):
        return th_no.setdefault(name, len(th_no))
    rel = [e for e in log if e[1] in ("q.app", "q.pop", "g.inc", "g.dec")]
    per_thread = {}
    for k, e in enumerate(rel):
        per_thread.setdefault(e[0], []).append(k)
    claimed = set()
    attrib = {}
    for th, ks in per_thread.items():
        for pos, k in enumerate(ks):
            e = rel[k]
            if e[1] not in ("g.inc", "g.dec"):
                continue
            want = "q.app" if e[1] == "g.inc" else "q.pop"
            for nb in ([ks[pos - 1]] if pos > 0 else []) + ([ks[pos + 1]] if pos + 1 < len(ks) else []):
                f = rel[nb]
                if f[1] == want and nb not in claimed and isinstance(f[2], str) and f[2].startswith(e[2]):
                    claimed.add(nb)
                    attrib[id(e)] = f[2]
                    break
    for e in log:
        (th, op, obj, val, ts) = e
        if op in ("acq", "rel") and isinstance(obj, str) and obj.startswith("XQ:"):
            inst = obj[3:]
            if op == "acq":
                held.setdefault(th, []).append(inst)
                ev.append([0, I(inst), T(th)])
            else:
                st = held.get(th, [])
                if inst in st:
                    st.remove(inst)
                ev.append([1, I(inst), T(th)])
        elif op in ("q.app", "q.pop"):
            ev.append([2 if op == "q.app" else 3, I(obj), T(th), val if val is not None else 9999])
        elif op == "q.other":
            bad.append(e)
        elif op in ("g.inc", "g.dec"):
            if val != 1:
                bad.append(e)
                continue
            st = [i for i in held.get(th, []) if i.startswith(obj)]
            if id(e) in attrib:
                inst = I(attrib[id(e)])
            else:
                inst = I(st[-1]) if st else 99
            ev.append([4 if op == "g.inc" else 5, inst, T(th)])
    return ev, bad
