"""C13: map / flat_map laws.  Lockstep with Model/MapFut.v + law monitor."""
import random
import detsched as det
import lib
import map_common as mc

PROP = "C13"
MACHINE = "mapfut"
N_QUICK = 2000
N_THOROUGH = 80000


def gen(rng):
    return mc.gen(rng, cancels=True, envcancel=True, cbraise=False)


execute = mc.execute
encode = mc.encode


def ext_outcome(obs, d):
    f = obs["ext"][d]
    st = f._state
    if st == "FINISHED":
        if f._exception is not None:
            return ("err", f._exception)
        return ("ok", f._result)
    if st in ("CANCELLED", "CANCELLED_AND_NOTIFIED"):
        return ("cancelled",)
    return ("pending",)


def same(a, b):
    if a[0] != b[0]:
        return False
    if a[0] == "err":
        return a[1] is b[1]
    if a[0] == "ok":
        return a[1] == b[1]
    return True


def reference(spec, obs, excs):
    """sequential law: (expected outcome | None = not decided by the law, fn calls, efn calls)"""
    d = ext_outcome(obs, spec["d"])
    flat = spec["kind"] == 1

    def inner(dd):
        o = ext_outcome(obs, dd)
        if o[0] in ("cancelled",):
            return None          # inner future cancelled behind the back: C03's business
        return o

    def apply(ans):
        if ans[0] == "ret":
            return ("err", TypeError) if flat else ("ok", ("v", ans[1]))
        if ans[0] == "raise":
            return ("err", excs.get(ans[1]))
        if ans[0] == "fut":
            return inner(ans[1]) if flat else ("ok", obs["ext"][ans[1]])
        raise AssertionError(ans)

    if d[0] == "pending":
        return ("pending",), 0, 0
    if d[0] == "cancelled":
        return None, 0, 0
    if d[0] == "ok":
        if not spec["hasfn"]:
            if flat:
                return None, 0, 0
            return d, 0, 0
        return apply(spec["fn"]), 1, 0
    # input failed
    if not spec["hasefn"]:
        return d, 0, 0
    a = spec["efn"]
    if a[0] == "same":
        return d, 0, 1
    return apply(a), 0, 1


def monitor(r, obs):
    out = []
    if r.deadlock or r.hang:
        return [{"what": "deadlock", "detail": r.deadlock or "hang", "pattern": "map:deadlock"}]
    if r.exc is not None:
        return [{"what": "harness-exception", "detail": getattr(r, "tb", repr(r.exc))[-500:], "pattern": "map:harness-exc"}]
    for (nm, dn, e) in r.threads:
        if e is not None:
            out.append({"what": "thread %s died with %s" % (nm, e), "detail": nm, "pattern": "map:thread-died"})
    p = obs["params"]
    for j, (i, f) in obs["futs"].items():
        spec = p["futs"][i]
        o = obs["outs"][j]
        nfn = len(obs["fn_calls"].get(i, []))
        nefn = len(obs["efn_calls"].get(i, []))
        if nfn > 1 or nefn > 1:
            out.append({"what": "fn called %d times, error_fn %d times" % (nfn, nefn), "detail": j, "pattern": "map:called-twice"})
        if nfn and nefn and not (spec["kind"] == 1):
            out.append({"what": "both fn and error_fn were called", "detail": j, "pattern": "map:both-called"})
        cancelled_by_user = any(jj == j and ret is True for (jj, ret, pos) in obs["cancel_rets"])
        if cancelled_by_user:
            if o != ("cancelled",):
                out.append({"what": "cancel() returned True but outcome is %r" % (o[0],), "detail": j, "pattern": "map:cancel-true-not-cancelled"})
            continue
        exp, efn_calls, eefn_calls = reference(spec, obs, obs["excs"])
        if exp is None:
            continue
        if exp[0] == "err" and exp[1] is TypeError:
            ok = o[0] == "err" and isinstance(o[1], TypeError)
        else:
            ok = same(o, exp)
        if not ok:
            out.append({"what": "outcome %r, the law says %r" % (o, exp), "detail": j, "pattern": "map:wrong-outcome"})
        if o[0] not in ("pending", "cancelled") and (nfn != efn_calls or nefn != eefn_calls):
            out.append({"what": "fn called %d (law %d), error_fn called %d (law %d)" % (nfn, efn_calls, nefn, eefn_calls),
                        "detail": j, "pattern": "map:call-count"})
        if nfn:
            din = ext_outcome(obs, spec["d"])
            if din[0] != "ok" or obs["fn_calls"][i][0] != din[1]:
                out.append({"what": "fn called with %r but the input is %r" % (obs["fn_calls"][i][0], din), "detail": j, "pattern": "map:fn-argument"})
        if nefn:
            din = ext_outcome(obs, spec["d"])
            if din[0] != "err" or obs["efn_calls"][i][0] is not din[1]:
                out.append({"what": "error_fn called although the input did not fail with that exception", "detail": j, "pattern": "map:efn-argument"})
    return out


def nontrivial(r, obs, events):
    # a user function ran and some other thread was scheduled between construction and resolution
    return any(e[0] in (12, 13) for e in events) and r.preempts > 0


def describe(p):
    return ["futs=%d" % len(p["futs"]), "flat=%d" % sum(1 for f in p["futs"] if f["kind"] == 1), "next=%d" % p["next"]]
