"""C04: no deadlock among API calls and internal threads, including nested submission.
Random stacks (sync / real thread pool), client programs of up to 3 threads (submit, cancel,
add_done_callback, result, one shutdown), submissions nested inside callables, map functions and
done-callbacks; the scheduler reports "every unfinished thread blocked, no timer" as deadlock; lock
acquisition edges over lock instances are collected and cycles trigger extra directed schedules."""
import random
import detsched as det
import lib

det.TIMER_EPS = 0.001     # a timed wait returns strictly after its deadline (a timeout at exactly `now` would spin in virtual time)

PROP = "C04"
MACHINE = None
NEEDS_POOL = True
N_QUICK = 1500
N_THOROUGH = 60000
KINDS = ["map", "flat_map", "poll", "retry", "throttle", "timeout", "cancel_on_shutdown"]


def gen(rng):
    if rng.random() < 0.12:
        # a timeout that fires on queued work whose done-callbacks (run by the timeout thread) submit again
        others = [rng.choice(KINDS) for _ in range(rng.randint(0, 2))]
        layers = others[:]
        layers.insert(rng.randint(0, len(layers)), "timeout")
        progs = [["submit_blocked", "submit_blocked", rng.choice(["addcb_nested", "addcb"]), rng.choice(["submit_blocked", "submit_nested"]),
                  "addcb_nested", "result"]]
        for _ in range(rng.randint(0, 2)):
            progs.append([rng.choice(["submit", "submit_nested", "submit_blocked", "addcb_nested", "cancel", "result"]) for _ in range(rng.randint(1, 3))])
        return {"base": "pool", "layers": layers, "progs": progs, "nested_in_map": rng.random() < 0.3, "shutdown": rng.random() < 0.3,
                "fail": rng.random() < 0.3, "timeout": 2, "workers": 1}
    depth = rng.randint(1, 4)
    layers = [rng.choice(KINDS) for _ in range(depth)]
    nthreads = rng.randint(1, 3)
    progs = []
    for t in range(nthreads):
        ops = []
        for _ in range(rng.randint(1, 4)):
            ops.append(rng.choice(["submit", "submit", "submit_nested", "submit_nested", "cancel", "addcb", "addcb_nested", "result",
                                   "submit_blocked", "addcb_nested", "submit_inner_nested", "submit_noargs"]))
        progs.append(ops)
    return {"base": rng.choice(["sync", "sync", "pool"]), "layers": layers, "progs": progs,
            "nested_in_map": rng.random() < 0.4, "shutdown": rng.random() < 0.4, "fail": rng.random() < 0.3,
            # a timeout that really fires (on work blocked until t=5, queued behind a small pool): the timeout thread then
            # cancels futures and runs their done-callbacks, which may submit again
            "timeout": rng.choice([10 ** 6, 10 ** 6, 2]), "workers": rng.choice([1, 2]), "poll_faults": rng.random() < 0.4}


RERUNS = 30


def execute(p, chooser):
    """one run; when its lock-acquisition graph (over lock instances) has a cycle - a potential deadlock - the same
    scenario is run again under further schedules, and the first run that really deadlocks is the one reported"""
    import zlib
    r, obs = run_once(p, chooser)
    if not (r.deadlock or r.hang) and r.exc is None and lock_cycles(r.log):
        h = zlib.crc32(repr(sorted(p.items())).encode()) & 0xfffffff
        for k in range(RERUNS):
            r2, obs2 = run_once(p, det.make_chooser(("random", "pct", "random")[k % 3], h + k))
            if r2.deadlock or r2.hang:
                obs2["rerun"] = k
                return r2, obs2
        obs["cycle_reruns"] = RERUNS
    return r, obs


def run_once(p, chooser):
    from more_executors import Executors
    from more_executors.futures import f_return
    obs = {"params": p, "nested_returned": 0, "nested_started": 0, "ops_done": 0, "ops_total": sum(len(x) for x in p["progs"])}

    def main():
        det.emit("case", None, repr(p))
        box = {}
        depthc = {"n": 0}

        def nested():
            # submit further work to the same executor from inside its own code; never wait for it
            if depthc["n"] >= 3:
                return
            depthc["n"] += 1
            obs["nested_started"] += 1
            try:
                box["top"].submit(lambda: 0)
            except RuntimeError:
                pass
            obs["nested_returned"] += 1

        with det.atomic():
            ex = Executors.sync() if p["base"] == "sync" else Executors.thread_pool(max_workers=p.get("workers", 2))
            for i, k in enumerate(p["layers"]):
                if k == "map":
                    ex = ex.with_map(lambda v: (nested() if p["nested_in_map"] else None, v)[1])
                elif k == "flat_map":
                    ex = ex.with_flat_map(lambda v: f_return(v))
                elif k == "poll":
                    def poll_fn(ds, st={"n": 0}):
                        st["n"] += 1
                        if p.get("poll_faults") and ds and st["n"] % 2 == 1:
                            raise KeyError("poll")        # the futures it was shown fail; their done-callbacks run on the poll thread
                        for d in ds:
                            d.yield_result(d.result)
                    ex = ex.with_poll(poll_fn, default_interval=1)
                elif k == "retry":
                    ex = ex.with_retry(max_attempts=2, sleep=1)
                elif k == "throttle":
                    ex = ex.with_throttle(1)
                elif k == "timeout":
                    ex = ex.with_timeout(p.get("timeout", 10 ** 6))
                else:
                    ex = ex.with_cancel_on_shutdown()
            box["top"] = ex
            inner = ex
            while getattr(inner, "_delegate", None) is not None and hasattr(getattr(inner, "_delegate"), "_shutdown"):
                inner = inner._delegate
            box["inner"] = inner
            # name the locks of every layer: G<i> gate, X<i> executor lock
            o = ex
            i = len(p["layers"])
            while o is not None:
                sh = getattr(o, "_shutdown", None)
                if hasattr(sh, "_lock"):
                    det.S.name(sh._lock, "G%d" % i)
                for attr in ("_lock", "_jobs_lock"):
                    if hasattr(o, attr):
                        det.S.name(getattr(o, attr), "X%d%s" % (i, type(o).__name__[:5]))
                o = getattr(o, "_delegate", None)
                i -= 1
        top = ex
        failn = {"n": 0}

        def plain():
            failn["n"] += 1
            if p["fail"] and failn["n"] % 2 == 1:
                raise KeyError("x")
            return 1

        def with_nested():
            nested()
            return 2

        def blocked():
            if p["base"] == "pool" and det.S.now < 5:
                det.sleep(5 - det.S.now)
            return 3

        def client(ops):
            def run():
                futs = []
                for op in ops:
                    try:
                        if op == "submit":
                            futs.append(top.submit(plain))
                        elif op == "submit_nested":
                            futs.append(top.submit(with_nested))
                        elif op == "submit_blocked":
                            futs.append(top.submit(blocked))
                        elif op == "submit_noargs":
                            # a submit() that FAILS inside the library (no callable: TypeError from deep inside the gated section,
                            # like a delegate that cannot start a thread): whatever it held must be released on the way out
                            try:
                                top.submit()
                            except TypeError:
                                pass
                        elif op == "submit_inner_nested":
                            # a user who also holds an INNER layer of the stack (here: the lowest more-executors layer, i.e. the
                            # sync base or the layer right above the thread pool) submits to it a callable that submits to the top
                            futs.append(box["inner"].submit(with_nested))
                        elif op == "cancel" and futs:
                            futs[-1].cancel()
                        elif op == "addcb" and futs:
                            futs[-1].add_done_callback(lambda f: None)
                        elif op == "addcb_nested" and futs:
                            futs[-1].add_done_callback(lambda f: nested())
                        elif op == "addcb_nested_wait" and futs:
                            def cbw(f):
                                obs["nested_wait"] = "started"
                                try:
                                    box["top"].submit(lambda: 7).result(40)
                                    obs["nested_wait"] = "returned"
                                except RuntimeError:
                                    obs["nested_wait"] = "refused"
                                except Exception as e:
                                    obs["nested_wait"] = type(e).__name__
                            futs[-1].add_done_callback(cbw)
                        elif op == "result" and futs:
                            try:
                                futs[0].result(50)
                            except Exception:
                                pass
                    except RuntimeError:
                        pass
                    obs["ops_done"] += 1
            return run
        ts = [det.spawn("c%d" % i, client(ops)) for i, ops in enumerate(p["progs"])]
        if p["shutdown"]:
            def sh():
                det.sleep(1)
                top.shutdown(True)
            ts.append(det.spawn("sh", sh))
        for t in ts:
            t.join()
        if not p["shutdown"]:
            top.shutdown(True)

    r = det.run(chooser, main)
    return r, obs


def lock_cycles(log):
    """edges held-lock -> acquired-lock over lock instances; returns True when the graph has a cycle"""
    held = {}
    edges = set()
    for (th, op, obj, val, ts) in log:
        if op == "acq" and obj:
            for h in held.get(th, []):
                if h != obj:
                    edges.add((h, obj))
            held.setdefault(th, []).append(obj)
        elif op == "rel" and obj and obj in held.get(th, []):
            held[th].remove(obj)
    adj = {}
    for a, b in edges:
        adj.setdefault(a, set()).add(b)
    color = {}

    def dfs(u):
        color[u] = 1
        for v in adj.get(u, ()):
            if color.get(v) == 1 or (color.get(v) is None and dfs(v)):
                return True
        color[u] = 2
        return False
    return any(color.get(u) is None and dfs(u) for u in list(adj))


def encode(log):
    import zlib
    for (th, op, obj, val, ts) in log:
        if op == "case":
            return [[zlib.crc32(val.encode()) & 0xffffff, len(log) % 997]], []
    return [[len(log)]], []


def classify(p, r):
    waiting = getattr(r, "waiting", {}) or {}
    # the known root cause (G10): a retry submit thread calls delegate.submit() -- which runs the
    # callable / map functions (or a lower retry layer's submit) inline for a synchronous delegate --
    # while holding the future's lock and the executor lock; the inline code submits again and ends
    # up waiting for a lock whose holder needs one of the locks the submit thread still holds
    for th, (lock, owner) in waiting.items():
        if str(owner).startswith("RetryExecutor") and owner in waiting and \
                (str(lock).startswith("M") or "Retry" in str(lock)):
            return "deadlock:retry-submit-thread-holds-locks-across-delegate-submit"
    return "deadlock:other:" + ",".join(sorted(set(str(v[0])[:2] for v in waiting.values())))


def monitor(r, obs):
    p = obs["params"]
    if r.exc is not None:
        return [{"what": "harness-exception", "detail": getattr(r, "tb", repr(r.exc))[-600:], "pattern": "deadlock:harness-exc"}]
    out = []
    if r.deadlock or r.hang:
        out.append({"what": "deadlock: threads %s blocked for ever; waiting for %s" % (r.deadlock, getattr(r, "waiting", None)),
                    "detail": str(p), "pattern": classify(p, r)})
        return out
    for (nm, dn, e) in r.threads:
        if e is not None:
            out.append({"what": "thread %s died with %s" % (nm, e), "detail": nm, "pattern": "deadlock:thread-died"})
    if obs.get("nested_wait") == "TimeoutError":
        out.append({"what": "a done-callback that submitted again and waited for the nested future got %s: the nested work could not run "
                            "although a worker was free" % obs["nested_wait"], "detail": str(p), "pattern": "deadlock:nested-wait"})
    if obs["nested_started"] != obs["nested_returned"]:
        out.append({"what": "a nested submit did not return", "detail": str(p), "pattern": "deadlock:nested"})
    return out


def directed(tier):
    return []


def nontrivial(r, obs, events):
    return obs["nested_started"] > 0 or len(obs["params"]["progs"]) >= 2


def describe(p):
    return ["base=" + p["base"], "depth=%d" % len(p["layers"]), "threads=%d" % len(p["progs"]),
            "nested_map" if p["nested_in_map"] else "plain_map"] + ["has_" + k for k in sorted(set(p["layers"]))]
