"""C04 (shutdown): a single shutdown(wait=True / False) call racing with submitters and the layers' worker threads never blocks for ever - the shutdown
scenarios of C11 (p_c11) on real stacks with ONE thread calling shutdown(); only the hang verdict of that family's monitor counts here."""
import p_c11 as base

PROP = "C04"
MACHINE = None
NEEDS_POOL = getattr(base, "NEEDS_POOL", False)
N_QUICK = 500
N_THOROUGH = 20000
KEEP = ("shutdown:hang", "shutdown:harness-exc")
if hasattr(base, "setup"):
    setup = base.setup


def gen(rng):
    p = base.gen(rng)
    p["co_shutters"] = 0          # C04 speaks about single-threaded shutdown
    return p


execute = base.execute
encode = base.encode


def monitor(r, obs):
    return [v for v in base.monitor(r, obs) if v["pattern"] in KEEP]


nontrivial = base.nontrivial
describe = base.describe
