"""C11: shutdown -- submit refuses afterwards, idempotent, propagates once with the same arguments,
joins the worker threads, returns.  Real stacks (sync / real thread pool) under the scheduler."""
import random
import detsched as det
import lib

PROP = "C11"
MACHINE = None
NEEDS_POOL = True
N_QUICK = 1200
N_THOROUGH = 40000
KINDS = ["map", "flat_map", "poll", "retry", "throttle", "timeout", "cancel_on_shutdown"]
PREFIX = {"retry": "RetryExecutor-", "throttle": "ThrottleExecutor-", "timeout": "TimeoutExecutor-", "poll": "PollExecutor-"}
MSG = "cannot schedule new futures after shutdown"


def gen(rng):
    depth = rng.randint(1, 4)
    layers = [rng.choice(KINDS) for _ in range(depth)]
    return {"base": rng.choice(["sync", "pool", "pool"]), "layers": layers,
            "work": [rng.choice(["quick", "fail", "block", "quick"]) for _ in range(rng.randint(0, 4))],
            "wait": rng.random() < 0.7, "kwargs": rng.choice([{}, {}, {"cancel_futures": True}, {"cancel_futures": False}]),
            "racers": rng.randint(0, 2), "second_shutdown": rng.random() < 0.5, "shutdown_delay": rng.choice([0, 0, 1, 3]),
            "poll_resolves": rng.random() < 0.6, "co_shutters": rng.choice([0, 0, 0, 1, 2]),
            # "further shutdown() calls are harmless" - also when they come from user code running on one of the executors' own
            # worker threads (a poll function that is in mid-poll when shutdown(wait=False) returns shuts every layer down again)
            "again": rng.random() < 0.3}


def execute(p, chooser):
    from more_executors import Executors
    from more_executors.futures import f_return
    obs = {"params": p, "rec": [], "rec_again": [], "again_exc": [], "racers": [], "after": None, "alive_at_return": None, "second": None, "returned": False, "after_other": []}

    def main():
        det.emit("case", None, repr(p))
        gate = {"open": False}
        objs = []
        with det.atomic():
            ex = Executors.sync() if p["base"] == "sync" else Executors.thread_pool(max_workers=2)
            objs.append(("base", ex))
            for i, k in enumerate(p["layers"]):
                if k == "map":
                    ex = ex.with_map(lambda v: v)
                elif k == "flat_map":
                    ex = ex.with_flat_map(lambda v: f_return(v))
                elif k == "poll":
                    def poll_fn(ds):
                        if p.get("again") and not p["wait"] and obs.get("shutdown_started") and not obs.get("again_done"):
                            # ONE worker thread does this (with several poll layers every poll thread gets here: claim it before waiting),
                            # and only once EVERY layer has been shut down: with concurrent shutdown callers the call that returned may
                            # be a losing one while the winner is still on its way down, and a worker thread that then performs the FIRST
                            # shutdown(wait=True) of its own executor would join itself (RuntimeError, as in the stdlib pool)
                            obs["again_done"] = True
                            det.wait_until(lambda: obs["returned"] and all(getattr(getattr(o3, "_shutdown", None), "is_shutdown", True)
                                                                              for (k3, o3) in objs))
                            obs["in_again"] = det.me().name        # the calls of THIS thread are the repeated ones
                            for (k2, o2) in objs:
                                try:
                                    o2.shutdown(True)
                                except BaseException as e:
                                    if isinstance(e, det.Abort):
                                        raise
                                    obs["again_exc"].append((k2, type(e).__name__, str(e)))
                            obs["in_again"] = False
                        if p["poll_resolves"] or gate["open"]:
                            for d in ds:
                                d.yield_result(d.result)
                    ex = ex.with_poll(poll_fn, default_interval=2)
                elif k == "retry":
                    ex = ex.with_retry(max_attempts=3, sleep=2)
                elif k == "throttle":
                    ex = ex.with_throttle(1)
                elif k == "timeout":
                    ex = ex.with_timeout(10 ** 6)
                else:
                    ex = ex.with_cancel_on_shutdown()
                objs.append((k, ex))
            for idx, (k, o) in enumerate(objs):
                def wrap(o=o, idx=idx, orig=o.shutdown):
                    def sd(*a, **kw):
                        if obs.get("in_again") and obs["in_again"] == det.me().name:
                            obs["rec_again"].append((idx, a, tuple(sorted(kw.items()))))
                            return orig(*a, **kw)
                        obs["rec"].append((idx, a, tuple(sorted(kw.items()))))
                        return orig(*a, **kw)
                    return sd
                o.shutdown = wrap()
        top = ex
        before = set()
        mine = [t for t in det.S.threads.values() if any(t.name.startswith(x) for x in PREFIX.values())]

        def work(kind):
            def fn():
                if kind == "fail":
                    raise KeyError("w")
                if kind == "block" and p["base"] == "pool":
                    det.wait_until(lambda: gate["open"])
                return 1
            return fn
        futs = []
        for w in p["work"]:
            try:
                futs.append(top.submit(work(w)))
            except Exception as e:
                obs["racers"].append(("pre", type(e).__name__, str(e)))

        def racer(k):
            def run():
                try:
                    f = top.submit(lambda: 2)
                    obs["racers"].append((k, "returned", None))
                except Exception as e:
                    obs["racers"].append((k, type(e).__name__, str(e)))
            return run

        def opener():
            det.sleep(5)
            gate["open"] = True
            for (k, o) in objs:
                if k == "poll":
                    o.notify()

        def shutter():
            if p["shutdown_delay"]:
                det.sleep(p["shutdown_delay"])
            obs["shutdown_started"] = True
            top.shutdown(p["wait"], **p["kwargs"])
            with det.atomic():
                obs["returned"] = True
                obs["alive_at_return"] = [t.name for t in mine if not t.done]
                obs["flags"] = [getattr(o._shutdown, "is_shutdown", o._shutdown) if hasattr(o, "_shutdown") else None for (k, o) in objs]
            try:
                top.submit(lambda: 3)
                obs["after"] = "returned"
            except Exception as e:
                obs["after"] = (type(e).__name__, str(e))
            # the other ways of submitting to an executor refuse as well (submit_retry / submit_timeout)
            for (k, o) in objs:
                for meth, args in (("submit_retry", (None, lambda: 4)), ("submit_timeout", (5, lambda: 4))):
                    if hasattr(o, meth):
                        if meth == "submit_retry":
                            from more_executors.retry import RetryPolicy
                            args = (RetryPolicy(), lambda: 4)
                        try:
                            getattr(o, meth)(*args)
                            obs["after_other"].append((k, meth, "returned"))
                        except Exception as e:
                            obs["after_other"].append((k, meth, type(e).__name__, str(e)))
            if p["second_shutdown"]:
                n0 = len(obs["rec"])
                top.shutdown(p["wait"], **p["kwargs"])
                obs["second"] = len(obs["rec"]) - n0
        def co_shutter():
            # another thread calling shutdown() on the same executor at the same moment
            if p["shutdown_delay"]:
                det.sleep(p["shutdown_delay"])
            top.shutdown(p["wait"], **p["kwargs"])
        ts = [det.spawn("sh", shutter), det.spawn("op", opener)] + [det.spawn("r%d" % k, racer(k)) for k in range(p["racers"])]
        cs = [det.spawn("sh%d" % (k + 2), co_shutter) for k in range(p.get("co_shutters", 0))]
        for t in cs + ts[:1]:
            t.join()
        with det.atomic():
            # once every shutdown() has returned, the one that performed the shutdown has returned too
            obs["alive_at_all_returned"] = [t.name for t in mine if not t.done] if obs["returned"] else None
            if p.get("co_shutters"):
                obs["flags"] = [getattr(o._shutdown, "is_shutdown", o._shutdown) if hasattr(o, "_shutdown") else None for (k, o) in objs]
        for t in ts:
            t.join()

    r = det.run(chooser, main)
    return r, obs


def encode(log):
    import zlib
    for (th, op, obj, val, ts) in log:
        if op == "case":
            return [[zlib.crc32(val.encode()) & 0xffffff, len(log) % 997]], []
    return [[len(log)]], []


def monitor(r, obs):
    p = obs["params"]
    if r.deadlock or r.hang:
        return [{"what": "shutdown(wait=%s) never returned / deadlock: %s" % (p["wait"], r.deadlock), "detail": str(p), "pattern": "shutdown:hang"}]
    if r.exc is not None:
        return [{"what": "harness-exception", "detail": getattr(r, "tb", repr(r.exc))[-600:], "pattern": "shutdown:harness-exc"}]
    out = []
    for (nm, dn, e) in r.threads:
        if e is not None:
            out.append({"what": "thread %s died with %s" % (nm, e), "detail": nm, "pattern": "shutdown:thread-died"})
    n = len(p["layers"]) + 1
    if obs["after"] != ("RuntimeError", MSG):
        out.append({"what": "submit() after shutdown() returned: %r" % (obs["after"],), "detail": str(p), "pattern": "shutdown:submit-after"})
    for rec in obs.get("after_other", []):
        if rec[2:] != ("RuntimeError", MSG) and not p.get("co_shutters"):
            out.append({"what": "%s() on the %s layer after shutdown() returned: %r" % (rec[1], rec[0], rec[2:]), "detail": str(p),
                        "pattern": "shutdown:submit-after:" + rec[1]})
    for (k, kind, msg) in obs["racers"]:
        if kind != "returned" and (kind, msg) != ("RuntimeError", MSG):
            out.append({"what": "racing submit() raised %s: %s" % (kind, msg), "detail": str(p), "pattern": "shutdown:racer"})
    # every executor down the chain exactly once (the top one is called by the user), same arguments
    per = {}
    for (idx, a, kw) in obs["rec"]:
        per.setdefault(idx, []).append((a, kw))
    want_kw = tuple(sorted(p["kwargs"].items()))
    for idx in range(n - 1):
        calls = per.get(idx, [])
        if len(calls) != 1:
            out.append({"what": "executor %d down the chain received %d shutdown() calls" % (idx, len(calls)), "detail": str(p), "pattern": "shutdown:propagation-count"})
        elif calls[0] != ((p["wait"],), want_kw):
            out.append({"what": "executor %d down the chain received shutdown%r %r" % (idx, calls[0][0], calls[0][1]), "detail": str(p), "pattern": "shutdown:propagation-args"})
    if obs["second"] not in (None, 1) and not p.get("co_shutters"):
        out.append({"what": "second shutdown() propagated %d further calls" % (obs["second"] - 1), "detail": str(p), "pattern": "shutdown:not-idempotent"})
    if p["wait"] and obs["alive_at_return"] and not p.get("co_shutters"):
        out.append({"what": "worker threads still alive when shutdown(wait=True) returned: %s" % obs["alive_at_return"], "detail": str(p), "pattern": "shutdown:not-joined"})
    if p["wait"] and p.get("co_shutters") and obs.get("alive_at_all_returned"):
        out.append({"what": "worker threads still alive after every concurrent shutdown(wait=True) returned: %s" % obs["alive_at_all_returned"], "detail": str(p), "pattern": "shutdown:not-joined"})
    for (k2, en, msg) in obs.get("again_exc", []):
        out.append({"what": "a repeated shutdown() of the %s layer, called from a worker thread after shutdown() had returned, raised %s: %s" % (k2, en, msg),
                    "detail": str(p), "pattern": "shutdown:repeat-raised"})
    if obs.get("again_done") and not obs.get("again_exc") and len(obs.get("rec_again", [])) != len(p["layers"]) + 1:
        out.append({"what": "repeated shutdown() calls on all %d executors led to %d calls in total (propagated again)" % (len(p["layers"]) + 1, len(obs["rec_again"])),
                    "detail": str(p), "pattern": "shutdown:not-idempotent"})
    if obs.get("flags") and not all(f in (True, None) for f in obs["flags"]):
        out.append({"what": "not every layer is marked shut down: %s" % obs["flags"], "detail": str(p), "pattern": "shutdown:flag"})
    return out


def nontrivial(r, obs, events):
    p = obs["params"]
    return len(p["work"]) >= 1 and r.preempts > 0


def describe(p):
    return ["base=" + p["base"], "depth=%d" % len(p["layers"]), "wait=%s" % p["wait"], "racers=%d" % p["racers"]] + \
           ["has_" + k for k in sorted(set(p["layers"]))]


def extra(stats, tier, seed):
    """API-level part for the two executors the stack family does not build: AsyncioExecutor (it hands out asyncio futures, so it cannot sit under
    another layer) and the customizable thread pool itself: submit after shutdown raises the message, shutdown is idempotent, propagates exactly once
    with the same arguments."""
    import asyncio
    import drive
    from more_executors import Executors
    from more_executors._impl.asyncio import AsyncioExecutor
    known_patterns = set(k["pattern"] for k in drive.load_known(PROP))

    def viol(what, pattern, detail=None):
        v = {"what": what, "pattern": pattern, "detail": detail, "case": {"params": {}, "chooser": "none", "cseed": 0, "origin": "api"}}
        if pattern in known_patterns:
            stats.known.setdefault(pattern, v)
        else:
            stats.violations.append(v)

    class Rec(object):
        def __init__(self):
            self.calls = []
            self.subs = 0

        def submit(self, fn, *a, **k):
            from concurrent.futures import Future
            self.subs += 1
            f = Future()
            f.set_result(fn(*a, **k))
            return f

        def shutdown(self, *a, **k):
            self.calls.append((a, tuple(sorted(k.items()))))
    with det.atomic():
        loop = asyncio.new_event_loop()
        try:
            for (args, kw) in [((), {}), ((True,), {}), ((False,), {}), ((False,), {"cancel_futures": True}), ((), {"wait": False}), ((True,), {"cancel_futures": False})]:
                rec = Rec()
                ex = AsyncioExecutor(rec, loop=loop)
                f = ex.submit(lambda: 7)
                stats.add([[11, 1, len(args), len(kw)]], True, None, ["api:asyncio"])
                if not isinstance(f, asyncio.Future) or rec.subs != 1:
                    viol("AsyncioExecutor.submit did not hand one callable to the delegate / return an asyncio future", "shutdown:asyncio-submit")
                ex.shutdown(*args, **kw)
                want_wait = args[0] if args else kw.get("wait", True)
                want_kw = tuple(sorted((k, v) for k, v in kw.items() if k != "wait"))
                if len(rec.calls) != 1:
                    viol("AsyncioExecutor.shutdown%r %r reached the delegate %d times" % (args, kw, len(rec.calls)), "shutdown:propagation-count", "asyncio")
                else:
                    a, k = rec.calls[0]
                    got_wait = a[0] if a else dict(k).get("wait", True)
                    if got_wait != want_wait or tuple((x, y) for x, y in k if x != "wait") != want_kw:
                        viol("AsyncioExecutor.shutdown%r %r reached the delegate as shutdown%r %r" % (args, kw, a, k), "shutdown:propagation-args", "asyncio")
                ex.shutdown(*args, **kw)
                if len(rec.calls) != 1:
                    viol("a second AsyncioExecutor.shutdown() propagated again", "shutdown:not-idempotent", "asyncio")
                try:
                    ex.submit(lambda: 8)
                    viol("AsyncioExecutor.submit after shutdown returned", "shutdown:submit-after:submit", "asyncio")
                except RuntimeError as e:
                    if str(e) != MSG:
                        viol("AsyncioExecutor.submit after shutdown raised %r" % str(e), "shutdown:submit-after:submit", "asyncio")
                if rec.subs != 1:
                    viol("AsyncioExecutor.submit after shutdown reached the delegate", "shutdown:submit-after:submit", "asyncio")
            # built WITHOUT a loop (the default, and what .with_asyncio() gives): after shutdown the refusal comes first, whatever
            # the state of the calling thread's event loop
            rec = Rec()
            ex = AsyncioExecutor(rec)
            ex.shutdown()
            stats.add([[11, 2]], True, None, ["api:asyncio-noloop"])
            got = []

            def noloop():
                # (a thread that has no current event loop: asyncio.get_event_loop() raises there)
                try:
                    ex.submit(lambda: 9)
                    got.append("returned")
                except BaseException as e:
                    got.append(str(e))
            th = det._real_Thread(target=noloop)
            th.start()
            th.join(30)
            if got != [MSG]:
                viol("AsyncioExecutor(loop=None).submit after shutdown, from a thread without an event loop: %r" % (got,), "shutdown:submit-after:submit", "asyncio-noloop")
            # the executor's loop is RUNNING (in another thread) when an ordinary thread shuts down: the arguments still go down unchanged
            rec = Rec()
            loop2 = asyncio.new_event_loop()
            th2 = det._real_Thread(target=loop2.run_forever, daemon=True)
            th2.start()
            try:
                import time as _time
                t0 = _time.time()
                while not loop2.is_running() and _time.time() < t0 + 10:
                    _time.sleep(0.01)
                ex = AsyncioExecutor(rec, loop=loop2)
                ex.shutdown(True, cancel_futures=False)
                stats.add([[11, 4]], True, None, ["api:asyncio-loop-running"])
                if rec.calls != [((True,), (("cancel_futures", False),))]:
                    viol("AsyncioExecutor.shutdown(True, cancel_futures=False) with its loop running in another thread reached the delegate as %r" % (rec.calls,),
                         "shutdown:propagation-args", "asyncio-loop-running")
            finally:
                loop2.call_soon_threadsafe(loop2.stop)
                th2.join(10)
                loop2.close()
        finally:
            loop.close()
    faulty_delegate_checks(stats, tier, seed, viol)


def faulty_delegate_checks(stats, tier, seed, viol, hang_pattern="shutdown:hang", alive_pattern="shutdown:not-joined",
                           other_pattern="shutdown:after-failed-delegate-shutdown"):
    """a delegate whose shutdown() RAISES under each thread-owning layer (shared by C11 and C12)"""
    from more_executors import Executors

    class Rec(object):
        def __init__(self):
            self.calls = []
            self.subs = 0

        def submit(self, fn, *a, **k):
            from concurrent.futures import Future
            self.subs += 1
            f = Future()
            f.set_result(fn(*a, **k))
            return f

        def shutdown(self, *a, **k):
            self.calls.append((a, tuple(sorted(k.items()))))
    # 2. a delegate whose shutdown() RAISES: the layer is shut down all the same (flag set, submit refused, a repeated shutdown(wait=True)
    #    returns), and its worker thread must still exit - not stay parked for ever - although nobody will call its shutdown again
    import random as _random
    rng = _random.Random(seed + 11)

    class Faulty(Rec):
        def shutdown(self, *a, **k):
            self.calls.append((a, tuple(sorted(k.items()))))
            if len(self.calls) == 1:
                raise OSError("the delegate could not shut down")
    for trial in range(12 if tier == "quick" else 200):
        kind = ("timeout", "poll", "retry", "throttle")[trial % 4]
        busy = rng.random() < 0.5
        res = {}

        def main(kind=kind, busy=busy, res=res):
            from concurrent.futures import Future
            base = Faulty()
            pend = Future()
            if busy:
                base.submit = lambda fn, *a, **k: pend        # a delegate future that never finishes: the worker has something to watch
            with det.atomic():
                ex = {"timeout": lambda: Executors.with_timeout(base, 50), "poll": lambda: Executors.with_poll(base, lambda ds: None, default_interval=2),
                      "retry": lambda: Executors.with_retry(base, max_attempts=2, sleep=1), "throttle": lambda: Executors.with_throttle(base, 1)}[kind]()
            ex.submit(lambda: 1)
            det.sleep(1)
            try:
                ex.shutdown(True)
                res["first"] = "returned"
            except OSError:
                res["first"] = "raised"
            try:
                ex.shutdown(True)
                res["second"] = "returned"
            except BaseException as e:
                if isinstance(e, det.Abort):
                    raise
                res["second"] = type(e).__name__
            try:
                ex.submit(lambda: 2)
                res["after"] = "returned"
            except RuntimeError as e:
                res["after"] = str(e)
            t0 = det.S.now
            workers = [t for t in det.S.threads.values() if any(t.name.startswith(x) for x in PREFIX.values())]
            det.wait_until(lambda: all(t.done for t in workers) or det.S.now > t0 + 200)
            res["alive"] = [t.name for t in workers if not t.done]
            res["calls"] = len(base.calls)
        r = det.run(det.make_chooser(("random", "sticky", "pct")[trial % 3], seed * 31 + trial), main)
        stats.add([[11, 3, trial % 4, 1 if busy else 0]], True, None, ["api:faulty-delegate-shutdown:" + kind])
        if r.exc is not None or r.deadlock or r.hang:
            viol("%s over a delegate whose shutdown() raises: %s" % (kind, "deadlock %s" % (r.deadlock,) if (r.deadlock or r.hang) else getattr(r, "tb", "")[-300:]),
                 hang_pattern, kind)
            continue
        if res.get("alive"):
            viol("%s executor over a delegate whose shutdown() raised: the layer is shut down (second shutdown(wait=True) %s, submit: %r) but its worker "
                 "thread %s never exits" % (kind, res.get("second"), res.get("after"), res["alive"]), alive_pattern, kind)
        if res.get("second") != "returned" or res.get("after") != MSG or res.get("calls") != 1:
            viol("%s executor over a delegate whose shutdown() raised: second shutdown %s, submit afterwards %r, delegate shutdown calls %s"
                 % (kind, res.get("second"), res.get("after"), res.get("calls")), other_pattern, kind)
