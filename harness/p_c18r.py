"""C18 (retry): a raising policy method (should_retry / sleep_time) or callable ends its own future and the
submit thread goes on.  Same scenario family and lockstep as C05 on Model/Retry.v; only the fault-related
verdicts count here."""
import p_c05 as base

PROP = "C18"
MACHINE = base.MACHINE
N_QUICK = 1000
N_THOROUGH = 40000
KEEP = ("retry:deadlock", "retry:harness-exc", "retry:thread-died:worker", "retry:thread-died:other", "retry:worker-dead",
        "retry:wrong-outcome", "retry:pending")

gen = base.gen
execute = base.execute
encode = base.encode


def monitor(r, obs):
    return [v for v in base.monitor(r, obs) if v["pattern"] in KEEP]


nontrivial = base.nontrivial
describe = base.describe
