"""C09 (TimeoutExecutor part): timeouts fire exactly once, never early, at the deadline.
Lockstep correspondence with coq/Model/Timeout.v + monitor on the implementation history."""
import timeout_common as tc
from timeout_monitor import monitor, nontrivial

PROP = "C09"
MACHINE = "timeout"
N_QUICK = 2400
N_THOROUGH = 90000
setup = tc.setup


def gen(rng):
    return tc.gen(rng, kind="exec")


execute = tc.execute
encode = tc.encode


def describe(p):
    return tc.describe(p)


def expected_verdict(r, obs, events):
    # corpus cases of kind 'ftimeout' are monitor-only: their projection is not a wire trace (-2 = undecodable)
    return [-2] if obs["params"]["kind"] == "ftimeout" else [-1]
