"""C03 (retry): a finished attempt wakes the submit thread, retries start at their delay, the final outcome is delivered; scenario family and lockstep of C05 on Model/Retry.v.
Only the lost-future / lost-wake-up verdicts of that family's monitor count here; every history is still
replayed on the component machine."""
import p_c05 as base

PROP = "C03"
MACHINE = base.MACHINE
N_QUICK = 800
N_THOROUGH = 40000
KEEP = ("retry:late", "retry:pending", "retry:deadlock", "retry:thread-died:worker", "retry:thread-died:other", "retry:worker-dead", "retry:harness-exc")
if hasattr(base, "setup"):
    setup = base.setup
if hasattr(base, "expected_verdict"):
    expected_verdict = base.expected_verdict

gen = base.gen
execute = base.execute
encode = base.encode


def monitor(r, obs):
    return [v for v in base.monitor(r, obs) if v["pattern"] in KEEP]


nontrivial = base.nontrivial
describe = base.describe
