"""C18 (f_or / f_and: no completing thread dies, no constructor raises).  Scenario family and lockstep of C14 (p_c14) on the component machine; only the verdicts of that
family's monitor that belong to this property count here; every history is still replayed on the component machine."""
import p_c14 as base

PROP = "C18"
MACHINE = base.MACHINE
N_QUICK = 600
N_THOROUGH = 20000
KEEP = ('comb:ctor-raised', 'comb:thread-died', 'comb:deadlock', 'comb:harness-exc')
if hasattr(base, "setup"):
    setup = base.setup
if hasattr(base, "expected_verdict"):
    expected_verdict = base.expected_verdict
if hasattr(base, "directed"):
    directed = base.directed

gen = base.gen
execute = base.execute
encode = base.encode


def monitor(r, obs):
    return [v for v in base.monitor(r, obs) if v["pattern"].startswith(KEEP)]


nontrivial = base.nontrivial
describe = base.describe
