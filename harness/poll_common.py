"""Scenario family + adapter for PollExecutor / PollFuture / PollDescriptor against Model/Poll.v.
Times: everything scripted happens at even virtual times, the scenario ends at an odd one, so nothing is
cut in the middle of an instant.  Identity of a descriptor = the delegate's result = 100 + submission index."""
import random, itertools, weakref
import detsched as det
import lib
from lib import Manual
from concurrent.futures import InvalidStateError

MACHINE = "poll"
ENV_CANCEL = True
DONE = ("CANCELLED", "CANCELLED_AND_NOTIFIED", "FINISHED")
POLLER = "PollExecutor-default"


class XE(Exception):
    pass


class FXE(XE):
    """an exception object that is falsy (as error aggregates with __len__ == 0 are): the library must test
    `is not None`, never truthiness"""

    def __bool__(self):
        return False


class YList(list):
    """PollExecutor._poll_descriptors: iteration OUTSIDE the executor lock offers the baton between elements.
    _run_cancel_fn scans this list without the lock; the scan is atomic only as long as nobody mutates the list
    object in place (the library replaces it by a new list under the lock), so the scan has to be preemptible for
    an in-place mutation to be observable at all."""
    _ex_ref = None

    def __iter__(self):
        ex = self._ex_ref() if self._ex_ref is not None else None
        lk = ex.__dict__.get("_lock") if ex is not None else None
        i = 0
        while i < len(self):
            x = self[i]
            i += 1
            yield x
            cur = det.me()
            if (cur is not None and det.S is not None and not det.S.quiet and not det.S.aborting
                    and lk is not None and getattr(lk, "owner", None) is not cur):
                det.switch("scan")


def setup():
    """instrumentation from outside: every list assigned to PollExecutor._poll_descriptors becomes a YList"""
    from more_executors._impl import poll
    if getattr(poll, "_verif_ylist", False):
        return
    poll._verif_ylist = True

    def _get(self):
        return self.__dict__.get("_verif_pd")

    def _set(self, v):
        y = YList(v)
        y._ex_ref = weakref.ref(self)
        self.__dict__["_verif_pd"] = y
    poll.PollExecutor._poll_descriptors = property(_get, _set)


class PManual(Manual):
    """inline completion is a property of the submitted callable (submits are serialised by the gate)"""

    def submit(self, fn, *a, **k):
        self.sync_script = [False] * len(self.fs) + [bool(getattr(fn, "sync", False))]
        return Manual.submit(self, fn, *a, **k)


def gen_poll_script(rng, k, faults=True):
    acts = []
    for slot in range(5):
        r = rng.random()
        v = 1000 + 10 * k + slot
        if r < 0.45:
            acts.append(["skip"])
        elif r < 0.62:
            acts.append(["res", v])
        elif r < 0.8:
            acts.append(["exc", v])
        elif r < 0.9:
            acts.append(["res", v, "res", v + 500])      # second yield must be ignored
        else:
            acts.append(["exc", v, "res", v + 500])
    r = rng.random()
    if faults and r < 0.15:
        end = ["raise", 2000 + k]
    elif r < 0.5:
        end = ["none"]
    elif r < 0.75:
        end = ["int", rng.choice([2, 2, 4, 6, 0])]
    elif r < 0.9:
        end = ["float", rng.choice([2, 4])]
    else:
        end = ["str"]
    # a poll function may consume the list it is handed (pop / clear / reorder it): the list is its own
    mut = rng.choice(["none", "none", "none", "none", "none", "clear", "pop", "reverse"])
    return {"acts": acts, "end": end, "mut": mut}


def gen(rng, faults=True):
    nsub = rng.choice([1, 2, 2, 3, 3, 4, 5])
    nclients = rng.randint(1, 3)
    subs, ops = [], []
    for i in range(nsub):
        at = 2 * rng.randint(0, 3)
        r = rng.random()
        out = ["err", 3000 + i] if r < 0.2 else ["ok", 100 + i]
        sync = rng.random() < 0.15
        env = None
        if not sync and rng.random() < 0.9:
            env = {"at": at + 2 * rng.choice([0, 0, 1, 1, 2, 3]), "run_first": rng.random() < 0.5, "gap": rng.choice([0, 0, 2]),
                   # the delegate future is cancelled by SOMEONE ELSE (a timeout layer below, a shutdown sweep ...) instead of
                   # finishing: the poll future then stays pending for ever (known finding G1; Model/Poll.v EEnvCancel)
                   "cancel": ENV_CANCEL and rng.random() < 0.1}
        subs.append({"out": out, "sync": sync, "env": env})
        ops.append({"op": "submit", "i": i, "at": at, "client": rng.randrange(nclients)})
        base = env["at"] + env["gap"] if env else at
        for _ in range(rng.choice([0, 0, 1, 1, 2])):
            cat = max(at, base + 2 * rng.choice([-1, 0, 0, 0, 1, 1, 2, 3])) if rng.random() < 0.8 else at + 2 * rng.randint(0, 5)
            ops.append({"op": "cancel", "i": i, "at": cat, "client": rng.randrange(nclients)})
    for _ in range(rng.choice([0, 0, 1, 2])):
        ops.append({"op": "notify", "at": 2 * rng.randint(0, 8), "client": rng.randrange(nclients)})
    ops.sort(key=lambda o: (o["at"], 0 if o["op"] == "submit" else 1))
    npoll = rng.randint(3, 8)
    p = {"cfn": rng.random() < 0.7, "dflt": rng.choice([2, 4, 6]), "subs": subs, "ops": ops, "nclients": nclients,
         "env_threads": rng.randint(1, 2),
         "poll": [gen_poll_script(rng, k, faults) for k in range(npoll)],
         "cfn_script": [rng.choice([1, 1, 1, 0, 2]) for _ in range(8)],
         "horizon": 2 * rng.randint(8, 12) + 1}
    return p


def execute(p, chooser):
    from more_executors._impl.poll import PollExecutor
    obs = {"params": p, "futs": {}, "jof": {}, "outs": {}, "cancel_rets": [], "excs": {}, "npolls": 0}

    def exc(e):
        if e not in obs["excs"]:
            obs["excs"][e] = (FXE if e % 3 == 0 else XE)("e%d" % e)
        return obs["excs"][e]

    def main():
        m = PManual()
        m.inline_hook = lambda idx: det.emit("inline.outcome", None, obs["last_fn"])
        cnt = {"poll": 0, "cfn": 0}

        def poll_fn(ds):
            k = cnt["poll"]
            cnt["poll"] += 1
            det.user("poll", tuple(d.result for d in ds))
            obs["npolls"] += 1
            sc = p["poll"][k] if k < len(p["poll"]) else {"acts": [], "end": ["none"]}
            for slot, d in enumerate(ds):
                a = sc["acts"][slot] if slot < len(sc["acts"]) else ["skip"]
                for q in range(0, len(a) - 1, 2):
                    kind, v = a[q], a[q + 1]
                    det.user("yield", (d.result, 0 if kind == "res" else 1, v))
                    if kind == "res":
                        d.yield_result(v)
                    else:
                        d.yield_exception(exc(v))
                    det.emit("yielded", None, d.result)
            mut = sc.get("mut", "none")
            if mut == "clear":
                del ds[:]
            elif mut == "pop" and ds:
                ds.pop()
            elif mut == "reverse":
                ds.reverse()
            e = sc["end"]
            if e[0] == "raise":
                det.user("pollraise", e[1])
                raise exc(e[1])
            if e[0] == "int":
                det.user("pollret", (1, e[1]))
                return int(e[1])
            if e[0] == "float":
                det.user("pollret", (1, e[1]))
                return float(e[1])
            det.user("pollret", (0, 0))
            return None if e[0] == "none" else "soon"

        def cancel_fn(x):
            k = cnt["cfn"]
            cnt["cfn"] += 1
            a = p["cfn_script"][k % len(p["cfn_script"])]
            det.user("cancelfn", (x, a))
            if a == 2:
                raise exc(4000 + k)
            return [False, True][a] if k % 2 else [None, "yes"][a]

        with det.atomic():        # the poll thread must not run before the locks/events are named
            ex = PollExecutor(m, poll_fn, cancel_fn if p["cfn"] else None, default_interval=p["dflt"])
        det.S.name(ex._lock, "X")
        det.S.name(ex._shutdown._lock, "G")
        det.S.name(ex._poll_event, "E")
        det.emit("config", None, (p["cfn"], p["dflt"]))
        obs["ex"] = ex
        futs = {}

        def mkfn(i):
            def fn():
                kind, v = p["subs"][i]["out"]
                obs["last_fn"] = (1 if kind == "err" else 0, v)
                if kind == "err":
                    raise exc(v)
                return v
            fn.sync = p["subs"][i]["sync"]
            return fn

        def do_submit(i):
            det.emit("call", "submit", i)
            f = ex.submit(mkfn(i))
            with det.atomic():
                futs[i] = f
                obs["futs"][f._verif_id] = (i, f)
                obs["jof"][i] = f._verif_id
            det.emit("ret", "submit", 0)
            # user done-callbacks on the poll future (C02's family only; Model/Poll.v has none)
            for c in range(p.get("cbs", {}).get(str(i), 0)):
                def cb(fut, c=c, j=f._verif_id):
                    obs.setdefault("cb_calls", {}).setdefault(j, []).append((c, fut._state, fut._result, fut._exception, det.me().name))
                f.add_done_callback(cb)

        def do_cancel(i):
            det.wait_until(lambda: i in futs)
            f = futs[i]
            j = f._verif_id
            det.emit("call", "cancel", j)
            r = f.cancel()
            det.emit("ret", "cancel", 2 if r else 1)
            obs["cancel_rets"].append((j, bool(r), len(det.S.log)))

        def client(k):
            def run():
                for o in p["ops"]:
                    if o["client"] != k:
                        continue
                    if o["at"] > det.now():
                        det.sleep(o["at"] - det.now())
                    if o["op"] == "submit":
                        do_submit(o["i"])
                    elif o["op"] == "cancel":
                        do_cancel(o["i"])
                    else:
                        det.emit("call", "notify", 0)
                        ex.notify()
                        det.emit("ret", "notify", 0)
            return run

        envops = [(s["env"]["at"], i) for i, s in enumerate(p["subs"]) if s["env"] is not None]
        envops.sort()

        def env(k):
            def run():
                for n_, (at, i) in enumerate(envops):
                    if n_ % p["env_threads"] != k:
                        continue
                    if at > det.now():
                        det.sleep(at - det.now())
                    det.wait_until(lambda: i in futs)
                    d = obs["jof"][i]
                    e = p["subs"][i]["env"]
                    if e.get("cancel"):
                        m.fs[d][0].cancel()
                        det.emit("ret", "env", 0)
                        continue
                    if e["run_first"]:
                        if not m.start(d):
                            continue
                        if e["gap"]:
                            det.sleep(e["gap"])
                    kind, v = p["subs"][i]["out"]
                    det.emit("env.outcome", None, (1 if kind == "err" else 0, v))
                    try:
                        m.finish(d)
                    except InvalidStateError:
                        continue
                    det.emit("ret", "env", 0)
            return run

        ts = [det.spawn("c%d" % k, client(k)) for k in range(p["nclients"])]
        es = [det.spawn("e%d" % k, env(k)) for k in range(p["env_threads"])]
        for t in ts + es:
            t.join()
        if p["horizon"] > det.now():
            det.sleep(p["horizon"] - det.now())
        det.emit("endscen")
        with det.atomic():
            for j, (i, f) in obs["futs"].items():
                if f._state in DONE:
                    if f._state != "FINISHED":
                        obs["outs"][j] = ("cancelled",)
                    elif f._exception is not None:
                        obs["outs"][j] = ("err", f._exception)
                    else:
                        obs["outs"][j] = ("ok", f._result)
                else:
                    obs["outs"][j] = ("pending",)
            obs["descs_left"] = [d.result for (_, d) in ex._poll_descriptors]
            obs["poller_alive"] = ex._poll_thread.is_alive()
        ex.shutdown(wait=False)

    r = det.run(chooser, main)
    return r, obs


def submap(log):
    """submission index i -> future/delegate id j (from the delegate.submit inside the submit() call)"""
    cur, m = {}, {}
    for (th, op, obj, val, ts) in log:
        if op == "call" and obj == "submit":
            cur[th] = val
        elif op == "deleg.submit" and th in cur:
            m[cur[th]] = val[0]
    return m


FOPS_P = {"F.cancelled": 0, "F.done": 1, "F.cancel": 2, "F.set_running_or_notify_cancel": 3, "F.set_result": 4, "F.set_exception": 6}
FOPS_D = {"F.cancelled": 0, "F.cancel": 2, "F.add_done_callback": 5}
DROP = {"thread.exit", "F.exception", "F.result", "clock", "yielded"}


def encode(log, params=None):
    """impl log -> wire events for Poll.accept.  Fail-closed: anything unexpected is reported."""
    tids = lib.Tids({POLLER: 0})
    ev, bad = [], []
    jm = submap(log)
    envout = {}
    pending_inline = []
    envcancel_quiet = {}
    n = len(log)
    i = 0
    cfg = None
    while i < n:
        th, op, obj, val, ts = log[i]
        i += 1
        if op == "endscen":
            break
        if op == "config":
            ev.append([int(ts), 0, 1 if val[0] else 0, int(val[1])])
            continue
        if th == "main" or op in DROP:
            continue
        t = tids(th)
        ts = int(ts)
        if op == "call":
            if obj == "submit":
                ev.append([ts, 1, t])
            elif obj == "cancel":
                ev.append([ts, 2, t, val])
            elif obj == "notify":
                ev.append([ts, 3, t])
            continue
        if op == "ret":
            if obj == "env" and envcancel_quiet.pop(th, False):
                continue          # a cancel() that found the delegate already done / cancelled runs no callback: nothing returns in the model
            ev.append([ts, 11, t, val])
            continue
        if op in ("acq", "rel") and obj == "G":
            ev.append([ts, 4 if op == "acq" else 5, t])
            continue
        if op == "deleg.submit":
            ev.append([ts, 6, t, val[0], val[1], 0, 0])
            if val[1]:
                pending_inline.append(len(ev) - 1)
            continue
        if op == "inline.outcome":
            kk = pending_inline.pop()
            ev[kk][5], ev[kk][6] = val
            continue
        if op == "acq" and obj == "X":
            if i < n and log[i][0] == th and log[i][1] == "rel" and log[i][2] == "X":
                ev.append([ts, 7, t])
                i += 1
            else:
                ev.append([ts, 8, t])
            continue
        if op == "rel" and obj == "X":
            ev.append([ts, 9, t])
            continue
        if op == "ev.set" and obj == "E":
            ev.append([ts, 10, t])
            continue
        if op in ("acq", "rel") and str(obj).startswith("M"):
            ev.append([ts, 12 if op == "acq" else 13, t, int(obj[1:])])
            continue
        if op in FOPS_P and str(obj).startswith("r"):
            ev.append([ts, 14, t, FOPS_P[op], int(obj[1:]), val])
            continue
        if th.startswith("e") and str(obj).startswith("d"):
            if op == "F.cancel":
                ev.append([ts, 26, t, int(obj[1:]), val])
                envcancel_quiet[th] = (val != 0)
                continue
            if op == "F.set_running_or_notify_cancel":
                ev.append([ts, 24, t, int(obj[1:]), val])
                continue
            if op in ("F.set_result", "F.set_exception"):
                o = envout.get(th, (0, 0))
                ev.append([ts, 25, t, int(obj[1:]), val, o[0], o[1]])
                continue
        if op == "env.outcome":
            envout[th] = val
            continue
        if op in FOPS_D and str(obj).startswith("d"):
            ev.append([ts, 15, t, FOPS_D[op], int(obj[1:]), val])
            continue
        if op == "user:poll":
            ev.append([ts, 16, t] + list(val))
            continue
        if op == "user:yield":
            ev.append([ts, 17, t, jm.get(val[0] - 100, 999), val[1], val[2]])
            continue
        if op == "user:pollret":
            ev.append([ts, 18, t, val[0], int(val[1])])
            continue
        if op == "user:pollraise":
            ev.append([ts, 19, t, val])
            continue
        if op == "user:cancelfn":
            ev.append([ts, 20, t, val[0], val[1]])
            continue
        if op == "ev.wait" and obj == "E":
            ev.append([ts, 21, 0 if val == "set" else 1])
            continue
        if op == "ev.woke" and obj == "E":
            ev.append([ts, 22, 0 if val == "notified" else 1])
            continue
        if op == "ev.clear" and obj == "E":
            ev.append([ts, 23])
            continue
        bad.append((th, op, obj, val))
    return ev, bad
