"""C06 (f_zip and friends): cancelling the output forwards the request to every pending input; scenario family and lockstep of C15 on Model/Comb.v.
Only the verdicts of that family's monitor that belong to this property count here; every history is still
replayed on the component machine."""
import p_c15 as base

PROP = "C06"
MACHINE = base.MACHINE
N_QUICK = 1000
N_THOROUGH = 40000
KEEP = ("zip:input-not-cancelled", "comb:deadlock", "comb:thread-died", "comb:harness-exc", "comb:ctor-raised")
if hasattr(base, "setup"):
    setup = base.setup
if hasattr(base, "expected_verdict"):
    expected_verdict = base.expected_verdict
if hasattr(base, "extra"):
    pass

gen = base.gen
execute = base.execute
encode = base.encode


def monitor(r, obs):
    return [v for v in base.monitor(r, obs) if v["pattern"] in KEEP]


nontrivial = base.nontrivial
describe = base.describe
