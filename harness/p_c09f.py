"""C09 (f_timeout part): the shared, weakly referenced executor
Executors.sync().with_flat_map(lambda x: x).with_timeout(None) + submit_timeout(timeout, lambda: future).
Monitor-only scenario kind (the Coq model covers TimeoutExecutor over an environment delegate; the
f_timeout stack adds SyncExecutor/FlatMapFuture below the same job thread and the same MapFuture)."""
import timeout_common as tc
from timeout_monitor import monitor, nontrivial

PROP = "C09"
MACHINE = None
N_QUICK = 1500
N_THOROUGH = 40000
setup = tc.setup


def gen(rng):
    return tc.gen(rng, kind="ftimeout")


execute = tc.execute
encode = tc.encode
describe = tc.describe
