"""C02 (library futures built on library futures): random expression trees over f_map / f_flat_map / f_proxy /
f_nocancel / f_timeout / f_zip / f_or / f_and, leaves completed by environment threads with values or exceptions
in any order.  Every node whose inputs are done must be done (waiters released) and carry one of the outcomes the
sequential meaning of the tree allows.  Monitor only (each component has its own machine; this family checks that
the protocol survives composition, e.g. a proxy future used as the input of a combinator)."""
import itertools, zlib
import detsched as det
from concurrent.futures import Future

det.TIMER_EPS = 0.001

PROP = "C02"
MACHINE = None
N_QUICK = 1200
N_THOROUGH = 40000
UNARY = ["map", "flat_map", "proxy", "nocancel", "timeout"]
BINARY = ["zip", "or", "and"]
VALUES = [0, 1, 2, 7, "", "x", None, (1,), []]


class XE(Exception):
    pass


def gen_tree(rng, depth, leaves):
    if depth == 0 or (depth < 3 and rng.random() < 0.25) or len(leaves) >= 4:
        # (no leaf is used twice: f_or / f_and cancel their losing inputs, and a future cancelled behind the back of a
        # second consumer is C03's known finding G1, not this property's business)
        leaves.append(len(leaves))
        return ["leaf", leaves[-1]]
    if rng.random() < 0.6:
        return [rng.choice(UNARY), gen_tree(rng, depth - 1, leaves)]
    return [rng.choice(BINARY), gen_tree(rng, depth - 1, leaves), gen_tree(rng, depth - 1, leaves)]


def gen(rng):
    leaves = []
    tree = gen_tree(rng, 3, leaves)
    outs = [["err", 100 + i] if rng.random() < 0.35 else ["ok", rng.randrange(len(VALUES))] for i in leaves]
    order = list(leaves)
    rng.shuffle(order)
    return {"tree": tree, "outs": outs, "order": order, "pre": [rng.random() < 0.25 for _ in leaves], "env_threads": rng.randint(1, 2),
            "waiter": rng.choice(["result", "exception", "wait", None])}


def execute(p, chooser):
    from more_executors.futures import f_map, f_flat_map, f_proxy, f_nocancel, f_timeout, f_zip, f_or, f_and, f_return
    import concurrent.futures as cf
    obs = {"params": p, "root": None, "wait": None, "excs": {}}

    def main():
        det.emit("case", None, repr(p))
        n = len(p["outs"])
        with det.atomic():
            leaf = [Future() for _ in range(n)]
        for i, (kind, v) in enumerate(p["outs"]):
            if kind == "err":
                obs["excs"][i] = XE("leaf%d" % i)

        def complete(i):
            kind, v = p["outs"][i]
            try:
                if kind == "err":
                    leaf[i].set_exception(obs["excs"][i])
                else:
                    leaf[i].set_result(VALUES[v])
            except Exception:
                pass        # the leaf was cancelled as the loser of an f_or / f_and: the environment lost that race

        with det.atomic():
            for i in range(n):
                if p["pre"][i]:
                    complete(i)

        def build(t):
            k = t[0]
            if k == "leaf":
                return leaf[t[1]]
            a = build(t[1])
            if k == "map":
                return f_map(a, lambda x: x)
            if k == "flat_map":
                return f_flat_map(a, lambda x: f_return(x))
            if k == "proxy":
                return f_proxy(a)
            if k == "nocancel":
                return f_nocancel(a)
            if k == "timeout":
                return f_timeout(a, 10 ** 6)
            b = build(t[2])
            return {"zip": f_zip, "or": f_or, "and": f_and}[k](a, b)
        root = build(p["tree"])
        obs["root_obj"] = root
        todo = [i for i in p["order"] if not p["pre"][i]]

        def env():
            while todo:
                det.switch("env")
                if not todo:
                    break
                complete(todo.pop(0))

        def waiter():
            t0 = det.now()
            try:
                if p["waiter"] == "result":
                    r = ("value", root.result(50))
                elif p["waiter"] == "exception":
                    r = ("exc", root.exception(50))
                else:
                    d, nd = cf.wait([root], timeout=50)
                    r = ("wait", root in d)
            except BaseException as e:
                if isinstance(e, det.Abort):
                    raise
                r = ("raised", type(e).__name__, e)
            obs["wait"] = (r, det.now() - t0)
        ts = [det.spawn("e%d" % k, env) for k in range(p["env_threads"])]
        if p["waiter"]:
            ts.append(det.spawn("w", waiter))
        for t in ts:
            t.join()
        with det.atomic():
            st = root._state
            obs["root"] = (st, root._exception if st == "FINISHED" else None, root._result if st == "FINISHED" else None)

    r = det.run(chooser, main)
    return r, obs


def encode(log):
    for (th, op, obj, val, ts) in log:
        if op == "case":
            return [[zlib.crc32(val.encode()) & 0xffffff, len(log) % 997]], []
    return [[len(log)]], []


def canon(v):
    return tuple(canon(x) for x in v) if isinstance(v, tuple) else v


def allowed(t, outs, excs):
    """set of outcomes ('ok', value-repr) / ('err', leaf index) the tree may resolve with"""
    k = t[0]
    if k == "leaf":
        kind, v = outs[t[1]]
        return {("err", t[1])} if kind == "err" else {("ok", repr(VALUES[v]))}
    a = allowed(t[1], outs, excs)
    if k in UNARY:
        return a
    b = allowed(t[2], outs, excs)
    res = set()
    for x, y in itertools.product(a, b):
        if k == "zip":
            if x[0] == "ok" and y[0] == "ok":
                res.add(("ok", "(%s, %s)" % (x[1], y[1])))
            res |= {z for z in (x, y) if z[0] == "err"}
        else:
            def truthy(z):
                return z[0] == "ok" and bool(eval(z[1]))
            if k == "or":
                t_ = {z for z in (x, y) if truthy(z)}
                res |= t_ if t_ else {x, y}
            else:
                f_ = {z for z in (x, y) if not truthy(z)}
                res |= f_ if f_ else {x, y}
    return res


def monitor(r, obs):
    p = obs["params"]
    if r.deadlock or r.hang:
        return [{"what": "deadlock %s" % (r.deadlock,), "detail": str(p), "pattern": "compose:deadlock"}]
    if r.exc is not None:
        return [{"what": "harness-exception", "detail": getattr(r, "tb", repr(r.exc))[-600:], "pattern": "compose:harness-exc"}]
    out = []
    for (nm, dn, e) in r.threads:
        if e is not None:
            out.append({"what": "thread %s died with %s" % (nm, e), "detail": nm, "pattern": "compose:thread-died"})
    st, exc, res = obs["root"]
    if st != "FINISHED":
        out.append({"what": "every leaf is done but the root is %s" % st, "detail": str(p), "pattern": "compose:pending"})
        return out
    ok = allowed(p["tree"], p["outs"], obs["excs"])
    if exc is not None:
        got = [("err", i) for i, e in obs["excs"].items() if e is exc]
        got = got[0] if got else ("err", repr(exc))
    else:
        got = ("ok", repr(canon(res)))
    if got not in ok:
        out.append({"what": "root resolved with %r, the tree allows %s" % (got, sorted(ok, key=str)), "detail": str(p), "pattern": "compose:wrong-outcome"})
    w = obs.get("wait")
    if w is not None:
        rr, dt = w
        if dt > 0.01:
            out.append({"what": "a %s() caller was released only after %s (its timeout), the root was done" % (p["waiter"], dt), "detail": str(p),
                        "pattern": "compose:waiter-not-released"})
    return out


def nontrivial(r, obs, events):
    return obs["params"]["tree"][0] != "leaf" and r.preempts > 0


def describe(p):
    def kinds(t):
        return [] if t[0] == "leaf" else [t[0]] + [k for c in t[1:] for k in kinds(c)]
    return ["leaves=%d" % len(p["outs"])] + sorted(set("has_" + k for k in kinds(p["tree"])))


def extra(stats, tier, seed):
    """API-level: a RE-ENTRANT cancel.  A done-callback of the input cancels the output while the output's own cancel() is
    cancelling that input: cancel() must still return a bool and not raise."""
    import drive
    from more_executors.futures import f_map, f_flat_map, f_proxy, f_nocancel, f_timeout, f_return
    known_patterns = set(k["pattern"] for k in drive.load_known(PROP))

    def viol(what, pattern, detail=None):
        v = {"what": what, "pattern": pattern, "detail": detail, "case": {"params": {}, "chooser": "none", "cseed": 0, "origin": "api"}}
        if pattern in known_patterns:
            stats.known.setdefault(pattern, v)
        else:
            stats.violations.append(v)
    makers = [("f_map", lambda u: f_map(u, lambda x: x)), ("f_flat_map", lambda u: f_flat_map(u, lambda x: f_return(x))),
              ("f_proxy", lambda u: f_proxy(u))]
    with det.atomic():
        for nm, mk in makers:
            u = Future()
            box = {}
            u.add_done_callback(lambda f, box=box: box["p"].cancel())
            p = mk(u)
            box["p"] = p
            stats.add([[2, 21, len(nm)]], True, None, ["api:reentrant-cancel"])
            try:
                r = p.cancel()
            except BaseException as e:
                viol("%s(u).cancel() with a callback on u that cancels the output again raised %s: %s" % (nm, type(e).__name__, e),
                     "proto:reentrant-cancel-raises", nm)
                continue
            if r is not True or not p.cancelled():
                viol("%s(u).cancel() (re-entrant) returned %r, output %s" % (nm, r, p._state), "proto:reentrant-cancel", nm)
